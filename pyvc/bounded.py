"""Runner for property-level bounded stand-ins (bounded/<name>.py exposing run(tier, seed) ->
dict(name, module, cases, distinct, bound, failures=[dict(inputs, observed, violated)], error))."""
import importlib
import traceback


def run(modname, tier, seed):
  try:
    m = importlib.import_module(modname)
    r = m.run(tier, seed)
    r.setdefault('module', modname)
    r.setdefault('label', 'bounded: never counted as proved')
    return r
  except Exception:
    return dict(name=modname, module=modname, cases=0, failures=[], error=traceback.format_exc()[-1500:])
