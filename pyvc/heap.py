"""Heap objects: references with per-field maps, frame conditions, monitors (mixin for Exec)."""
from __future__ import annotations
import ast
import z3
from .sorts import *  # noqa
from .values import *  # noqa
from .ops import zbool
from .symexec import Exec, Env, MUTATORS
from . import contracts as C


_ALL_OBJSORTS: list = []


class ObjSort(Sort):
  """Instances of a python class with identity; fields live in the heap."""
  _cache: dict = {}

  def __init__(self, name, fields, pytypes=None, nullable=False, protected=(), monitor_inv=()):
    self.name = name
    self.fields = dict(fields)          # field name -> Sort
    self.pytypes = tuple(pytypes or (name,))
    self.nullable = nullable
    self.protected = tuple(protected)   # fields guarded by the object's monitor
    self.monitor_inv = tuple(monitor_inv)
    self._lits = {}
    _ALL_OBJSORTS.append(self)

  def z3(self):
    if self.name not in ObjSort._cache:
      ObjSort._cache[self.name] = z3.DeclareSort('Ref!' + self.name)
    return ObjSort._cache[self.name]

  def literal(self, py):
    if py not in self._lits:
      self._lits[py] = z3.Const(f'Ref!{self.name}!null', self.z3())
    return self._lits[py]

  def enumerate(self, bound):
    raise OutsideSubset(f'no enumerator for objects of {self.name}')


class StoreMap(dict):
  """Exec.store: Box ident -> SV; idents ('field', cls, field, ref) live in the heap."""
  def __init__(self, ex, *a):
    super().__init__(*a)
    self.ex = ex

  def __getitem__(self, k):
    if isinstance(k, tuple) and k[0] == 'item':
      # element of a container that itself lives in a box: ('item', parent ident, index/key term, default)
      _, pid, key, dflt = k
      parent = self[pid]
      ps = parent.sort
      if isinstance(ps, SeqOf):
        return SV(ps.elem, ps.get(parent.t, key))
      if dflt is not None:
        return SV(ps.val, z3.If(ps.has(parent.t, key), ps.get(parent.t, key), dflt))
      return SV(ps.val, ps.get(parent.t, key))
    if isinstance(k, tuple) and k[0] == 'field':
      _, osort, f, ref = k
      return SV(osort.fields[f], z3.Select(self.ex.heap_arr(osort, f), ref))
    return super().__getitem__(k)

  def __setitem__(self, k, v):
    if isinstance(k, tuple) and k[0] == 'item':
      _, pid, key, dflt = k
      parent = self[pid]
      ps = parent.sort
      if isinstance(ps, SeqOf):
        nv = ps.z3().mk(ps.len(parent.t), z3.Store(ps.z3().arr(parent.t), key, self.ex.coerce(v, ps.elem).t))
        self[pid] = SV(ps, nv)
      else:
        self[pid] = self.ex.map_set(parent, SV(ps.key, key), v)
      return
    if isinstance(k, tuple) and k[0] == 'field':
      _, osort, f, ref = k
      self.ex.heap[(osort.name, f)] = z3.Store(self.ex.heap_arr(osort, f), ref, self.ex.coerce(v, osort.fields[f]).t)
      self.ex.heap_written.add((osort.name, f))
      return
    super().__setitem__(k, v)

  def copy(self):
    return StoreMap(self.ex, self)


def heap_arr(self, osort, f):
  key = (osort.name, f)
  if key not in self.heap:
    arr = z3.Const(f'H!{osort.name}.{f}!0', z3.ArraySort(osort.z3(), osort.fields[f].z3()))
    self.heap[key] = arr
    self.heap0.setdefault(key, arr)
    if self.old_heap is not None:
      self.old_heap.setdefault(key, arr)
    if getattr(self, 'acq_heap', None) is not None:
      self.acq_heap.setdefault(key, arr)
    self.heap_sorts[key] = osort
    # well-formedness of every stored value (e.g. list lengths >= 0)
    r = z3.Const(fresh_name('r'), osort.z3())
    facts = osort.fields[f].wf(z3.Select(arr, r))
    if facts:
      self.axioms.append(qforall([r], z3.And(*facts), patterns=[z3.Select(arr, r)]))
  return self.heap[key]


def obj_getattr(self, b, attr):
  osort = b.sort
  if attr in osort.fields:
    fs = osort.fields[attr]
    if isinstance(fs, MonitorSort):
      return MonitorHandle(b)
    if fs.mutable and not self.spec_mode:
      return Box(('field', osort, attr, b.t))
    return SV(fs, z3.Select(self.heap_arr(osort, attr), b.t))
  hooks = getattr(osort, 'attr_hooks', None)
  if hooks and attr in hooks:
    return hooks[attr](self, b)
  for cls in osort.pytypes:
    key = f'{cls}.{attr}'
    if key in self.spec.bindings:
      self.used_externals.add(key)
      tgt = self.spec.bindings[key]
      return Handler(key, lambda ex, a, kw, tgt=tgt, b=b: ex.call_value(tgt, [b] + list(a), kw))
  if not self.spec_mode:
    self.oblige(False, 'safety:attr', f'{osort.name}.{attr}')
    from .symexec import PathEnd
    raise PathEnd()
  raise OutsideSubset(f'{osort.name} has no field {attr}')


def obj_setattr(self, b, attr, v):
  osort = b.sort
  if attr not in osort.fields:
    raise OutsideSubset(f'assignment to undeclared field {osort.name}.{attr}')
  fs = osort.fields[attr]
  self.heap[(osort.name, attr)] = z3.Store(self.heap_arr(osort, attr), b.t, self.coerce(self.escape(v), fs).t)
  self.heap_written.add((osort.name, attr))


def loc_of(self, text, env):
  """'self._buffer' -> (ObjSort, field, ref term)"""
  node = ast.parse(text.strip(), mode='eval').body
  if not isinstance(node, ast.Attribute):
    raise OutsideSubset(f'modifies clause {text!r} is not an attribute location')
  saved = self.spec_mode
  self.spec_mode = True
  try:
    base = self.deref(self.eval(node.value, env))
  finally:
    self.spec_mode = saved
  if not (isinstance(base, SV) and isinstance(base.sort, ObjSort)):
    raise OutsideSubset(f'modifies clause {text!r}: base is not an object')
  return base.sort, node.attr, base.t


def havoc_modifies(self, sp, env):
  for fld, pred in (getattr(sp, 'frame_except', None) or {}).items():
    # the callee may write every cell of this field selected by `pred(r)`; all others keep their value
    cls, f = fld.split('.')
    osort = next(o for k, o in list(self.heap_sorts.items()) + [((x.name, None), x) for x in _ALL_OBJSORTS] if o.name == cls)
    before = self.heap_arr(osort, f)
    after = z3.Const(fresh_name(f'H!{cls}.{f}'), before.sort())
    r = z3.Const(fresh_name('r'), osort.z3())
    e = Env(env)
    e.set('r', SV(osort, r))
    sel = self.eval_spec(pred, e)
    self.heap[(cls, f)] = after
    self.heap_written.add((cls, f))
    self.assume(z3.ForAll([r], z3.Implies(z3.Not(sel), z3.Select(after, r) == z3.Select(before, r))))
  for m in sp.modifies:
    osort, f, ref = self.loc_of(m, env)
    nv = osort.fields[f].const(f)
    for fact in osort.fields[f].wf(nv):
      self.assume(fact)
    self.heap[(osort.name, f)] = z3.Store(self.heap_arr(osort, f), ref, nv)
    self.heap_written.add((osort.name, f))


def havoc_heap(self, body):
  """Loop cut: every heap field the body may write is havocked (by field name)."""
  names = set()
  for st in body:
    for n in ast.walk(st):
      if isinstance(n, ast.Attribute) and isinstance(n.ctx, (ast.Store, ast.Del)):
        names.add(n.attr)
      elif isinstance(n, ast.Call) and isinstance(n.func, ast.Attribute) and n.func.attr in MUTATORS and isinstance(n.func.value, ast.Attribute):
        names.add(n.func.value.attr)
      elif isinstance(n, ast.Subscript) and isinstance(n.ctx, (ast.Store, ast.Del)) and isinstance(n.value, ast.Attribute):
        names.add(n.value.attr)
      elif isinstance(n, ast.Call):
        tgt = None
        if isinstance(n.func, ast.Name):
          tgt = self.spec.bindings.get(n.func.id)
        elif isinstance(n.func, ast.Attribute):
          for k, v in self.spec.bindings.items():
            if k.endswith('.' + n.func.attr) and isinstance(v, C.FnSpec):
              tgt = v
        if isinstance(tgt, C.FnSpec):
          for m in tgt.modifies:
            names.add(m.split('.')[-1])
      elif isinstance(n, ast.With):
        # monitor (re)acquisition inside the loop havocs the protected fields anyway
        pass
  extra = (getattr(self.spec, 'loop_heap', None) or {}).get(getattr(self, '_cur_loop', None), ())
  names |= set(extra)   # fields written by summaries called in the body (constructors, recorded effects): declared in the sidecar
  keys = []
  for (cls, f), arr in list(self.heap.items()):
    if f in names:
      osort = self.heap_sorts[(cls, f)]
      self.heap[(cls, f)] = z3.Const(fresh_name(f'H!{cls}.{f}'), arr.sort())
      self.heap_written.add((cls, f))
      keys.append((cls, f))
  self._loop_havoc_fields = names
  return keys


def frame_formulas(self, keys=None):
  """For each written heap field: cells outside the declared modifies / frame_except set equal
  their entry value."""
  declared = {}
  saved_heap = self.heap
  self.heap = self.old_heap
  try:
    for m in self.spec.modifies:
      osort, f, ref = self.loc_of(m, Env(self.old_env))
      declared.setdefault((osort.name, f), []).append(ref)
  finally:
    self.heap = saved_heap
  out = []
  for key in sorted(self.heap_written if keys is None else keys):
    if key not in self.heap or key[1] == '$alloc':
      continue   # (the allocation set only grows; that is stated by invariants where needed)
    now, before = self.heap[key], self.old_heap.get(key, self.heap0.get(key))
    if z3.eq(now, before):
      continue
    osort = self.heap_sorts[key]
    r = z3.Const(fresh_name('r'), osort.z3())
    excl = [r != x for x in declared.get(key, [])]
    custom = (getattr(self.spec, 'frame_except', None) or {}).get(f'{key[0]}.{key[1]}')
    if custom:
      # cells described by a predicate over the reference `r` (evaluated in the entry state)
      e = Env(self.old_env)
      e.set('r', SV(osort, r))
      saved_heap2 = self.heap
      self.heap = self.old_heap
      try:
        excl.append(z3.Not(self.eval_spec(custom, e)))
      finally:
        self.heap = saved_heap2
    fs = osort.fields[key[1]]
    same = self.sort_eq(fs, z3.Select(now, r), z3.Select(before, r))
    out.append((key, z3.ForAll([r], z3.Implies(z3.And(*excl), same) if excl else same)))
  return out


def post_frame(self, env):
  """Frame obligation: heap cells outside the declared modifies set are unchanged."""
  for key, f in self.frame_formulas():
    self.oblige(f, f'frame[{key[0]}.{key[1]}]')


def init_heap(self, env, old_env):
  pass


# ---- monitors -----------------------------------------------------------------------------------
def monitor_enter(self, owner):
  """Acquire the owner's monitor: other threads may have changed the protected fields; the
  monitor invariant holds."""
  osort = owner.sort
  for f in osort.protected:
    nv = osort.fields[f].const(f + '@acq')
    for fact in osort.fields[f].wf(nv):
      self.assume(fact)
    self.heap[(osort.name, f)] = z3.Store(self.heap_arr(osort, f), owner.t, nv)
  self.acq_heap = dict(self.heap)
  e = Env(None)
  e.set('self', owner)
  for cl in osort.monitor_inv:
    self.assume(self.eval_spec(cl, e))


def monitor_exit(self, owner, why='exit'):
  e = Env(None)
  e.set('self', owner)
  for i, cl in enumerate(owner.sort.monitor_inv):
    self.oblige(self.eval_spec(cl, e), f'monitor-inv[{i}]@{why}')


Exec.heap_arr = heap_arr
Exec.obj_getattr = obj_getattr
Exec.obj_setattr = obj_setattr
Exec.loc_of = loc_of
Exec.havoc_modifies = havoc_modifies
Exec.havoc_heap = havoc_heap
Exec.post_frame = post_frame


def post_raise_frame(self, env):
  """an exceptional exit declared in `raises` must leave the heap unchanged (unless the contract sets raise_frame=False)"""
  if getattr(self.spec, 'raise_frame', True) is False:
    return
  saved_m, saved_f = self.spec.modifies, getattr(self.spec, 'frame_except', None)
  self.spec.modifies, self.spec.frame_except = (), None
  try:
    for key, f in self.frame_formulas():
      self.oblige(f, f'frame-on-raise[{key[0]}.{key[1]}]')
  finally:
    self.spec.modifies, self.spec.frame_except = saved_m, saved_f


Exec.post_raise_frame = post_raise_frame
Exec.frame_formulas = frame_formulas
Exec.init_heap = init_heap
Exec.monitor_enter = monitor_enter
Exec.monitor_exit = monitor_exit


class MonitorSort(Sort):
  """threading.Condition used as the monitor of its owner object."""
  name = 'Monitor'

  def z3(self):
    return z3.BoolSort()  # no content


class MonitorHandle:
  def __init__(self, owner):
    self.owner = owner


def monitor_method(self, h, name, args, kwargs):
  from .calls import call_value
  if name in ('notify_all', 'notify'):
    return NONEV
  if name == 'wait_for':
    # release: invariant must hold; others run; re-acquire: invariant and predicate hold
    self.monitor_exit(h.owner, 'wait')
    self.check_transitions(h.owner, 'wait')
    self.monitor_enter(h.owner)
    v = call_value(self, args[0], [], {})
    self.assume(self.truthy(v))
    return True
  if name in ('acquire', 'release', 'wait'):
    raise OutsideSubset(f'Condition.{name}: only `with cond:` and wait_for are modelled')
  raise OutsideSubset(f'Condition.{name}')


def check_transitions(self, owner, why):
  """Every critical section may change the protected state only as `monitor_trans` allows
  (clauses over the current locals, acq(...) = state at the last acquire)."""
  cls = getattr(self.spec, 'monitor_trans', None)
  if not cls:
    return
  env = self._cur_env
  for i, cl in enumerate(cls):
    self.oblige(self.eval_spec(cl, env), f'monitor-trans[{i}]@{why}')


Exec.check_transitions = check_transitions
Exec.monitor_method = monitor_method


# ---- allocation -------------------------------------------------------------------------------------
def alloc_arr(self, osort):
  key = (osort.name, '$alloc')
  if key not in self.heap:
    arr = z3.Const(f'H!{osort.name}.$alloc!0', z3.ArraySort(osort.z3(), z3.BoolSort()))
    self.heap[key] = arr
    self.heap0.setdefault(key, arr)
    if self.old_heap is not None:
      self.old_heap.setdefault(key, arr)
    self.heap_sorts[key] = osort
  return self.heap[key]


def refs_in(self, sort, t, cond=None, depth=2):
  """(condition, ObjSort, ref term, bound vars) for every object reference stored in a value."""
  cond = [] if cond is None else cond
  out = []
  if isinstance(sort, ObjSort):
    c = list(cond)
    if sort.nullable:
      c.append(t != sort.literal(None))
    out.append((c, sort, t, []))
  elif isinstance(sort, MapOf) and depth > 0:
    k = z3.Const(fresh_name('k'), sort.key.z3())
    for c, s, r, bv in refs_in(self, sort.val, sort.get(t, k), cond + [sort.has(t, k)], depth - 1):
      out.append((c, s, r, [k] + bv))
  elif isinstance(sort, SeqOf) and depth > 0:
    i = z3.Int(fresh_name('i'))
    for c, s, r, bv in refs_in(self, sort.elem, sort.get(t, i), cond + [i >= 0, i < sort.len(t)], depth - 1):
      out.append((c, s, r, [i] + bv))
  elif isinstance(sort, Union) and depth > 0:
    for cname, ctor in sort.ctors.items():
      for fn, fs in ctor.fields:
        if fs == 'SELF':
          continue
        for c, s, r, bv in refs_in(self, fs, sort.acc(cname, fn, t), cond + [sort.is_(cname, t)], depth - 1):
          out.append((c, s, r, bv))
  return out


def assume_allocated(self, sort, t):
  """everything reachable in one step from a live value is allocated"""
  for c, s, r, bv in refs_in(self, sort, t):
    f = z3.Implies(z3.And(*c), z3.Select(self.alloc_arr(s), r)) if c else z3.Select(self.alloc_arr(s), r)
    self.assume(z3.ForAll(bv, f) if bv else f)


def alloc(self, osort, hint='new'):
  """A fresh object: its reference differs from every allocated reference."""
  r = z3.Const(fresh_name(hint + '!' + osort.name), osort.z3())
  a = self.alloc_arr(osort)
  self.assume(z3.Not(z3.Select(a, r)))
  if osort.nullable:
    self.assume(r != osort.literal(None))
  self.heap[(osort.name, '$alloc')] = z3.Store(a, r, True)
  return SV(osort, r)


_orig_heap_arr = heap_arr


def heap_arr_closed(self, osort, f):
  """like heap_arr, and on first use states that the entry heap is closed under this field:
  allocated objects only point to allocated objects"""
  key = (osort.name, f)
  first = key not in self.heap
  arr = _orig_heap_arr(self, osort, f)
  if first and f != '$alloc':
    r = z3.Const(fresh_name('r'), osort.z3())
    for c, s, ref, bv in refs_in(self, osort.fields[f], z3.Select(arr, r)):
      a0 = self.heap0.get((s.name, '$alloc'))
      if a0 is None:
        self.alloc_arr(s)
        a0 = self.heap0[(s.name, '$alloc')]
      own0 = self.heap0.get((osort.name, '$alloc'))
      if own0 is None:
        self.alloc_arr(osort)
        own0 = self.heap0[(osort.name, '$alloc')]
      self.axioms.append(z3.ForAll([r] + bv, z3.Implies(z3.And(z3.Select(own0, r), *c), z3.Select(a0, ref))))
  return arr


Exec.alloc_arr = alloc_arr
Exec.alloc = alloc
Exec.assume_allocated = assume_allocated
Exec.heap_arr = heap_arr_closed
