"""Native (CPython) reading of the contracts: bounded search for failing inputs, replay.

The contract text that the VC generator proves is evaluated here by `eval` on concrete values:
real inputs are enumerated from the parameter sorts (bounded), the *real* function imported
from /repo is run, and requires/ensures/raises are checked on the outcome. Quantifiers range
over the finite universe of the sort's enumerator. Everything found here is a real failing
input; nothing here is ever counted as proved (labelled bounded).
"""
from __future__ import annotations
import ast
import copy
import importlib
import itertools
import json
import os
import sys
import traceback
from .sorts import *  # noqa
from . import contracts as C


class NativeHarness:
  """How to call the real function natively.
  get: () -> callable (imports from /repo); call: optional (fn, concrete_args: dict) -> result
  variants: optional concrete_args -> iterable of concrete_args (e.g. list/tuple/set variants)
  """
  def __init__(self, module, attr, call=None, variants=None, bound=None, setup=None, pre_filter=None, extra=()):
    self.module, self.attr, self.call, self.variants, self.bound, self.setup = module, attr, call, variants, bound, setup
    self.pre_filter = pre_filter
    self.extra = list(extra)  # additional hand-picked abstract inputs (dicts param -> abstract value)

  def get(self):
    m = importlib.import_module(self.module)
    o = m
    for p in self.attr.split('.'):
      o = getattr(o, p)
    return o


class _OldRewriter(ast.NodeTransformer):
  def __init__(self):
    self.inside = 0

  def visit_Call(self, node):
    if isinstance(node.func, ast.Name) and node.func.id == 'old' and len(node.args) == 1:
      self.inside += 1
      inner = self.visit(node.args[0])
      self.inside -= 1
      return inner
    if isinstance(node.func, ast.Name) and node.func.id == 'implies' and len(node.args) == 2:
      # short-circuit natively: the consequent may be undefined (IndexError, KeyError) when
      # the antecedent is false; in the SMT reading all spec operations are total
      a, b = self.visit(node.args[0]), self.visit(node.args[1])
      return ast.copy_location(ast.BoolOp(op=ast.Or(), values=[ast.UnaryOp(op=ast.Not(), operand=a), b]), node)
    return self.generic_visit(node)

  def visit_Name(self, node):
    if self.inside and isinstance(node.ctx, ast.Load):
      return ast.copy_location(ast.Call(func=ast.Name(id='__oldget__', ctx=ast.Load()),
                                        args=[ast.Constant(node.id)], keywords=[]), node)
    return node


_compiled: dict = {}


def compile_clause(text):
  if text not in _compiled:
    tree = ast.parse(text.strip(), mode='eval')
    tree = ast.fix_missing_locations(_OldRewriter().visit(tree))
    _compiled[text] = compile(tree, '<contract>', 'eval')
  return _compiled[text]


def native_env(spec, bound):
  env = {}
  for k, v in spec.module_globals.items():
    if isinstance(v, (Sort, C.SpecFn)):
      env[k] = v
      if isinstance(v, Sort):
        env.setdefault(v.name, v)
  from .values import UFn
  for k, v in spec.module_globals.items():
    if isinstance(v, UFn) and v.native is not None:
      env[k] = v.native
      env[v.name] = v.native
  for k, v in C.SPECFNS.items():
    env.setdefault(k, v)

  def univ(s):
    # quantifiers over an infinite opaque sort range over a universe strictly larger than
    # anything the bounded inputs can mention, so that a "fresh" value always exists
    if isinstance(s, Opaque) and s.universe:
      return list(s.universe)
    return s.enumerate(bound)

  def forall(*a):
    *sorts, f = a
    return all(f(*xs) for xs in itertools.product(*[univ(s) for s in sorts]))

  def exists(*a):
    *sorts, f = a
    return any(f(*xs) for xs in itertools.product(*[univ(s) for s in sorts]))
  env.update(forall=forall, exists=exists,
             implies=lambda a, b: (not a) or bool(b), iff=lambda a, b: bool(a) == bool(b),
             is_=lambda x, c: isinstance(x, ADTVal) and x.ctor == c,
             ite=lambda c, a, b: a if c else b, seq_eq=lambda a, b: tuple(a) == tuple(b),
             str=str, dom=lambda m: frozenset(m.keys()), subset=lambda a, b: frozenset(a) <= frozenset(b),
             empty_set=lambda s: frozenset(), Int=INT, Nat=NAT, Bool=BOOL, Real=REAL)
  return env


def eval_clause(text, env, values, oldvalues=None):
  e = dict(env)
  e.update(values)
  e['__oldget__'] = lambda k: (oldvalues if oldvalues is not None else values)[k]
  return eval(compile_clause(text), e)


class Failure:
  def __init__(self, spec, inputs, what, observed, expected=None):
    self.spec, self.inputs, self.what, self.observed, self.expected = spec, inputs, what, observed, expected

  def to_json(self):
    return dict(function=self.spec.target, inputs={k: repr(v) for k, v in self.inputs.items()},
                violated=self.what, observed=self.observed)


def check_one(spec, fn, env, abs_args, harness):
  """Run the real function on one abstract input; returns None or a Failure."""
  params = list(spec.params) + list(spec.free)
  try:
    if harness.pre_filter is not None and not harness.pre_filter(abs_args):
      return 'skip'
    if not all(eval_clause(r, env, abs_args) for r in spec.requires):
      return 'skip'
  except Exception:
    return 'skip'
  conc = {p: s.concretise(copy.deepcopy(abs_args[p])) for p, s in params}
  due = [exn for exn, cond in spec.raises.items() if eval_clause(cond, env, abs_args)]
  try:
    if harness.call is not None:
      result = harness.call(fn, conc)
    else:
      result = fn(*[conc[p] for p, _ in spec.params])
    outcome = ('ret', result)
  except Exception as e:  # noqa
    outcome = ('raise', e)
  if outcome[0] == 'raise':
    e = outcome[1]
    names = {c.__name__ for c in type(e).__mro__}
    hit = [exn for exn in spec.raises if exn in names]
    if hit:
      if not any(h in due for h in hit):
        return Failure(spec, abs_args, f'raises-only-if[{hit[0]}]', f'raised {type(e).__name__}: {e}')
      return None
    if any(x in names for x in spec.raises_any) or any(x in names for x in spec.raises_when):
      return None
    return Failure(spec, abs_args, f'safety:unexpected-raise[{type(e).__name__}]', f'raised {type(e).__name__}: {e}'[:300])
  due_w = [exn for exn, cond in spec.raises_when.items() if eval_clause(cond, env, abs_args)]
  if due_w:
    return Failure(spec, abs_args, f'raises-when[{due_w[0]}]', f'returned {outcome[1]!r} instead of raising'[:300])
  if due:
    return Failure(spec, abs_args, f'raises-if[{due[0]}]', f'returned {outcome[1]!r} instead of raising'[:300])
  # frame: an object parameter of a function that declares no modifies must be left untouched
  if not spec.modifies and not getattr(spec, 'frame_except', None):
    for p, s_ in params:
      if hasattr(s_, 'fields') and not isinstance(s_, Union) and p not in spec.assigns:
        try:
          after = s_.abstract(conc[p])
        except Exception as e:  # noqa
          return Failure(spec, abs_args, f'frame[{s_.name}]', f'the object passed as `{p}` is no longer a valid {s_.name} after the call: {e!r}'[:300])
        if after != abs_args[p]:
          return Failure(spec, abs_args, f'frame[{s_.name}]', f'the call modified its argument `{p}`: before {abs_args[p]!r}, after {after!r}'[:300])
  post = dict(abs_args)
  try:
    for p in spec.assigns:
      post[p] = dict(params)[p].abstract(conc[p])
    for p, s_ in params:
      if hasattr(s_, 'fields') and not isinstance(s_, Union):
        post[p] = s_.abstract(conc[p])   # heap objects: the postcondition reads their final state
    post['result'] = spec.returns.abstract(outcome[1]) if spec.returns is not None else None
  except Exception as e:
    return Failure(spec, abs_args, 'post:result-shape', f'result {outcome[1]!r} is outside the declared return sort: {e!r}'[:300])
  for i, cl in enumerate(spec.ensures):
    try:
      ok = eval_clause(cl, env, post, abs_args)
    except Exception as e:
      return Failure(spec, abs_args, f'post[{i}]', f'contract evaluation raised {e!r} on result {outcome[1]!r}'[:300])
    if not ok:
      return Failure(spec, abs_args, f'post[{i}]', f'result {outcome[1]!r} violates: {cl}'[:400])
  return None


def bounded_search(spec, bound=None, max_cases=20000, first_only=True):
  """-> dict(cases, failures:[Failure], skipped, error)"""
  h = spec.native
  out = dict(cases=0, failures=[], skipped=0, error=None, bound=None, distinct=0)
  if h is None:
    out['error'] = 'no native harness'
    return out
  bound = bound or h.bound or spec.enum_bound
  out['bound'] = bound
  try:
    if h.setup:
      h.setup()
    fn = h.get()
    env = native_env(spec, bound)
    params = list(spec.params) + list(spec.free)
    spaces = [s.enumerate(bound) for _, s in params]
    n = 0
    extra = [tuple(e[p] for p, _ in params) for e in h.extra]
    for combo in itertools.chain(extra, itertools.product(*spaces)):
      if n >= max_cases:
        break
      abs_args = {p: v for (p, _), v in zip(params, combo)}
      r = check_one(spec, fn, env, abs_args, h)
      if r == 'skip':
        out['skipped'] += 1
        continue
      n += 1
      if r is not None:
        out['failures'].append(r)
        if first_only and len(out['failures']) >= 3:
          break
    out['cases'] = n
  except Exception:
    out['error'] = traceback.format_exc()[-1500:]
  return out


# ---- counter-model concretisation (CE replay) ------------------------------------------------
class ModelReader:
  """Turns a z3 model into native abstract values, sort by sort."""

  def __init__(self, model):
    import z3
    self.z3 = z3
    self.m = model
    self.opaque_maps = {}

  def ev(self, t):
    return self.m.eval(t, model_completion=True)

  def opaque(self, sort, t):
    z3 = self.z3
    v = self.ev(t)
    mp = self.opaque_maps.setdefault(sort.name, {})
    key = v.sexpr()
    if key in mp:
      return mp[key]
    for py, c in sort._lits.items():
      if self.ev(c).sexpr() == key:
        mp[key] = py
        return py
    used = set(mp.values()) | set(sort._lits.keys())
    for cand in list(sort.universe or []) + [f'n{i}' for i in range(50)]:
      if cand not in used:
        mp[key] = cand
        return cand

  def read(self, sort, t):
    z3 = self.z3
    if isinstance(sort, BoolSort):
      return z3.is_true(self.ev(t))
    if isinstance(sort, IntSort):
      return self.ev(t).as_long()
    if isinstance(sort, RealSort):
      v = self.ev(t)
      return float(v.as_fraction()) if z3.is_rational_value(v) else float(v.approx(10).as_fraction())
    if isinstance(sort, NoneSort):
      return None
    if isinstance(sort, Opaque):
      return self.opaque(sort, t)
    if isinstance(sort, StrSort):
      return self.ev(t).as_string()
    if isinstance(sort, SeqOf):
      n = self.ev(sort.len(t)).as_long()
      if n > 12:
        raise ValueError('model sequence too long')
      return tuple(self.read(sort.elem, sort.get(t, z3.IntVal(i))) for i in range(max(n, 0)))
    if isinstance(sort, SetOf):
      out = set()
      for cand, val in self.candidates(sort.elem):
        if z3.is_true(self.ev(z3.Select(t, cand))):
          out.add(val)
      return frozenset(out)
    if isinstance(sort, MapOf):
      ks = self.read(sort.keyseq, sort.keys(t))
      out = {}
      for cand, val in self.candidates(sort.key):
        if z3.is_true(self.ev(sort.has(t, cand))):
          out[val] = self.read(sort.val, sort.get(t, cand))
      ordered = {k: out[k] for k in ks if k in out}
      ordered.update(out)
      return ordered
    if isinstance(sort, Union):
      for c in sort.ctors.values():
        if z3.is_true(self.ev(sort.is_(c.name, t))):
          return ADTVal(c.name, **{fn: self.read(sort.field_sort(c.name, fn), sort.acc(c.name, fn, t)) for fn, _ in c.fields})
    if isinstance(sort, TupleOf):
      raise ValueError('tuple sort in model')
    raise ValueError(f'cannot read sort {sort}')

  def candidates(self, elem):
    z3 = self.z3
    if isinstance(elem, Opaque):
      out = []
      try:
        univ = self.m.get_universe(elem.z3()) or []
      except Exception:
        univ = []
      for u in univ:
        out.append((u, self.opaque(elem, u)))
      for py, c in elem._lits.items():
        out.append((c, py))
      return out
    if isinstance(elem, IntSort):
      return [(z3.IntVal(i), i) for i in range(-2, 8)]
    if isinstance(elem, BoolSort):
      return [(z3.BoolVal(b), b) for b in (False, True)]
    raise ValueError(f'cannot enumerate candidates of {elem}')


def replay_model(spec, model, param_terms):
  """Concretise the solver's counter-model and run the real function on it.
  -> ('confirmed', Failure) | ('spurious', inputs) | ('unreadable', reason)"""
  try:
    rd = ModelReader(model)
    abs_args = {}
    for p, s in list(spec.params) + list(spec.free):
      abs_args[p] = rd.read(s, param_terms[p].t)
  except Exception as e:
    return 'unreadable', repr(e)[:200]
  if spec.native is None:
    return 'unreadable', 'no native harness'
  try:
    h = spec.native
    if h.setup:
      h.setup()
    env = native_env(spec, spec.enum_bound)
    r = check_one(spec, h.get(), env, abs_args, h)
  except Exception:
    return 'unreadable', traceback.format_exc()[-300:]
  if isinstance(r, Failure):
    return 'confirmed', r
  return 'spurious', {k: repr(v) for k, v in abs_args.items()}


def size_bounds(sort, t, depth=2, seq_max=3):
  """Constraints asking the solver for a *small* counter-model (only used to pick a model)."""
  import z3
  out = []
  if isinstance(sort, IntSort):
    out.append(z3.And(t >= -3, t <= 6))
  elif isinstance(sort, SeqOf):
    out.append(sort.len(t) <= seq_max)
    if depth > 0:
      for i in range(seq_max):
        out.extend(size_bounds(sort.elem, sort.get(t, z3.IntVal(i)), depth - 1, seq_max))
  elif isinstance(sort, MapOf):
    out.append(sort.keyseq.len(sort.keys(t)) <= seq_max)
  elif isinstance(sort, Union) and depth > 0:
    for c in sort.ctors.values():
      for fn, _ in c.fields:
        for b in size_bounds(sort.field_sort(c.name, fn), sort.acc(c.name, fn, t), depth - 1, seq_max):
          out.append(z3.Implies(sort.is_(c.name, t), b))
  return out



class AbsObj:
  """native abstract view of a heap object: its (modelled) fields"""
  def __init__(self, **fields):
    object.__setattr__(self, '_fields', dict(fields))

  def __getattr__(self, k):
    try:
      return object.__getattribute__(self, '_fields')[k]
    except KeyError:
      raise AttributeError(k)

  def __eq__(self, o):
    return isinstance(o, AbsObj) and self._fields == o._fields

  def __hash__(self):
    return hash(repr(self))

  def __repr__(self):
    return 'AbsObj(' + ', '.join(f'{k}={v!r}' for k, v in self._fields.items()) + ')'
