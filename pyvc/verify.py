"""Verify one function contract: enumerate paths, collect obligations, discharge them."""
from __future__ import annotations
import ast
import time
import traceback
import z3
from .sorts import *  # noqa
from .values import *  # noqa
from .ops import PathInfeasible, zbool
from . import contracts as C
from .symexec import Exec, Env, ReturnEx, RaiseEx, PathEnd, BreakEx, ContinueEx, Obligation
from . import loops, calls, methods, heap  # noqa: F401  (mixins)
from .loops import eval_clauses
from .extract import find_function, strip_doc
from . import solve

MAX_PATHS = 400


class FnResult:
  def __init__(self, spec):
    self.spec = spec
    self.obligations = []
    self.paths = 0
    self.outside = None       # OutsideSubset message
    self.crash = None         # traceback text
    self.sha = None
    self.lineno = None
    self.source = None
    self.externals = set()
    self.skipped = set()
    self.notes = []
    self.canary_ok = None
    self.time = 0.0

  @property
  def discharged(self):
    return [o for o in self.obligations if o.status == 'unsat']

  @property
  def open(self):
    return [o for o in self.obligations if o.status != 'unsat']


def get_fnode(spec):
  if spec.kind == 'lemma':
    src = 'def %s(%s):\n' % (spec.qualname, ', '.join(p for p, _ in spec.params))
    body = spec.body_src or 'pass'
    src += '\n'.join('  ' + ln for ln in body.strip('\n').splitlines()) + '\n'
    node = ast.parse(src).body[0]
    import hashlib
    return node, src, hashlib.sha256(src.encode()).hexdigest()
  return find_function(spec.file, spec.qualname)


def run_path(spec, fnode, script):
  """Execute one path; returns the Exec (obligations, alternatives)."""
  from . import sorts as _s
  from .values import GlobalVar
  _s.USED_SORTS.clear()
  ex = Exec(spec, script)
  ex.number_loops(fnode)
  env = Env(None)
  # parameters
  argnames = [a.arg for a in fnode.args.posonlyargs + fnode.args.args + fnode.args.kwonlyargs]
  if fnode.args.vararg:
    argnames.append(fnode.args.vararg.arg)
  if fnode.args.kwarg:
    argnames.append(fnode.args.kwarg.arg)
  declared = dict(spec.params)
  for a in argnames:
    if a not in declared:
      raise OutsideSubset(f'{spec.target}: parameter {a!r} of the real function has no sort in the contract')
  for p, s in spec.params:
    if p not in argnames and p != getattr(spec, 'vararg', None):
      raise OutsideSubset(f'{spec.target}: contract parameter {p!r} is not a parameter of the real function')
  old_env = Env(None)
  for p, s in list(spec.params) + list(spec.free):
    gv = spec.bindings.get(p)
    # a free variable that the sidecar also binds as a module-level GlobalVar is ONE symbol (an inlined helper reads it
    # through the bindings, the verified function through its environment)
    v = gv.value() if isinstance(gv, GlobalVar) and gv.sort.name == s.name else ex.fresh(s, p)
    old_env.set(p, v)
    if s is NONE and p in spec.bindings:
      env.set(p, spec.bindings[p])  # e.g. `cls` of a classmethod: the class, as bound by the sidecar
    elif p in spec.assigns:
      env.set(p, ex.new_box(v))
    else:
      env.set(p, v)
  if getattr(spec, 'yields', None) is not None:
    ys = SeqOf(spec.yields)
    ex.store['$out'] = SV(ys, ys.z3().mk(0, z3.K(z3.IntSort(), spec.yields.const('dy'))))
    env.set('_out', Box('$out'))
  for gname, (gsort, ginit) in (getattr(spec, 'ghost_state', None) or {}).items():
    ex.store['$' + gname] = ginit(ex) if callable(ginit) else SV(gsort, gsort.empty())
    env.set(gname, Box('$' + gname))
  ex.init_heap(env, old_env) if hasattr(ex, 'init_heap') else None
  for p_, s_ in list(spec.params) + list(spec.free):
    v_ = old_env.lookup(p_)
    if isinstance(v_, SV):
      ex.assume_allocated(s_, v_.t)  # objects passed in are live
  for g in eval_clauses(ex, spec.requires, env, {}):
    ex.assume(g)
  for g in eval_clauses(ex, getattr(spec, 'assume_axioms', ()) or (), env, {}):
    ex.axioms.append(g)  # definitional axioms of spec-level functions (listed in the evidence)
  if spec.decreases:
    ex._entry_measure = ex.coerce(ex.eval_spec_value(spec.decreases, env), INT).t
  # condition under which each declared exception is due, over the entry state
  def raise_conds_now():
    # `raises` conditions speak about the entry values of the parameters (old_env) and the
    # current heap; old(...)/acq(...) reach the entry / last-acquire heap
    e = Env(old_env)
    saved_heap, saved_store = ex.heap, ex.store
    ex.heap, ex.store = ex.old_heap, ex.old_store   # entry state (acq(...) switches to the last-acquire state itself)
    try:
      return {exn: ex.eval_spec(c, e) for exn, c in spec.raises.items()}
    finally:
      ex.heap, ex.store = saved_heap, saved_store
  ex.old_env, ex.old_store = old_env, ex.store.copy()
  ex.old_heap = dict(ex.heap)
  ex.heap_written = set()
  ex.param_terms = {p: old_env.lookup(p) for p, _ in list(spec.params) + list(spec.free)}
  outcome = None
  try:
    try:
      ex.exec_block(strip_doc(fnode.body), env)
      outcome = ('ret', NONEV)
    except ReturnEx as r:
      outcome = ('ret', r.v)
    except RaiseEx as r:
      outcome = ('raise', r.exc)
    except (BreakEx, ContinueEx):
      raise OutsideSubset('break/continue outside loop')
    if outcome[0] == 'ret':
      # no declared exception was due
      for exn, c in raise_conds_now().items():
        ex.oblige(z3.Not(c), f'raises-if[{exn}]')
      for exn, ctext in spec.raises_when.items():
        ex.oblige(z3.Not(ex.eval_spec(ctext, Env(old_env))), f'raises-when[{exn}]')
      res = outcome[1]
      penv = Env(env)
      # in a postcondition a parameter name denotes its ENTRY value (the body may rebind it);
      # in-place mutated containers (assigns) denote their final content
      for p_, _s in list(spec.params) + list(spec.free):
        if p_ not in spec.assigns:
          penv.set(p_, old_env.lookup(p_))
      if spec.returns is ANY:
        pass
      elif spec.returns is not None:
        res = ex.coerce(res, spec.returns)
      elif ex.deref(res) is not NONEV:
        raise OutsideSubset(f'{spec.target} returns a value but the contract declares none')
      penv.set('result', res)
      # instantiation hints: terms fed to e-matching through a fresh (hence harmless)
      # uninterpreted predicate
      for h in spec.hints:
        hv = ex.lift(ex.eval_spec_value(h, penv))
        hp = z3.Function('hint!' + hv.sort.name, hv.sort.z3(), z3.BoolSort())
        ex.assume(hp(hv.t))
      for i, cl in enumerate(spec.ensures):
        ex.oblige(ex.eval_spec(cl, penv), f'post[{i}]')
      ex.post_frame(penv) if hasattr(ex, 'post_frame') else None
      # canary: `false` must not be provable at a return point
      ex.oblige(False, 'canary')
    else:
      exc = outcome[1]
      name = exc.tag.name
      raise_conds = raise_conds_now() if name in spec.raises else {}
      if name in raise_conds:
        ex.oblige(raise_conds[name], f'raises-only-if[{name}]')
        ex.post_raise_frame(env) if hasattr(ex, 'post_raise_frame') else None
        # what holds when the function fails with this exception (e.g. what a generator had yielded before failing)
        penv_r = Env(env)
        for i, cl in enumerate((getattr(spec, 'ensures_on_raise', None) or {}).get(name, ())):
          ex.oblige(ex.eval_spec(cl, penv_r), f'post-on-raise[{name}.{i}]')
      elif name in spec.raises_any or name in spec.raises_when:
        pass
      else:
        ex.oblige(False, f'safety:unexpected-raise[{name}]')
  except PathEnd:
    pass
  except PathInfeasible:
    pass
  return ex


def verify_function(spec, budget_s=20.0):
  res = FnResult(spec)
  t0 = time.time()
  try:
    fnode, seg, sha = get_fnode(spec)
    res.sha, res.lineno, res.source = sha, getattr(fnode, 'lineno', 0), seg
    work = [[]]
    seen = {}
    while work:
      script = work.pop()
      res.paths += 1
      if res.paths > MAX_PATHS:
        raise OutsideSubset(f'more than {MAX_PATHS} paths')
      ex = run_path(spec, fnode, script)
      for alt in ex.alternatives:
        work.append(alt)
      for ob in ex.obligations:
        ob.param_terms = getattr(ex, 'param_terms', None)
        if ob.key + '|' + str(hash(ob.goal.sexpr())) in seen:
          continue
        seen[ob.key + '|' + str(hash(ob.goal.sexpr()))] = True
        res.obligations.append(ob)
      res.externals |= ex.used_externals
      res.skipped |= ex.skipped
      for n in ex.notes:
        if n not in res.notes:
          res.notes.append(n)
    canaries = [o for o in res.obligations if o.kind == 'canary']
    real = [o for o in res.obligations if o.kind != 'canary']
    res.obligations = real
    solve.discharge(real, budget_s)
    # counter-models: concretise and replay on the real code
    from . import native
    res.ce = []
    for ob in real:
      if ob.status == 'sat' and getattr(ob, 'model', None) is not None and ob.param_terms and len(res.ce) < 3:
        model = ob.model
        try:  # prefer a small counter-model
          sb = []
          for p_, s_ in list(spec.params) + list(spec.free):
            sb.extend(native.size_bounds(s_, ob.param_terms[p_].t))
          sm = z3.Solver()
          sm.set('timeout', 5000)
          for a_ in ob.assumptions:
            sm.add(a_)
          sm.add(z3.Not(ob.goal))
          for b_ in sb:
            sm.add(b_)
          if sm.check() == z3.sat:
            model = sm.model()
        except Exception:
          pass
        verdict, info = native.replay_model(spec, model, ob.param_terms)
        ob.ce = (verdict, info.to_json() if verdict == 'confirmed' else info)
        res.ce.append(ob)
    # vacuity: canaries must NOT be provable
    res.canary_ok = True
    res.canaries = len(canaries)
    dead = 0
    for c in canaries:
      solve.discharge([c], min(budget_s, 1.5), portfolio=False)
      if c.status == 'unsat':
        dead += 1  # this return point is unreachable under the contract (its obligations hold vacuously)
    res.dead_paths = dead
    if canaries and dead == len(canaries):
      res.canary_ok = False
      res.notes.append('VACUOUS: every return point is unreachable: the assumptions (requires / summaries) are contradictory')
  except OutsideSubset as e:
    res.outside = str(e)
  except LookupError as e:
    res.outside = f'extraction failed: {e}'
  except Exception:
    res.crash = traceback.format_exc()
  res.time = time.time() - t0
  return res
