"""Path-splitting symbolic executor over the AST of the real functions -> obligations.

One *path* is one linear run of the function body; forks are resolved by a decision script and
the alternatives are queued (re-execution), so control flow inside a path can use ordinary
Python exceptions (Return/Break/Continue/Raise).
"""
from __future__ import annotations
import ast
import z3
from .sorts import *  # noqa
from .values import *  # noqa
from .ops import Ops, PathInfeasible, _ObjCase, zbool
from . import contracts as C
from .extract import strip_doc

FEAS_TIMEOUT_MS = 1000


def _has_quant(e):
  seen = set()
  work = [e]
  while work:
    x = work.pop()
    if x.get_id() in seen:
      continue
    seen.add(x.get_id())
    if z3.is_quantifier(x):
      return True
    work.extend(x.children())
  return False


class ReturnEx(Exception):
  def __init__(self, v):
    self.v = v


class BreakEx(Exception):
  pass


class ContinueEx(Exception):
  pass


class RaiseEx(Exception):
  def __init__(self, exc):
    self.exc = exc  # ExcVal


class PathEnd(Exception):
  pass


class Obligation:
  def __init__(self, target, kind, assumptions, goal, sig, detail=''):
    self.target, self.kind, self.assumptions, self.goal, self.sig, self.detail = target, kind, assumptions, goal, sig, detail
    self.status = None
    self.solver = None
    self.time = 0.0
    self.output = ''

  @property
  def stem(self):
    return f'{self.target}::{self.kind}'

  @property
  def key(self):
    return f'{self.target}::{self.kind}@{self.sig}'


MUTATORS = {'append', 'extend', 'insert', 'pop', 'add', 'update', 'remove', 'discard', 'clear',
            'setdefault', 'popitem', 'sort', 'reverse', 'appendleft', 'popleft'}


def assigned_names(stmts):
  """Names (re)bound or mutated in place by a statement list (syntactic)."""
  out = set()
  for st in stmts:
    for n in ast.walk(st):
      if isinstance(n, ast.Name) and isinstance(n.ctx, (ast.Store, ast.Del)):
        out.add(n.id)
      elif isinstance(n, ast.Call) and isinstance(n.func, ast.Attribute) and n.func.attr in MUTATORS:
        b = n.func.value
        while isinstance(b, ast.Subscript):   # xs[i].append(...) mutates xs
          b = b.value
        if isinstance(b, ast.Name):
          out.add(b.id)
      elif isinstance(n, (ast.Yield, ast.YieldFrom)):
        out.add('_out')
      elif isinstance(n, (ast.Subscript, ast.Attribute)) and isinstance(n.ctx, (ast.Store, ast.Del)):
        b = n.value
        while isinstance(b, (ast.Subscript, ast.Attribute)):
          b = b.value
        if isinstance(b, ast.Name):
          out.add(b.id)
  return out


class Env:
  def __init__(self, parent=None):
    self.vars = {}
    self.parent = parent

  def lookup(self, k):
    e = self
    while e is not None:
      if k in e.vars:
        return e.vars[k]
      e = e.parent
    raise KeyError(k)

  def has(self, k):
    try:
      self.lookup(k)
      return True
    except KeyError:
      return False

  def set(self, k, v):
    self.vars[k] = v

  def set_nonlocal(self, k, v):
    e = self
    while e is not None:
      if k in e.vars:
        e.vars[k] = v
        return
      e = e.parent
    self.vars[k] = v


class Exec(Ops):
  def __init__(self, spec: C.FnSpec, script=(), registry=None):
    self.spec = spec
    self.script = list(script)
    self.pos = 0
    self.taken = []          # decisions taken on this path (labels)
    self.alternatives = []   # scripts to explore later
    self.pc = []             # path condition / assumptions (z3 Bool)
    self.axioms = []         # global axioms (spec function definitions, literal distinctness)
    self.obligations = []
    from .heap import StoreMap
    self.store = StoreMap(self)  # Box ident -> SV (heap-backed for object fields)
    self.heap0 = {}
    self.old_heap = None
    self.acq_heap = None
    self.heap_sorts = {}
    self.heap_written = set()
    self.escaped = set()
    self.spec_mode = False
    self.bound_vars = []     # stack of z3 bound variables when evaluating under a quantifier
    self._defined_specfns = {}
    self.loop_counter = 0
    self.loop_ids = {}
    self.registry = registry if registry is not None else C.REGISTRY
    self.used_externals = set()
    self.skipped = set()
    self.old_env = None
    self.old_store = None
    self.heap = {}           # (class, field) -> z3 Array Ref->field
    self.call_depth = 0
    self.trace = []          # ghost trace for generators
    self.ghost = {}          # ghost variables recorded by summaries (e.g. the permutation handed to transpose)
    self.notes = []

  # ---- path machinery ------------------------------------------------------------------
  def sig(self):
    return '.'.join(self.taken) or '-'

  def assume(self, f):
    if isinstance(f, bool):
      f = zbool(f)
    if self.bound_vars:
      # a defining fact produced under binders: universally closed over the bound variables
      f = z3.ForAll(list(self.bound_vars), f)
    self.pc.append(f)

  def push_binders(self, bvs):
    from . import sorts as _s
    self.bound_vars.extend(bvs)
    _s.BINDERS.extend(bvs)

  def pop_binders(self, n):
    from . import sorts as _s
    if n:
      del self.bound_vars[-n:]
      del _s.BINDERS[-n:]

  def all_assumptions(self):
    lits = []
    for s in list(Opaque._cache.keys()):
      pass
    from . import sorts as _s
    for o in self._opaques():
      if o.name in _s.USED_SORTS:     # only the sorts this path actually mentions
        lits.extend(o.literal_axioms())
    for u in _ALL_UNIONS:
      if u.name in _s.USED_SORTS:
        lits.extend(u.wf_axioms())
    return self.axioms + lits + self.pc

  def _opaques(self):
    return getattr(self.spec, '_opaques', None) or _ALL_OPAQUES

  def oblige(self, goal, kind, detail=''):
    if isinstance(goal, bool):
      goal = zbool(goal)
    g = z3.simplify(goal)
    if z3.is_true(g):
      # trivially true: still counted, discharged syntactically
      ob = Obligation(self.spec.target, kind, [], goal, self.sig(), detail)
      ob.status, ob.solver = 'unsat', 'syntactic'
      self.obligations.append(ob)
      return
    self.obligations.append(Obligation(self.spec.target, kind, list(self.all_assumptions()), goal, self.sig(), detail))

  def feasible(self, extra=None):
    s = z3.Solver()
    s.set('timeout', FEAS_TIMEOUT_MS)
    # quantifier-free part only: over-approximates feasibility (sound), keeps the checks fast
    for a in self.all_assumptions():
      if not _has_quant(a):
        s.add(a)
    if extra is not None:
      s.add(extra)
    return s.check() != z3.unsat

  def decide(self, cond, label='if'):
    """Fork on a z3 Bool; returns the python bool taken on this path."""
    c = z3.simplify(cond)
    if z3.is_true(c):
      return True
    if z3.is_false(c):
      return False
    got = self.choose([('T', cond), ('F', z3.Not(cond))], label)
    return got == 'T'

  def choose(self, options, label='ch', objs=None):
    """options: [(name, z3 Bool or None)]; forks over the feasible ones; assumes the chosen."""
    if self.pos < len(self.script):
      name = self.script[self.pos]
      self.pos += 1
      idx = [n for n, _ in options].index(name)
    else:
      feas = [i for i, (n, c) in enumerate(options) if c is None or self.feasible(c)]
      if not feas:
        raise PathInfeasible()
      idx = feas[0]
      for j in feas[1:]:
        self.alternatives.append(self.taken + [options[j][0]])
      self.script.append(options[idx][0])
      self.pos += 1
    name, cond = options[idx]
    self.taken.append(name)
    if cond is not None:
      self.assume(cond)
    return objs[idx] if objs is not None else name

  # ---- names ---------------------------------------------------------------------------
  def dotted(self, node):
    parts = []
    while isinstance(node, ast.Attribute):
      parts.append(node.attr)
      node = node.value
    if isinstance(node, ast.Name):
      parts.append(node.id)
      return '.'.join(reversed(parts))
    return None

  def lookup_global(self, name):
    b = self.spec.bindings
    if name in b:
      self.used_externals.add(name)
      return b[name].value() if isinstance(b[name], GlobalVar) else b[name]
    if name in GLOBAL_BINDINGS:
      return GLOBAL_BINDINGS[name]
    if name in C.SPECFNS and (self.spec_mode or self.spec.kind == 'lemma'):
      return C.SPECFNS[name]
    if name in C.LEMMAS:
      return C.LEMMAS[name]
    mg = self.spec.module_globals.get(name)
    if isinstance(mg, GlobalVar):
      return mg.value()
    if isinstance(mg, (Sort, C.SpecFn, UFn)):
      return mg
    for v in self.spec.module_globals.values():
      if isinstance(v, UFn) and v.name == name:
        return v
      if isinstance(v, Sort) and v.name == name:
        return v
    raise KeyError(name)

  # ---- expressions ---------------------------------------------------------------------
  def eval(self, node, env):
    m = getattr(self, 'e_' + type(node).__name__, None)
    if m is None:
      raise OutsideSubset(f'expression {type(node).__name__} (line {getattr(node, "lineno", "?")})')
    return m(node, env)

  def e_Constant(self, n, env):
    v = n.value
    if isinstance(v, str):
      return Lit(v)
    if v is None:
      return NONEV
    if v is Ellipsis:
      return ELLIPSIS
    if isinstance(v, (bool, int, float)):
      return v
    if isinstance(v, bytes):
      return Lit(v)
    raise OutsideSubset(f'constant {v!r}')

  def e_Name(self, n, env):
    try:
      return env.lookup(n.id)
    except KeyError:
      pass
    try:
      return self.lookup_global(n.id)
    except KeyError:
      if self.spec_mode and n.id in (getattr(self.spec, 'locals', None) or {}):
        # a contract clause mentions a local that is not bound on this path: unconstrained
        return self.fresh(self.spec.locals[n.id], n.id)
      # a helper defined at module level in the same file and not under contract: execute its real body in place
      # (e.g. a helper extracted by a refactoring); only in code mode, only plain functions
      if not self.spec_mode and getattr(self.spec, 'file', None):
        try:
          from .extract import find_function
          fnode, _, _ = find_function(self.spec.file, n.id)
          if isinstance(fnode, ast.FunctionDef) and not fnode.decorator_list:
            self.used_externals.add(f'inlined: {self.spec.file}::{n.id}')
            return Closure(fnode, Env(None), n.id)
        except Exception:
          pass
      raise OutsideSubset(f'unbound name {n.id!r} (line {getattr(n, "lineno", "?")}): not a local, not in the sidecar bindings')

  def e_Attribute(self, n, env):
    d = self.dotted(n)
    if d is not None:
      root = d.split('.')[0]
      if not env.has(root):
        try:
          return self.lookup_global(d)
        except KeyError:
          if root not in self.spec.bindings and root not in GLOBAL_BINDINGS:
            raise OutsideSubset(f'unbound global {d!r} (line {n.lineno})')
    base = self.eval(n.value, env)
    return self.getattr_(base, n.attr)

  def getattr_(self, base, attr):
    base = self.deref(base) if not isinstance(base, Box) else base
    if isinstance(base, Namespace):
      if attr in base:
        return base[attr]
      raise OutsideSubset(f'namespace has no {attr}')
    b = self.deref(base)
    if isinstance(b, SV) and isinstance(b.sort, Union):
      U = b.sort
      if self.spec_mode:
        hooks = getattr(U, 'attr_hooks', None)
        if hooks and attr in hooks:
          return hooks[attr](self, b)
        owners = [c for c in U.ctors.values() if any(fn == attr for fn, _ in c.fields)]
        if not owners:
          raise OutsideSubset(f'{U} has no field {attr}')
        fs = U.field_sort(owners[0].name, attr)
        if any(U.field_sort(c.name, attr).name != fs.name for c in owners):
          raise OutsideSubset(f'{U}.{attr}: constructors disagree on the field sort')
        # several constructors share the field name: select by constructor
        t = U.acc(owners[-1].name, attr, b.t)
        for c in reversed(owners[:-1]):
          t = z3.If(U.is_(c.name, b.t), U.acc(c.name, attr, b.t), t)
        return SV(fs, t)
      hooks = getattr(U, 'attr_hooks', None)
      if hooks and attr in hooks:
        return hooks[attr](self, b)
      meth = self.record_method(b, attr)
      if meth is not None:
        return meth
      owners = [c for c in U.ctors.values() if c.payload is None and any(fn == attr for fn, _ in c.fields)]
      if owners:
        ok = z3.Or(*[U.is_(c.name, b.t) for c in owners])
        self.oblige(ok, 'safety:attr', attr)
        self.assume(ok)
        c = owners[0] if len(owners) == 1 else self.choose([(x.name, U.is_(x.name, b.t)) for x in owners], 'case', objs=owners)
        return SV(U.field_sort(c.name, attr), U.acc(c.name, attr, b.t))
      inner = self.unwrap(b)
      if isinstance(inner, _ObjCase):
        return self.getattr_(inner, attr)
      return self.getattr_(inner, attr)
    if isinstance(b, _ObjCase):
      U = b.v.sort
      for fn, _ in b.ctor.fields:
        if fn == attr:
          return SV(U.field_sort(b.ctor.name, fn), U.acc(b.ctor.name, fn, b.v.t))
      if getattr(U, 'closed', False):
        # the class model lists every attribute of the real class: AttributeError
        self.oblige(False, 'safety:attr', attr)
        raise PathEnd()
      raise OutsideSubset(f'attribute {attr!r} of {b.ctor.name} is not in the type model')
    if isinstance(b, SV) and getattr(b.sort, 'fields', None) is not None:
      return self.obj_getattr(b, attr)
    if isinstance(b, SV) and isinstance(b.sort, Opaque) and attr in b.sort.attrs:
      asort, wf = b.sort.attrs[attr]
      f = z3.Function(f'attr!{b.sort.name}.{attr}', b.sort.z3(), asort.z3())
      t = f(b.t)
      for fact in list(asort.wf(t)) + list(wf(t) if wf else []):
        if not any(z3.eq(fact, g) for g in self.pc[-12:]):
          self.assume(fact)
      return SV(asort, t)
    return BoundMethod(base, attr)

  def record_method(self, b, attr):
    """method lookup on an object-like union value: '<Class>.<attr>' in the sidecar bindings,
    or the dataclass `replace`."""
    U = b.sort
    objc = [c for c in U.ctors.values() if c.payload is None and c.fields and not c.is_const]
    for c in objc:
      if any(fn == attr for fn, _ in c.fields):
        return None
    for c in objc:
      for cls in c.pytypes:
        key = f'{cls}.{attr}'
        if key in self.spec.bindings:
          self.used_externals.add(key)
          tgt = self.spec.bindings[key]
          return Handler(key, lambda ex, a, kw, tgt=tgt, b=b: ex.call_value(tgt, [b] + list(a), kw))
    if attr == 'replace' and len(objc) == 1 and len(U.ctors) == 1:
      c = objc[0]

      def do_replace(ex, a, kw, c=c, b=b, U=U):
        if a:
          raise OutsideSubset('replace() with positional arguments')
        ts = []
        for fn, _ in c.fields:
          fs = U.field_sort(c.name, fn)
          ts.append(ex.coerce(ex.escape(kw[fn]), fs).t if fn in kw else U.acc(c.name, fn, b.t))
        extra = set(kw) - {fn for fn, _ in c.fields}
        if extra:
          raise OutsideSubset(f'replace() of unknown fields {extra}')
        return SV(U, U.mk(c.name, *ts))
      return Handler('dataclasses.replace', do_replace, 'struct.dataclass replace: new instance, named fields changed')
    return None

  def e_BoolOp(self, n, env):
    is_and = isinstance(n.op, ast.And)
    if self.spec_mode:
      ts = [self.truthy(self.eval(v, env)) for v in n.values]
      return SV(BOOL, z3.And(*ts) if is_and else z3.Or(*ts))
    v = None
    for i, sub in enumerate(n.values):
      v = self.eval(sub, env)
      if i == len(n.values) - 1:
        return v
      t = self.decide(self.truthy(v), 'and' if is_and else 'or')
      if is_and and not t:
        return v
      if (not is_and) and t:
        return v
    return v

  def e_UnaryOp(self, n, env):
    v = self.eval(n.operand, env)
    if isinstance(n.op, ast.Not):
      t = self.truthy(v)
      s = z3.simplify(z3.Not(t))
      if z3.is_true(s):
        return True
      if z3.is_false(s):
        return False
      return SV(BOOL, z3.Not(t))
    if isinstance(n.op, ast.USub):
      if isinstance(v, (int, float)) and not isinstance(v, bool):
        return -v
      x = self.lift(v)
      return SV(x.sort if not isinstance(x.sort, NatSort) else INT, -x.t)
    raise OutsideSubset(f'unary {type(n.op).__name__}')

  def e_BinOp(self, n, env):
    return self.binop(n.op, self.eval(n.left, env), self.eval(n.right, env))

  def e_Compare(self, n, env):
    left = self.eval(n.left, env)
    terms = []
    for op, rn in zip(n.ops, n.comparators):
      right = self.eval(rn, env)
      terms.append(self.compare(op, left, right))
      left = right
    t = z3.And(*terms) if len(terms) > 1 else terms[0]
    s = z3.simplify(t)
    if z3.is_true(s):
      return True
    if z3.is_false(s):
      return False
    return SV(BOOL, t)

  def e_IfExp(self, n, env):
    c = self.truthy(self.eval(n.test, env))
    if self.spec_mode:
      cs = z3.simplify(c)
      if z3.is_true(cs):
        return self.eval(n.body, env)
      if z3.is_false(cs):
        return self.eval(n.orelse, env)
      a, b = self.eval(n.body, env), self.eval(n.orelse, env)
      return self.ite(c, a, b)
    return self.eval(n.body, env) if self.decide(c, 'ife') else self.eval(n.orelse, env)

  def ite(self, c, a, b):
    a, b = self.deref(a), self.deref(b)
    if isinstance(a, PyTuple) and isinstance(b, PyTuple) and len(a) == len(b):
      return PyTuple(self.ite(c, x, y) for x, y in zip(a, b))
    sa, sb = self.sort_of(a), self.sort_of(b)
    if (isinstance(a, Lit) or a is NONEV) and sb is not None and sb is not NONE:
      a = self.coerce(a, sb)
    elif (isinstance(b, Lit) or b is NONEV) and sa is not None and sa is not NONE:
      b = self.coerce(b, sa)
    a, b = self.lift(a), self.lift(b)
    if a.sort.name != b.sort.name:
      if isinstance(a.sort, Union):
        b = self.coerce(b, a.sort)
      elif isinstance(b.sort, Union):
        a = self.coerce(a, b.sort)
      elif REAL in (a.sort, b.sort):
        a, b = self.coerce(a, REAL), self.coerce(b, REAL)
      elif isinstance(a.sort, IntSort) and isinstance(b.sort, IntSort):
        a, b = self.coerce(a, INT), self.coerce(b, INT)
      else:
        raise OutsideSubset(f'conditional expression with sorts {a.sort} / {b.sort}')
    if a.sort is BOOL and b.sort is BOOL:
      # propositional form: lets the solver normalise quantifiers inside the branches
      return SV(BOOL, z3.Or(z3.And(c, a.t), z3.And(z3.Not(c), b.t)))
    return SV(a.sort, z3.If(c, a.t, b.t))

  def e_Tuple(self, n, env):
    out = []
    for e in n.elts:
      if isinstance(e, ast.Starred):
        v = self.deref(self.eval(e.value, env))
        if isinstance(v, SV) and getattr(v.sort, 'star_opaque', False):
          out.append(StarOf(v))  # (*path, 'key'): kept symbolic, consumed by a summary
          continue
        if isinstance(v, SV) and isinstance(v.sort, SeqOf):
          out.append(StarOf(v))
          continue
        if not isinstance(v, PyTuple):
          raise OutsideSubset('star-unpacking of a symbolic-length sequence')
        out.extend(v)
      else:
        out.append(self.eval(e, env))
    if any(isinstance(x, StarOf) and isinstance(x.v.sort, SeqOf) for x in out):
      # (a, *rest): concatenation of the static parts with the symbolic-length sequences
      sq = next(x.v.sort for x in out if isinstance(x, StarOf) and isinstance(x.v.sort, SeqOf))
      acc = None
      run = []

      def flush(acc, run):
        if run:
          piece = self.seq_from_items(run, sq.elem)
          acc = piece if acc is None else self.seq_concat(acc, piece)
        return acc
      for x in out:
        if isinstance(x, StarOf):
          acc = flush(acc, run)
          run = []
          acc = x.v if acc is None else self.seq_concat(acc, x.v)
        else:
          run.append(x)
      return flush(acc, run)
    return PyTuple(out)

  def e_List(self, n, env):
    items = [self.eval(e, env) for e in n.elts]
    hint = self.type_hint(n)
    if hint is None:
      if not items:
        raise OutsideSubset(f'empty list literal without a sort hint (line {n.lineno}); add locals=... in the sidecar')
      s0 = self.sort_of(items[0])
      if s0 is None and getattr(self.spec, 'comp_elem_hint', None) is not None:
        s0 = self.spec.comp_elem_hint
      if s0 is None:
        raise OutsideSubset(f'list literal of untyped items (line {n.lineno})')
      hint = SeqOf(s0)
    return self.new_box(self.seq_from_items(items, hint.elem))

  def e_Set(self, n, env):
    items = [self.eval(e, env) for e in n.elts]
    hint = self.type_hint(n)
    if hint is None and items and all(isinstance(x, Lit) for x in items):
      return LitSet(x.py for x in items)
    if hint is None:
      s0 = self.sort_of(items[0])
      if s0 is None:
        raise OutsideSubset(f'set literal of untyped items (line {n.lineno})')
      hint = SetOf(s0)
    t = hint.empty()
    for x in items:
      t = z3.Store(t, self.coerce(x, hint.elem).t, True)
    return self.new_box(SV(hint, t))

  def e_Dict(self, n, env):
    hint = self.type_hint(n)
    if hint is None:
      hint = getattr(self.spec, 'dict_hint', None)
    if hint is None and not n.keys:
      return PyTuple(())  # `{}` of unknown sort: only ever handed to a summary (e.g. type(name, bases, {}))
    if hint is None:
      raise OutsideSubset(f'dict literal without a sort hint (line {n.lineno})')
    if getattr(hint, 'from_dict_literal', None):
      return hint.from_dict_literal(self, [(self.eval(k, env), self.eval(v, env)) for k, v in zip(n.keys, n.values)])
    m = first = self.empty_map(hint)
    for k, v in zip(n.keys, n.values):
      if k is None:
        src = self.deref(self.eval(v, env))   # {**other, ...}: starts from a copy of `other` (only as the first entry)
        if not (isinstance(src, SV) and isinstance(src.sort, MapOf) and src.sort.name == hint.name):
          raise OutsideSubset('dict ** unpacking of something that is not a map of the literal\'s sort')
        if m is first:
          m = SV(hint, src.t)
        else:
          # {k: v, **other}: entries of `other` win; earlier keys keep their position
          r = hint.const('unpack')
          kk = z3.Const(fresh_name('k'), hint.key.z3())
          self.assume(hint.dom(r) == z3.SetUnion(hint.dom(m.t), hint.dom(src.t)))
          self.assume(qforall([kk], hint.get(r, kk) == z3.If(hint.has(src.t, kk), hint.get(src.t, kk), hint.get(m.t, kk)), patterns=[hint.get(r, kk)]))
          for f in hint.keys_wf(r):
            self.assume(f)
          m = SV(hint, r)
        continue
      m = self.map_set(m, self.eval(k, env), self.eval(v, env))
    return self.new_box(m)

  def type_hint(self, node):
    """Sort hints for literals/locals come from the sidecar: spec.locals[name] for the
    assignment target, recorded by exec_Assign in self._hint."""
    return getattr(self, '_hint', None)

  def new_box(self, sv):
    if self.spec_mode:
      return sv
    ident = fresh_name('box')
    self.store[ident] = sv
    return Box(ident)

  def e_Subscript(self, n, env):
    raw = self.eval(n.value, env)
    if isinstance(raw, Box) and not isinstance(n.slice, ast.Slice) and not self.spec_mode:
      cont = self.deref(raw)
      if isinstance(cont, SV) and isinstance(cont.sort, (SeqOf, MapOf)) and (cont.sort.elem if isinstance(cont.sort, SeqOf) else cont.sort.val).mutable:
        return self.getitem(raw, self.eval(n.slice, env))
    base = self.deref(raw)
    if isinstance(base, SV) and isinstance(base.sort, Union):
      base = self.unwrap(base)
    if isinstance(n.slice, ast.Slice):
      if n.slice.step is not None:
        raise OutsideSubset('slice with step')
      lo = self.eval(n.slice.lower, env) if n.slice.lower is not None else None
      hi = self.eval(n.slice.upper, env) if n.slice.upper is not None else None
      if isinstance(base, PyTuple) and all(x is None or isinstance(x, int) for x in (lo, hi)):
        return PyTuple(tuple(base)[lo:hi])
      if isinstance(base, PyTuple):
        s0 = self.sort_of(base[0]) if base else None
        if s0 is None:
          raise OutsideSubset('symbolic slice of an untyped tuple')
        base = self.coerce(base, SeqOf(s0))
      if isinstance(base, SV) and isinstance(base.sort, SeqOf):
        lo_t = None if lo is None else self.coerce(lo, INT).t
        hi_t = None if hi is None else self.coerce(hi, INT).t
        return self.seq_slice(base, lo_t, hi_t)
      raise OutsideSubset(f'slice of {base!r}')
    idx = self.eval(n.slice, env)
    return self.getitem(base, idx)

  def getitem(self, base, idx):
    if isinstance(base, Box) and not self.spec_mode:
      cont = self.deref(base)
      if isinstance(cont, SV) and isinstance(cont.sort, SeqOf) and cont.sort.elem.mutable:
        i = self.coerce(idx, INT).t
        n = cont.sort.len(cont.t)
        self.oblige(z3.And(i >= -n, i < n), 'safety:index')
        self.assume(z3.And(i >= -n, i < n))
        return Box(('item', base.ident, z3.If(i < 0, i + n, i), None))
      if isinstance(cont, SV) and isinstance(cont.sort, MapOf) and cont.sort.val.mutable:
        k = self.coerce(idx, cont.sort.key).t
        dflt = getattr(cont.sort, 'default_factory', None)
        if dflt is None:
          self.oblige(cont.sort.has(cont.t, k), 'safety:key')
          self.assume(cont.sort.has(cont.t, k))
        return Box(('item', base.ident, k, dflt() if dflt is not None else None))
    base, idx = self.deref(base), self.deref(idx)
    if isinstance(base, _ObjCase) and base.ctor.tuple_like and isinstance(idx, int):
      fn = base.ctor.fields[idx][0]
      U = base.v.sort
      return SV(U.field_sort(base.ctor.name, fn), U.acc(base.ctor.name, fn, base.v.t))
    if isinstance(base, PyTuple):
      if isinstance(idx, int):
        return base[idx]
      it = self.lift(idx)
      zs = z3.simplify(it.t)
      if z3.is_int_value(zs):
        return base[zs.as_long()]
      s0 = self.sort_of(base[0]) if base else None
      if s0 is None:
        raise OutsideSubset('symbolic index into an untyped tuple')
      base = self.coerce(base, SeqOf(s0))
    if isinstance(base, SV):
      s = base.sort
      if isinstance(s, SeqOf):
        return self.seq_index(base, self.coerce(idx, INT).t)
      if isinstance(s, MapOf):
        k = self.coerce(idx, s.key)
        dflt = getattr(s, 'default_factory', None)
        if dflt is not None:
          # collections.defaultdict: a missing key reads as the default (the insertion of the
          # default entry is not modelled: only sound where the dict is not inspected afterwards)
          return SV(s.val, z3.If(s.has(base.t, k.t), s.get(base.t, k.t), dflt()))
        if not self.spec_mode:
          self.oblige(s.has(base.t, k.t), 'safety:key')
          self.assume(s.has(base.t, k.t))
        return SV(s.val, s.get(base.t, k.t))
      if getattr(s, 'getitem', None):
        return s.getitem(self, base, idx)
    raise OutsideSubset(f'subscript of {base!r}')

  def e_Lambda(self, n, env):
    return Closure(n, env, '<lambda>')

  def e_JoinedStr(self, n, env):
    # f-strings: kept as a list of parts; only summaries that understand them look inside
    # (message texts of exceptions / logging are dropped)
    parts = []
    for v in n.values:
      if isinstance(v, ast.Constant):
        parts.append(v.value)
      else:
        try:
          parts.append(self.eval(v.value, env))
        except OutsideSubset:
          parts.append(None)
    hook = getattr(self.spec, 'fstring_hook', None)
    if hook is not None:
      r = hook(self, parts)
      if r is not None:
        return r
    return FString(parts)

  def e_ListComp(self, n, env):
    return self.comprehension(n, env, 'list')

  def e_GeneratorExp(self, n, env):
    return ('genexp', n, env)

  def e_SetComp(self, n, env):
    return self.comprehension(n, env, 'set')

  def e_DictComp(self, n, env):
    return self.comprehension(n, env, 'dict')

  def e_Call(self, n, env):
    from .calls import eval_call
    return eval_call(self, n, env)

  def e_Yield(self, n, env):
    if getattr(self.spec, 'yields', None) is None:
      raise OutsideSubset('yield in a function whose contract declares no yields= sort')
    v = self.eval(n.value, env) if n.value is not None else NONEV
    box = Box('$out')
    cur = self.store['$out']
    s = cur.sort
    x = self.coerce(self.escape(v), s.elem)
    self.store['$out'] = SV(s, s.z3().mk(s.len(cur.t) + 1, z3.Store(s.z3().arr(cur.t), s.len(cur.t), x.t)))
    return NONEV

  def e_Starred(self, n, env):
    raise OutsideSubset('starred expression')

  # ---- statements ------------------------------------------------------------------------
  def exec_block(self, stmts, env):
    for st in stmts:
      self.exec_stmt(st, env)

  def exec_stmt(self, st, env):
    self._cur_env = env
    m = getattr(self, 's_' + type(st).__name__, None)
    if m is None:
      raise OutsideSubset(f'statement {type(st).__name__} (line {st.lineno})')
    return m(st, env)

  def s_Pass(self, st, env):
    pass

  def s_Expr(self, st, env):
    if isinstance(st.value, ast.Constant):
      return
    self.eval(st.value, env)

  def s_Return(self, st, env):
    if st.value is None:
      raise ReturnEx(NONEV)
    self._hint = self.spec.returns if (self.call_depth == 0 and isinstance(self.spec.returns, (SeqOf, SetOf, MapOf))) else None
    try:
      v = self.eval(st.value, env)
    finally:
      self._hint = None
    raise ReturnEx(v)

  def s_Break(self, st, env):
    raise BreakEx()

  def s_Continue(self, st, env):
    raise ContinueEx()

  def s_Global(self, st, env):
    pass

  def s_Nonlocal(self, st, env):
    for k in st.names:
      env.vars.setdefault('__nonlocal__', set()).add(k)

  def s_Assert(self, st, env):
    c = self.truthy(self.eval(st.test, env))
    if 'AssertionError' in self.spec.raises_any or 'AssertionError' in self.spec.raises:
      # the contract lets the function fail its own consistency assertion: an ordinary raise path
      if not self.decide(c, 'assert'):
        raise RaiseEx(ExcVal(TypeTag('AssertionError', (TypeTag('Exception'),))))
      return
    self.oblige(c, 'assert')
    self.assume(c)

  def s_Raise(self, st, env):
    if st.exc is None:
      raise RaiseEx(getattr(self, '_current_exc', ExcVal(TypeTag('Exception'))))
    node = st.exc
    if isinstance(node, ast.Call):
      tag = self.eval(node.func, env)
      # arguments are evaluated for their safety obligations only when they are not f-strings
      args = []
      for a in node.args:
        if isinstance(a, (ast.JoinedStr, ast.Constant)):
          continue
        try:
          args.append(self.eval(a, env))
        except OutsideSubset:
          pass
    else:
      tag = self.eval(node, env)
      args = []
    if isinstance(tag, ExcVal):
      raise RaiseEx(tag)
    tv = self.deref(tag)
    if isinstance(tv, SV) and getattr(tv.sort, 'exc_tag', None):
      # raising a stored exception value
      raise RaiseEx(ExcVal(TypeTag(tv.sort.exc_tag, (TypeTag('Exception'),)), [tv]))
    if not isinstance(tag, TypeTag):
      raise OutsideSubset(f'raise of {tag!r}')
    raise RaiseEx(ExcVal(tag, args))

  def s_Assign(self, st, env):
    hint = None
    if len(st.targets) == 1 and isinstance(st.targets[0], ast.Name):
      hint = (getattr(self.spec, 'locals', None) or {}).get(st.targets[0].id)
    self._hint = hint
    try:
      v = self.eval(st.value, env)
    finally:
      self._hint = None
    for tg in st.targets:
      self.assign(tg, v, env)

  def s_AnnAssign(self, st, env):
    if st.value is None:
      return
    hint = (getattr(self.spec, 'locals', None) or {}).get(st.target.id) if isinstance(st.target, ast.Name) else None
    self._hint = hint
    try:
      v = self.eval(st.value, env)
    finally:
      self._hint = None
    self.assign(st.target, v, env)

  def s_AugAssign(self, st, env):
    cur = self.eval(ast.copy_location(_load(st.target), st.target), env)
    rhs = self.eval(st.value, env)
    c = self.deref(cur)
    if isinstance(cur, Box) and isinstance(c.sort, SeqOf) and isinstance(st.op, ast.Add):
      self.mutate(cur, self.seq_concat(c, rhs))  # list += ...  mutates in place
      return
    self.assign(st.target, self.binop(st.op, cur, rhs), env)

  def assign(self, tg, v, env):
    if isinstance(tg, ast.Name):
      hint = (getattr(self.spec, 'locals', None) or {}).get(tg.id)
      if hint is not None and not isinstance(v, Box) and not isinstance(v, (Closure,)):
        v = self.coerce(v, hint)
        if isinstance(hint, SeqOf) and hint.elem.mutable and not self.spec_mode:
          v = self.new_box(v)  # a tuple/list of mutable containers: elements are mutated through it
      if tg.id in env.vars.get('__nonlocal__', ()):  # nonlocal declared
        env.parent.set_nonlocal(tg.id, v)
      else:
        env.set(tg.id, v)
    elif isinstance(tg, (ast.Tuple, ast.List)):
      vv = self.deref(v)
      if isinstance(vv, SV) and isinstance(vv.sort, MapOf):
        # unpacking a dict iterates its keys (insertion order)
        ks = vv.sort.keys(vv.t)
        vv = SV(vv.sort.keyseq, ks)
      stars = [i for i, e in enumerate(tg.elts) if isinstance(e, ast.Starred)]
      if stars and isinstance(vv, SV) and isinstance(vv.sort, SeqOf) and len(stars) == 1:
        # a, b, *rest, z = seq : needs at least the fixed number of items; rest is the slice in between (a list)
        k, n = stars[0], len(tg.elts)
        after = n - k - 1
        ln = vv.sort.len(vv.t)
        self.oblige(ln >= n - 1, 'safety:unpack')
        self.assume(ln >= n - 1)
        for i in range(k):
          self.assign(tg.elts[i], SV(vv.sort.elem, vv.sort.get(vv.t, i)), env)
        self.assign(tg.elts[k].value, self.new_box(self.seq_slice(vv, z3.IntVal(k), ln - after)), env)
        for j in range(after):
          self.assign(tg.elts[k + 1 + j], SV(vv.sort.elem, vv.sort.get(vv.t, ln - after + j)), env)
        return
      if isinstance(vv, SV) and isinstance(vv.sort, SeqOf):
        n = len(tg.elts)
        self.oblige(vv.sort.len(vv.t) == n, 'safety:unpack')
        self.assume(vv.sort.len(vv.t) == n)
        vv = PyTuple(SV(vv.sort.elem, vv.sort.get(vv.t, i)) for i in range(n))
      if isinstance(vv, SV) and isinstance(vv.sort, Union):
        tl = [c for c in vv.sort.ctors.values() if c.tuple_like and len(c.fields) == len(tg.elts)]
        if tl:
          c = tl[0]
          if len(vv.sort.ctors) > 1:
            self.oblige(vv.sort.is_(c.name, vv.t), 'safety:unpack')
            self.assume(vv.sort.is_(c.name, vv.t))
          vv = PyTuple(SV(vv.sort.field_sort(c.name, fn), vv.sort.acc(c.name, fn, vv.t)) for fn, _ in c.fields)
      if not isinstance(vv, PyTuple):
        raise OutsideSubset(f'unpacking of {vv!r}')
      if len(vv) != len(tg.elts):
        self.oblige(False, 'safety:unpack')
        raise PathEnd()
      for t, x in zip(tg.elts, vv):
        self.assign(t, x, env)
    elif isinstance(tg, ast.Subscript):
      base = self.eval(tg.value, env)
      if isinstance(tg.slice, ast.Slice):
        raise OutsideSubset('slice assignment')
      idx = self.eval(tg.slice, env)
      self.setitem(base, idx, v)
    elif isinstance(tg, ast.Attribute):
      base = self.eval(tg.value, env)
      self.setattr_(base, tg.attr, v)
    else:
      raise OutsideSubset(f'assignment target {type(tg).__name__}')

  def escape(self, v):
    """v (possibly a Box) is stored into another container / passed on: by-value copy."""
    if isinstance(v, Box):
      self.escaped.add(v.ident)
      return self.store[v.ident]
    return v

  def mutate(self, box, newval):
    if not isinstance(box, Box):
      raise OutsideSubset(f'in-place mutation of a non-local or immutable value {box!r}')
    if box.ident in self.escaped:
      raise OutsideSubset('in-place mutation of a container after it was stored elsewhere (aliasing not modelled)')
    self.store[box.ident] = newval

  def setitem(self, base, idx, v):
    cur = self.deref(base)
    if isinstance(cur, SV) and getattr(cur.sort, 'setitem', None):
      return cur.sort.setitem(self, cur, idx, v)
    if isinstance(cur, SV) and isinstance(cur.sort, MapOf):
      self.mutate(base, self.map_set(cur, idx, self.escape(v)))
      return
    if isinstance(cur, SV) and isinstance(cur.sort, SeqOf):
      s = cur.sort
      i = self.coerce(idx, INT).t
      n = s.len(cur.t)
      self.oblige(z3.And(i >= -n, i < n), 'safety:index')
      ii = z3.If(i < 0, i + n, i)
      nv = s.z3().mk(n, z3.Store(s.z3().arr(cur.t), ii, self.coerce(self.escape(v), s.elem).t))
      self.mutate(base, SV(s, nv))
      return
    raise OutsideSubset(f'item assignment on {cur!r}')

  def setattr_(self, base, attr, v):
    b = self.deref(base)
    if isinstance(b, SV) and getattr(b.sort, 'setattr_hook', None):
      return b.sort.setattr_hook(self, b, attr, v)
    if isinstance(b, SV) and getattr(b.sort, 'fields', None) is not None:
      return self.obj_setattr(b, attr, v)
    raise OutsideSubset(f'attribute assignment on {b!r}')

  def empty_map(self, sort):
    K = SetOf(sort.key)
    t = sort.z3().mk(K.empty(), z3.K(sort.key.z3(), sort.val.const('dflt')), SeqOf(sort.key).z3().mk(0, z3.K(z3.IntSort(), sort.key.const('dk'))))
    return SV(sort, t)

  def map_set(self, m, k, v):
    s = m.sort
    kk, vv = self.coerce(k, s.key), self.coerce(self.escape(v), s.val)
    Z = s.z3()
    ks = s.keys(m.t)
    KS = s.keyseq
    had = s.has(m.t, kk.t)
    newkeys = KS.z3().mk(KS.len(ks) + 1, z3.Store(KS.z3().arr(ks), KS.len(ks), kk.t))
    return SV(s, Z.mk(z3.Store(s.dom(m.t), kk.t, True), z3.Store(Z.val(m.t), kk.t, vv.t), z3.If(had, ks, newkeys)))

  def s_If(self, st, env):
    c = self.truthy(self.eval(st.test, env))
    if self.decide(c, 'if'):
      self.exec_block(st.body, env)
    else:
      self.exec_block(st.orelse, env)

  def s_FunctionDef(self, st, env):
    nested_spec = self.spec.nested.get(st.name)
    fn = Closure(st, env, st.name, nested_spec)
    # decorators the sidecar binds to a Handler are applied (innermost first); all others are transparent here
    for dec in reversed(st.decorator_list):
      try:
        d = self.eval(dec, env)
      except OutsideSubset:
        continue
      if isinstance(d, Handler):
        fn = d.fn(self, [fn], {})
    env.set(st.name, fn)

  def s_Delete(self, st, env):
    for tg in st.targets:
      if isinstance(tg, ast.Subscript):
        base = self.eval(tg.value, env)
        cur = self.deref(base)
        if isinstance(cur, SV) and isinstance(cur.sort, MapOf):
          s = cur.sort
          k = self.coerce(self.eval(tg.slice, env), s.key)
          self.oblige(s.has(cur.t, k.t), 'safety:key')
          self.mutate(base, self.map_del(cur, k))
          continue
      elif isinstance(tg, ast.Name):
        env.vars.pop(tg.id, None)
        continue
      raise OutsideSubset('del of this target')

  def map_del(self, m, k):
    s = m.sort
    Z = s.z3()
    nk = s.keyseq.const('keys')
    r = Z.mk(z3.Store(s.dom(m.t), k.t, False), Z.val(m.t), nk)
    for f in s.keys_wf(r):
      self.assume(f)
    return SV(s, r)

  # loops, with, try and calls live in loops.py / calls.py (mixed in below)


def _load(node):
  n = ast.parse(ast.unparse(node), mode='eval').body
  return n


_ALL_OPAQUES: list = []
_ALL_UNIONS: list = []
GLOBAL_BINDINGS: dict = {}


def register_opaque(o):
  if o not in _ALL_OPAQUES:
    _ALL_OPAQUES.append(o)
  return o
