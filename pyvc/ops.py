"""Semantics of Python operations on symbolic values (mixin for Exec).

Everything here is part of the trusted base: it is the verifier's reading of Python.
"""
from __future__ import annotations
import z3
from .sorts import *  # noqa
from .values import *  # noqa


def zbool(b):
  return z3.BoolVal(bool(b))


class Ops:
  # ---- helpers -------------------------------------------------------------------------
  def deref(self, v):
    return self.store[v.ident] if isinstance(v, Box) else v

  def sort_of(self, v):
    v = self.deref(v)
    if isinstance(v, SV):
      return v.sort
    if isinstance(v, bool):
      return BOOL
    if isinstance(v, int):
      return INT
    if isinstance(v, float):
      return REAL
    if v is NONEV:
      return NONE
    return None

  def lift(self, v):
    """python constant -> SV"""
    v = self.deref(v)
    if isinstance(v, SV):
      return v
    if isinstance(v, bool):
      return SV(BOOL, z3.BoolVal(v))
    if isinstance(v, int):
      return SV(INT, z3.IntVal(v))
    if isinstance(v, float):
      return SV(REAL, z3.RealVal(repr(v)))
    if v is NONEV:
      return SV(NONE, NONE.z3().none)
    raise OutsideSubset(f'cannot lift {v!r} to a term')

  def fresh(self, sort, hint='v', assume_wf=True):
    if isinstance(sort, TupleOf):
      return PyTuple(self.fresh(s, hint, assume_wf) for s in sort.elems)
    t = sort.const(hint)
    if assume_wf:
      for f in sort.wf(t):
        self.assume(f)
    return SV(sort, t)

  def entails(self, f):
    """pc |= f (quantifier-free part, quick)"""
    return not self.feasible(z3.Not(f))

  # ---- coercion ------------------------------------------------------------------------
  def coerce(self, v, sort):
    """Represent python value v in type model `sort`."""
    v = self.deref(v)
    if sort is None:
      return v
    if isinstance(sort, TupleOf):
      if isinstance(v, PyTuple) and len(v) == len(sort.elems):
        return PyTuple(self.coerce(x, s) for x, s in zip(v, sort.elems))
      raise OutsideSubset(f'cannot coerce {v!r} to {sort}')
    if isinstance(v, SV) and v.sort is sort:
      return v
    hooks_any = getattr(sort, 'coerce_from', None)
    if hooks_any and isinstance(v, SV) and v.sort.name in hooks_any and not isinstance(sort, Union):
      return hooks_any[v.sort.name](self, v)      # e.g. a plain dict value that becomes a heap object of the model
    if isinstance(v, SV) and v.sort.name == sort.name:
      return SV(sort, v.t)   # same encoding, the target model's own attributes (e.g. default_factory)
    if isinstance(v, SV) and isinstance(v.sort, Union) and not isinstance(sort, Union) and not self.spec_mode:
      return self.coerce(self.unwrap(v), sort)
    if isinstance(v, SV) and isinstance(v.sort, Union) and not isinstance(sort, Union) and self.spec_mode:
      # under a binder there is no forking: read the payload of the one constructor that wraps this sort
      # (for a value built by another constructor the accessor is unconstrained, so nothing false is assumed)
      owners = [c for c in v.sort.ctors.values() if c.payload is not None and v.sort.field_sort(c.name, c.payload).name == sort.name]
      if len(owners) == 1:
        c = owners[0]
        return SV(sort, v.sort.acc(c.name, c.payload, v.t))
    if v is NONEV and getattr(sort, 'nullable', False) and hasattr(sort, 'literal') and not isinstance(sort, Opaque):
      return SV(sort, sort.literal(None))
    if isinstance(v, bool) and isinstance(sort, Opaque) and getattr(sort, 'coerce_bool', False):
      return SV(sort, z3.Function('kwarg_true' if v else 'kwarg_false', sort.z3())())
    if v is NONEV and isinstance(sort, Opaque) and sort.nullable:
      return SV(sort, sort.literal(None))
    if isinstance(v, PyTuple) and getattr(sort, 'from_tuple', None):
      return sort.from_tuple(self, v)        # a python tuple display (possibly with *rest) read as a value of this sort
    if isinstance(v, PyTuple) and len(v) == 0 and isinstance(sort, Opaque) and not sort.is_str:
      return SV(sort, sort.literal(()))      # the empty tuple as a distinguished value
    if isinstance(v, FString) and isinstance(sort, Opaque):
      if len(v.parts) == 1 and isinstance(v.parts[0], SV) and v.parts[0].sort.name == sort.name and sort.is_str:
        return SV(sort, v.parts[0].t)      # f'{name}' of a string is the string itself
      return self.fresh(sort, 'fstring')   # formatted text (messages): an unconstrained string
    if isinstance(v, Lit):
      if isinstance(sort, Opaque):
        return SV(sort, sort.literal(v.py))
      if isinstance(sort, StrSort):
        return SV(STR, z3.StringVal(v.py))
    if isinstance(sort, Union):
      return self.coerce_union(v, sort)
    if isinstance(sort, (IntSort,)) and isinstance(v, bool):
      return SV(sort, z3.IntVal(int(v)))
    if isinstance(sort, IntSort) and isinstance(v, int):
      return SV(sort, z3.IntVal(v))
    if isinstance(sort, IntSort) and isinstance(v, SV) and isinstance(v.sort, IntSort):
      return SV(sort, v.t)
    if isinstance(sort, IntSort) and isinstance(v, SV) and v.sort is BOOL:
      return SV(sort, z3.If(v.t, 1, 0))
    if isinstance(sort, RealSort):
      if isinstance(v, (int, float)) and not isinstance(v, bool):
        return SV(REAL, z3.RealVal(repr(v)))
      if isinstance(v, SV) and isinstance(v.sort, IntSort):
        return SV(REAL, z3.ToReal(v.t))
    if isinstance(sort, BoolSort) and isinstance(v, bool):
      return SV(BOOL, z3.BoolVal(v))
    if isinstance(sort, NoneSort) and v is NONEV:
      return self.lift(v)
    if isinstance(sort, SeqOf) and isinstance(v, IterView) and v.elem_sort is not None and v.elem_sort.name == sort.elem.name:
      from .methods import _to_seq
      return self.coerce(self.deref(_to_seq(self, [v], 'tuple')), sort)
    if isinstance(sort, SeqOf):
      if isinstance(v, PyTuple):
        return self.seq_from_items([self.coerce(x, sort.elem) for x in v], sort.elem)
      if isinstance(v, SV) and isinstance(v.sort, SeqOf):
        if v.sort.elem.name == sort.elem.name:
          return SV(sort, v.t)
        return self.seq_map_coerce(v, sort)
    if isinstance(sort, SetOf) and isinstance(v, SV) and isinstance(v.sort, SetOf) and v.sort.elem.name == sort.elem.name:
      return SV(sort, v.t)
    if isinstance(sort, SetOf) and isinstance(v, LitSet):
      t = sort.empty()
      for x in sorted(v.items):
        t = z3.Store(t, self.coerce(Lit(x), sort.elem).t, True)
      return SV(sort, t)
    if isinstance(sort, MapOf) and isinstance(v, SV) and isinstance(v.sort, MapOf) and v.sort.name == sort.name:
      return SV(sort, v.t)
    raise OutsideSubset(f'cannot coerce {v!r} to {sort}')

  def coerce_union(self, v, U):
    hooks0 = getattr(U, 'coerce_from', None)
    if hooks0 and isinstance(v, SV) and v.sort.name in hooks0:
      return hooks0[v.sort.name](self, v)
    if isinstance(v, SV) and isinstance(v.sort, Union):
      if not self.spec_mode:
        inner = self.unwrap(v)
        if isinstance(inner, SV) and inner.sort.name != v.sort.name:
          return self.coerce(inner, U)
      raise OutsideSubset(f'cannot coerce {v.sort} to {U}')
    hooks = getattr(U, 'coerce_from', None)
    if hooks and isinstance(v, SV) and v.sort.name in hooks:
      return hooks[v.sort.name](self, v)
    if isinstance(v, PyTuple):
      for c in U.ctors.values():
        if c.tuple_like and len(c.fields) == len(v):
          try:
            ts = [self.coerce(x, U.field_sort(c.name, fn)).t for x, (fn, _) in zip(v, c.fields)]
          except OutsideSubset:
            continue
          return SV(U, U.mk(c.name, *ts))
    # constants first
    for c in U.ctors.values():
      if c.is_const is None and not c.fields and v is NONEV and 'NoneType' in c.pytypes:
        return SV(U, U.mk(c.name))
      if c.is_const is Ellipsis and v is ELLIPSIS:
        return SV(U, U.mk(c.name))
    s = self.sort_of(v)
    cands = []
    for c in U.ctors.values():
      if c.payload is None:
        continue
      fs = U.field_sort(c.name, c.payload)
      if s is not None and (fs is s or fs.name == s.name):
        cands.append((0, c, fs))
      elif isinstance(v, Lit) and isinstance(fs, (Opaque, StrSort)) and 'str' in c.pytypes:
        cands.append((0, c, fs))
      elif v is NONEV and 'NoneType' in c.pytypes and isinstance(fs, Opaque) and fs.nullable:
        cands.append((0, c, fs))
      elif isinstance(fs, IntSort) and s is not None and isinstance(s, IntSort):
        cands.append((1, c, fs))
      elif isinstance(fs, SeqOf) and (isinstance(v, PyTuple) or (s is not None and isinstance(s, SeqOf))):
        cands.append((2, c, fs))
    if not cands:
      raise OutsideSubset(f'cannot coerce {v!r} into union {U}')
    cands.sort(key=lambda x: x[0])
    _, c, fs = cands[0]
    return SV(U, U.mk(c.name, self.coerce(v, fs).t))

  # ---- unions --------------------------------------------------------------------------
  def union_cases(self, v):
    """Feasible constructors of union value v under the current path condition."""
    U = v.sort
    out = []
    for c in U.ctors.values():
      if self.feasible(U.is_(c.name, v.t)):
        out.append(c)
    return out

  def unwrap(self, v, what='use'):
    """Project a union value to the plain value it wraps (forking over feasible constructors).
    Object-like constructors are returned as the union value itself (attribute access works
    on it)."""
    v = self.deref(v)
    if not (isinstance(v, SV) and isinstance(v.sort, Union)):
      return v
    U = v.sort
    if self.spec_mode:
      raise OutsideSubset(f'spec-mode operation on union {U} needs an explicit projection')
    cases = self.union_cases(v)
    if not cases:
      raise PathInfeasible()
    c = cases[0] if len(cases) == 1 else self.choose([(x.name, U.is_(x.name, v.t)) for x in cases], 'case', objs=cases)
    self.assume(U.is_(c.name, v.t))
    if c.payload is not None:
      return SV(U.field_sort(c.name, c.payload), U.acc(c.name, c.payload, v.t))
    if c.is_const is None and 'NoneType' in c.pytypes:
      return NONEV
    if c.is_const is Ellipsis:
      return ELLIPSIS
    return _ObjCase(v, c)

  # ---- truthiness, equality, identity ----------------------------------------------------
  def truthy(self, v):
    """-> z3 Bool"""
    v = self.deref(v)
    if isinstance(v, bool):
      return zbool(v)
    if isinstance(v, int):
      return zbool(v != 0)
    if v is NONEV:
      return zbool(False)
    if isinstance(v, Lit):
      return zbool(bool(v.py))
    if isinstance(v, PyTuple):
      return zbool(len(v) > 0)
    if isinstance(v, (Closure, TypeTag, UFn, CtorFn, _ObjCase)):
      return zbool(True)
    if isinstance(v, SV):
      s = v.sort
      if s is BOOL:
        return v.t
      if isinstance(s, IntSort):
        return v.t != 0
      if isinstance(s, RealSort):
        return v.t != 0
      if isinstance(s, SeqOf):
        return s.len(v.t) > 0
      if isinstance(s, SetOf):
        return v.t != s.empty()
      if isinstance(s, MapOf):
        return s.dom(v.t) != SetOf(s.key).empty()
      if isinstance(s, StrSort):
        return z3.Length(v.t) > 0
      if isinstance(s, NoneSort):
        return zbool(False)
      if isinstance(s, Union):
        if self.spec_mode:
          raise OutsideSubset('truthiness of a union in spec mode')
        return self.truthy(self.unwrap(v))
      if getattr(s, 'nullable', False) and hasattr(s, 'literal') and getattr(s, 'truthy', None) is None:
        # objects are truthy unless None (classes in the subset define no __bool__/__len__)
        return v.t != s.literal(None)
      if hasattr(s, 'fields') and not isinstance(s, Union):
        return zbool(True)
      if isinstance(s, Opaque):
        if getattr(s, 'truthy', None) is not None:
          return s.truthy(v.t)
        # bool(x) of a value the model says nothing about: an uninterpreted predicate (nothing assumed)
        return z3.Function(f'truthy!{s.name}', s.z3(), z3.BoolSort())(v.t)
    raise OutsideSubset(f'truthiness of {v!r}')

  def py_eq(self, a, b):
    """Python `a == b` -> z3 Bool."""
    a, b = self.deref(a), self.deref(b)
    if isinstance(a, Lit) and isinstance(b, Lit):
      return zbool(a.py == b.py)
    if isinstance(a, LitSet) or isinstance(b, LitSet):
      if isinstance(a, LitSet):
        a, b = b, a
      if isinstance(a, LitSet):
        return zbool(a.items == b.items)
      if isinstance(a, SV) and isinstance(a.sort, SetOf):
        return a.t == self.coerce(b, a.sort).t
      raise OutsideSubset('== between a set literal and a non-set')
    if isinstance(a, PyTuple) and isinstance(b, PyTuple):
      if len(a) != len(b):
        return zbool(False)
      return z3.And(*[self.py_eq(x, y) for x, y in zip(a, b)]) if a else zbool(True)
    if a is NONEV and b is NONEV:
      return zbool(True)
    sa, sb = self.sort_of(a), self.sort_of(b)
    # literal against a typed operand
    if isinstance(a, Lit):
      a, b, sa, sb = b, a, sb, sa
    if isinstance(b, Lit):
      if isinstance(sa, Union):
        return self.py_eq(a, self.coerce(b, sa))
      if isinstance(sa, (Opaque, StrSort)):
        return a.t == self.coerce(b, sa).t
      return zbool(False)
    if isinstance(sa, Union) and not isinstance(sb, Union):
      return self.py_eq(a, self.coerce(b, sa))
    if isinstance(sb, Union) and not isinstance(sa, Union):
      return self.py_eq(self.coerce(a, sb), b)
    if isinstance(a, PyTuple) or isinstance(b, PyTuple):
      if isinstance(b, PyTuple):
        a, b, sa, sb = b, a, sb, sa
      if isinstance(sb, SeqOf):
        n = len(a)
        return z3.And(sb.len(b.t) == n, *[self.py_eq(x, SV(sb.elem, sb.get(b.t, i))) for i, x in enumerate(a)])
      return zbool(False)
    if a is NONEV and isinstance(sb, Opaque) and sb.nullable:
      return b.t == sb.literal(None)
    if b is NONEV and isinstance(sa, Opaque) and sa.nullable:
      return a.t == sa.literal(None)
    if sa is None or sb is None:
      raise OutsideSubset(f'== between {a!r} and {b!r}')
    a, b = self.lift(a), self.lift(b)
    if isinstance(sa, IntSort) and isinstance(sb, IntSort):
      return a.t == b.t
    if isinstance(sa, BoolSort) and isinstance(sb, BoolSort):
      return a.t == b.t
    if {type(sa), type(sb)} <= {IntSort, NatSort, RealSort, BoolSort}:
      # numeric tower: bool -> int -> real
      return self.coerce(a, REAL if REAL in (sa, sb) else INT).t == self.coerce(b, REAL if REAL in (sa, sb) else INT).t
    if sa.name != sb.name:
      if isinstance(sa, NoneSort) or isinstance(sb, NoneSort):
        return zbool(False)
      raise OutsideSubset(f'== between sorts {sa} and {sb}')
    return self.sort_eq(sa, a.t, b.t)

  def sort_eq(self, s, x, y):
    """Value equality of two terms of sort s (point-wise for sequences and maps)."""
    if isinstance(s, SeqOf):
      if z3.eq(x, y):
        return zbool(True)
      i = z3.Int(fresh_name('i'))
      return z3.And(s.len(x) == s.len(y),
                    qforall([i], z3.Implies(z3.And(i >= 0, i < s.len(x)), self.sort_eq(s.elem, s.get(x, i), s.get(y, i))),
                              patterns=[s.get(x, i), s.get(y, i)]))
    if isinstance(s, MapOf):
      if z3.eq(x, y):
        return zbool(True)
      k = z3.Const(fresh_name('k'), s.key.z3())
      return z3.And(s.dom(x) == s.dom(y),
                    qforall([k], z3.Implies(s.has(x, k), self.sort_eq(s.val, s.get(x, k), s.get(y, k))),
                              patterns=[s.get(x, k), s.get(y, k)]))
    return x == y

  def py_is(self, a, b):
    """Python `a is b` for the cases that occur: comparison with None/True/False/Ellipsis
    singletons, or identity of opaque references."""
    a, b = self.deref(a), self.deref(b)
    if isinstance(b, SV) and not isinstance(a, SV):
      a, b = b, a
    if isinstance(a, SV) and isinstance(a.sort, Union):
      U = a.sort
      if b is NONEV or b is ELLIPSIS:
        want = None if b is NONEV else Ellipsis
        for c in U.ctors.values():
          if (want is None and 'NoneType' in c.pytypes and c.is_const is None and not c.fields) or (want is Ellipsis and c.is_const is Ellipsis):
            return U.is_(c.name, a.t)
        if want is None:
          # None carried as the payload of a constructor whose payload sort is nullable (e.g. an axis spec that may be None)
          hits = []
          for c in U.ctors.values():
            if c.payload and 'NoneType' in c.pytypes:
              ps = U.field_sort(c.name, c.payload)
              if getattr(ps, 'nullable', False) and hasattr(ps, 'literal'):
                hits.append(z3.And(U.is_(c.name, a.t), U.acc(c.name, c.payload, a.t) == ps.literal(None)))
          if hits:
            return z3.Or(*hits)
        return zbool(False)
      if isinstance(b, bool):
        for c in U.ctors.values():
          if 'bool' in c.pytypes and c.payload:
            acc = U.acc(c.name, c.payload, a.t)
            return z3.And(U.is_(c.name, a.t), acc if b else z3.Not(acc))
        return zbool(False)
      if isinstance(b, SV) and b.sort.name == U.name:
        return a.t == b.t
      raise OutsideSubset(f'`is` between union {U} and {b!r}')
    if isinstance(a, SV) and isinstance(b, bool):
      if a.sort is BOOL:
        return a.t if b else z3.Not(a.t)
      return zbool(False)
    if b is NONEV or a is NONEV:
      o = a if b is NONEV else b
      if o is NONEV:
        return zbool(True)
      if isinstance(o, SV) and getattr(o.sort, 'nullable', False) and hasattr(o.sort, 'literal'):
        return o.t == o.sort.literal(None)
      if isinstance(o, SV) and isinstance(o.sort, NoneSort):
        return zbool(True)
      return zbool(False)
    if isinstance(a, SV) and isinstance(b, SV) and a.sort.name == b.sort.name and (isinstance(a.sort, (Opaque, BoolSort)) or hasattr(a.sort, 'fields')):
      return a.t == b.t
    if isinstance(a, bool) and isinstance(b, bool):
      return zbool(a == b)
    if isinstance(a, (TypeTag, Closure, UFn)) or isinstance(b, (TypeTag, Closure, UFn)):
      return zbool(a is b)
    raise OutsideSubset(f'`is` between {a!r} and {b!r}')

  def contains(self, c, x):
    """Python `x in c` -> z3 Bool."""
    c, x = self.deref(c), self.deref(x)
    if isinstance(c, SV) and isinstance(c.sort, Union):
      c = self.unwrap(c)
    if isinstance(c, PyTuple):
      return z3.Or(*[self.py_eq(x, y) for y in c]) if c else zbool(False)
    if isinstance(c, IterView) and getattr(c, 'source_map', None) is not None:
      m = c.source_map
      return m.sort.has(m.t, self.coerce(x, m.sort.key).t)
    if isinstance(c, SV):
      s = c.sort
      if isinstance(s, SetOf):
        return z3.Select(c.t, self.coerce(x, s.elem).t)
      if isinstance(s, MapOf):
        return s.has(c.t, self.coerce(x, s.key).t)
      if isinstance(s, SeqOf):
        i = z3.Int(fresh_name('i'))
        xe = self.coerce(x, s.elem)
        return z3.Exists([i], z3.And(i >= 0, i < s.len(c.t), self.sort_eq(s.elem, s.get(c.t, i), xe.t)))
      if getattr(s, 'contains_hook', None):
        return s.contains_hook(self, c, x)
      if isinstance(s, (Opaque, StrSort)) and getattr(s, 'is_str', True):
        # `x in <str>`: substring test; modelled as a reflexive uninterpreted relation
        xe = self.coerce(x, s)
        sub = z3.Function('substring!' + s.name, s.z3(), s.z3(), z3.BoolSort())
        return z3.Or(xe.t == c.t, sub(xe.t, c.t))
    raise OutsideSubset(f'`in` on {c!r}')

  def isinstance_(self, v, tags):
    v = self.deref(v)
    names = set()
    for t in tags:
      if isinstance(t, TypeTag):
        names.add(t.name)
      elif isinstance(t, CtorFn):
        names.add(t.ctor_pytype())
      elif isinstance(t, Handler) and getattr(t, 'tagname', None):
        names.add(t.tagname)
      else:
        raise OutsideSubset(f'isinstance against {t!r}')
    if isinstance(v, SV) and isinstance(v.sort, Union):
      U = v.sort
      hits = [U.is_(c.name, v.t) for c in U.ctors.values() if names & set(c.pytypes)]
      return z3.Or(*hits) if hits else zbool(False)
    if isinstance(v, SV) and getattr(v.sort, 'isinstance_hook', None):
      return v.sort.isinstance_hook(self, v, names)     # symbolic class membership of an arbitrary object
    if isinstance(v, SV) and isinstance(v.sort, Opaque) and v.sort.nullable and v.sort.is_str:
      is_none = v.t == v.sort.literal(None)
      strs = {'str', 'typing.Collection', 'Collection'}
      return z3.Or(z3.And(zbool(bool(names & strs)), z3.Not(is_none)), z3.And(zbool('NoneType' in names), is_none))
    py = self.python_types_of(v)
    return zbool(bool(names & py))

  def python_types_of(self, v):
    if isinstance(v, bool):
      return {'bool', 'int'}
    if isinstance(v, int):
      return {'int'}
    if v is NONEV:
      return {'NoneType'}
    if isinstance(v, Lit):
      return {'str', 'typing.Collection', 'Collection', 'Sequence'}
    if isinstance(v, PyTuple):
      return {'tuple', 'typing.Collection', 'Collection', 'Sequence', 'typing.Sequence'}
    if isinstance(v, _ObjCase):
      return set(v.ctor.pytypes)
    if isinstance(v, SV):
      s = v.sort
      if getattr(s, 'pytypes', None):
        return set(s.pytypes)
      if isinstance(s, Opaque) and s.is_str and not s.nullable:
        return {'str', 'typing.Collection', 'Collection'}
      if s is BOOL:
        return {'bool', 'int'}
      if isinstance(s, IntSort):
        return {'int'}
      if isinstance(s, RealSort):
        return {'float'}
      if isinstance(s, StrSort):
        return {'str', 'typing.Collection', 'Collection'}
      if isinstance(s, SeqOf):
        return set(getattr(s, 'pytypes', None) or {'tuple', 'list', 'typing.Collection', 'Collection', 'Sequence', 'typing.Sequence'})
      if isinstance(s, SetOf):
        return {'set', 'typing.Collection', 'Collection'}
      if isinstance(s, MapOf):
        return {'dict', 'Mapping', 'typing.Collection', 'Collection'}
      if isinstance(s, NoneSort):
        return {'NoneType'}
    raise OutsideSubset(f'python type of {v!r} unknown')

  # ---- sequences -------------------------------------------------------------------------
  def seq_from_items(self, items, elem):
    s = SeqOf(elem)
    r = s.const('seq')
    self.assume(s.len(r) == len(items))
    for i, x in enumerate(items):
      self.assume(s.get(r, i) == self.coerce(x, elem).t)
    return SV(s, r)

  def seq_concat(self, a, b):
    s = a.sort
    b = self.coerce(b, s)
    r = s.const('cat')
    i = z3.Int(fresh_name('i'))
    la, lb = s.len(a.t), s.len(b.t)
    self.assume(s.len(r) == la + lb)
    self.assume(qforall([i], z3.Implies(z3.And(i >= 0, i < la), s.get(r, i) == s.get(a.t, i)), patterns=[s.get(r, i)]))
    self.assume(qforall([i], z3.Implies(z3.And(i >= la, i < la + lb), s.get(r, i) == s.get(b.t, i - la)), patterns=[s.get(r, i)]))
    # reverse-direction triggers so facts about b's elements reach r
    self.assume(qforall([i], z3.Implies(z3.And(i >= 0, i < lb), s.get(r, i + la) == s.get(b.t, i)), patterns=[s.get(b.t, i)]))
    return SV(s, r)

  def seq_slice(self, a, lo, hi):
    """a[lo:hi] with python clamping; lo/hi are z3 Int terms or None."""
    s = a.sort
    n = s.len(a.t)

    def norm(x, default):
      if x is None:
        return default
      x = z3.If(x < 0, x + n, x)
      return z3.If(x < 0, 0, z3.If(x > n, n, x))
    lo_, hi_ = norm(lo, z3.IntVal(0)), norm(hi, n)
    r = s.const('slice')
    i = z3.Int(fresh_name('i'))
    ln = z3.If(hi_ > lo_, hi_ - lo_, 0)
    self.assume(s.len(r) == ln)
    self.assume(qforall([i], z3.Implies(z3.And(i >= 0, i < ln), s.get(r, i) == s.get(a.t, i + lo_)), patterns=[s.get(r, i)]))
    # reverse-direction trigger: a fact about a[j] inside the window reaches r[j - lo]
    self.assume(qforall([i], z3.Implies(z3.And(i >= lo_, i < lo_ + ln), s.get(r, i - lo_) == s.get(a.t, i)), patterns=[s.get(a.t, i)]))
    return SV(s, r)

  def seq_map_coerce(self, v, sort):
    r = sort.const('conv')
    i = z3.Int(fresh_name('i'))
    src = v.sort
    self.assume(sort.len(r) == src.len(v.t))
    el = self.coerce(SV(src.elem, src.get(v.t, i)), sort.elem)
    self.assume(qforall([i], z3.Implies(z3.And(i >= 0, i < src.len(v.t)), sort.get(r, i) == el.t), patterns=[sort.get(r, i)]))
    return SV(sort, r)

  def seq_index(self, a, i, safety=True):
    """a[i] for a Seq, with python negative indexing; emits an IndexError safety obligation."""
    s = a.sort
    n = s.len(a.t)
    if safety and not self.spec_mode:
      self.oblige(z3.And(i >= -n, i < n), 'safety:index')
    si = z3.simplify(i)
    if z3.is_int_value(si):
      idx = si if si.as_long() >= 0 else n + si
    elif self.spec_mode:
      # spec-level indexing is mathematical: a[i] for 0 <= i < len(a) (no python wrap-around for
      # symbolic indices; clauses guard their indices) -- keeps the terms usable as triggers
      idx = i
    elif self.entails(i >= 0):
      idx = i
    else:
      idx = z3.If(i < 0, i + n, i)
    return SV(s.elem, s.get(a.t, idx))

  def set_from_seq(self, v):
    s = v.sort
    S = SetOf(s.elem)
    r = S.const('set')
    e = z3.Const(fresh_name('e'), s.elem.z3())
    i = z3.Int(fresh_name('i'))
    idx = z3.Function(fresh_name('idx'), s.elem.z3(), z3.IntSort())
    self.assume(qforall([i], z3.Implies(z3.And(i >= 0, i < s.len(v.t)), z3.Select(r, s.get(v.t, i))), patterns=[s.get(v.t, i)]))
    self.assume(qforall([e], z3.Implies(z3.Select(r, e), z3.And(idx(e) >= 0, idx(e) < s.len(v.t), s.get(v.t, idx(e)) == e)), patterns=[z3.Select(r, e)]))
    return SV(S, r)

  # ---- arithmetic / comparison -------------------------------------------------------------
  def num2(self, a, b):
    a, b = self.lift(a), self.lift(b)
    if isinstance(a.sort, RealSort) or isinstance(b.sort, RealSort):
      return self.coerce(a, REAL), self.coerce(b, REAL), REAL
    if isinstance(a.sort, (IntSort, BoolSort)) and isinstance(b.sort, (IntSort, BoolSort)):
      return self.coerce(a, INT), self.coerce(b, INT), INT
    raise OutsideSubset(f'arithmetic on {a.sort} and {b.sort}')

  def proxy(self, v):
    """objects that forward arithmetic to one of their fields (nnx.Variable -> .value)"""
    v = self.deref(v)
    if isinstance(v, SV) and getattr(v.sort, 'proxy_field', None):
      return self.getattr_(v, v.sort.proxy_field)
    return v

  def binop(self, op, a, b):
    a, b = self.proxy(a), self.proxy(b)
    if isinstance(a, SV) and isinstance(a.sort, Union):
      a = self.unwrap(a)
    if isinstance(b, SV) and isinstance(b.sort, Union):
      b = self.unwrap(b)
    name = type(op).__name__
    # sequences / tuples
    if name == 'Add' and (isinstance(a, PyTuple) or isinstance(b, PyTuple) or (isinstance(a, SV) and isinstance(a.sort, SeqOf))):
      if isinstance(a, PyTuple) and isinstance(b, PyTuple):
        return PyTuple(tuple(a) + tuple(b))
      if isinstance(a, SV) and isinstance(a.sort, SeqOf):
        return self.seq_concat(a, b)
      if isinstance(b, SV) and isinstance(b.sort, SeqOf):
        return self.seq_concat(self.coerce(a, b.sort), b)
      raise OutsideSubset('tuple + non-tuple')
    if isinstance(a, SV) and isinstance(a.sort, SetOf):
      bb = self.coerce(b, a.sort)
      if name == 'Sub':
        return SV(a.sort, z3.SetDifference(a.t, bb.t))
      if name == 'BitOr':
        return SV(a.sort, z3.SetUnion(a.t, bb.t))
      if name == 'BitAnd':
        return SV(a.sort, z3.SetIntersect(a.t, bb.t))
    if name == 'Add' and isinstance(a, SV) and getattr(a.sort, 'add_hook', None):
      return a.sort.add_hook(self, a, b)
    if name == 'Div' and isinstance(a, SV) and getattr(a.sort, 'div_hook', None):
      return a.sort.div_hook(self, a, b)
    if name == 'Mult' and isinstance(a, PyTuple) and isinstance(b, int):
      return PyTuple(tuple(a) * b)
    if name == 'Mult' and isinstance(a, PyTuple) and len(a) == 1 and isinstance(b, SV) and isinstance(getattr(self, '_hint', None), SeqOf):
      # (x,) * n with a symbolic n: n copies of x (sort taken from the assignment's hint)
      one = self.seq_from_items([a[0]], self._hint.elem)
      return self.binop(op, one, b)
    if name == 'Mult' and isinstance(a, SV) and isinstance(a.sort, SeqOf):
      # [x] * n : n copies of the single element
      s_ = a.sort
      one = z3.simplify(s_.len(a.t))
      ln = None
      for f in self.pc:
        pass
      if not (self.entails(s_.len(a.t) == 1)):
        raise OutsideSubset('sequence repetition of a non-singleton')
      n = self.coerce(b, INT).t
      r = s_.const('rep')
      i = z3.Int(fresh_name('i'))
      self.assume(s_.len(r) == z3.If(n > 0, n, 0))
      self.assume(qforall([i], z3.Implies(z3.And(i >= 0, i < n), s_.get(r, i) == s_.get(a.t, 0)), patterns=[s_.get(r, i)]))
      return self.new_box(SV(s_, r))
    if isinstance(a, (int, float)) and isinstance(b, (int, float)) and not isinstance(a, bool) and not isinstance(b, bool):
      import operator
      pyop = {'Add': operator.add, 'Sub': operator.sub, 'Mult': operator.mul, 'FloorDiv': operator.floordiv, 'Mod': operator.mod}.get(name)
      if pyop and not (name in ('FloorDiv', 'Mod') and b == 0):
        return pyop(a, b)
    x, y, s = self.num2(a, b)
    if name == 'Add':
      return SV(s, x.t + y.t)
    if name == 'Sub':
      return SV(s, x.t - y.t)
    if name == 'Mult':
      return SV(s, x.t * y.t)
    if name == 'Pow':
      if isinstance(b, float) and b == 0.5:
        x = self.coerce(x, REAL)
        sq = z3.Function('sqrt', z3.RealSort(), z3.RealSort())
        r = sq(x.t)
        self.assume(z3.Implies(x.t >= 0, z3.And(r >= 0, r * r == x.t)))
        return SV(REAL, r)
      if isinstance(b, int) and b == 2:
        return SV(s, x.t * x.t)
      raise OutsideSubset('power operator (only x**0.5 and x**2 are modelled)')
    if name == 'Div':
      x, y = self.coerce(x, REAL), self.coerce(y, REAL)
      if not self.spec_mode:
        self.oblige(y.t != 0, 'safety:zerodiv')
      return SV(REAL, x.t / y.t)
    if name in ('FloorDiv', 'Mod') and s is INT:
      if not self.spec_mode:
        self.oblige(y.t != 0, 'safety:zerodiv')
      # SMT div/mod are euclidean; they agree with python's floor semantics exactly when the
      # divisor is positive. Only that case is modelled: divisor > 0 is a (model) obligation.
      qe, re = x.t / y.t, x.t % y.t
      if not (z3.is_int_value(y.t) and y.t.as_long() > 0) and not self.spec_mode:
        self.oblige(y.t > 0, 'safety:modelled-positive-divisor')
      return SV(INT, qe) if name == 'FloorDiv' else SV(INT, re)
    raise OutsideSubset(f'binary operator {name} on {a!r}, {b!r}')

  def compare(self, op, a, b):
    name = type(op).__name__
    if name == 'Eq':
      return self.py_eq(a, b)
    if name == 'NotEq':
      return z3.Not(self.py_eq(a, b))
    if name == 'Is':
      return self.py_is(a, b)
    if name == 'IsNot':
      return z3.Not(self.py_is(a, b))
    if name == 'In':
      return self.contains(b, a)
    if name == 'NotIn':
      return z3.Not(self.contains(b, a))
    a, b = self.deref(a), self.deref(b)
    if isinstance(a, SV) and isinstance(a.sort, Union):
      a = self.unwrap(a)
    if isinstance(b, SV) and isinstance(b.sort, Union):
      b = self.unwrap(b)
    if isinstance(a, SV) and isinstance(a.sort, SetOf) and name in ('LtE', 'GtE'):
      bb = self.coerce(b, a.sort)
      return z3.IsSubset(a.t, bb.t) if name == 'LtE' else z3.IsSubset(bb.t, a.t)
    x, y, _ = self.num2(a, b)
    return {'Lt': x.t < y.t, 'LtE': x.t <= y.t, 'Gt': x.t > y.t, 'GtE': x.t >= y.t}[name]


class _ObjCase:
  """A union value known to be built by an object-like constructor (attributes = fields)."""
  def __init__(self, v, ctor):
    self.v, self.ctor = v, ctor


class PathInfeasible(Exception):
  pass
