"""Per-property configuration: sidecar modules, bounded stand-ins, what is not decided."""

COMMON_TB = [
  'pyvc VC generator: the Python-subset semantics of pyvc/{symexec,ops,loops,calls,methods}.py (DESIGN.md 2.3)',
  'z3 5.1.0 (API), cvc5 1.0.3 and z3 4.8.12 (CLI) as provers',
  'python ints are mathematical integers (no overflow: true of CPython)',
]

PROPS = {
  'C14': dict(
    modules=['specs.linen_filters'],
    bounded=[],
    trusted_base=COMMON_TB,
    assumptions=[
      'collection names are modelled as an infinite uninterpreted sort; python sets of names are finite',
      '`x in <str>` (substring test) is an uninterpreted reflexive relation',
      'list/tuple/set filters are abstracted to the set of their members (every use in scope.py is `in`, set(...) or truthiness)',
    ],
    not_decided=[],
  ),
  'C19': dict(
    modules=['specs.linen_meta'],
    bounded=[],
    trusted_base=COMMON_TB,
    assumptions=[
      'axis names are an uninterpreted sort with None as a distinguished value',
      'struct.dataclass replace(): new instance, named fields changed, others equal (assumed summary)',
      'jax.sharding.PartitionSpec(*names) is an uninterpreted constructor applied to the names',
      'add_axis is specified for index >= 0 (negative stacking axes are not claimed)',
    ],
    not_decided=['"Boxed variables compute like their raw arrays" (JAX numerics)'],
  ),
  'C20': dict(
    modules=['specs.jax_utils', 'specs.prefetch_iterator'],
    bounded=[],
    trusted_base=COMMON_TB,
    assumptions=[
      'threading.Condition is a monitor; Thread.start() is the publication point of the object',
      'the conclusion "under every interleaving" for PrefetchIterator is the monitor rule: each critical section is verified from a havocked protected state satisfying the monitor invariant; composition over histories is a paper argument',
      'itertools.islice(it, n) consumed by a for loop takes the next min(n, remaining) items; deque() is a list, popleft = pop(0)',
      'jax.tree_util.tree_map(_prefetch, data) is an uninterpreted per-item function put(data)',
      'np.delete / np.arange / transpose summaries as stated in specs/jax_utils.py',
      'the source iterator is a ghost sequence with an optional failing position',
    ],
    not_decided=['pad_shard_unpad equals the wrapped function on the unpadded batch (numpy/jax reshapes)',
                 'scan_in_dim equals the nested loop (lax.scan); only the transpose permutations are proved mutually inverse',
                 'replicate/unreplicate/shard/stack_forest/onehot (one-line jnp wrappers)',
                 'prefetch_to_device: propagation of a source exception (only exhaustion is modelled)'],
  ),
  'C10': dict(
    modules=['specs.serialization'],
    bounded=[],
    trusted_base=COMMON_TB,
    assumptions=[
      'to_state_dict / from_state_dict on sub-trees are uninterpreted functions sd / fsd inside the handlers (the tree induction is not mechanised)',
      'str() on ints is an injective uninterpreted function',
      'dict comprehensions: last duplicate key wins; distinct keys give one entry per item in iteration order',
      'namedtuples are records (field-name sequence, name->value map); type(xs)(**fields) requires exactly the field names',
      'the legacy {name,fields,values} namedtuple encoding is excluded by precondition',
    ],
    not_decided=['byte-exact array encoding (dtype, layout, msgpack ext types): NumPy/msgpack behaviour',
                 'struct.dataclass and FrozenDict handlers (to be added)'],
  ),
  'C17': dict(
    modules=['specs.train_state', 'specs.metrics'],
    bounded=['bounded.c17_metrics'],
    trusted_base=COMMON_TB,
    assumptions=[
      'optax is opaque: tx.update / tx.init / optax.apply_updates are uninterpreted functions; the contracts are term equalities',
      'struct.dataclass replace(**changes) / cls(**fields): new instance with exactly the named fields changed; **kwargs land in the remaining fields',
      'nnx.state(model, wrt) returns the Variables selected by wrt; nnx.update and _update_opt_state are recorded external effects (their own behaviour is not verified here)',
      'machine arithmetic treated as mathematical: floats are reals, int32 counters are integers (the bounded stand-in exercises float32/int32 on concrete streams)',
      'a batch is observed through its moments: size >= 1, sum, sum of squares; values.mean() = sum/size, values.var() = sumsq/size - mean^2',
      'jax.tree_util.tree_map / jax.tree.map applied to an arbitrary function returns an unconstrained tree',
    ],
    not_decided=['Accuracy.update (argmax / threshold on arrays)', 'MultiMetric dispatch (getattr-based; covered by the bounded stand-in only)',
                 'Optimizer.__init__ / _wrap_optimizer_state (jax.tree.map over Variables)'],
  ),
}
