"""Call dispatch: contracts (modular), closures (inlined), builtins and method summaries,
uninterpreted externals, spec-level functions (forall/exists/implies/old/...)."""
from __future__ import annotations
import ast
import z3
from .sorts import *  # noqa
from .values import *  # noqa
from .ops import PathInfeasible, _ObjCase, zbool
from . import contracts as C
from .symexec import Exec, Env, ReturnEx, RaiseEx, PathEnd, GLOBAL_BINDINGS
from .extract import strip_doc
from .loops import eval_clauses, as_iter


def eval_call(self: Exec, n, env):
  # spec-level binders need the un-evaluated lambda
  if isinstance(n.func, ast.Name) and n.func.id in ('forall', 'exists') and not env.has(n.func.id):
    return quantifier(self, n, env)
  if isinstance(n.func, ast.Name) and n.func.id == 'implies' and not env.has('implies') and len(n.args) == 2:
    # lazy in the consequent: it may be undefined (e.g. call_args of a call that did not happen)
    # when the antecedent is false on this path
    a = self.truthy(self.eval(n.args[0], env))
    sa = z3.simplify(a)
    if z3.is_false(sa) or (not self.bound_vars and not z3.is_true(sa) and not self.feasible(a)):
      return SV(BOOL, z3.BoolVal(True))
    b = self.truthy(self.eval(n.args[1], env))
    return SV(BOOL, z3.Implies(a, b))
  if isinstance(n.func, ast.Name) and n.func.id == 'old' and not env.has('old'):
    if self.old_env is None:
      raise OutsideSubset('old() outside a postcondition')
    saved_store, saved_heap = self.store, self.heap
    merged = self.store.copy() if hasattr(self.store, 'copy') else dict(self.store)
    for k_, v_ in dict.items(self.old_store):
      dict.__setitem__(merged, k_, v_)   # entry values of the boxes that existed at entry; later locals keep their current value
    self.store = merged
    self.heap = self.old_heap if self.old_heap is not None else self.heap
    try:
      e_old = Env(env)  # bound variables of enclosing quantifiers stay visible
      e_old.vars.update(self.old_env.vars)
      return self.eval(n.args[0], e_old)
    finally:
      self.store, self.heap = saved_store, saved_heap
  if isinstance(n.func, ast.Name) and n.func.id == 'acq' and not env.has('acq'):
    # value of an expression in the heap as it was when the monitor was last (re)acquired
    if self.acq_heap is None:
      raise OutsideSubset('acq() without a monitor acquisition on this path')
    saved_heap = self.heap
    self.heap = self.acq_heap
    saved_mode = self.spec_mode
    self.spec_mode = True
    try:
      return self.eval(n.args[0], env)
    finally:
      self.heap = saved_heap
      self.spec_mode = saved_mode
  if (isinstance(n.func, ast.Name) and n.func.id == 'cast' or isinstance(n.func, ast.Attribute) and n.func.attr == 'cast' and self.dotted(n.func) in ('typing.cast', 'tp.cast')) \
      and len(n.args) == 2 and not n.keywords and not env.has('cast'):
    return self.eval(n.args[1], env)      # typing.cast(T, x) is x; the type expression is not evaluated
  f = self.eval(n.func, env)
  args = []
  for a in n.args:
    if isinstance(a, ast.Starred):
      v = self.deref(self.eval(a.value, env))
      if isinstance(v, PyTuple):
        args.extend(v)
      else:
        args.append(('*', v))
    else:
      args.append(self.eval(a, env))
  kwargs = {}
  for kw in n.keywords:
    if kw.arg is None:
      kwargs['**'] = self.eval(kw.value, env)
    else:
      kwargs[kw.arg] = self.eval(kw.value, env)
  return call_value(self, f, args, kwargs, n)


def quantifier(self, n, env):
  kind = n.func.id
  if len(n.args) < 2 or not isinstance(n.args[-1], ast.Lambda):
    raise OutsideSubset(f'{kind}(Sort, ..., lambda x, ...: body) expected')
  lam = n.args[-1]
  sorts = [self.eval(a, env) for a in n.args[:-1]]
  names = [a.arg for a in lam.args.args]
  if len(names) != len(sorts) or not all(isinstance(s, Sort) for s in sorts):
    raise OutsideSubset(f'{kind}: one sort per bound variable')
  e = Env(env)
  bvs = []
  guards = []
  for nm, s in zip(names, sorts):
    c = z3.Const(fresh_name(nm), s.z3())  # a genuine bound variable (never a skolem term)
    bvs.append(c)
    e.set(nm, SV(s, c))
    guards.extend(s.wf(c))
  saved = self.spec_mode
  self.spec_mode = True
  self.push_binders(bvs)
  try:
    body = self.truthy(self.eval(lam.body, e))
  finally:
    self.pop_binders(len(bvs))
    self.spec_mode = saved
  pats = []
  for kw in n.keywords:
    if kw.arg == 'pattern':
      raise OutsideSubset('explicit patterns not supported; restructure the clause')
  if kind == 'forall':
    q = z3.ForAll(bvs, z3.Implies(z3.And(*guards), body) if guards else body)
  else:
    q = z3.Exists(bvs, z3.And(*guards, body) if guards else body)
  return SV(BOOL, q)


def call_value(self: Exec, f, args, kwargs, node=None):
  if any(isinstance(a, tuple) and not isinstance(a, PyTuple) and a and a[0] == '*' for a in args):
    custom_method = isinstance(f, BoundMethod) and isinstance(self.deref(f.recv), SV) and f.name in (getattr(self.deref(f.recv).sort, 'methods', None) or {})
    if not isinstance(f, (Handler,)) and not custom_method and not (isinstance(f, SV) and getattr(f.sort, 'call_hook', None)):
      raise OutsideSubset('call with *args of symbolic length')
  if isinstance(f, Closure):
    return call_closure(self, f, args, kwargs)
  if isinstance(f, C.FnSpec):
    return apply_contract(self, f, args, kwargs)
  if isinstance(f, C.SpecFn):
    return apply_specfn(self, f, args)
  if isinstance(f, UFn):
    return apply_ufn(self, f, args, kwargs)
  if isinstance(f, CtorFn):
    U = f.union
    c = U.ctors[f.ctor]
    if len(args) != len(c.fields):
      raise OutsideSubset(f'{f.ctor}: arity')
    ts = [self.coerce(a, U.field_sort(c.name, fn)).t for a, (fn, _) in zip(args, c.fields)]
    return SV(U, U.mk(c.name, *ts))
  if isinstance(f, Inline):
    from .extract import find_function
    fnode, _, _ = find_function(*f.target.split('::'))
    self.used_externals.add('inlined: ' + f.target)
    return call_closure(self, Closure(fnode, Env(None), f.target.split('::')[1]), args, kwargs)
  if isinstance(f, Effect):
    if kwargs or len(args) != len(f.argsorts):
      raise OutsideSubset(f'{f.name}: call shape differs from the recorded-effect signature')
    vals = PyTuple(self.coerce(self.escape(a), s) for a, s in zip(args, f.argsorts))
    self.ghost.setdefault('calls:' + f.name, []).append(vals)
    self.ghost['order:%s:%d' % (f.name, len(self.ghost['calls:' + f.name]) - 1)] = self.ghost.get('effect_counter', 0)
    self.ghost['effect_counter'] = self.ghost.get('effect_counter', 0) + 1
    self.used_externals.add(f.name)
    return self.fresh(f.ret, 'r_' + f.name) if f.ret is not None else NONEV
  if isinstance(f, Skip):
    self.skipped.add(f.name)
    return NONEV
  if isinstance(f, Handler):
    return f.fn(self, args, kwargs)
  if isinstance(f, BoundMethod):
    from .heap import MonitorHandle
    if isinstance(f.recv, MonitorHandle):
      return self.monitor_method(f.recv, f.name, args, kwargs)
    from .methods import call_method
    return call_method(self, f.recv, f.name, args, kwargs)
  if isinstance(f, TypeTag):
    # calling a class: exceptions only
    return ExcVal(f, args)
  if isinstance(f, SV) and getattr(f.sort, 'call_hook', None):
    return f.sort.call_hook(self, f, args, kwargs)
  if isinstance(f, SV) and isinstance(f.sort, Union) and not self.spec_mode:
    inner = self.unwrap(f)
    if inner is not f and isinstance(inner, SV):
      return call_value(self, inner, args, kwargs, node)
  if isinstance(f, SV) and isinstance(f.sort, FuncSort):
    return apply_funcval(self, f, args)
  if isinstance(f, SV) and getattr(f.sort, 'pytypes', None):
    # calling an instance: <Class>.__call__ from the sidecar bindings
    for cls in f.sort.pytypes:
      key = f'{cls}.__call__'
      if key in self.spec.bindings:
        self.used_externals.add(key)
        return call_value(self, self.spec.bindings[key], [f] + list(args), kwargs, node)
    if getattr(f.sort, 'call_hook', None):
      return f.sort.call_hook(self, f, args, kwargs)
  if isinstance(f, Sort):
    raise OutsideSubset('a sort is not callable')
  raise OutsideSubset(f'call of {f!r} (line {getattr(node, "lineno", "?")})')


def apply_ufn(self, f: UFn, args, kwargs):
  if kwargs:
    raise OutsideSubset(f'keyword arguments to uninterpreted {f.name}')
  if len(args) != len(f.argsorts):
    raise OutsideSubset(f'{f.name}: arity {len(args)} vs {len(f.argsorts)}')
  ts = [self.coerce(self.escape(a) if isinstance(a, Box) and not self.spec_mode else a, s).t for a, s in zip(args, f.argsorts)]
  self.used_externals.add(f.name)
  r = SV(f.ret, f.decl()(*ts))
  return r


def apply_funcval(self, f: SV, args):
  fs = f.sort
  if len(args) != len(fs.args):
    raise OutsideSubset(f'call of function value: arity')
  app = z3.Function('apply!' + fs.name, fs.z3(), *[s.z3() for s in fs.args], fs.ret.z3())
  ts = [self.coerce(a, s).t for a, s in zip(args, fs.args)]
  return SV(fs.ret, app(f.t, *ts))


def define_specfn(self: Exec, sf: C.SpecFn):
  if sf.name in self._defined_specfns:
    return self._defined_specfns[sf.name]
  decl = z3.Function(sf.name, *[s.z3() for s in sf.argsorts], sf.ret.z3())
  self._defined_specfns[sf.name] = decl
  consts = [z3.Const(fresh_name(p), s.z3()) for p, s in zip(sf.params, sf.argsorts)]
  e = Env(None)
  for p, s, c in zip(sf.params, sf.argsorts, consts):
    e.set(p, SV(s, c))
  saved = self.spec_mode
  self.spec_mode = True
  saved_pc = self.pc
  self.pc = []
  saved_bv = list(self.bound_vars)
  from . import sorts as _s
  saved_B = list(_s.BINDERS)
  del self.bound_vars[:]
  del _s.BINDERS[:]
  self.push_binders(consts)
  try:
    body = self.coerce(self.eval(sf.body, e), sf.ret)
    side = list(self.pc)  # defining axioms of derived values created while evaluating the body (closed over the parameters)
    extra = [self.truthy(self.eval(ast.parse(a, mode='eval').body, e)) for a in sf.axioms]
  finally:
    self.pop_binders(len(consts))
    self.bound_vars.extend(saved_bv)
    _s.BINDERS.extend(saved_B)
    self.pc = saved_pc
    self.spec_mode = saved
  self.axioms.extend(side)
  app = decl(*consts)
  # alternative triggers: recursive applications and selects in the body that mention every
  # bound variable let a fact about a sub-structure unfold the definition "upwards" as well
  alts = []
  want = {c.get_id() for c in consts}

  def fv(e, acc):
    if z3.is_var(e):
      acc.add('inner-bound')  # mentions a variable of a nested quantifier: not usable as a trigger
    if z3.is_const(e) and e.get_id() in want:
      acc.add(e.get_id())
    for ch in e.children():
      fv(ch, acc)
    return acc
  seen = set()

  def walk(e):
    if e.get_id() in seen:
      return
    seen.add(e.get_id())
    if z3.is_quantifier(e):
      return
    if z3.is_app(e) and e.num_args() > 0 and (e.decl().kind() == z3.Z3_OP_UNINTERPRETED or e.decl().kind() == z3.Z3_OP_SELECT):
      if fv(e, set()) == want and not z3.eq(e, app):
        alts.append(e)
    for ch in e.children():
      walk(ch)
  walk(body.t)
  self.axioms.append(z3.ForAll(consts, app == body.t, patterns=[app] + alts[:6]))
  for x in extra:
    self.axioms.append(z3.ForAll(consts, x, patterns=[app]))
  return decl


def apply_specfn(self, sf, args):
  decl = define_specfn(self, sf)
  ts = [self.coerce(a, s).t for a, s in zip(args, sf.argsorts)]
  return SV(sf.ret, decl(*ts))


# ---- closures ------------------------------------------------------------------------------
def bind_params(self, fnode_args, args, kwargs, env, defaults_env):
  a = fnode_args
  names = [x.arg for x in a.posonlyargs + a.args]
  defaults = [None] * (len(names) - len(a.defaults)) + list(a.defaults)
  args = list(args)
  for i, nm in enumerate(names):
    if i < len(args):
      env.set(nm, args[i])
    elif nm in kwargs:
      env.set(nm, kwargs.pop(nm))
    elif defaults[i] is not None:
      env.set(nm, self.eval(defaults[i], defaults_env))
    else:
      raise OutsideSubset(f'missing argument {nm}')
  if len(args) > len(names):
    if a.vararg is None:
      raise OutsideSubset('too many positional arguments')
    env.set(a.vararg.arg, PyTuple(args[len(names):]))
  elif a.vararg is not None:
    env.set(a.vararg.arg, PyTuple(()))
  for x, d in zip(a.kwonlyargs, a.kw_defaults):
    if x.arg in kwargs:
      env.set(x.arg, kwargs.pop(x.arg))
    elif d is not None:
      env.set(x.arg, self.eval(d, defaults_env))
    else:
      raise OutsideSubset(f'missing keyword-only argument {x.arg}')
  if kwargs:
    if a.kwarg is None:
      raise OutsideSubset(f'unexpected keyword arguments {list(kwargs)}')
    raise OutsideSubset('**kwargs parameter')


def call_closure(self: Exec, f: Closure, args, kwargs):
  if f.spec is not None:
    return apply_contract(self, f.spec, args, kwargs)
  if self.call_depth > 12:
    raise OutsideSubset(f'recursive closure {f.qualname} without a contract')
  env = Env(f.env)
  bind_params(self, f.node.args, args, dict(kwargs), env, f.env)
  if isinstance(f.node, ast.Lambda):
    return self.eval(f.node.body, env)
  self.call_depth += 1
  try:
    self.exec_block(strip_doc(f.node.body), env)
  except ReturnEx as r:
    return r.v
  finally:
    self.call_depth -= 1
  return NONEV


# ---- contracts at call sites ---------------------------------------------------------------
def apply_contract(self: Exec, sp: C.FnSpec, args, kwargs):
  """Modular call: check the callee's precondition, havoc, assume its postcondition."""
  names = [p for p, _ in sp.params]
  vals = {}
  args = list(args)
  va = getattr(sp, 'vararg', None)
  if va is not None:
    fixed = names.index(va)
    args = args[:fixed] + [PyTuple(args[fixed:])]
  if len(args) > len(names):
    raise OutsideSubset(f'{sp.short}: too many arguments')
  for (p, s), a in zip(sp.params, args):
    vals[p] = a
  for k, v in kwargs.items():
    if k not in names or k in vals:
      raise OutsideSubset(f'{sp.short}: bad keyword {k}')
    vals[k] = v
  for p, s in sp.params:
    if p not in vals:
      d = (getattr(sp, 'defaults', None) or {}).get(p, None)
      if d is None:
        raise OutsideSubset(f'{sp.short}: missing argument {p} (no default declared in the contract)')
      vals[p] = d
  env = Env(None)
  boxes = {}
  for p, s in sp.params:
    v = vals[p]
    if isinstance(v, Box):
      boxes[p] = v
    env.set(p, self.coerce(v, s))
  for p, s in sp.free:
    # free variables (module globals / closure cells): the caller's variable of the same name
    try:
      v = self._cur_env.lookup(p)
    except Exception:
      raise OutsideSubset(f'call of {sp.short}: its free variable {p} is not a variable of the caller')
    if isinstance(v, Box):
      boxes[p] = v
    env.set(p, self.coerce(v, s))
  tag = sp.short
  for i, g in enumerate(eval_clauses(self, sp.requires, env, {})):
    self.oblige(g, f'pre:{tag}[{i}]')
    self.assume(g)
  if sp.group and sp.group == self.spec.group and sp.decreases and self.spec.decreases:
    callee_m = self.coerce(self.eval_spec_value(sp.decreases, env), INT).t
    self.oblige(z3.And(callee_m >= 0, callee_m < self._entry_measure), f'decreases:{tag}')
  # exceptional outcomes
  if (sp.raises or sp.raises_any) and self.bound_vars:
    # under binders (comprehension elements) a path cannot fork per element: the callee's raise
    # conditions are ASSUMED false here; the enclosing contract's precondition must exclude them
    for exn, cond in sp.raises.items():
      self.assume(z3.Not(self.eval_spec(cond, env)))
    self.notes.append(f'{sp.short} called under a binder: its raise conditions are assumed false (must follow from the precondition)')
  elif sp.raises or sp.raises_any:
    opts = []
    conds = {}
    for exn, cond in sp.raises.items():
      c = self.eval_spec(cond, env)
      conds[exn] = c
      opts.append((f'raise:{exn}', c))
    none = z3.And(*[z3.Not(c) for c in conds.values()]) if conds else None
    opts.append(('ret', none))
    for exn in sp.raises_any:
      opts.append((f'raise:{exn}', None))
    got = self.choose(opts, f'call:{tag}')
    if got != 'ret':
      exn = got.split(':', 1)[1]
      raise RaiseEx(ExcVal(self.exc_tag(exn)))
  # havoc mutated parameters
  old_env = Env(None)
  for p, s in list(sp.params) + list(sp.free):
    old_env.set(p, env.lookup(p))
  for p in sp.assigns:
    s = dict(list(sp.params) + list(sp.free))[p]
    nv = self.fresh(s, p + "'")
    env.set(p, nv)
    if p in boxes:
      self.mutate(boxes[p], nv)
    else:
      raise OutsideSubset(f'{sp.short} mutates argument {p} which is not a local container here')
  heap_before = dict(self.heap)
  self.havoc_modifies(sp, env)
  if sp.returns is not None:
    res = self.fresh(sp.returns, 'r_' + tag)
  else:
    res = NONEV
  env.set('result', res)
  saved_old, saved_old_store, saved_old_heap = self.old_env, self.old_store, self.old_heap
  self.old_env, self.old_store, self.old_heap = old_env, self.store, heap_before
  try:
    for g in eval_clauses(self, sp.ensures, env, {}):
      self.assume(g)
  finally:
    self.old_env, self.old_store, self.old_heap = saved_old, saved_old_store, saved_old_heap
  if sp.returns is not None and sp.returns.mutable and not self.spec_mode and not isinstance(sp.returns, TupleOf):
    return self.new_box(res)
  return res


def exc_tag(self, name):
  try:
    t = self.lookup_global(name)
    if isinstance(t, TypeTag):
      return t
  except KeyError:
    pass
  for k, v in list(self.spec.bindings.items()) + list(GLOBAL_BINDINGS.items()):
    if isinstance(v, TypeTag) and (v.name == name or k.split('.')[-1] == name):
      return v
  return TypeTag(name, (TypeTag('Exception'),))


def enter_context(self, cm):
  from .heap import MonitorHandle
  if isinstance(cm, MonitorHandle):
    self.monitor_enter(cm.owner)

    def on_exit(cm=cm):
      self.monitor_exit(cm.owner, 'exit')
      self.check_transitions(cm.owner, 'exit')
    return NONEV, on_exit
  if isinstance(cm, SV) and getattr(cm.sort, 'context_hook', None):
    return cm.sort.context_hook(self, cm)
  if isinstance(cm, Handler):
    return cm.fn(self, [], {})
  if isinstance(cm, tuple) and len(cm) == 2 and callable(cm[1]):
    return cm
  raise OutsideSubset(f'with-statement over {cm!r}')


Exec.exc_tag = exc_tag
Exec.call_value = call_value
Exec.apply_contract = apply_contract
