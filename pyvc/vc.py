"""Public surface for sidecar modules."""
from .sorts import ANY
from .sorts import (INT, NAT, BOOL, REAL, STR, NONE, Opaque, SeqOf, SetOf, MapOf, Ctor,
                    Union as _Union, Opt as _Opt,
                    TupleOf, FuncSort, ADTVal, Sort, OutsideSubset)
from .values import GlobalVar, Inline, Effect, TypeTag, CtorFn, UFn, Skip, Handler, SV, PyTuple, Lit, NONEV, IterView, Namespace
from .contracts import function, spec, lemma, custom, REGISTRY, SPECFNS, LEMMAS
from .symexec import register_opaque, _ALL_UNIONS


def Union(*a, **kw):
  u = _Union(*a, **kw)
  _ALL_UNIONS.append(u)
  return u


def Opt(*a, **kw):
  u = _Opt(*a, **kw)
  _ALL_UNIONS.append(u)
  return u


def opaque(name, universe=None, **kw):
  return register_opaque(Opaque(name, universe, **kw))


def is_(x, ctor):
  """native reading of the spec-level constructor test"""
  return x.ctor == ctor


def implies(a, b):
  return (not a) or b


def iff(a, b):
  return bool(a) == bool(b)
from . import loops, calls, methods, heap  # noqa: F401,E402  (populate the builtin summaries)
