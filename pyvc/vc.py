"""Public surface for sidecar modules."""
from .sorts import ANY
from .sorts import (INT, NAT, BOOL, REAL, STR, NONE, Opaque, SeqOf, SetOf, MapOf, Ctor,
                    Union as _Union, Opt as _Opt,
                    TupleOf, FuncSort, ADTVal, Sort, OutsideSubset)
from .values import GlobalVar, Inline, Effect, TypeTag, CtorFn, UFn, Skip, Handler, SV, PyTuple, Lit, NONEV, IterView, Namespace
from .contracts import function, spec, lemma, custom, REGISTRY, SPECFNS, LEMMAS
from .symexec import register_opaque, _ALL_UNIONS


def Union(*a, **kw):
  u = _Union(*a, **kw)
  _ALL_UNIONS.append(u)
  return u


def Opt(*a, **kw):
  u = _Opt(*a, **kw)
  _ALL_UNIONS.append(u)
  return u


def opaque(name, universe=None, **kw):
  return register_opaque(Opaque(name, universe, **kw))


def is_(x, ctor):
  """native reading of the spec-level constructor test"""
  return x.ctor == ctor


def implies(a, b):
  return (not a) or b


def iff(a, b):
  return bool(a) == bool(b)
from . import loops, calls, methods, heap  # noqa: F401,E402  (populate the builtin summaries)


def bind_call(names, a, kw, defaults=None):
  """Bind positional and keyword arguments of a recorded call to the callee's parameter names (the way Python would), so
  that a contract compares WHAT reaches each parameter, not how the call site spells it. Returns (bound, ok): ok is False
  for surplus positionals, unknown or doubly-given names; starred arguments are returned under '*' / '**'."""
  from .values import PyTuple as _PT
  star = lambda x: isinstance(x, tuple) and not isinstance(x, _PT) and len(x) == 2 and x[0] == '*'
  bound, ok = {}, True
  pos = [x for x in a if not star(x)]
  stars = [x[1] for x in a if star(x)]
  if len(pos) > len(names) and not stars:
    ok = False
  for n, v in zip(names, pos):
    bound[n] = v
  if len(pos) > len(names):
    bound['*extra'] = pos[len(names):]
  if stars:
    bound['*'] = stars[0] if len(stars) == 1 else stars
    ok = ok and len(stars) == 1
  for k, v in kw.items():
    if k == '**':
      bound['**'] = v
    elif k in bound or k not in names:
      ok = False
    else:
      bound[k] = v
  for k, v in (defaults or {}).items():
    bound.setdefault(k, v)
  return bound, ok
