"""Loops (cut by invariants), comprehensions, try/with: mixin for Exec."""
from __future__ import annotations
import ast
import z3
from .sorts import *  # noqa
from .values import *  # noqa
from .ops import PathInfeasible, zbool
from .symexec import (Exec, Env, ReturnEx, BreakEx, ContinueEx, RaiseEx, PathEnd, assigned_names)


def as_iter(self, v):
  """-> IterView for anything iterable in the subset."""
  v = self.deref(v)
  if isinstance(v, IterView):
    return v
  if isinstance(v, SV) and getattr(v.sort, 'iter_hook', None):
    return v.sort.iter_hook(self, v)
  if isinstance(v, SV) and isinstance(v.sort, Union):
    v = self.unwrap(v)
  if isinstance(v, PyTuple):
    items = list(v)
    n = len(items)

    def at(k, items=items):
      ks = z3.simplify(k) if not isinstance(k, int) else k
      if isinstance(ks, int):
        return items[ks]
      if z3.is_int_value(ks):
        return items[ks.as_long()]
      raise OutsideSubset('symbolic index into a static tuple during iteration')
    iv = IterView(z3.IntVal(n), at)
    iv.static = items
    return iv
  if isinstance(v, SV):
    s = v.sort
    if isinstance(s, SeqOf):
      return IterView(s.len(v.t), lambda k: SV(s.elem, s.get(v.t, k)), s.elem)
    if isinstance(s, MapOf):
      for f in s.keys_wf(v.t):
        if not any(z3.eq(f, g) for g in self.pc[-8:]):
          self.assume(f)
      ks = s.keys(v.t)
      return IterView(s.keyseq.len(ks), lambda k: SV(s.key, s.keyseq.get(ks, k)), s.key)
    if isinstance(s, SetOf):
      # arbitrary but fixed enumeration order of a finite set
      q = SeqOf(s.elem)
      seq = q.const('setorder')
      i, j = z3.Int(fresh_name('i')), z3.Int(fresh_name('j'))
      e = z3.Const(fresh_name('e'), s.elem.z3())
      idx = z3.Function(fresh_name('idx'), s.elem.z3(), z3.IntSort())
      inr = lambda x: z3.And(x >= 0, x < q.len(seq))
      self.assume(q.len(seq) >= 0)
      self.assume(qforall([i], z3.Implies(inr(i), z3.Select(v.t, q.get(seq, i))), patterns=[q.get(seq, i)]))
      self.assume(qforall([e], z3.Implies(z3.Select(v.t, e), z3.And(inr(idx(e)), q.get(seq, idx(e)) == e)), patterns=[z3.Select(v.t, e)]))
      self.assume(qforall([i, j], z3.Implies(z3.And(inr(i), inr(j), q.get(seq, i) == q.get(seq, j)), i == j),
                            patterns=[z3.MultiPattern(q.get(seq, i), q.get(seq, j))]))
      return IterView(q.len(seq), lambda k: SV(s.elem, q.get(seq, k)), s.elem)
  raise OutsideSubset(f'iteration over {v!r}')


def loop_id(self, node):
  """Ordinal of a loop within the verified function (pre-order in the source)."""
  return self.loop_ids[id(node)]


def number_loops(self, fnode):
  k = 0
  for n in ast.walk(fnode):
    pass
  # pre-order, source order
  def visit(n):
    nonlocal k
    for ch in ast.iter_child_nodes(n):
      if isinstance(ch, (ast.For, ast.While)):
        self.loop_ids[id(ch)] = k
        k += 1
      visit(ch)
  visit(fnode)


def eval_clauses(self, clauses, env, extra):
  """Evaluate contract clause strings in spec mode -> list of z3 Bool."""
  out = []
  e = Env(env)
  for k, v in extra.items():
    e.set(k, v)
  for cl in clauses:
    out.append(self.eval_spec(cl, e))
  return out


def eval_spec(self, text, env):
  node = ast.parse(text.strip(), mode='eval').body
  saved = self.spec_mode
  self.spec_mode = True
  try:
    v = self.eval(node, env)
    return self.truthy(v)
  finally:
    self.spec_mode = saved


def eval_spec_value(self, text, env):
  node = ast.parse(text.strip(), mode='eval').body
  saved = self.spec_mode
  self.spec_mode = True
  try:
    return self.eval(node, env)
  finally:
    self.spec_mode = saved


def ghost_written(self, body):
  """ghost state boxes written by summaries called in `body` (spec.ghost_writers: callee name -> box name)"""
  gw = getattr(self.spec, 'ghost_writers', None) or {}
  out = set()
  if gw:
    for st in body:
      for n in ast.walk(st):
        if isinstance(n, ast.Call):
          nm = n.func.id if isinstance(n.func, ast.Name) else (n.func.attr if isinstance(n.func, ast.Attribute) else None)
          if nm in gw:
            out.add(gw[nm])
  return out


def havoc(self, names, env):
  for nm in sorted(names):
    try:
      cur = env.lookup(nm)
    except KeyError:
      continue  # first bound inside the loop: a temporary
    if isinstance(cur, Box):
      if cur.ident in self.escaped:
        raise OutsideSubset('loop mutates an escaped container')
      old = self.store[cur.ident]
      self.store[cur.ident] = self.fresh(old.sort, nm)
    elif isinstance(cur, SV):
      if getattr(cur.sort, 'fields', None) is not None:
        continue  # object reference: fields are havocked through modifies
      env.set_nonlocal(nm, self.fresh(cur.sort, nm))
    elif isinstance(cur, (bool, int, float)):
      env.set_nonlocal(nm, self.fresh(BOOL if isinstance(cur, bool) else INT if isinstance(cur, int) else REAL, nm))
    elif isinstance(cur, PyTuple):
      env.set_nonlocal(nm, PyTuple(self.fresh(self.sort_of(x), nm) if self.sort_of(x) is not None else x for x in cur))
    elif cur is NONEV or isinstance(cur, Lit):
      hint = (getattr(self.spec, 'locals', None) or {}).get(nm)
      if hint is None:
        raise OutsideSubset(f'loop-modified variable {nm!r} holds {cur!r} before the loop: give its sort in locals=')
      env.set_nonlocal(nm, self.fresh(hint, nm))
    elif isinstance(cur, IterView):
      if cur.elem_sort is None:
        raise OutsideSubset(f'loop-modified iterable {nm!r} of unknown element sort')
      env.set_nonlocal(nm, self.fresh(SeqOf(cur.elem_sort), nm))
    else:
      raise OutsideSubset(f'cannot havoc loop-modified variable {nm!r} = {cur!r}')


def pre_snapshot(self, names, env):
  """ghost `_pre_<name>`: value of a loop-modified variable at loop entry"""
  out = {}
  for nm in names:
    try:
      cur = env.lookup(nm)
    except KeyError:
      continue
    v = self.deref(cur)
    if isinstance(v, (SV, PyTuple, bool, int, float)):
      out['_pre_' + nm.lstrip('_')] = v
  return out


def add_hints(self, hints, env, extra):
  """instantiation hints: ground terms offered to e-matching through a fresh uninterpreted predicate"""
  from .symexec import Env as _Env
  e = _Env(env)
  for k, v in extra.items():
    e.set(k, v)
  for h in hints:
    try:
      hv = self.lift(self.eval_spec_value(h, e))
    except OutsideSubset:
      continue
    hp = z3.Function('hint!' + hv.sort.name, hv.sort.z3(), z3.BoolSort())
    self.assume(hp(hv.t))


def bind_target(self, tg, v, env):
  self.assign(tg, v, env)


def s_For(self, st, env):
  it = as_iter(self, self.eval(st.iter, env))
  lid = loop_id(self, st)
  invs = self.spec.invariants.get(lid)
  static = getattr(it, 'static', None)
  if invs is None and static is not None:
    # statically known number of iterations: unroll (no invariant needed)
    broke = False
    for x in static:
      bind_target(self, st.target, x, env)
      try:
        self.exec_block(st.body, env)
      except ContinueEx:
        continue
      except BreakEx:
        broke = True
        break
    if not broke:
      self.exec_block(st.orelse, env)
    return
  if invs is None:
    raise OutsideSubset(f'loop #{lid} (line {st.lineno}) has no invariant in the sidecar')
  seqv = None
  n = it.length
  mod = assigned_names(st.body) | assigned_names([ast.Expr(st.target)]) | target_names(st.target) | ghost_written(self, st.body)
  mod |= set(self.spec.loop_modifies.get(lid, ())) if getattr(self.spec, 'loop_modifies', None) else set()
  ghost = {'_k': SV(INT, z3.IntVal(0)), f'_k{lid}': SV(INT, z3.IntVal(0)), '_n': SV(INT, n), f'_n{lid}': SV(INT, n)}
  at = it.at
  ghost['_at'] = ghost[f'_at{lid}'] = Handler('_at', lambda ex, a, kw, at=at: at(ex.coerce(a[0], INT).t))
  ghost.update(pre_snapshot(self, mod, env))
  for i, g in enumerate(eval_clauses(self, invs, env, ghost)):
    self.oblige(g, f'inv-init[{lid}.{i}]')
  which = self.choose([('iter', n > 0), ('exit', None)], f'loop{lid}')
  ghost.update(pre_snapshot(self, mod, env))
  havoc(self, mod - target_names(st.target), env)
  for key, f in self.frame_formulas():
    self.oblige(f, f'inv-init[{lid}.frame.{key[0]}.{key[1]}]')
  self._cur_loop = lid
  hkeys = self.havoc_heap(st.body)
  for key, f in self.frame_formulas(hkeys):
    self.assume(f)  # auto-frame invariant: cells outside the function's modifies set keep their entry value
  if which == 'iter':
    k = z3.Int(fresh_name('k'))
    self.assume(z3.And(k >= 0, k < n))
    ghost.update({'_k': SV(INT, k), f'_k{lid}': SV(INT, k)})
    for g in eval_clauses(self, invs, env, ghost):
      self.assume(g)
    bind_target(self, st.target, it.at(k), env)
    try:
      self.exec_block(st.body, env)
    except ContinueEx:
      pass
    except BreakEx:
      return  # continue after the loop, skipping orelse, with the state at the break
    ghost.update({'_k': SV(INT, k + 1), f'_k{lid}': SV(INT, k + 1)})
    add_hints(self, (getattr(self.spec, 'inv_hints', None) or {}).get(lid, ()), env, ghost)
    for i, g in enumerate(eval_clauses(self, invs, env, ghost)):
      self.oblige(g, f'inv-step[{lid}.{i}]')
    for key, f in self.frame_formulas(hkeys):
      self.oblige(f, f'inv-step[{lid}.frame.{key[0]}.{key[1]}]')
    raise PathEnd()
  ghost.update({'_k': SV(INT, n), f'_k{lid}': SV(INT, n)})
  for g in eval_clauses(self, invs, env, ghost):
    self.assume(g)
  if getattr(it, 'on_exhaust', None) is not None:
    it.on_exhaust(self)      # may raise: the source failed where it would otherwise have produced the next item / stopped
  # after exhaustion the loop variable keeps its last value (if any); it is left unconstrained
  self.exec_block(st.orelse, env)


def target_names(tg):
  return {n.id for n in ast.walk(tg) if isinstance(n, ast.Name)}


def s_While(self, st, env):
  lid = loop_id(self, st)
  invs = self.spec.invariants.get(lid)
  if invs is None:
    raise OutsideSubset(f'while loop #{lid} (line {st.lineno}) has no invariant in the sidecar')
  dec = self.spec.while_decreases.get(lid)
  mod = assigned_names(st.body) | ghost_written(self, st.body)
  ghost = {}
  ghost.update(pre_snapshot(self, mod, env))
  for i, g in enumerate(eval_clauses(self, invs, env, ghost)):
    self.oblige(g, f'inv-init[{lid}.{i}]')
  havoc(self, mod, env)
  for key, f in self.frame_formulas():
    self.oblige(f, f'inv-init[{lid}.frame.{key[0]}.{key[1]}]')
  hkeys = self.havoc_heap(st.body)
  for key, f in self.frame_formulas(hkeys):
    self.assume(f)
  for g in eval_clauses(self, invs, env, ghost):
    self.assume(g)
  c = self.truthy(self.eval(st.test, env))
  if self.decide(c, f'while{lid}'):
    d0 = self.coerce(eval_spec_value(self, dec, env), INT).t if dec else None
    try:
      self.exec_block(st.body, env)
    except ContinueEx:
      pass
    except BreakEx:
      return
    for i, g in enumerate(eval_clauses(self, invs, env, ghost)):
      self.oblige(g, f'inv-step[{lid}.{i}]')
    for key, f in self.frame_formulas(hkeys):
      self.oblige(f, f'inv-step[{lid}.frame.{key[0]}.{key[1]}]')
    if dec:
      d1 = self.coerce(eval_spec_value(self, dec, env), INT).t
      self.oblige(z3.And(d0 >= 0, d1 < d0), f'decreases[{lid}]')
    else:
      self.notes.append(f'while loop #{lid}: termination not verified (no decreases clause)')
    raise PathEnd()
  self.exec_block(st.orelse, env)


def comprehension(self, n, env, kind):
  """[f(x) for x in it] / {..} / {k: v for ..}: the element expression is evaluated once, in
  spec mode, on a universally quantified index."""
  if len(n.generators) != 1:
    raise OutsideSubset('nested comprehension generators')
  g = n.generators[0]
  it = as_iter(self, self.eval(g.iter, env))
  static = getattr(it, 'static', None)
  if static is not None and not self.spec_mode:
    outs = []
    for x in static:
      e = Env(env)
      self.assign(g.target, x, e)
      if all(self.decide(self.truthy(self.eval(c, e)), 'cif') for c in g.ifs):
        outs.append((self.eval(n.key, e), self.eval(n.value, e)) if kind == 'dict' else self.eval(n.elt, e))
    if kind in ('list', 'tuple'):
      if kind == 'tuple':
        return PyTuple(outs)
      hint = self.type_hint(n)
      if hint is None and outs and self.sort_of(outs[0]) is not None:
        hint = SeqOf(self.sort_of(outs[0]))
      if hint is None:
        return PyTuple(outs)
      return self.new_box(self.seq_from_items(outs, hint.elem))
    if kind == 'set':
      hint = self.type_hint(n) or SetOf(self.sort_of(outs[0]))
      if isinstance(hint, SeqOf):
        hint = SetOf(hint.elem)      # {..} written inside tuple(...) / list(...): the hint names the enclosing sequence
      t = hint.empty()
      for x in outs:
        t = z3.Store(t, self.coerce(x, hint.elem).t, True)
      return self.new_box(SV(hint, t))
    if kind == 'dict':
      hint = self.type_hint(n)
      if hint is None:
        raise OutsideSubset('dict comprehension without sort hint')
      m = self.empty_map(hint)
      for k, v in outs:
        m = self.map_set(m, k, v)
      return self.new_box(m)
  k = z3.Int(fresh_name('ci'))
  e = Env(env)
  saved = self.spec_mode
  self.spec_mode = True
  self.push_binders([k])
  # phase 1 (under the binder k): evaluate the element / key / value / condition expressions
  try:
    self.assign(g.target, it.at(k), e)
    conds = [self.truthy(self.eval(c, e)) for c in g.ifs]
    hint = self.type_hint(n)
    if kind == 'set' and isinstance(hint, SeqOf):
      hint = SetOf(hint.elem)      # {..} written inside tuple(...) / list(...): the hint names the enclosing sequence
    saved_hint = getattr(self, '_hint', None)
    # literals inside the element ([] / {}) take the element sort of the comprehension's hint
    self._hint = getattr(hint, 'elem', None) if hint is not None and kind in ('list', 'tuple', 'set') else None
    try:
      if kind == 'dict':
        key_v, val_v = self.eval(n.key, e), self.eval(n.value, e)
        el_v = None
      else:
        el_v = self.eval(n.elt, e)
    finally:
      self._hint = saved_hint
    if kind in ('list', 'tuple', 'set') :
      if hint is None:
        s0 = self.sort_of(el_v)
        if s0 is None and getattr(self.spec, 'comp_elem_hint', None) is not None:
          s0 = self.spec.comp_elem_hint   # e.g. a record sort for comprehensions that build tuples
        if s0 is None:
          raise OutsideSubset('comprehension element of unknown sort')
        hint = SeqOf(s0) if kind in ('list', 'tuple') else SetOf(s0)
      el = self.coerce(el_v, hint.elem)
    elif kind == 'dict':
      if hint is None or not isinstance(hint, MapOf):
        # the target's model is not a map (e.g. an object the dict becomes): build the dict value first
        hint = getattr(self.spec, 'dict_hint', None)
      if hint is None:
        raise OutsideSubset('dict comprehension without sort hint')
      kk = self.coerce(key_v, hint.key)
      vv = self.coerce(val_v, hint.val)
    else:
      el_t = self.truthy(el_v)
  finally:
    self.pop_binders(1)
    self.spec_mode = saved
  # phase 2 (outside the binder): define the result
  inr = z3.And(k >= 0, k < it.length)
  if kind in ('list', 'tuple') and conds:
    # order-preserving filter: r[j] = el(idx(j)) with idx strictly increasing over exactly the
    # positions that pass the conditions
    r = hint.const('filt')
    idx = z3.Function(fresh_name('fidx'), z3.IntSort(), z3.IntSort())
    pos = z3.Function(fresh_name('fpos'), z3.IntSort(), z3.IntSort())
    j, j2 = z3.Int(fresh_name('j')), z3.Int(fresh_name('j2'))
    cond = z3.And(inr, *conds)
    inj = z3.And(j >= 0, j < hint.len(r))
    self.assume(hint.len(r) >= 0)
    self.assume(hint.len(r) <= it.length)
    body_at = lambda t: z3.substitute(z3.And(cond, hint.get(r, j) == el.t), (k, t))
    self.assume(qforall([j], z3.Implies(inj, z3.And(body_at(idx(j)), pos(idx(j)) == j)), patterns=[hint.get(r, j)]))
    self.assume(qforall([j, j2], z3.Implies(z3.And(inj, j2 >= 0, j2 < hint.len(r), j < j2), idx(j) < idx(j2)),
                        patterns=[z3.MultiPattern(idx(j), idx(j2))]))
    pats = [pos(k)]
    if z3.is_app(el.t) and el.t.num_args() > 0 and el.t.decl().kind() in (z3.Z3_OP_UNINTERPRETED, z3.Z3_OP_SELECT, z3.Z3_OP_DT_ACCESSOR):
      pats.append(el.t)     # a source item that passes the conditions has a position in the result
    self.assume(qforall([k], z3.Implies(cond, z3.And(pos(k) >= 0, pos(k) < hint.len(r), idx(pos(k)) == k)), patterns=pats))
    res = SV(hint, r)
  elif kind in ('list', 'tuple'):
    r = hint.const('comp')
    self.assume(hint.len(r) == it.length)
    self.assume(qforall([k], z3.Implies(inr, hint.get(r, k) == el.t), patterns=[hint.get(r, k)]))
    res = SV(hint, r)
  elif kind == 'set':
    r = hint.const('scomp')
    x = z3.Const(fresh_name('x'), hint.elem.z3())
    wit = z3.Function(fresh_name('wit'), hint.elem.z3(), z3.IntSort())
    cond = z3.And(inr, *conds)
    self.assume(qforall([k], z3.Implies(cond, z3.Select(r, el.t)), patterns=[el.t]))
    body = z3.substitute(z3.And(cond, el.t == x), (k, wit(x)))
    self.assume(qforall([x], z3.Implies(z3.Select(r, x), body), patterns=[z3.Select(r, x)]))
    res = SV(hint, r)
  elif kind in ('any', 'all'):
    cond = z3.And(inr, *conds)
    res = SV(BOOL, z3.Exists([k], z3.And(cond, el_t)) if kind == 'any' else z3.ForAll([k], z3.Implies(cond, el_t)))
  elif kind == 'dict':
    r = hint.const('dcomp')
    x = z3.Const(fresh_name('x'), hint.key.z3())
    wit = z3.Function(fresh_name('wit'), hint.key.z3(), z3.IntSort())
    cond = z3.And(inr, *conds)
    # every produced key is present; every present key was produced by its (last) witness index
    self.assume(qforall([k], z3.Implies(cond, hint.has(r, kk.t)), patterns=[kk.t]))
    body = z3.substitute(z3.And(cond, kk.t == x, hint.get(r, x) == vv.t), (k, wit(x)))
    self.assume(qforall([x], z3.Implies(hint.has(r, x), body), patterns=[hint.has(r, x)]))
    # later duplicates win: the witness is the last index producing the key
    self.assume(qforall([k], z3.Implies(cond, k <= wit(kk.t)), patterns=[kk.t]))
    for f in hint.keys_wf(r):
      self.assume(f)
    # insertion order: when the produced keys are pairwise distinct (and nothing is filtered
    # out) the dict has one entry per item, in iteration order
    if not conds:
      k2 = z3.Int(fresh_name('ck'))
      kk2 = z3.substitute(kk.t, (k, k2))
      inr2 = z3.And(k2 >= 0, k2 < it.length)
      distinct = z3.ForAll([k, k2], z3.Implies(z3.And(inr, inr2, k != k2), kk.t != kk2))
      KS = hint.keyseq
      ksr = hint.keys(r)
      self.assume(z3.Implies(distinct, z3.And(KS.len(ksr) == it.length,
                                             qforall([k], z3.Implies(inr, KS.get(ksr, k) == kk.t), patterns=[KS.get(ksr, k)]))))
    res = SV(hint, r)
  else:
    raise OutsideSubset(kind)
  if kind in ('list', 'set', 'dict') and not self.spec_mode:
    return self.new_box(res)
  return res


def s_Try(self, st, env):
  try:
    self.exec_block(st.body, env)
  except RaiseEx as r:
    for h in st.handlers:
      if h.type is None:
        tags = None
      else:
        tv = self.eval(h.type, env)
        tags = list(tv) if isinstance(tv, PyTuple) else [tv]
      if tags is None or any(exc_matches(r.exc.tag, t) for t in tags):
        if h.name:
          hint = (getattr(self.spec, 'locals', None) or {}).get(h.name)
          if hint is not None:
            # the caught exception as a value of the declared sort
            ev = r.exc.args[0] if (r.exc.args and isinstance(r.exc.args[0], SV) and r.exc.args[0].sort.name == hint.name) else self.fresh(hint, h.name)
            if getattr(hint, 'nullable', False):
              self.assume(ev.t != hint.literal(None))
            env.set(h.name, ev)
          else:
            env.set(h.name, r.exc)
        saved = getattr(self, '_current_exc', None)
        self._current_exc = r.exc
        try:
          self.exec_block(h.body, env)
        finally:
          self._current_exc = saved
        break
    else:
      raise
  else:
    self.exec_block(st.orelse, env)


def exc_matches(tag, handler_tag):
  if not isinstance(handler_tag, TypeTag):
    raise OutsideSubset(f'except clause with {handler_tag!r}')
  seen = set()
  work = [tag]
  while work:
    t = work.pop()
    if t.name == handler_tag.name:
      return True
    if t.name in seen:
      continue
    seen.add(t.name)
    work.extend(t.bases)
  return handler_tag.name in ('Exception', 'BaseException')


def s_Try_full(self, st, env):
  if not st.finalbody:
    return s_Try(self, st, env)
  try:
    s_Try(self, st, env)
  except (ReturnEx, BreakEx, ContinueEx, RaiseEx):
    self.exec_block(st.finalbody, env)
    raise
  self.exec_block(st.finalbody, env)


def s_With(self, st, env):
  from .calls import enter_context
  exits = []
  for item in st.items:
    cm = self.eval(item.context_expr, env)
    val, on_exit = enter_context(self, cm)
    if item.optional_vars is not None:
      self.assign(item.optional_vars, val, env)
    exits.append(on_exit)
  try:
    self.exec_block(st.body, env)
  except (ReturnEx, BreakEx, ContinueEx, RaiseEx):
    for f in reversed(exits):
      f()
    raise
  for f in reversed(exits):
    f()


Exec.s_For = s_For
Exec.s_While = s_While
Exec.s_Try = s_Try_full
Exec.s_With = s_With
Exec.comprehension = comprehension
Exec.eval_spec = eval_spec
Exec.eval_spec_value = eval_spec_value
Exec.as_iter = as_iter
Exec.number_loops = number_loops
