"""Symbolic values handled by the executor."""
from __future__ import annotations
import z3
from .sorts import *  # noqa


class SV:
  """A symbolic value: SMT term `t` of type model `sort`."""
  __slots__ = ('sort', 't')

  def __init__(self, sort, t):
    self.sort, self.t = sort, t

  def __repr__(self):
    return f'SV<{self.sort.name}>({self.t})'


class Box:
  """A mutable local container with identity; content lives in Exec.store[ident]."""
  __slots__ = ('ident',)

  def __init__(self, ident):
    self.ident = ident

  def __repr__(self):
    return f'Box#{self.ident}'


class Lit:
  """Python str literal whose sort (Name-like opaque sort or SMT string) is decided by use."""
  __slots__ = ('py',)

  def __init__(self, py):
    self.py = py

  def __repr__(self):
    return f'Lit({self.py!r})'


class PyTuple(tuple):
  """Static-length tuple of values."""


class NoneV:
  def __repr__(self):
    return 'NoneV'


NONEV = NoneV()


class EllipsisV:
  pass


ELLIPSIS = EllipsisV()


class Closure:
  def __init__(self, node, env, qualname, spec=None):
    self.node, self.env, self.qualname, self.spec = node, env, qualname, spec


class TypeTag:
  """A python class, used in isinstance tests, raise statements and except clauses."""
  def __init__(self, name, bases=()):
    self.name, self.bases = name, tuple(bases)

  def __repr__(self):
    return f'TypeTag({self.name})'


class CtorFn:
  """Calling it builds a Union value with the given constructor (e.g. DenyList(x))."""
  def __init__(self, union, ctor):
    self.union, self.ctor = union, ctor

  def ctor_pytype(self):
    """the python class name this constructor stands for (first entry of pytypes)"""
    return self.union.ctors[self.ctor].pytypes[0]


class UFn:
  """Pure, total, deterministic external function: uninterpreted symbol.
  argsorts may be None for 'any arity, opaque args' (then args are coerced to `opaque`)."""
  def __init__(self, name, argsorts, ret, note='', native=None):
    self.name, self.argsorts, self.ret, self.note = name, argsorts, ret, note
    self.native = native  # python implementation used when contracts are evaluated natively
    self._decl = None

  def decl(self):
    if self._decl is None:
      self._decl = z3.Function(self.name, *[s.z3() for s in self.argsorts], self.ret.z3())
    return self._decl


class Skip:
  """Callable that is dropped by extraction (logging, warnings); listed in the evidence."""
  def __init__(self, name):
    self.name = name


class Handler:
  """Sidecar-provided python function implementing a summary: fn(exec, args, kwargs) -> value."""
  def __init__(self, name, fn, note=''):
    self.name, self.fn, self.note = name, fn, note


class IterView:
  """Finite iterable: symbolic length + element getter (k: z3 Int) -> value."""
  def __init__(self, length, at, elem_sort=None, on_exhaust=None):
    self.length, self.at, self.elem_sort = length, at, elem_sort
    self.on_exhaust = on_exhaust     # called when a for loop has consumed every item (an iterator that raises instead of stopping)


class ExcVal:
  def __init__(self, tag, args=()):
    self.tag, self.args = tag, args


class BoundMethod:
  def __init__(self, recv, name):
    self.recv, self.name = recv, name


class Namespace(dict):
  pass


class LitSet:
  """set literal of python string literals whose element sort is decided by use"""
  def __init__(self, items):
    self.items = frozenset(items)


class Effect:
  """External procedure with side effects outside the model: each call is recorded in the ghost
  call log (Exec.ghost[name] = list of argument tuples); returns `ret` (fresh) or None."""
  def __init__(self, name, argsorts, ret=None, note=''):
    self.name, self.argsorts, self.ret, self.note = name, argsorts, ret, note


class StarOf:
  """`*x` inside a tuple display where x is an opaque sequence-like value"""
  def __init__(self, v):
    self.v = v


class Inline:
  """A real helper of /repo that is inlined (its AST is fetched and executed at the call site)
  instead of being replaced by a contract."""
  def __init__(self, target):
    self.target = target


class FString:
  """f-string value: list of parts (python str literals and evaluated values)"""
  def __init__(self, parts):
    self.parts = parts


class GlobalVar:
  """a module-level variable / config flag of /repo read by the code: an unconstrained constant of
  the given sort (the same one wherever it is read, also in contract clauses)"""
  def __init__(self, name, sort):
    self.name, self.sort = name, sort

  def value(self):
    import z3
    return SV(self.sort, z3.Const('global!' + self.name, self.sort.z3()))
