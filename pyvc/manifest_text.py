"""Human-written texts for MANIFEST.json (level / trusted base / technique per property)."""

NA = {
  'C04': 'equivalence of eager execution and execution under jax.jit/remat/cond/while_loop tracing: needs a semantics of JAX tracing and a two-heap simulation invariant; no per-function contract within reach expresses it (DESIGN.md section 10)',
  'C07': 'equality with jax.vjp/jvp/grad of a functionalised program: both sides are JAX transformations of closures, opaque to every verifier available here (DESIGN.md section 10)',
  'C13': 'relational non-interference over float tensor programs written in jnp/lax; would require a hand-written model of jnp broadcasting, i.e. proving a model (DESIGN.md section 10)',
}

TEXT = {
  'C14': dict(
    level='Every Linen filter sentence is proved for all filters, all nesting depths and all collection names: VCs generated from the real in_filter/filter_to_set/union/intersect/subtract/is_filter_empty (AST re-read from /repo each run) against contracts over the spec function mem(f,c); discharged by z3/cvc5; recursion by decreases on DenyList depth.',
    note='Trusted: the VC generator\'s Python-subset semantics, the isinstance table of the Filter type model (str is a Collection), names as an infinite uninterpreted sort with finite python sets, solvers. Native evaluation of the same contracts on enumerated small filters is a bounded cross-check, never counted as proved.',
    technique='contract-based deductive verification (own VC generator over the real AST + z3/cvc5)'),
  'C19': dict(
    level='Proved for every rank, name tuple and stacking index: Partitioned.add_axis inserts the declared partition name exactly at position k (padding with None), remove_axis removes exactly position k, remove after add restores the names (lemma over the two contracts), get_partition_spec is PartitionSpec of exactly the names. VCs from the real method bodies incl. the padding while-loop (invariant + decreases).',
    note='Trusted: VC generator semantics, dataclass replace summary, PartitionSpec as uninterpreted constructor, solvers. Not decided: numerics of boxed variables. Native evaluation of the same contracts on small name tuples is bounded, not proof.',
    technique='contract-based deductive verification (own VC generator over the real AST + z3/cvc5)'),
  'C20': dict(
    level='Proved from the real source: _invert_perm inverts every permutation (incl. python-negative entries); scan_in_dim transpose_in/out hand mutually inverse permutations to transpose; prefetch_to_device yields exactly put(src[i]) for every remaining source item, in order, once, then stops (generator with ghost output trace, two loop invariants, for every size >= 1); PrefetchIterator.__next__ delivers the buffer HEAD whenever the buffer is non-empty and reports the stored error / StopIteration only on an empty buffer, the producer only appends the item just taken at the tail or stores the error while clearing _active, close only clears _active -- each critical section verified under the monitor rule (protected state havocked at every acquisition), plus a structural lock-discipline obligation over the class body.',
    note='Trusted: VC generator semantics; Condition-as-monitor and Thread.start-as-publication; summaries of islice/deque/np.delete/np.arange/tree_map; solvers. Interleaving coverage is by the monitor rule (paper composition), not by enumeration. Not decided: pad_shard_unpad numerics, scan_in_dim vs nested loop, jnp one-liners.',
    technique='contract-based deductive verification (own VC generator over the real AST + z3/cvc5), monitor invariants for the threaded class'),
  'C10': dict(
    level='Proved from the real source, for every length / key set: _tuple_to_dict and _dict_to_tuple are inverse and _dict_to_tuple reads entries by key str(i) (never by order); _list_state_dict/_restore_list, _dict_state_dict/_restore_dict, _namedtuple_state_dict/_restore_namedtuple store and restore each entry under its key / field name with the recursive calls as uninterpreted functions, and raise ValueError exactly on a length mismatch, a missing target key, or differing namedtuple field names (iff contracts).',
    note='Trusted: VC generator semantics; recursive to/from_state_dict as uninterpreted functions; str(int) injective; summaries of dict comprehension order and namedtuple construction; solvers. Not decided: byte-level array encoding, dtype/layout, msgpack ext types. Native evaluation of the same contracts on small inputs is bounded, not proof.',
    technique='contract-based deductive verification (own VC generator over the real AST + z3/cvc5)'),
  'C17': dict(
    level='Proved as term equalities over uninterpreted optax: TrainState.apply_gradients (both the plain and the OVERWRITE_WITH_GRADIENT branch), nnx.TrainState.apply_gradients and nnx.Optimizer.update call tx.update with exactly (grads, opt_state, params[, **kwargs]) followed by optax.apply_updates on the same params, increment step by one, change nothing else (replace semantics / heap frame: Optimizer.update writes only step.value and performs exactly one nnx.update and one _update_opt_state with those terms); create initialises step and tx.init(params). Metrics: Average/Welford update, reset, compute proved against moment arithmetic over the reals, plus the lemma that one Welford update ADDS the batch moments to the running totals (hence independence of batching). A bounded stand-in runs the real metrics on float32 streams under several partitions.',
    note='Trusted: VC generator semantics; optax, nnx.state/update as uninterpreted; dataclass replace summary; floats as reals and int32 as integers (machine arithmetic treated as mathematical -- only the bounded stand-in sees rounding/overflow); solvers.',
    technique='contract-based deductive verification (own VC generator over the real AST + z3/cvc5); bounded native stand-in for float32 behaviour'),
}
