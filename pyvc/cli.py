"""./check <property> [--tier quick|thorough] [--replay FILE] [--update-ledger]

Exit codes: 0 held / 1 violation (VIOLATION line) / 2 undecided / 3 checker crashed.
"""
from __future__ import annotations
import argparse
import hashlib
import importlib
import json
import multiprocessing as mp
import os
import sys
import time
import traceback

ROOT = os.path.dirname(os.path.dirname(os.path.abspath(__file__)))
sys.path.insert(0, ROOT)

LEDGER = os.path.join(ROOT, 'baseline', 'obligations.json')
KNOWN = os.path.join(ROOT, 'KNOWN_FINDINGS.json')


def load_specs(modules):
  from pyvc import contracts as C
  for m in modules:
    importlib.import_module(m)
  return C


def _worker(job):
  """Verify one function contract in a fresh process; returns plain data."""
  modules, target, tier, seed = job
  t0 = time.time()
  out = dict(target=target, obligations=[], paths=0, outside=None, crash=None, sha=None, lineno=None,
             externals=[], skipped=[], notes=[], canary_ok=None, canaries=0, native=None, time=0.0, trusted=False)
  try:
    C = load_specs(modules)
    from pyvc import verify, solve, native
    spec = C.REGISTRY.get(target) or C.LEMMAS.get(target.split('::')[-1])
    out['trusted'] = spec.trusted
    out['kind'] = spec.kind
    if spec.kind == 'custom':
      import hashlib
      from pyvc.extract import parse_file
      out['sha'] = hashlib.sha256(parse_file(spec.file)[0].encode()).hexdigest()
      res = spec.check()
      for kind, ok, detail in res:
        d = dict(key=f'{target}::{kind}', stem=f'{target}::{kind}', kind=kind, status='unsat' if ok else 'sat',
                 solver='syntactic', time=0.0, detail=detail, solvers=['syntactic'])
        if not ok:
          d['output'] = 'structural obligation failed: ' + detail
          if spec.replay is not None:
            try:
              fails, observed = spec.replay()
              d['ce'] = ('confirmed', dict(function=target, inputs={'schedule': 'forced (see observed)'}, violated=kind, observed=observed, source='structural obligation; demonstrated natively on the real code')) if fails else ('spurious', observed)
            except Exception:
              d['ce'] = ('unreadable', traceback.format_exc()[-400:])
        out['obligations'].append(d)
      out['paths'] = 1
      out['canary_ok'] = True
    elif not spec.trusted:
      budget = 20.0 if tier == 'quick' else 120.0
      r = verify.verify_function(spec, budget)
      if tier == 'thorough' and r.outside is None and r.crash is None:
        # solver agreement: re-run z3 under two more seeds on everything
        for ob in r.obligations:
          if ob.solver != 'syntactic':
            for sd in (seed % 1000 + 1, seed % 1000 + 2):
              st, dt, o2, _ = solve.run_z3(ob, budget, sd)
              ob.results[f'z3-5.1/seed{sd}'] = (st, dt, o2)
              if st == 'sat' and ob.status == 'unsat':
                ob.status = 'disagree'
      out.update(paths=r.paths, outside=r.outside, crash=r.crash, sha=r.sha, lineno=r.lineno,
                 externals=sorted(r.externals), skipped=sorted(r.skipped), notes=r.notes, canary_ok=r.canary_ok,
                 canaries=getattr(r, 'canaries', 0))
      for ob in r.obligations:
        d = dict(key=ob.key, stem=ob.stem, kind=ob.kind, status=ob.status, solver=ob.solver, time=round(ob.time, 4),
                 detail=ob.detail)
        if getattr(ob, 'ce', None):
          d['ce'] = ob.ce
        if ob.status != 'unsat':
          d['output'] = ob.output[:1500]
          try:
            d['smt2_head'] = solve.to_smt2(ob)[:3000]
          except Exception:
            pass
        else:
          d['solvers'] = sorted(k for k, v in getattr(ob, 'results', {}).items() if v[0] == 'unsat') or [ob.solver]
        out['obligations'].append(d)
      if r.obligations:
        ob = r.obligations[len(r.obligations) // 2]
        try:
          out['sample'] = dict(key=ob.key, smt2=solve.to_smt2(ob)[:1200])
        except Exception:
          pass
    if spec.native is not None:
      bound = (spec.native.bound or spec.enum_bound) + (1 if tier == 'thorough' else 0)
      nr = native.bounded_search(spec, bound=bound, max_cases=20000 if tier == 'quick' else 200000)
      out['native'] = dict(cases=nr['cases'], skipped=nr['skipped'], bound=nr['bound'], error=nr['error'],
                           failures=[f.to_json() for f in nr['failures']])
  except Exception:
    out['crash'] = traceback.format_exc()
  out['time'] = round(time.time() - t0, 3)
  return out


def main(argv=None):
  ap = argparse.ArgumentParser()
  ap.add_argument('prop')
  ap.add_argument('--tier', default=os.environ.get('VERIF_TIER', 'quick'))
  ap.add_argument('--replay')
  ap.add_argument('--update-ledger', action='store_true')
  ap.add_argument('--jobs', type=int, default=int(os.environ.get('PYVC_JOBS', '16')))
  a = ap.parse_args(argv)
  seed = int(os.environ.get('VERIF_SEED', '0') or 0)
  tier = a.tier if a.tier in ('quick', 'thorough') else 'quick'
  from pyvc import propcfg
  if a.replay:
    from pyvc import replay
    return replay.main(a.prop, a.replay)
  cfg = propcfg.PROPS[a.prop]
  t0 = time.time()
  try:
    rc = run_property(a.prop, cfg, tier, seed, a.jobs, a.update_ledger, t0)
  except Exception:
    traceback.print_exc()
    return 3
  return rc


def run_property(pid, cfg, tier, seed, jobs, update_ledger, t0):
  C = load_specs(cfg['modules'])
  targets = [t for t, s in C.REGISTRY.items() if pid in s.props]
  targets += ['<lemma>::' + n for n, s in C.LEMMAS.items() if pid in s.props]
  if not targets:
    print(f'no functions under contract for {pid}')
    return 3
  jl = [(cfg['modules'], t, tier, seed) for t in targets]
  ctx = mp.get_context('spawn')
  with ctx.Pool(min(jobs, len(jl))) as pool:
    results = pool.map(_worker, jl, chunksize=1)
  # bounded stand-ins (property-level native contracts on the public API)
  bounded = []
  for bmod in cfg.get('bounded', []):
    from pyvc import bounded as B
    bounded.append(B.run(bmod, tier, seed))
  ledger = json.load(open(LEDGER)) if os.path.exists(LEDGER) else {}
  known = json.load(open(KNOWN)) if os.path.exists(KNOWN) else {'findings': []}
  known_open = [k for k in known.get('findings', []) if k.get('property') == pid and k.get('status') == 'open']

  violations, undecided, crashes, kf_lines = [], [], [], []
  n_obl = n_dis = 0
  by_solver = {}
  slowest = []
  fns = []
  trusted_base = set(cfg.get('trusted_base', []))
  replay_dir = os.path.join(ROOT, 'replay', pid)
  os.makedirs(replay_dir, exist_ok=True)
  for old in os.listdir(replay_dir):
    os.unlink(os.path.join(replay_dir, old))

  def write_replay(name, payload):
    fn = os.path.join(replay_dir, hashlib.sha1(name.encode()).hexdigest()[:12] + '.json')
    with open(fn, 'w') as f:
      json.dump(payload, f, indent=1)
    return fn

  def is_known(target, violated, inputs):
    for k in known_open:
      if k.get('function') == target and k.get('violated') == violated and (k.get('inputs') is None or k.get('inputs') == inputs):
        return k
    return None

  for r in results:
    tgt = r['target']
    fns.append(dict(function=tgt, sha256=r['sha'], line=r['lineno'], paths=r['paths'], obligations=len(r['obligations']),
                    discharged=sum(1 for o in r['obligations'] if o['status'] == 'unsat'), time_s=r['time'],
                    trusted=r['trusted'], native_cases=(r['native'] or {}).get('cases'), outside=r['outside']))
    if r['trusted']:
      trusted_base.add(f'assumed contract (not verified): {tgt}')
    for e in r['externals']:
      trusted_base.add(f'external summary/binding: {e}')
    for e in r['skipped']:
      trusted_base.add(f'dropped by extraction: {e}')
    for n in r['notes']:
      trusted_base.add(f'note {tgt}: {n}')
    if r['crash']:
      crashes.append((tgt, r['crash']))
      continue
    if r['canary_ok'] is False:
      crashes.append((tgt, 'vacuity guard: contradictory assumptions ' + '; '.join(r['notes'])))
    nat = r['native']
    nat_fail = (nat or {}).get('failures') or []
    if nat and nat.get('error'):
      crashes.append((tgt, 'native harness error: ' + nat['error']))
    if nat and not nat.get('error') and nat.get('cases', 0) == 0:
      crashes.append((tgt, f"vacuity guard: native contract evaluation ran 0 cases ({nat.get('skipped')} skipped by the precondition)"))
    # 1. real failing inputs
    unknown_fail = []
    for f in nat_fail:
      k = is_known(tgt, f['violated'], f['inputs'])
      if k:
        kf_lines.append(f"KNOWN-FINDING: property={pid} {k['what']}")
      else:
        unknown_fail.append(f)
    for f in unknown_fail[:1]:
      path = write_replay(tgt + f['violated'] + json.dumps(f['inputs'], sort_keys=True),
                          dict(property=pid, kind='failing-input', function=tgt, obligation=f"{tgt}::{f['violated']}",
                               inputs=f['inputs'], observed=f['observed'], modules=cfg['modules'],
                               replay_cmd=f'./check {pid} --replay <this file>'))
      violations.append((f"{tgt}::{f['violated']}", path, ''))
    # 2. obligations
    if r['outside']:
      undecided.append((tgt, 'outside subset: ' + r['outside']))
      led = {k: v for k, v in ledger.items() if k.startswith(tgt + '::')}
      n_obl += sum(v['count'] for v in led.values())
      continue
    stems_now = {}
    for o in r['obligations']:
      n_obl += 1
      stems_now.setdefault(o['stem'], []).append(o)
      if o['status'] == 'unsat':
        n_dis += 1
        by_solver[o['solver']] = by_solver.get(o['solver'], 0) + 1
        slowest.append((o['time'], o['key']))
      elif o['status'] == 'disagree':
        crashes.append((tgt, f"solvers disagree on {o['key']}: {o.get('output')}"))
    for stem, obs in stems_now.items():
      bad = [o for o in obs if o['status'] != 'unsat']
      if not bad:
        continue
      if unknown_fail:
        continue  # already reported with a real input
      # attributed to a known finding? (the finding's input still fails natively)
      kf = [k for k in known_open if k.get('function') == tgt and f"{tgt}::{k.get('violated')}" == stem]
      if kf and nat_fail:
        continue
      confirmed = [o for o in bad if o.get('ce') and o['ce'][0] == 'confirmed']
      if confirmed:
        o = confirmed[0]
        f = o['ce'][1]
        if is_known(tgt, f['violated'], f['inputs']):
          kf_lines.append(f"KNOWN-FINDING: property={pid} {is_known(tgt, f['violated'], f['inputs'])['what']}")
          continue
        path = write_replay(o['key'] + 'ce', dict(property=pid, kind='failing-input', source=f.get('source', 'solver counter-model replayed on the real code'),
                                                 function=tgt, obligation=o['key'], inputs=f['inputs'], observed=f['observed'], modules=cfg['modules']))
        violations.append((stem, path, ''))
        continue
      sat_ones = [x for x in bad if x['status'] == 'sat']
      o = sat_ones[0] if sat_ones else bad[0]
      in_ledger = stem in ledger and ledger[stem]['discharged'] == ledger[stem]['count']
      # A refuted obligation (the solver exhibits a counter-model: `sat`) is reported as a violation. An obligation that
      # merely fails to discharge (`unknown` / timeout) is UNDECIDED even if the ledger says it was discharged on the
      # unchanged tree: a behaviour-preserving rewrite of a loop breaks proofs without breaking the property, and a
      # failed proof is not a violation (PYVC_STRICT_LEDGER=1 restores the older, stricter reading).
      strict = os.environ.get('PYVC_STRICT_LEDGER') == '1'
      spurious = bool(sat_ones) and all((x.get('ce') or (None,))[0] == 'spurious' for x in sat_ones)
      if spurious and not strict:
        # every counter-model the solver produced was replayed on the real code and the contract HELD there:
        # the model exploits an assumed summary, not the code ("needs contract")
        undecided.append((tgt, f"{o['key']}: sat, but the counter-model does not fail on the real code (spurious)"))
      elif o['status'] == 'sat' or (in_ledger and strict):
        path = write_replay(o['key'], dict(property=pid, kind='failed-obligation', obligation=o['key'], function=tgt,
                                           status=o['status'], verifier_output=o.get('output'), counter_model_replay=o.get('ce'), smt2_head=o.get('smt2_head'),
                                           note='obligation discharged on the unchanged tree (ledger) and not discharged now; '
                                                'bounded native search found no failing input',
                                           native_cases=(nat or {}).get('cases')))
        violations.append((stem, path, ' no-failing-input-found'))
      else:
        undecided.append((tgt, f"{o['key']}: {o['status']} ({'discharged on the unchanged tree, not discharged now' if in_ledger else 'not in ledger'})"))
    # vacuity: obligation count
    if not r['obligations'] and not r['trusted']:
      crashes.append((tgt, 'zero obligations generated'))

  bounded_cov = []
  for b in bounded:
    bounded_cov.append({k: v for k, v in b.items() if k != 'failures'})
    if b.get('error'):
      crashes.append((b['name'], 'bounded stand-in error: ' + b['error']))
    reported = False
    for f in b.get('failures', []):
      k = None
      for kk in known_open:
        if kk.get('function') == b['name'] and kk.get('inputs') == f.get('inputs') and kk.get('violated') == f.get('violated'):
          k = kk
      if k:
        kf_lines.append(f"KNOWN-FINDING: property={pid} {k['what']}")
        continue
      if reported:
        continue
      reported = True
      path = write_replay(b['name'] + json.dumps(f, sort_keys=True, default=str),
                          dict(property=pid, kind='failing-input', function=b['name'], obligation=b['name'] + '::' + f.get('violated', 'contract'),
                               inputs=f.get('inputs'), observed=f.get('observed'), bounded_module=b['module']))
      violations.append((b['name'] + '::' + f.get('violated', 'contract'), path, ''))

  if update_ledger:
    os.makedirs(os.path.dirname(LEDGER), exist_ok=True)
    for k in [k for k in ledger if any(k.startswith(r['target'] + '::') for r in results)]:
      del ledger[k]
    for r in results:
      st = {}
      for o in r['obligations']:
        e = st.setdefault(o['stem'], dict(count=0, discharged=0))
        e['count'] += 1
        e['discharged'] += o['status'] == 'unsat'
      ledger.update(st)
    json.dump(ledger, open(LEDGER, 'w'), indent=0, sort_keys=True)

  wall = time.time() - t0
  slowest.sort(reverse=True)
  samples = [r.get('sample') for r in results if r.get('sample')][:3]
  ev = dict(
    property_id=pid, tier=tier, seed=seed, level='proof',
    coverage=dict(
      obligations=n_obl, discharged=n_dis,
      checker_cmd=f'./check {pid} --tier {tier}',
      trusted_base=sorted(trusted_base),
      samples=samples or [dict(note='no obligation sample available')],
      functions_under_contract=fns,
      by_solver=by_solver,
      solver_time_s=round(sum(t for t, _ in slowest), 3),
      slowest=[dict(key=k, time_s=t) for t, k in slowest[:5]],
      canaries_checked=sum(r.get('canaries', 0) for r in results),
      bounded=bounded_cov + [dict(name='native contract evaluation of ' + r['target'], cases=r['native']['cases'], bound=r['native']['bound'],
                                  label='bounded: never counted as proved') for r in results if r.get('native')],
      not_decided=cfg.get('not_decided', []),
      undecided=[dict(function=t, reason=w) for t, w in undecided],
      known_findings=kf_lines,
    ),
    assumptions=cfg.get('assumptions', []),
    wall_s=round(wall, 2),
    violations=len(violations),
  )
  os.makedirs(os.path.join(ROOT, 'evidence'), exist_ok=True)
  json.dump(ev, open(os.path.join(ROOT, 'evidence', pid + '.json'), 'w'), indent=1, default=str)

  for ln in sorted(set(kf_lines)):
    print(ln)
  print(f'{pid}: functions={len(results)} obligations={n_obl} discharged={n_dis} undecided={len(undecided)} '
        f'bounded_runs={sum((r["native"] or {}).get("cases", 0) for r in results) + sum(b.get("cases", 0) for b in bounded)} wall={wall:.1f}s')
  if crashes:
    for t, w in crashes:
      print(f'CHECKER-ERROR {t}: {w}')
    return 3
  if violations:
    for stem, path, suffix in violations:
      print(f'  failed obligation: {stem}')
      print(f'VIOLATION property={pid} replay={path}{suffix}')
    return 1
  if undecided:
    for t, w in undecided:
      print(f'UNDECIDED {t}: {w}')
    return 2
  return 0


if __name__ == '__main__':
  sys.exit(main())
