"""Contract registry: function specs (sidecar contracts on real functions), spec functions, lemmas.

Contract clauses are *strings* holding Python expressions in the verifier's subset. The same
text is read (a) by the VC generator (interpreted symbolically in "spec mode": and/or/not and
conditional expressions become SMT connectives, `forall(S, lambda x: ...)` an SMT quantifier)
and (b) by CPython (`eval`) when a contract is evaluated natively on concrete values during
counterexample replay, bounded search and the CPython cross-check.
"""
from __future__ import annotations
import ast
import inspect
import textwrap
from .sorts import Sort, OutsideSubset

REGISTRY: dict = {}      # target -> FnSpec
SPECFNS: dict = {}       # name -> SpecFn
LEMMAS: dict = {}        # name -> FnSpec (ghost function in the sidecar itself)


class SpecFn:
  """Pure mathematical function used in contracts. Defined by a python function whose body is
  a single `return <expr>` (conditional expressions allowed, recursion allowed)."""

  def __init__(self, fn, argsorts, ret, axioms=(), recursive_on=None):
    self.fn = fn
    self.name = fn.__name__
    self.argsorts = tuple(argsorts)
    self.ret = ret
    self.axioms = tuple(axioms)  # extra facts, strings over the parameter names
    src = textwrap.dedent(inspect.getsource(fn))
    node = ast.parse(src).body[0]
    self.params = [a.arg for a in node.args.args]
    body = [s for s in node.body if not (isinstance(s, ast.Expr) and isinstance(s.value, ast.Constant))]
    if len(body) != 1 or not isinstance(body[0], ast.Return):
      raise OutsideSubset(f'spec function {self.name}: body must be a single return')
    self.body = body[0].value

  def __call__(self, *a):
    return self.fn(*a)


def spec(*argsorts, ret, axioms=()):
  def deco(fn):
    s = SpecFn(fn, argsorts, ret, axioms)
    SPECFNS[s.name] = s
    return s
  return deco


class FnSpec:
  def __init__(self, target, params, returns=None, requires=(), ensures=(), raises=None,
               decreases=None, group=None, invariants=None, bindings=None, free=(),
               assigns=(), native=None, notes='', enum_bound=2, props=(), self_sort=None,
               raises_any=(), modifies=(), ghost=None, while_decreases=None, nested=None,
               trusted=False, kind='function', hints=(), raises_when=None):
    self.target = target                  # 'flax/core/scope.py::union_filters'
    self.params = list(params)            # [(name, Sort)] in signature order
    self.returns = returns                # Sort / None (returns None)
    self.requires = list(requires)
    self.ensures = list(ensures)
    self.raises = dict(raises or {})      # ExcName -> condition string (iff, over entry state)
    self.raises_any = tuple(raises_any)   # exceptions that may be raised without a stated condition
    self.raises_when = dict(raises_when or {})  # ExcName -> sufficient condition: whenever it holds (entry state) the call raises
    self.decreases = decreases
    self.group = group
    self.invariants = dict(invariants or {})      # loop ordinal -> [clauses]
    self.while_decreases = dict(while_decreases or {})
    self.bindings = bindings if bindings is not None else {}  # dotted global name -> entity (shared dict)
    self.free = list(free)                # closure-converted free variables [(name, Sort)]
    self.assigns = tuple(assigns)         # mutable parameters the function may mutate
    self.modifies = tuple(modifies)       # heap fields ('Class.field') the function may write
    self.native = native                  # NativeHarness (see native.py) or None
    self.notes = notes
    self.enum_bound = enum_bound
    self.props = tuple(props)
    self.nested = dict(nested or {})      # contracts for nested closures by name
    self.trusted = trusted                # assumed contract (not verified): listed in trusted base
    self.kind = kind
    self.hints = tuple(hints)        # instantiation hints: ground spec terms made available to e-matching
    self.module_globals = {}
    self.locals = {}
    self.defaults = {}
    self.loop_modifies = {}
    self.str_sort = None
    self.yields = None       # element sort of the ghost output trace `_out` of a generator

  @property
  def file(self):
    return self.target.split('::')[0]

  @property
  def qualname(self):
    return self.target.split('::')[1]

  @property
  def short(self):
    return self.qualname.split('.')[-1]


def function(target, **kw):
  import sys
  s = FnSpec(target, **kw)
  s.module_globals = sys._getframe(1).f_globals
  REGISTRY[target] = s
  return s


def lemma(name, params, requires=(), ensures=(), body=None, **kw):
  """Ghost lemma: proved by executing `body` (python source string in the subset, may call itself
  recursively = induction, must give `decreases`)."""
  import sys
  s = FnSpec('<lemma>::' + name, params, requires=requires, ensures=ensures, kind='lemma', **kw)
  s.module_globals = sys._getframe(1).f_globals
  s.body_src = body
  LEMMAS[name] = s
  return s


def custom(target, check, props=(), notes='', replay=None):
  """A syntactic / structural obligation generator over the real source:
  check() -> [(kind, ok: bool, detail: str)]. replay() -> (still_fails: bool, observed: str)
  demonstrates a failed obligation on the real code (e.g. a forced schedule)."""
  s = FnSpec(target, params=[], kind='custom', props=props, notes=notes)
  s.check = check
  s.replay = replay
  REGISTRY[target] = s
  return s
