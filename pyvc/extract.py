"""Extraction: locate the real FunctionDef in /repo by qualified name, on every run."""
from __future__ import annotations
import ast
import hashlib
import os

REPO = os.environ.get('PYVC_REPO', '/repo')
_parsed: dict = {}


def parse_file(relpath):
  path = os.path.join(REPO, relpath)
  if path not in _parsed:
    with open(path) as f:
      src = f.read()
    _parsed[path] = (src, ast.parse(src))
  return _parsed[path]


def find_function(relpath, qualname):
  """qualname like 'Scope.put_variable' or '_partial_pack.<locals>.scope_fn'."""
  src, tree = parse_file(relpath)
  parts = [p for p in qualname.split('.') if p != '<locals>']
  node = tree
  for p in parts:
    found = None
    for child in ast.walk(node) if not isinstance(node, (ast.Module, ast.ClassDef)) else node.body:
      if isinstance(child, (ast.FunctionDef, ast.ClassDef, ast.AsyncFunctionDef)) and child.name == p and child is not node:
        # python semantics: the last definition of a name wins (typing.overload stubs come first)
        if isinstance(node, (ast.Module, ast.ClassDef)):
          found = child
          continue
        found = child
        break
    if found is None and isinstance(node, (ast.Module, ast.ClassDef)):
      # `name = lambda args: expr` at module/class level: the same function, written as a lambda
      for child in node.body:
        if isinstance(child, ast.Assign) and len(child.targets) == 1 and isinstance(child.targets[0], ast.Name) \
           and child.targets[0].id == p and isinstance(child.value, ast.Lambda):
          lam = child.value
          found = ast.FunctionDef(name=p, args=lam.args, body=[ast.Return(value=lam.body, lineno=lam.lineno, col_offset=0)],
                                  decorator_list=[], returns=None, type_comment=None, lineno=child.lineno, col_offset=child.col_offset,
                                  end_lineno=child.end_lineno, end_col_offset=child.end_col_offset)
          if hasattr(ast, 'TypeVar'):
            found.type_params = []
          break
    if found is None:
      raise LookupError(f'{relpath}::{qualname}: component {p!r} not found')
    node = found
  seg = ast.get_source_segment(src, node)
  return node, seg, hashlib.sha256(seg.encode()).hexdigest()


def strip_doc(body):
  if body and isinstance(body[0], ast.Expr) and isinstance(body[0].value, ast.Constant) and isinstance(body[0].value.value, str):
    return body[1:]
  return body
