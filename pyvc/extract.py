"""Extraction: locate the real FunctionDef in /repo by qualified name, on every run."""
from __future__ import annotations
import ast
import hashlib
import os

REPO = os.environ.get('PYVC_REPO', '/repo')
_parsed: dict = {}


def parse_file(relpath):
  path = os.path.join(REPO, relpath)
  if path not in _parsed:
    with open(path) as f:
      src = f.read()
    _parsed[path] = (src, ast.parse(src))
  return _parsed[path]


def find_function(relpath, qualname):
  """qualname like 'Scope.put_variable' or '_partial_pack.<locals>.scope_fn'."""
  src, tree = parse_file(relpath)
  parts = [p for p in qualname.split('.') if p != '<locals>']
  node = tree
  for p in parts:
    found = None
    for child in ast.walk(node) if not isinstance(node, (ast.Module, ast.ClassDef)) else node.body:
      if isinstance(child, (ast.FunctionDef, ast.ClassDef, ast.AsyncFunctionDef)) and child.name == p and child is not node:
        found = child
        break
    if found is None:
      raise LookupError(f'{relpath}::{qualname}: component {p!r} not found')
    node = found
  seg = ast.get_source_segment(src, node)
  return node, seg, hashlib.sha256(seg.encode()).hexdigest()


def strip_doc(body):
  if body and isinstance(body[0], ast.Expr) and isinstance(body[0].value, ast.Constant) and isinstance(body[0].value.value, str):
    return body[1:]
  return body
