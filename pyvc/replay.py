"""./check <prop> --replay <file>: re-run a recorded failing input on the real code."""
import importlib
import json
import sys


def main(pid, path):
  d = json.load(open(path))
  print(json.dumps({k: d[k] for k in d if k not in ('smt2_head',)}, indent=1)[:3000])
  if d.get('kind') != 'failing-input':
    print('no concrete input recorded for this obligation (no-failing-input-found); verifier output above')
    return 0
  if d.get('bounded_module'):
    m = importlib.import_module(d['bounded_module'])
    ok = m.replay(d['inputs'])
    print('REPLAY:', 'contract holds now' if ok else 'contract still violated')
    return 0 if ok else 1
  from pyvc import contracts as C, native
  from pyvc.sorts import ADTVal  # noqa: F401  (used by eval)
  for m in d['modules']:
    importlib.import_module(m)
  spec = C.REGISTRY[d['function']]
  env = native.native_env(spec, spec.enum_bound)
  abs_args = {k: eval(v, {'ADTVal': ADTVal, 'frozenset': frozenset}) for k, v in d['inputs'].items()}
  r = native.check_one(spec, spec.native.get(), env, abs_args, spec.native)
  if r is None or r == 'skip':
    print('REPLAY: contract holds on this input now')
    return 0
  print('REPLAY: still violated:', r.what, '--', r.observed)
  return 1
