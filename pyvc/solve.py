"""Discharge obligations: z3 (API) first, cvc5 (CLI, SMT-LIB export) for what z3 leaves open.

discharged = `unsat` from at least one solver and `sat` from none (DESIGN.md 2.6).
"""
from __future__ import annotations
import os
import subprocess
import tempfile
import time
import z3

_RETRIES = [3]
CVC5 = '/usr/bin/cvc5'
Z3_OLD = '/usr/bin/z3'


def to_smt2(ob):
  s = z3.Solver()
  for a in ob.assumptions:
    s.add(a)
  s.add(z3.Not(ob.goal))
  return '(set-logic ALL)\n' + s.to_smt2()


def run_z3(ob, budget_s, seed=0):
  s = z3.Solver()
  s.set('timeout', int(budget_s * 1000))
  if seed:
    s.set('random_seed', seed)
  for a in ob.assumptions:
    s.add(a)
  s.add(z3.Not(ob.goal))
  t0 = time.time()
  r = s.check()
  dt = time.time() - t0
  out = str(r)
  model = None
  if r == z3.sat:
    try:
      model = s.model()
    except Exception:
      model = None
  elif r == z3.unknown:
    out += ' (' + s.reason_unknown() + ')'
  return str(r), dt, out, model


def run_cli(cmd, smt, budget_s):
  with tempfile.NamedTemporaryFile('w', suffix='.smt2', delete=False, dir=os.environ.get('PYVC_TMP', '/var/tmp')) as f:
    f.write(smt)
    path = f.name
  t0 = time.time()
  try:
    p = subprocess.run(cmd + [path], capture_output=True, text=True, timeout=budget_s + 5)
    out = (p.stdout + p.stderr).strip()
  except subprocess.TimeoutExpired:
    out = 'timeout'
  finally:
    os.unlink(path)
  dt = time.time() - t0
  first = out.splitlines()[0].strip() if out else ''
  status = first if first in ('sat', 'unsat', 'unknown') else 'unknown'
  return status, dt, out[:400]


def start_cli(cmd, smt, budget_s):
  f = tempfile.NamedTemporaryFile('w', suffix='.smt2', delete=False, dir=os.environ.get('PYVC_TMP', '/var/tmp'))
  f.write(smt)
  f.close()
  p = subprocess.Popen(cmd + [f.name], stdout=subprocess.PIPE, stderr=subprocess.STDOUT, text=True)
  return p, f.name, time.time()


def finish_cli(h, wait_s):
  p, path, t0 = h
  try:
    out, _ = p.communicate(timeout=max(0.0, wait_s))
    out = (out or '').strip()
  except subprocess.TimeoutExpired:
    p.kill()
    try:
      p.communicate(timeout=2)
    except Exception:
      pass
    out = 'timeout'
  finally:
    try:
      os.unlink(path)
    except OSError:
      pass
  first = out.splitlines()[0].strip() if out else ''
  status = first if first in ('sat', 'unsat', 'unknown') else 'unknown'
  return status, time.time() - t0, out[:400]


def discharge(obligations, budget_s=20.0, portfolio=True, seeds=(0,)):
  failures = 0
  for ob in obligations:
    if ob.status == 'unsat':
      continue
    results = {}
    if failures >= 2 and portfolio:
      # the function already has undischarged obligations: the remaining ones get one short attempt
      st, dt, out, model = run_z3(ob, min(5.0, budget_s), seeds[0])
      ob.results = {'z3-5.1': (st, dt, out)}
      ob.model, ob.time = model, dt
      ob.status = st if st in ('unsat', 'sat') else 'unknown'
      ob.solver = 'z3-5.1' if st == 'unsat' else None
      ob.output = 'z3-5.1: ' + out + ' (short attempt: earlier obligations of this function already failed)'
      continue
    # staged portfolio: a quick z3 attempt; then cvc5 and the older z3 run as subprocesses
    # concurrently with z3 at the full budget
    # a few short attempts under different random seeds first (proof search is seed-sensitive)
    quick = min(5.0, budget_s)
    for sd0 in (seeds[0], 11, 23):
      st, dt, out, model = run_z3(ob, quick, sd0)
      results['z3-5.1' if sd0 == seeds[0] else f'z3-5.1/seed{sd0}'] = (st, dt, out)
      ob.model = model
      if st != 'unknown' or not portfolio:
        break
    if st == 'unknown' and portfolio:
      handles = {}
      try:
        smt = to_smt2(ob)
        ob.smt2 = smt
        handles['cvc5-1.0.3'] = start_cli([CVC5, '--lang=smt2', f'--tlimit={int(budget_s * 1000)}', '--strings-exp'], smt, budget_s)
        handles['z3-4.8.12'] = start_cli([Z3_OLD, f'-T:{int(budget_s)}'], smt, budget_s)
      except Exception as e:  # export problems never become verdicts
        results['export'] = ('error', 0.0, repr(e)[:200])
      t_full = time.time()
      if budget_s > quick:
        st4, dt4, out4, model4 = run_z3(ob, budget_s, seeds[0])
        results['z3-5.1/full'] = (st4, dt4, out4)
        if model4 is not None:
          ob.model = model4
      decided = any(r[0] in ('unsat', 'sat') for r in results.values())
      for name, h in handles.items():
        remaining = 0.0 if decided else budget_s + 3 - (time.time() - h[2])
        results[name] = finish_cli(h, remaining)
        decided = decided or results[name][0] in ('unsat', 'sat')
    if False:
      # last resort before an obligation is reported open: other random seeds (guards against
      # verdicts flipping under load); bounded per process
      _RETRIES[0] -= 1
      for sd in (11, 23):
        stn, dtn, outn, _ = run_z3(ob, budget_s, sd)
        results[f'z3-5.1/retry-seed{sd}'] = (stn, dtn, outn)
        if stn == 'unsat':
          break
    for sd in seeds[1:]:
      stn, dtn, outn, _ = run_z3(ob, budget_s, sd)
      results[f'z3-5.1/seed{sd}'] = (stn, dtn, outn)
    stats = [r[0] for r in results.values()]
    ob.results = results
    ob.time = sum(r[1] for r in results.values())
    if 'unsat' in stats and 'sat' in stats:
      ob.status = 'disagree'
    elif 'unsat' in stats:
      ob.status = 'unsat'
      ob.solver = [k for k, r in results.items() if r[0] == 'unsat'][0]
    elif 'sat' in stats:
      ob.status = 'sat'
    else:
      ob.status = 'unknown'
    ob.output = '; '.join(f'{k}: {r[2]}' for k, r in results.items())
    if ob.status != 'unsat':
      failures += 1
