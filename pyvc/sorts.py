"""Sorts (type models) of the pyvc verifier and their z3 encodings.

A Sort describes how one kind of Python value is represented as an SMT term, how Python
operations on it are interpreted (see sym.py), how a real Python value is abstracted into the
native spec-level value used when contracts are evaluated by CPython, and how small values of
the sort are enumerated for the bounded native search.

Encoding choices (DESIGN.md 2.3):
  * ints are mathematical (Python ints are unbounded: no overflow assumption needed);
  * sequences are a datatype (len, Array Int E) -- equality is stated point-wise, never by the
    datatype's structural equality (sym.py_eq);
  * sets are Array E Bool with z3's combinatory set operations;
  * maps are a datatype (dom: Array K Bool, val: Array K V, keys: Seq K);
  * dynamic unions are algebraic datatypes ("Union") whose constructors are tagged with the
    Python types they stand for; operations on a union value case-split on the constructor.
"""
from __future__ import annotations
import itertools
import z3


class OutsideSubset(Exception):
  """The real code (or a contract) uses something the verifier does not model."""

  def __init__(self, *a):
    super().__init__(*a)
    import os
    if os.environ.get('PYVC_TRACE'):      # development aid: where in the engine the construct was met
      import traceback
      traceback.print_stack(limit=14)


_counter = itertools.count()
USED_SORTS: set = set()   # names of the opaque / union sorts touched while building the current path
BINDERS: list = []   # bound variables of the enclosing quantifiers / comprehensions (innermost last)


def qforall(vs, body, patterns=None):
  """ForAll with explicit triggers when z3 accepts them (patterns may not contain ite etc.)."""
  def has_ite(e, seen):
    if e.get_id() in seen:
      return False
    seen.add(e.get_id())
    if z3.is_app_of(e, z3.Z3_OP_ITE):
      return True
    return any(has_ite(c, seen) for c in e.children())
  def terms(p):
    if isinstance(p, z3.PatternRef):
      ctx = p.ctx
      return [z3.z3._to_expr_ref(z3.Z3_get_pattern(ctx.ref(), p.ast, i), ctx) for i in range(z3.Z3_get_pattern_num_terms(ctx.ref(), p.ast))]
    return [p]
  if patterns:
    try:
      if any(has_ite(t, set()) for p in patterns for t in terms(p)):
        patterns = None
    except Exception:
      pass
  if patterns:
    try:
      return z3.ForAll(vs, body, patterns=patterns)
    except z3.Z3Exception:
      pass
  return z3.ForAll(vs, body)


def fresh_name(hint='v'):
  return f'{hint}!{next(_counter)}'


class Sort:
  name = '?'
  mutable = False  # python-level mutability of the modelled container

  def z3(self):
    raise NotImplementedError

  def const(self, hint='v'):
    """A fresh value of this sort. Under binders (quantifier bodies, comprehension elements) the
    fresh value is a fresh FUNCTION of the bound variables (a skolem function), so that defining
    axioms of derived values stay meaningful when they are universally closed."""
    if BINDERS:
      f = z3.Function(fresh_name(hint), *[b.sort() for b in BINDERS], self.z3())
      return f(*BINDERS)
    return z3.Const(fresh_name(hint), self.z3())

  def wf(self, t):
    """Well-formedness facts about term t of this sort (list of z3 Bool)."""
    return []

  def __repr__(self):
    return self.name

  # native side ---------------------------------------------------------------------------
  def abstract(self, py):
    return py

  def concretise(self, spec):
    return spec

  def enumerate(self, bound):
    raise OutsideSubset(f'no enumerator for sort {self.name}')


class _Prim(Sort):
  def __init__(self, name, mk):
    self.name = name
    self._mk = mk

  def z3(self):
    return self._mk()


class IntSort(_Prim):
  def __init__(self):
    super().__init__('Int', z3.IntSort)

  def enumerate(self, bound):
    return list(range(-1, bound + 1))


class NatSort(IntSort):
  """Int with wf t >= 0."""
  def __init__(self):
    super().__init__()
    self.name = 'Nat'

  def wf(self, t):
    return [t >= 0]

  def enumerate(self, bound):
    return list(range(0, bound + 1))


class BoolSort(_Prim):
  def __init__(self):
    super().__init__('Bool', z3.BoolSort)

  def enumerate(self, bound):
    return [False, True]


class RealSort(_Prim):
  def __init__(self):
    super().__init__('Real', z3.RealSort)

  def enumerate(self, bound):
    return [0.0, 1.0, -1.5, 2.0][: bound + 1]


class StrSort(_Prim):
  """SMT string theory; used only where string *content* matters."""
  def __init__(self):
    super().__init__('Str', z3.StringSort)

  def enumerate(self, bound):
    return ['', 'a', 'b', 'ab'][: bound + 1]


class NoneSort(Sort):
  name = 'None'
  _s = None

  def z3(self):
    if NoneSort._s is None:
      d = z3.Datatype('NoneT')
      d.declare('none')
      NoneSort._s = d.create()
    return NoneSort._s

  def enumerate(self, bound):
    return [None]


INT = IntSort()
NAT = NatSort()
BOOL = BoolSort()
REAL = RealSort()
STR = StrSort()
NONE = NoneSort()


class Opaque(Sort):
  """Uninterpreted sort: values that are only compared, hashed, passed around."""
  _cache: dict = {}

  def __init__(self, name, universe=None, infinite=True, nullable=False, is_str=True):
    self.name = name
    self.nullable = nullable  # python None is a value of this sort (a distinguished literal)
    self.is_str = is_str      # values are python strings (affects str(), `in`)
    self.attrs = {}           # attribute name -> (Sort, wf: term -> [facts]) : pure observers (e.g. ndarray.ndim)
    self.pytypes = None
    self.universe = universe  # native enumeration universe
    self.infinite = infinite
    self._lits = {}

  def z3(self):
    USED_SORTS.add(self.name)
    if self.name not in Opaque._cache:
      Opaque._cache[self.name] = z3.DeclareSort(self.name)
    return Opaque._cache[self.name]

  def literal(self, py):
    """Distinct constant for a python literal of this sort (pairwise distinctness is asserted
    by Ctx.literal_axioms)."""
    if py not in self._lits:
      import re
      self._lits[py] = z3.Const(f'{self.name}!lit!' + re.sub(r'[^A-Za-z0-9_]', '_', repr(py)) + f'!{len(self._lits)}', self.z3())
    return self._lits[py]

  def literal_axioms(self):
    ls = list(self._lits.values())
    out = [z3.Distinct(*ls)] if len(ls) > 1 else []
    if self.infinite:
      # python collections are finite while the name space is not: every set misses some
      # value, and every value differs from some other value
      # (the set part is stated per set *value* in SetOf.wf: a global axiom would be
      # inconsistent with the constant-true array)
      other = z3.Function('other!' + self.name, self.z3(), self.z3())
      x_ = z3.Const('x!' + self.name, self.z3())
      out.append(qforall([x_], other(x_) != x_, patterns=[other(x_)]))
    return out

  def fresh_of(self, set_term):
    return z3.Function('fresh!' + self.name, z3.ArraySort(self.z3(), z3.BoolSort()), self.z3())(set_term)

  def other_of(self, t):
    return z3.Function('other!' + self.name, self.z3(), self.z3())(t)

  def enumerate(self, bound):
    u = list(self.universe or ['a', 'b', 'c', 'd'])
    return ([None] if self.nullable else []) + u[: max(1, bound)]


class SeqOf(Sort):
  mutable = True  # lists; tuples simply never get mutated
  _cache: dict = {}

  def __init__(self, elem: Sort):
    self.elem = elem
    self.name = f'Seq<{elem.name}>'

  def z3(self):
    k = self.name
    if k not in SeqOf._cache:
      d = z3.Datatype(k)
      d.declare('mk', ('len', z3.IntSort()), ('arr', z3.ArraySort(z3.IntSort(), self.elem.z3())))
      SeqOf._cache[k] = d.create()
    return SeqOf._cache[k]

  def len(self, t):
    return self.z3().len(t)

  def get(self, t, i):
    return z3.Select(self.z3().arr(t), i)

  def wf(self, t):
    out = [self.len(t) >= 0]
    i = z3.Int(fresh_name('i'))
    inner = self.elem.wf(self.get(t, i))
    if inner:
      out.append(qforall([i], z3.Implies(z3.And(i >= 0, i < self.len(t)), z3.And(*inner)),
                           patterns=[self.get(t, i)]))
    return out

  def abstract(self, py):
    return tuple(self.elem.abstract(x) for x in py)

  def concretise(self, spec):
    return tuple(self.elem.concretise(x) for x in spec)

  def enumerate(self, bound):
    es = self.elem.enumerate(bound)
    out = []
    for n in range(0, bound + 1):
      out.extend(itertools.product(es, repeat=n))
    return out


class SetOf(Sort):
  mutable = True

  def __init__(self, elem: Sort):
    self.elem = elem
    self.name = f'Set<{elem.name}>'

  def z3(self):
    return z3.ArraySort(self.elem.z3(), z3.BoolSort())

  def empty(self):
    return z3.K(self.elem.z3(), z3.BoolVal(False))

  def wf(self, t):
    # finiteness of python sets over an infinite value space: some value is not a member
    if isinstance(self.elem, Opaque) and self.elem.infinite:
      return [z3.Not(z3.Select(t, self.elem.fresh_of(t)))]
    return []

  def abstract(self, py):
    return frozenset(self.elem.abstract(x) for x in py)

  def concretise(self, spec):
    return set(self.elem.concretise(x) for x in spec)

  def enumerate(self, bound):
    es = self.elem.enumerate(bound)
    out = []
    for n in range(0, min(bound, len(es)) + 1):
      out.extend(frozenset(c) for c in itertools.combinations(es, n))
    return out


class MapOf(Sort):
  mutable = True
  _cache: dict = {}

  def __init__(self, key: Sort, val: Sort):
    self.key, self.val = key, val
    self.keyseq = SeqOf(key)
    self.name = f'Map<{key.name},{val.name}>'

  def z3(self):
    k = self.name
    if k not in MapOf._cache:
      d = z3.Datatype(k)
      d.declare('mk', ('dom', z3.ArraySort(self.key.z3(), z3.BoolSort())),
                ('val', z3.ArraySort(self.key.z3(), self.val.z3())),
                ('keys', self.keyseq.z3()))
      MapOf._cache[k] = d.create()
    return MapOf._cache[k]

  def dom(self, t):
    return self.z3().dom(t)

  def has(self, t, k):
    return z3.Select(self.dom(t), k)

  def get(self, t, k):
    return z3.Select(self.z3().val(t), k)

  def keys(self, t):
    return self.z3().keys(t)

  def keys_wf(self, t):
    """The key sequence enumerates dom exactly once (insertion order, otherwise unconstrained)."""
    ks = self.keys(t)
    S = self.keyseq
    i, j = z3.Int(fresh_name('i')), z3.Int(fresh_name('j'))
    k = z3.Const(fresh_name('k'), self.key.z3())
    idx = z3.Function(fresh_name('idx'), self.key.z3(), z3.IntSort())
    inr = lambda x: z3.And(x >= 0, x < S.len(ks))
    return [
      S.len(ks) >= 0,
      qforall([i], z3.Implies(inr(i), self.has(t, S.get(ks, i))), patterns=[S.get(ks, i)]),
      qforall([k], z3.Implies(self.has(t, k), z3.And(inr(idx(k)), S.get(ks, idx(k)) == k)),
                patterns=[self.has(t, k)]),
      qforall([i, j], z3.Implies(z3.And(inr(i), inr(j), S.get(ks, i) == S.get(ks, j)), i == j),
                patterns=[z3.MultiPattern(S.get(ks, i), S.get(ks, j))]),
    ]

  def wf(self, t):
    out = list(self.keys_wf(t))
    k = z3.Const(fresh_name('k'), self.key.z3())
    inner = self.val.wf(self.get(t, k))
    if inner:
      out.append(qforall([k], z3.Implies(self.has(t, k), z3.And(*inner)), patterns=[self.get(t, k)]))
    return out

  def abstract(self, py):
    return {self.key.abstract(k): self.val.abstract(v) for k, v in py.items()}

  def concretise(self, spec):
    return {self.key.concretise(k): self.val.concretise(v) for k, v in spec.items()}

  def enumerate(self, bound):
    ks = self.key.enumerate(bound)
    vs = self.val.enumerate(max(1, bound - 1))
    out = []
    for n in range(0, min(bound, len(ks)) + 1):
      for kk in itertools.permutations(ks, n):
        for vv in itertools.product(vs, repeat=n):
          out.append(dict(zip(kk, vv)))
    return out


class ADTVal:
  """Native (CPython) representation of a Union value when contracts are evaluated natively."""
  __slots__ = ('ctor', '_f')

  def __init__(self, ctor, **fields):
    self.ctor = ctor
    self._f = fields

  def __getattr__(self, k):
    if k in ('ctor', '_f') or k.startswith('__'):
      raise AttributeError(k)
    try:
      return self._f[k]
    except KeyError:
      raise AttributeError(k)

  def __eq__(self, o):
    return isinstance(o, ADTVal) and self.ctor == o.ctor and self._f == o._f

  def __hash__(self):
    return hash((self.ctor, repr(sorted(self._f.items(), key=lambda kv: kv[0]))))

  def __repr__(self):
    return 'ADTVal(' + repr(self.ctor) + ''.join(f', {k}={v!r}' for k, v in self._f.items()) + ')'


class Ctor:
  def __init__(self, name, fields=(), pytypes=(), payload=None, is_const=None, tuple_like=False):
    """fields: [(name, Sort or 'SELF')]; pytypes: names of Python classes whose isinstance
    test is true for values built by this constructor; payload: field name carrying the plain
    Python value (for wrapper constructors such as FStr(s)) or None for object-like
    constructors whose fields are Python attributes; is_const: python constant this
    constructor denotes (e.g. None, Ellipsis) for `is` tests."""
    self.name, self.fields, self.pytypes, self.payload = name, list(fields), tuple(pytypes), payload
    self.is_const = is_const
    self.tuple_like = tuple_like  # a python tuple whose items are the fields, in order


class Union(Sort):
  """Tagged union of Python values (an algebraic datatype in SMT)."""
  _cache: dict = {}
  _shapes: dict = {}

  def __init__(self, name, ctors, abstract=None, concretise=None, enumerate=None):
    self.name = name
    self.ctors = {c.name: c for c in ctors}
    self._abstract, self._concretise, self._enumerate = abstract, concretise, enumerate

  def field_sort(self, ctor, fname):
    for n, s in self.ctors[ctor].fields:
      if n == fname:
        return self if s == 'SELF' else s
    raise KeyError(fname)

  def z3(self):
    USED_SORTS.add(self.name)
    shape = tuple((c.name, tuple((fn, fs if fs == 'SELF' else fs.name) for fn, fs in c.fields)) for c in self.ctors.values())
    if self.name not in Union._cache:
      d = z3.Datatype(self.name)
      for c in self.ctors.values():
        d.declare(c.name, *[(f'{c.name}_{fn}', d if fs == 'SELF' else fs.z3()) for fn, fs in c.fields])
      Union._cache[self.name] = d.create()
      Union._shapes[self.name] = shape
    elif Union._shapes.get(self.name) != shape:
      # two sidecar modules declared different unions under one name: a checker error, never a verdict
      raise RuntimeError(f'two different union sorts are both named {self.name!r}: {Union._shapes.get(self.name)} vs {shape}')
    return Union._cache[self.name]

  def is_(self, ctor, t):
    return getattr(self.z3(), 'is_' + ctor)(t)

  def wf_pred(self):
    return z3.Function('wf!' + self.name, self.z3(), z3.BoolSort())

  def wf(self, t):
    if not self.wf_axioms():
      return []
    return [self.wf_pred()(t)]

  def wf_axioms(self):
    """wf!U(x) implies the well-formedness of every field (recursively)."""
    if getattr(self, '_wfax', None) is None:
      x = z3.Const('x!wf!' + self.name, self.z3())
      facts = []
      self._wfax = []  # guards recursion
      for c in self.ctors.values():
        for fn, fs in c.fields:
          acc = self.acc(c.name, fn, x)
          inner = [self.wf_pred()(acc)] if fs == 'SELF' else fs.wf(acc)
          if fs == 'SELF':
            continue_ = True
          for f in inner:
            facts.append(z3.Implies(self.is_(c.name, x), f))
      nontrivial = any(not (fs == 'SELF') and fs.wf(self.acc(c.name, fn, x)) for c in self.ctors.values() for fn, fs in c.fields)
      self._wfax = [qforall([x], z3.Implies(self.wf_pred()(x), z3.And(*facts)), patterns=[self.wf_pred()(x)])] if nontrivial else []
    return self._wfax

  def acc(self, ctor, fname, t):
    return getattr(self.z3(), f'{ctor}_{fname}')(t)

  def mk(self, ctor, *ts):
    c = getattr(self.z3(), ctor)
    return c(*ts) if ts else c

  def abstract(self, py):
    if self._abstract is None:
      raise OutsideSubset(f'no abstraction function for {self.name}')
    return self._abstract(py)

  def concretise(self, spec):
    return self._concretise(spec)

  def enumerate(self, bound):
    return self._enumerate(bound)


def Opt(s: Sort, name=None):
  """Optional[s] as a Union."""
  return Union(name or f'Opt<{s.name}>', [
    Ctor('ONone', [], pytypes=('NoneType',), is_const=None),
    Ctor('OSome', [('v', s)], pytypes=(), payload='v'),
  ], abstract=lambda py: ADTVal('ONone') if py is None else ADTVal('OSome', v=s.abstract(py)),
     concretise=lambda sp: None if sp.ctor == 'ONone' else s.concretise(sp.v),
     enumerate=lambda b: [None] + list(s.enumerate(b)))


class TupleOf(Sort):
  """Fixed-arity heterogeneous tuple; lives as a python tuple of values (no single SMT term)."""
  def __init__(self, *elems):
    self.elems = elems
    self.name = 'Tuple<' + ','.join(e.name for e in elems) + '>'

  def abstract(self, py):
    return tuple(s.abstract(x) for s, x in zip(self.elems, py))

  def concretise(self, spec):
    return tuple(s.concretise(x) for s, x in zip(self.elems, spec))

  def enumerate(self, bound):
    return list(itertools.product(*[s.enumerate(bound) for s in self.elems]))


class FuncSort(Sort):
  """A callable value that is a pure, total, uninterpreted function (sidecar-declared)."""
  def __init__(self, args, ret, name=None):
    self.args, self.ret = tuple(args), ret
    self.name = name or ('Fn<' + ','.join(a.name for a in self.args) + '->' + ret.name + '>')


class AnySort(Sort):
  """return 'sort' of functions whose result is not modelled (closures, opaque python objects):
  the result is not coerced and contracts must not mention `result`"""
  name = 'Any'


ANY = AnySort()
