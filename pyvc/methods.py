"""Summaries of builtin functions and container methods (trusted base)."""
from __future__ import annotations
import ast
import z3
from .sorts import *  # noqa
from .values import *  # noqa
from .ops import zbool, _ObjCase
from .symexec import Exec, GLOBAL_BINDINGS, Env, RaiseEx, PathEnd
from .loops import as_iter


def H(name):
  def deco(fn):
    GLOBAL_BINDINGS[name] = Handler(name, fn, 'builtin summary')
    return fn
  return deco


def _gen(self, a, kind):
  """argument that is a generator expression -> comprehension result of `kind`."""
  if isinstance(a, tuple) and not isinstance(a, PyTuple) and len(a) == 3 and a[0] == 'genexp':
    return self.comprehension(a[1], a[2], kind)
  return None


@H('vars')
def b_vars(self, a, kw):
  v = self.deref(a[0])
  if isinstance(v, SV) and isinstance(v.sort, Union) and not getattr(v.sort, 'vars_hook', None) and not self.spec_mode:
    v = self.unwrap(v)
  if isinstance(v, SV) and getattr(v.sort, 'vars_hook', None):
    return v.sort.vars_hook(self, v)
  raise OutsideSubset('vars() of this object')


@H('len')
def b_len(self, a, kw):
  v = self.deref(a[0])
  for _ in range(3):
    if isinstance(v, SV) and isinstance(v.sort, Union):
      v = self.unwrap(v)
  if isinstance(v, _ObjCase) and v.ctor.tuple_like:
    return len(v.ctor.fields)
  if isinstance(v, PyTuple):
    return len(v)
  if isinstance(v, Lit):
    return len(v.py)
  if isinstance(v, IterView):
    return SV(INT, v.length)
  if isinstance(v, SV):
    s = v.sort
    if isinstance(s, SeqOf):
      return SV(INT, s.len(v.t))
    if isinstance(s, MapOf):
      for f in s.keys_wf(v.t):
        self.assume(f)
      return SV(INT, s.keyseq.len(s.keys(v.t)))
    if isinstance(s, StrSort):
      return SV(INT, z3.Length(v.t))
    if isinstance(s, SetOf):
      card = z3.Function('card!' + s.name, s.z3(), z3.IntSort())
      self.assume(card(v.t) >= 0)
      self.assume((card(v.t) == 0) == (v.t == s.empty()))
      # more than one element <=> two distinct members
      w1 = z3.Function('card_w1!' + s.name, s.z3(), s.elem.z3())
      w2 = z3.Function('card_w2!' + s.name, s.z3(), s.elem.z3())
      x, y = z3.Const(fresh_name('x'), s.elem.z3()), z3.Const(fresh_name('y'), s.elem.z3())
      self.assume(z3.Implies(card(v.t) > 1, z3.And(z3.Select(v.t, w1(v.t)), z3.Select(v.t, w2(v.t)), w1(v.t) != w2(v.t))))
      self.assume(qforall([x, y], z3.Implies(z3.And(z3.Select(v.t, x), z3.Select(v.t, y), x != y), card(v.t) > 1),
                          patterns=[z3.MultiPattern(z3.Select(v.t, x), z3.Select(v.t, y))]))
      return SV(INT, card(v.t))
  raise OutsideSubset(f'len of {v!r}')


@H('isinstance')
def b_isinstance(self, a, kw):
  t = a[1]
  tags = list(t) if isinstance(t, PyTuple) else [t]
  r = self.isinstance_(a[0], tags)
  s = z3.simplify(r)
  return True if z3.is_true(s) else False if z3.is_false(s) else SV(BOOL, r)


@H('set')
def b_set(self, a, kw):
  hint = self.type_hint(None)
  if not a:
    if hint is None:
      raise OutsideSubset('set() without a sort hint')
    return self.new_box(SV(hint, hint.empty()))
  g = _gen(self, a[0], 'set')
  if g is not None:
    return g
  v = self.deref(a[0])
  if isinstance(v, SV) and isinstance(v.sort, Union):
    v = self.unwrap(v)
  if isinstance(v, SV) and isinstance(v.sort, SetOf):
    return self.new_box(SV(v.sort, v.t))
  if isinstance(v, SV) and isinstance(v.sort, SeqOf):
    return self.new_box(self.set_from_seq(v))
  if isinstance(v, SV) and isinstance(v.sort, MapOf):
    return self.new_box(SV(SetOf(v.sort.key), v.sort.dom(v.t)))
  if isinstance(v, IterView) and getattr(v, 'source_map', None) is not None:
    m = v.source_map
    return self.new_box(SV(SetOf(m.sort.key), m.sort.dom(m.t)))
  if isinstance(v, IterView) and v.elem_sort is not None:
    return self.new_box(self.set_from_seq(self.deref(_to_seq(self, [v], 'tuple'))))
  if isinstance(v, PyTuple):
    s0 = hint.elem if hint else self.sort_of(v[0]) if v else None
    if s0 is None:
      raise OutsideSubset('set(tuple) of unknown sort')
    S = SetOf(s0)
    t = S.empty()
    for x in v:
      t = z3.Store(t, self.coerce(x, s0).t, True)
    return self.new_box(SV(S, t))
  raise OutsideSubset(f'set({v!r})')


GLOBAL_BINDINGS['frozenset'] = Handler('frozenset', b_set, 'builtin summary')


def _to_seq(self, a, kind):
  hint = self.type_hint(None)
  if not a:
    if kind == 'tuple':
      return PyTuple(())
    if hint is None:
      raise OutsideSubset('list() without a sort hint')
    return self.new_box(self.seq_from_items([], hint.elem))
  g = _gen(self, a[0], kind)
  if g is not None:
    return g
  v = self.deref(a[0])
  if isinstance(v, SV) and isinstance(v.sort, Union):
    v = self.unwrap(v)
  if isinstance(v, PyTuple):
    if kind == 'tuple':
      return v
    s0 = hint.elem if hint else (self.sort_of(v[0]) if v else None)
    if s0 is None:
      raise OutsideSubset('list(tuple) of unknown sort')
    return self.new_box(self.seq_from_items(list(v), s0))
  if isinstance(v, SV) and isinstance(v.sort, SeqOf):
    r = SV(v.sort, v.t)
    return self.new_box(r) if kind == 'list' else r
  if isinstance(v, IterView) or (isinstance(v, SV) and isinstance(v.sort, (MapOf, SetOf))):
    it = as_iter(self, v)
    rec = getattr(self.spec, 'comp_elem_hint', None)
    if it.elem_sort is None and rec is None:
      raise OutsideSubset(f'{kind}() of an iterable of tuples')
    es = it.elem_sort if it.elem_sort is not None else rec       # tuples become values of the record sort the sidecar names
    S = SeqOf(es)
    r = S.const(kind)
    k = z3.Int(fresh_name('i'))
    self.assume(S.len(r) == it.length)
    at = (lambda t: it.at(t).t) if it.elem_sort is not None else (lambda t: self.coerce(it.at(t), es).t)
    self.assume(qforall([k], z3.Implies(z3.And(k >= 0, k < it.length), S.get(r, k) == at(k)), patterns=[S.get(r, k)]))
    # reverse-direction trigger: a fact about the k-th source element reaches r[k]
    if it.elem_sort is not None:
      self.assume(qforall([k], z3.Implies(z3.And(k >= 0, k < it.length), S.get(r, k) == at(k)), patterns=[at(k)]))
    return self.new_box(SV(S, r)) if kind == 'list' else SV(S, r)
  raise OutsideSubset(f'{kind}({v!r})')


@H('tuple')
def b_tuple(self, a, kw):
  return _to_seq(self, a, 'tuple')


@H('list')
def b_list(self, a, kw):
  return _to_seq(self, a, 'list')


@H('dict')
def b_dict(self, a, kw):
  hint = self.type_hint(None)
  if not a and not kw:
    if hint is None:
      raise OutsideSubset('dict() without a sort hint')
    return self.new_box(self.empty_map(hint))
  v = self.deref(a[0]) if a else None
  if isinstance(v, SV) and isinstance(v.sort, MapOf) and not kw:
    return self.new_box(SV(v.sort, v.t))
  if isinstance(v, SV) and isinstance(v.sort, Opaque) and not kw and not v.sort.is_str:
    # dict(x) of a dict-like object modelled by identity: a NEW object (equal content, different identity)
    r = self.fresh(v.sort, 'dict_copy')
    self.assume(r.t != v.t)
    return r
  raise OutsideSubset('dict(...) form')


@H('any')
def b_any(self, a, kw):
  g = _gen(self, a[0], 'any')
  if g is not None:
    return g
  it = as_iter(self, a[0])
  k = z3.Int(fresh_name('i'))
  return SV(BOOL, z3.Exists([k], z3.And(k >= 0, k < it.length, self.truthy(it.at(k)))))


@H('all')
def b_all(self, a, kw):
  g = _gen(self, a[0], 'all')
  if g is not None:
    return g
  it = as_iter(self, a[0])
  k = z3.Int(fresh_name('i'))
  return SV(BOOL, qforall([k], z3.Implies(z3.And(k >= 0, k < it.length), self.truthy(it.at(k)))))


@H('range')
def b_range(self, a, kw):
  xs = [self.coerce(x, INT).t for x in a]
  if len(xs) == 1:
    lo, hi, st = z3.IntVal(0), xs[0], z3.IntVal(1)
  elif len(xs) == 2:
    lo, hi, st = xs[0], xs[1], z3.IntVal(1)
  else:
    lo, hi, st = xs
  st_s = z3.simplify(st)
  if z3.is_int_value(st_s) and st_s.as_long() == 1:
    n = z3.If(hi > lo, hi - lo, 0)
    n_s = z3.simplify(n)
    lo_s = z3.simplify(lo)
    if z3.is_int_value(n_s) and z3.is_int_value(lo_s) and n_s.as_long() <= 8:
      iv = as_iter(self, PyTuple(lo_s.as_long() + i for i in range(n_s.as_long())))
      iv.elem_sort = INT
      return iv
    return IterView(n, lambda k: SV(INT, lo + k), INT)
  # general positive step: ceil((hi-lo)/st); the step must be provably positive
  if not self.spec_mode:
    self.oblige(st > 0, 'safety:modelled-positive-step')
  self.assume(st > 0)
  n = z3.If(hi > lo, (hi - lo + st - 1) / st, 0)
  return IterView(n, lambda k: SV(INT, lo + k * st), INT)


@H('enumerate')
def b_enumerate(self, a, kw):
  it = as_iter(self, a[0])
  st = getattr(it, 'static', None)
  if st is not None:
    return as_iter(self, PyTuple(PyTuple((i, x)) for i, x in enumerate(st)))
  return IterView(it.length, lambda k: PyTuple((SV(INT, k), it.at(k))), None)


@H('zip')
def b_zip(self, a, kw):
  its = [as_iter(self, x) for x in a]
  if all(getattr(i, 'static', None) is not None for i in its):
    return as_iter(self, PyTuple(PyTuple(t) for t in zip(*[i.static for i in its])))
  n = its[0].length
  for i in its[1:]:
    n = z3.If(i.length < n, i.length, n)
  return IterView(n, lambda k: PyTuple(i.at(k) for i in its), None)


@H('map')
def b_map(self, a, kw):
  """map(f, iterable): lazily, element k is f(iterable[k]); f is applied once under a binder
  (its result is a skolem function of the index)"""
  from .calls import call_value
  f = a[0]
  it = as_iter(self, a[1])
  st = getattr(it, 'static', None)
  if st is not None:
    return as_iter(self, PyTuple(call_value(self, f, [x], {}) for x in st))
  if f is GLOBAL_BINDINGS.get('str') and isinstance(it.elem_sort, Opaque) and it.elem_sort.is_str:
    return it  # str() is the identity on strings
  k = z3.Int(fresh_name('mi'))
  saved = self.spec_mode
  self.spec_mode = True
  self.push_binders([k])
  try:
    v = self.lift(call_value(self, f, [it.at(k)], {}))
  finally:
    self.pop_binders(1)
    self.spec_mode = saved
  return IterView(it.length, lambda kk: SV(v.sort, z3.substitute(v.t, (k, kk if not isinstance(kk, int) else z3.IntVal(kk)))), v.sort)


@H('type')
def b_type(self, a, kw):
  v = self.deref(a[0])
  if isinstance(v, SV) and getattr(v.sort, 'construct_like', None):
    return Handler('type(x)', lambda ex, aa, kk, v=v: v.sort.construct_like(ex, v, aa, kk), 'type(x)(...) constructor')
  if isinstance(v, SV) and isinstance(v.sort, Union) and not self.spec_mode:
    v = self.unwrap(v)
  if isinstance(v, SV) and getattr(v.sort, 'type_hook', None):
    return v.sort.type_hook(self, v)     # the class object as a value
  raise OutsideSubset(f'type({v!r})')


@H('issubclass')
def b_issubclass(self, a, kw):
  v = self.deref(a[0])
  t = a[1]
  tags = list(t) if isinstance(t, PyTuple) else [t]
  if isinstance(v, SV) and getattr(v.sort, 'issubclass_hook', None):
    return SV(BOOL, v.sort.issubclass_hook(self, v, {getattr(x, 'name', None) for x in tags}))
  raise OutsideSubset('issubclass')


@H('hasattr')
def b_hasattr(self, a, kw):
  v = self.deref(a[0])
  if isinstance(v, SV) and isinstance(v.sort, Union) and not self.spec_mode:
    v = self.unwrap(v)
  name = self.deref(a[1])
  if isinstance(v, SV) and getattr(v.sort, 'hasattr_hook', None) and isinstance(name, Lit):
    return v.sort.hasattr_hook(self, v, name.py)
  raise OutsideSubset('hasattr')


@H('reversed')
def b_reversed(self, a, kw):
  it = as_iter(self, a[0])
  st = getattr(it, 'static', None)
  if st is not None:
    return as_iter(self, PyTuple(reversed(st)))
  return IterView(it.length, lambda k: it.at(it.length - 1 - k), it.elem_sort)


@H('min')
def b_min(self, a, kw):
  if len(a) == 2:
    x, y, s = self.num2(a[0], a[1])
    return SV(s, z3.If(x.t <= y.t, x.t, y.t))
  raise OutsideSubset('min of an iterable')


@H('max')
def b_max(self, a, kw):
  if len(a) == 2:
    x, y, s = self.num2(a[0], a[1])
    return SV(s, z3.If(x.t >= y.t, x.t, y.t))
  raise OutsideSubset('max of an iterable')


@H('abs')
def b_abs(self, a, kw):
  x = self.lift(a[0])
  return SV(x.sort, z3.If(x.t >= 0, x.t, -x.t))


@H('divmod')
def b_divmod(self, a, kw):
  import ast as _a
  q = self.binop(_a.FloorDiv(), a[0], a[1])
  r = self.binop(_a.Mod(), a[0], a[1])
  return PyTuple((q, r))


@H('bool')
def b_bool(self, a, kw):
  return SV(BOOL, self.truthy(a[0]))


@H('int')
def b_int(self, a, kw):
  v = self.lift(a[0])
  if isinstance(v.sort, (IntSort, BoolSort)):
    return self.coerce(v, INT)
  raise OutsideSubset('int() of a non-integer')


_STR_OF_INT = {}


@H('float')
def b_float(self, a, kw):
  v = self.deref(a[0])
  if isinstance(v, Lit) and v.py in ('inf', '-inf'):
    hook = getattr(self.spec, 'infinity', None)
    if hook is None:
      raise OutsideSubset("float('inf'): the sidecar must say how large infinity has to be (spec.infinity)")
    r = hook(self)
    return r if v.py == 'inf' else SV(REAL, -r.t)
  return self.coerce(v, REAL)


@H('str')
def b_str(self, a, kw):
  v = self.deref(a[0])
  if isinstance(v, Lit):
    return v
  if isinstance(v, int) and not isinstance(v, bool):
    v = self.lift(v)
  if isinstance(v, SV) and isinstance(v.sort, IntSort):
    # str on ints: injective uninterpreted function into the name sort chosen by the sidecar
    tgt = getattr(self.spec, 'str_sort', None)
    if tgt is None:
      raise OutsideSubset('str(int): the sidecar must give str_sort=')
    f = z3.Function('str_of_int!' + tgt.name, z3.IntSort(), tgt.z3())
    inv = z3.Function('int_of_str!' + tgt.name, tgt.z3(), z3.IntSort())
    i = z3.Int(fresh_name('i'))
    ax = qforall([i], inv(f(i)) == i, patterns=[f(i)])
    if not any(z3.eq(ax.body(), x.body()) for x in self.axioms if z3.is_quantifier(x)):
      self.axioms.append(ax)
    return SV(tgt, f(self.coerce(v, INT).t))
  if isinstance(v, SV) and isinstance(v.sort, (Opaque, StrSort)) and getattr(v.sort, 'is_str', True):
    return v
  raise OutsideSubset(f'str({v!r})')


def _sorted_by_key(self, it, es, keyfn):
  """sorted(items, key=f) for an integer-valued key function: the stable permutation of the items in
  ascending key order. The key function is evaluated symbolically on an arbitrary element."""
  if es is None:
    raise OutsideSubset('sorted(key=) of untyped items')
  S = SeqOf(es)
  src = self.deref(_to_seq(self, [it], 'tuple'))
  r = S.const('sorted')
  n = S.len(src.t)
  i, j = z3.Int(fresh_name('i')), z3.Int(fresh_name('j'))
  pi = z3.Function(fresh_name('perm'), z3.IntSort(), z3.IntSort())
  pinv = z3.Function(fresh_name('perminv'), z3.IntSort(), z3.IntSort())
  inr = lambda e: z3.And(e >= 0, e < n)
  x = z3.Const(fresh_name('kx'), es.z3())
  saved = self.spec_mode
  self.spec_mode = True
  self.push_binders([x])
  try:
    kx = self.coerce(self.call_value(keyfn, [SV(es, x)], {}), INT).t
  finally:
    self.pop_binders(1)
    self.spec_mode = saved
  key = lambda t: z3.substitute(kx, (x, t))
  self.assume(S.len(r) == n)
  self.assume(qforall([i], z3.Implies(inr(i), z3.And(inr(pi(i)), pinv(pi(i)) == i, S.get(r, i) == S.get(src.t, pi(i)))), patterns=[S.get(r, i)]))
  self.assume(qforall([j], z3.Implies(inr(j), z3.And(inr(pinv(j)), pi(pinv(j)) == j, S.get(r, pinv(j)) == S.get(src.t, j))), patterns=[S.get(src.t, j)]))
  self.assume(qforall([j], z3.Implies(inr(j), z3.And(inr(pinv(j)), pi(pinv(j)) == j)), patterns=[pinv(j)]))
  # ascending keys; equal keys keep their source order (stable)
  self.assume(qforall([i, j], z3.Implies(z3.And(inr(i), inr(j), i < j),
                                         z3.And(key(S.get(r, i)) <= key(S.get(r, j)),
                                                z3.Implies(key(S.get(r, i)) == key(S.get(r, j)), pi(i) < pi(j)))),
                      patterns=[z3.MultiPattern(S.get(r, i), S.get(r, j))]))
  return self.new_box(SV(S, r))


@H('sorted')
def b_sorted(self, a, kw):
  """sorted(iterable) over an opaque sort: the permutation of the items ordered by an
  uninterpreted strict total order lt!<Sort> (python string / tuple comparison)."""
  if kw and set(kw) != {'key'}:
    raise OutsideSubset('sorted() with reverse=: give a Handler in the sidecar bindings')
  g = _gen(self, a[0], 'list')      # sorted(<generator expression>): sort the materialised list
  it = as_iter(self, g if g is not None else a[0])
  es = it.elem_sort
  if 'key' in kw:
    return _sorted_by_key(self, it, es, kw['key'])
  if isinstance(es, IntSort):
    return _sorted_by_key(self, it, es, Handler('identity', lambda ex, a, k: a[0], 'sorted() of integers: the key is the value'))
  if es is None or not isinstance(es, Opaque):
    raise OutsideSubset('sorted() of non-opaque items')
  S = SeqOf(es)
  src = self.deref(_to_seq(self, [it], 'tuple'))
  r = S.const('sorted')
  lt = z3.Function('lt!' + es.name, es.z3(), es.z3(), z3.BoolSort())
  x, y, w = [z3.Const(fresh_name(c), es.z3()) for c in 'xyw']
  ax = [z3.ForAll([x], z3.Not(lt(x, x))),
        z3.ForAll([x, y, w], z3.Implies(z3.And(lt(x, y), lt(y, w)), lt(x, w))),
        z3.ForAll([x, y], z3.Or(lt(x, y), lt(y, x), x == y))]
  for f in ax:
    if not any(z3.eq(f, g) for g in self.axioms):
      self.axioms.append(f)
  i, j = z3.Int(fresh_name('i')), z3.Int(fresh_name('j'))
  n = S.len(src.t)
  pi = z3.Function(fresh_name('perm'), z3.IntSort(), z3.IntSort())
  pinv = z3.Function(fresh_name('perminv'), z3.IntSort(), z3.IntSort())
  inr = lambda e: z3.And(e >= 0, e < n)
  self.assume(S.len(r) == n)
  self.assume(qforall([i], z3.Implies(inr(i), z3.And(inr(pi(i)), pinv(pi(i)) == i, S.get(r, i) == S.get(src.t, pi(i)))), patterns=[S.get(r, i)]))
  self.assume(qforall([j], z3.Implies(inr(j), z3.And(inr(pinv(j)), pi(pinv(j)) == j)), patterns=[pinv(j)]))
  # every source element occurs in the result (trigger on the source term)
  self.assume(qforall([j], z3.Implies(inr(j), z3.And(inr(pinv(j)), S.get(r, pinv(j)) == S.get(src.t, j))), patterns=[S.get(src.t, j)]))
  # derived: the last element is a maximum, the first a minimum
  self.assume(qforall([j], z3.Implies(inr(j), z3.And(z3.Not(lt(S.get(r, n - 1), S.get(src.t, j))), z3.Not(lt(S.get(src.t, j), S.get(r, 0))))),
                      patterns=[S.get(src.t, j)]))
  self.assume(qforall([i, j], z3.Implies(z3.And(inr(i), inr(j), i < j), z3.Not(lt(S.get(r, j), S.get(r, i)))),
                      patterns=[z3.MultiPattern(S.get(r, i), S.get(r, j))]))
  return self.new_box(SV(S, r))


@H('getattr')
def b_getattr(self, a, kw):
  if isinstance(a[1], Lit):
    return self.getattr_(a[0], a[1].py)
  v = self.deref(a[0])
  if isinstance(v, SV) and getattr(v.sort, 'getattr_dyn', None):
    return v.sort.getattr_dyn(self, v, a[1])
  raise OutsideSubset('getattr with a computed name')


@H('implies')
def b_implies(self, a, kw):
  return SV(BOOL, z3.Implies(self.truthy(a[0]), self.truthy(a[1])))


@H('iff')
def b_iff(self, a, kw):
  return SV(BOOL, self.truthy(a[0]) == self.truthy(a[1]))


@H('is_')
def b_is_ctor(self, a, kw):
  """spec-level constructor test: is_(x, 'FBool')"""
  v = self.deref(a[0])
  if not (isinstance(v, SV) and isinstance(v.sort, Union) and isinstance(a[1], Lit)):
    raise OutsideSubset('is_(union value, "Ctor")')
  return SV(BOOL, v.sort.is_(a[1].py, v.t))


@H('seq_eq')
def b_seq_eq(self, a, kw):
  return SV(BOOL, self.py_eq(a[0], a[1]))


@H('ite')
def b_ite(self, a, kw):
  return self.ite(self.truthy(a[0]), a[1], a[2])


@H('dom')
def b_dom(self, a, kw):
  v = self.deref(a[0])
  if isinstance(v, SV) and isinstance(v.sort, MapOf):
    return SV(SetOf(v.sort.key), v.sort.dom(v.t))
  raise OutsideSubset('dom() of a non-map')


@H('map_set')
def b_map_set(self, a, kw):
  """spec function: the map m with key k set to v ({**m, k: v})"""
  m = self.deref(a[0])
  if isinstance(m, SV) and isinstance(m.sort, MapOf):
    return self.map_set(m, a[1], a[2])
  raise OutsideSubset('map_set() of a non-map')


@H('subset')
def b_subset(self, a, kw):
  x, y = self.deref(a[0]), self.deref(a[1])
  return SV(BOOL, z3.IsSubset(x.t, self.coerce(y, x.sort).t))


@H('ghost')
def b_ghost(self, a, kw):
  """spec-level: value recorded by a summary under this name on the current path"""
  k = a[0].py
  if k not in self.ghost:
    raise OutsideSubset(f'ghost variable {k!r} was not recorded on this path')
  return self.ghost[k]


@H('ncalls')
def b_ncalls(self, a, kw):
  """spec-level: how many times the recorded-effect procedure was called on this path"""
  return len(self.ghost.get('calls:' + a[0].py, []))


@H('call_order')
def b_call_order(self, a, kw):
  """spec-level: position of the i-th call of a recorded-effect procedure in the global effect order"""
  i = a[1] if len(a) > 1 else 0
  k = 'order:%s:%d' % (a[0].py, i)
  if k not in self.ghost:
    raise OutsideSubset(f'call_order({a[0].py!r}, {i}): no such call on this path')
  return self.ghost[k]


@H('call_args')
def b_call_args(self, a, kw):
  """spec-level: argument tuple of the i-th recorded call"""
  calls = self.ghost.get('calls:' + a[0].py, [])
  i = a[1] if len(a) > 1 else 0
  if not isinstance(i, int) or i >= len(calls):
    # no such call on this path: unconstrained placeholder so that `ncalls(...) == k and ...` stays evaluable
    raise OutsideSubset(f'call_args({a[0].py!r}, {i}): no such call on this path; guard with implies(ncalls(..) > i, ..)')
  return calls[i]


@H('index_of')
def b_index_of(self, a, kw):
  """spec-level: first index of x in seq"""
  return seq_method(self, None, self.deref(a[0]), 'index', [a[1]])


@H('allocated')
def b_allocated(self, a, kw):
  """spec-level: the object reference denotes a live (already allocated) object"""
  v = self.deref(a[0])
  return SV(BOOL, z3.Select(self.alloc_arr(v.sort), v.t))


@H('other')
def b_other(self, a, kw):
  """spec-level: some value of the (infinite opaque) sort different from the argument"""
  v = self.deref(a[0])
  return SV(v.sort, v.sort.other_of(v.t))


@H('fresh')
def b_fresh(self, a, kw):
  """spec-level: some value of the (infinite opaque) element sort not in the finite set"""
  v = self.deref(a[0])
  return SV(v.sort.elem, v.sort.elem.fresh_of(v.t))


@H('empty_set')
def b_empty_set(self, a, kw):
  return SV(SetOf(a[0]), SetOf(a[0]).empty())


GLOBAL_BINDINGS.update({
  'True': True, 'False': False, 'None': NONEV,
  'str': GLOBAL_BINDINGS['str'],
  'Exception': TypeTag('Exception'),
  'ValueError': TypeTag('ValueError', (TypeTag('Exception'),)),
  'TypeError': TypeTag('TypeError', (TypeTag('Exception'),)),
  'KeyError': TypeTag('KeyError', (TypeTag('LookupError', (TypeTag('Exception'),)),)),
  'IndexError': TypeTag('IndexError', (TypeTag('LookupError', (TypeTag('Exception'),)),)),
  'AttributeError': TypeTag('AttributeError', (TypeTag('Exception'),)),
  'AssertionError': TypeTag('AssertionError', (TypeTag('Exception'),)),
  'StopIteration': TypeTag('StopIteration', (TypeTag('Exception'),)),
  'NotImplementedError': TypeTag('NotImplementedError', (TypeTag('RuntimeError', (TypeTag('Exception'),)),)),
  'RuntimeError': TypeTag('RuntimeError', (TypeTag('Exception'),)),
  'Int': INT, 'Nat': NAT, 'Bool': BOOL, 'Real': REAL,
  'bool_t': TypeTag('bool'), 'int_t': TypeTag('int'), 'str_t': TypeTag('str'),
})
# builtin classes are both callable and usable in isinstance(...)
for _n in ('bool', 'int', 'str', 'set', 'tuple', 'list', 'dict', 'frozenset', 'float'):
  GLOBAL_BINDINGS[_n].tagname = _n
GLOBAL_BINDINGS['type'].tagname = 'type'


def call_method(self: Exec, recv, name, args, kwargs):
  box = recv if isinstance(recv, Box) else None
  v = self.deref(recv)
  if isinstance(v, (Lit, FString)) and name in ('join', 'format'):
    return FString([v])   # message text: content not modelled (the argument is not evaluated)
  if isinstance(v, SV) and isinstance(v.sort, Union):
    v = self.unwrap(v)
  if isinstance(v, SV):
    s = v.sort
    custom = getattr(s, 'methods', None)
    if custom and name in custom:
      return custom[name](self, v, args, kwargs)
    if isinstance(s, SetOf):
      return set_method(self, box, v, name, args)
    if isinstance(s, SeqOf):
      return seq_method(self, box, v, name, args)
    if isinstance(s, MapOf):
      return map_method(self, box, v, name, args)
  if isinstance(v, PyTuple) and name == 'index':
    raise OutsideSubset('tuple.index')
  raise OutsideSubset(f'method {name} on {v!r}')


def set_method(self, box, v, name, args):
  s = v.sort
  if name in ('union', 'intersection', 'difference', 'issubset', 'issuperset', 'isdisjoint'):
    pass
  if name in ('union', 'intersection', 'difference', 'issubset', 'issuperset', 'isdisjoint'):
    o = self.deref(args[0])
    if isinstance(o, IterView) and getattr(o, 'source_map', None) is not None:
      o = SV(SetOf(o.source_map.sort.key), o.source_map.sort.dom(o.source_map.t))
    elif isinstance(o, IterView):
      o = self.deref(GLOBAL_BINDINGS['set'].fn(self, [GLOBAL_BINDINGS['tuple'].fn(self, [o], {})], {}))
    if isinstance(o, SV) and isinstance(o.sort, SeqOf):
      o = self.set_from_seq(o)
    o = self.coerce(o, s)
    if name == 'union':
      return self.new_box(SV(s, z3.SetUnion(v.t, o.t)))
    if name == 'intersection':
      return self.new_box(SV(s, z3.SetIntersect(v.t, o.t)))
    if name == 'difference':
      return self.new_box(SV(s, z3.SetDifference(v.t, o.t)))
    if name == 'issubset':
      return SV(BOOL, z3.IsSubset(v.t, o.t))
    if name == 'issuperset':
      return SV(BOOL, z3.IsSubset(o.t, v.t))
    if name == 'isdisjoint':
      return SV(BOOL, z3.SetIntersect(v.t, o.t) == s.empty())
  if name == 'add':
    self.mutate(box, SV(s, z3.Store(v.t, self.coerce(args[0], s.elem).t, True)))
    return NONEV
  if name == 'discard':
    self.mutate(box, SV(s, z3.Store(v.t, self.coerce(args[0], s.elem).t, False)))
    return NONEV
  if name == 'remove':
    e = self.coerce(args[0], s.elem).t
    self.oblige(z3.Select(v.t, e), 'safety:key')
    self.mutate(box, SV(s, z3.Store(v.t, e, False)))
    return NONEV
  if name == 'update':
    o = self.deref(args[0])
    if isinstance(o, SV) and isinstance(o.sort, SeqOf):
      o = self.set_from_seq(o)
    self.mutate(box, SV(s, z3.SetUnion(v.t, self.coerce(o, s).t)))
    return NONEV
  if name == 'copy':
    return self.new_box(SV(s, v.t))
  raise OutsideSubset(f'set.{name}')


def seq_method(self, box, v, name, args):
  s = v.sort
  n = s.len(v.t)
  if name == 'append':
    x = self.coerce(self.escape(args[0]), s.elem)
    # axiomatised (not Store) so that facts about old[j] carry over to new[j] by e-matching in
    # both directions
    r = s.const('app')
    k = z3.Int(fresh_name('i'))
    self.assume(s.len(r) == n + 1)
    self.assume(s.get(r, n) == x.t)
    self.assume(qforall([k], z3.Implies(z3.And(k >= 0, k < n), s.get(r, k) == s.get(v.t, k)), patterns=[s.get(r, k)]))
    self.assume(qforall([k], z3.Implies(z3.And(k >= 0, k < n), s.get(r, k) == s.get(v.t, k)), patterns=[s.get(v.t, k)]))
    self.mutate(box, SV(s, r))
    return NONEV
  if name == 'extend':
    o = self.deref(args[0])
    self.mutate(box, self.seq_concat(v, o))
    return NONEV
  if name == 'insert':
    i = self.coerce(args[0], INT).t
    x = self.coerce(self.escape(args[1]), s.elem)
    # python clamps the insertion point
    p = z3.If(i < 0, z3.If(i + n < 0, 0, i + n), z3.If(i > n, n, i))
    r = s.const('ins')
    k = z3.Int(fresh_name('i'))
    self.assume(s.len(r) == n + 1)
    self.assume(qforall([k], z3.Implies(z3.And(k >= 0, k < p), s.get(r, k) == s.get(v.t, k)), patterns=[s.get(r, k)]))
    self.assume(s.get(r, p) == x.t)
    self.assume(qforall([k], z3.Implies(z3.And(k > p, k <= n), s.get(r, k) == s.get(v.t, k - 1)), patterns=[s.get(r, k)]))
    self.assume(qforall([k], z3.Implies(z3.And(k >= p, k < n), s.get(r, k + 1) == s.get(v.t, k)), patterns=[s.get(v.t, k)]))
    self.mutate(box, SV(s, r))
    return NONEV
  if name == 'pop':
    if args:
      i = self.coerce(args[0], INT).t
    else:
      i = z3.IntVal(-1)
    self.oblige(z3.And(i >= -n, i < n), 'safety:index')
    self.assume(z3.And(i >= -n, i < n))
    p = z3.If(i < 0, i + n, i)
    r = s.const('pop')
    k = z3.Int(fresh_name('i'))
    self.assume(s.len(r) == n - 1)
    self.assume(qforall([k], z3.Implies(z3.And(k >= 0, k < p), s.get(r, k) == s.get(v.t, k)), patterns=[s.get(r, k)]))
    self.assume(qforall([k], z3.Implies(z3.And(k >= p, k < n - 1), s.get(r, k) == s.get(v.t, k + 1)), patterns=[s.get(r, k)]))
    self.assume(qforall([k], z3.Implies(z3.And(k > p, k < n), s.get(r, k - 1) == s.get(v.t, k)), patterns=[s.get(v.t, k)]))
    out = SV(s.elem, s.get(v.t, p))
    self.mutate(box, SV(s, r))
    return out
  if name == 'popleft':
    return seq_method(self, box, v, 'pop', [0])
  if name == 'copy':
    return self.new_box(SV(s, v.t))
  if name == 'remove':
    # removes the FIRST occurrence
    i = seq_method(self, None, v, 'index', args)
    return seq_method(self, box, v, 'pop', [i]) and NONEV
  if name == 'index':
    x = self.coerce(args[0], s.elem)
    i = z3.Int(fresh_name('idx'))
    k = z3.Int(fresh_name('i'))
    ex = self.contains(v, x)
    if self.spec_mode:
      # total in specs: characterised only when the element occurs
      fi = z3.Function('index_of!' + s.name, s.z3(), s.elem.z3(), z3.IntSort())
      i = fi(v.t, x.t)
      self.assume(z3.Implies(ex, z3.And(i >= 0, i < n, self.sort_eq(s.elem, s.get(v.t, i), x.t))))
      self.assume(qforall([k], z3.Implies(z3.And(k >= 0, k < i), z3.Not(self.sort_eq(s.elem, s.get(v.t, k), x.t))), patterns=[s.get(v.t, k)]))
      return SV(INT, i)
    self.oblige(ex, 'safety:index-of')
    fi = z3.Function('index_of!' + s.name, s.z3(), s.elem.z3(), z3.IntSort())
    i = fi(v.t, x.t)
    self.assume(z3.And(i >= 0, i < n, self.sort_eq(s.elem, s.get(v.t, i), x.t)))
    self.assume(qforall([k], z3.Implies(z3.And(k >= 0, k < i), z3.Not(self.sort_eq(s.elem, s.get(v.t, k), x.t))), patterns=[s.get(v.t, k)]))
    return SV(INT, i)
  raise OutsideSubset(f'list.{name}')


def map_method(self, box, v, name, args):
  s = v.sort
  if name == 'keys':
    iv = as_iter(self, v)
    iv.source_map = v
    return iv
  if name == 'items':
    it = as_iter(self, v)
    return IterView(it.length, lambda k: PyTuple((it.at(k), SV(s.val, s.get(v.t, it.at(k).t)))), None)
  if name == 'values':
    it = as_iter(self, v)
    return IterView(it.length, lambda k: SV(s.val, s.get(v.t, it.at(k).t)), s.val)
  if name == 'get':
    k = self.coerce(args[0], s.key)
    dflt = args[1] if len(args) > 1 else NONEV
    if self.decide(s.has(v.t, k.t), 'get'):
      return SV(s.val, s.get(v.t, k.t))
    return dflt
  if name == 'copy':
    return self.new_box(SV(s, v.t))
  if name == 'setdefault':
    k = self.coerce(args[0], s.key)
    if self.decide(s.has(v.t, k.t), 'setdefault'):
      return SV(s.val, s.get(v.t, k.t))
    dflt = self.coerce(args[1] if len(args) > 1 else NONEV, s.val)
    self.mutate(box, self.map_set(v, k, dflt))
    return dflt
  if name == 'pop':
    k = self.coerce(args[0], s.key)
    if len(args) > 1:
      if not self.decide(s.has(v.t, k.t), 'pop'):
        return args[1]
    else:
      self.oblige(s.has(v.t, k.t), 'safety:key')
      self.assume(s.has(v.t, k.t))
    out = SV(s.val, s.get(v.t, k.t))
    self.mutate(box, self.map_del(v, k))
    return out
  if name == 'update':
    o = self.deref(args[0])
    if isinstance(o, SV) and isinstance(o.sort, MapOf) and o.sort.name == s.name:
      Z = s.z3()
      r = s.const('upd')
      kk = z3.Const(fresh_name('k'), s.key.z3())
      self.assume(s.dom(r) == z3.SetUnion(s.dom(v.t), s.dom(o.t)))
      self.assume(qforall([kk], s.get(r, kk) == z3.If(s.has(o.t, kk), s.get(o.t, kk), s.get(v.t, kk)), patterns=[s.get(r, kk)]))
      for f in s.keys_wf(r):
        self.assume(f)
      self.mutate(box, SV(s, r))
      return NONEV
  raise OutsideSubset(f'dict.{name}')
