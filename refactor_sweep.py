#!/usr/bin/env python3
"""Applies every behaviour-preserving refactoring under /verif/refactorings/*/patch.diff to /repo (one at a time, always
reverted), runs the property's quick check and records the verdict in meta.json. A VIOLATION (exit 1) here is a false alarm of
the machinery; exit 0 (held) and exit 2 (undecided: the rewritten code left the verified subset or needs a new annotation)
are acceptable. Run from /verif with a clean /repo working tree."""
import json, os, subprocess, sys, glob, re
ROOT = os.path.dirname(os.path.abspath(__file__))
only = sys.argv[1:]
bad = 0
for d in sorted(glob.glob(os.path.join(ROOT, 'refactorings', '*'))):
  meta_p = os.path.join(d, 'meta.json')
  meta = json.load(open(meta_p))
  pid = meta['property']
  if only and os.path.basename(d) not in only and pid not in only:
    continue
  ev = os.path.join(ROOT, 'evidence', pid + '.json')
  keep = open(ev).read() if os.path.exists(ev) else None
  r = subprocess.run(['git', '-C', '/repo', 'apply', os.path.join(d, 'patch.diff')], capture_output=True, text=True)
  if r.returncode != 0:
    meta['check_result'] = dict(applies=False, error=r.stderr[-300:])
  else:
    try:
      p = subprocess.run(['./check', pid, '--tier', 'quick'], cwd=ROOT, capture_output=True, text=True, timeout=1800)
      lines = [l for l in p.stdout.splitlines() if l.startswith(('VIOLATION', 'UNDECIDED'))]
      meta['check_result'] = dict(applies=True, exit_code=p.returncode, false_alarm=p.returncode == 1 or any(l.startswith('VIOLATION') for l in lines),
                                  verdict={0: 'held', 1: 'VIOLATION (false alarm)', 2: 'undecided', 3: 'checker error'}.get(p.returncode, str(p.returncode)),
                                  lines=[l[:240] for l in lines[:3]])
    finally:
      subprocess.run(['git', '-C', '/repo', 'checkout', '--', '.'])
  if keep is not None:
    open(ev, 'w').write(keep)
  json.dump(meta, open(meta_p, 'w'), indent=1)
  cr = meta['check_result']
  bad += bool(cr.get('false_alarm')) or cr.get('exit_code') == 3
  print(os.path.basename(d), cr.get('verdict', cr), (cr.get('lines') or [''])[0][:150], flush=True)
sys.exit(1 if bad else 0)
