"""Bounded stand-in (C18): the real bridge.ToNNX / bridge.ToLinen against the module they wrap,
on a fixed family of modules (stateless, batch statistics, RNG use, sharding metadata) and call
sequences of length 3-4:

  * ToNNX: output == linen apply on the variables held by the wrapper; every collection is stored
    under the matching nnx Variable type; mutable-collection updates reach the wrapper's state;
  * ToLinen: output == the NNX module called with the same state; Variables are exposed under the
    collection named after their type; state updates (counters, RNG stream counts) round-trip
    through apply's mutable outputs over the whole call sequence;
  * values, names and sharding metadata survive both directions.

Labelled bounded: never counted as proved."""
import numpy as np
from . import _env  # noqa: F401

NAME = 'bounded:bridge ToNNX / ToLinen vs the wrapped module (module family x call sequences)'


def _close(a, b, tol=1e-5):
  import jax
  la, lb = jax.tree_util.tree_leaves(a), jax.tree_util.tree_leaves(b)
  return len(la) == len(lb) and all(np.asarray(x).shape == np.asarray(y).shape and np.allclose(np.asarray(x), np.asarray(y), atol=tol) for x, y in zip(la, lb))


def _to_nnx(nn, nnx, bridge, jnp, jax, fails):
  cases = 0
  x = jnp.linspace(-1.0, 1.0, 12).reshape(3, 4)

  class BN(nn.Module):
    @nn.compact
    def __call__(self, x, train=True):
      y = nn.Dense(4, kernel_init=nn.with_partitioning(nn.initializers.lecun_normal(), ('in', 'out')))(x)
      y = nn.BatchNorm(use_running_average=not train, momentum=0.5)(y)
      n = self.variable('counter', 'n', lambda: jnp.zeros((), jnp.int32))
      if self.is_mutable_collection('counter') and not self.is_initializing():
        n.value = n.value + 1
      return y

  @nnx.register_variable_name('counter', overwrite=True)
  class Counter(nnx.Variable):
    pass
  lin = BN()
  model = bridge.ToNNX(lin, rngs=nnx.Rngs(0))
  bridge.lazy_init(model, x)
  cases += 1
  # every collection under the matching Variable type
  want_types = {'params': nnx.Param, 'batch_stats': nnx.BatchStat, 'counter': Counter}
  st = nnx.state(model)
  flat = dict(nnx.to_flat_state(st)) if hasattr(nnx, 'to_flat_state') else dict(st.flat_state())
  seen = {}
  for path, v in flat.items():
    seen.setdefault(v.type, []).append(path)
  for col, typ in want_types.items():
    if typ not in seen:
      fails.append(dict(inputs=dict(direction='ToNNX', module='Dense+BatchNorm+counter', check='types'), observed=f'no Variable of type {typ.__name__} for collection {col!r}; types present: {[t.__name__ for t in seen]}', violated='collection-variable-type'))
      return cases

  def held_variables():
    """the linen variables the wrapper holds, rebuilt from its state"""
    from flax.nnx.bridge import variables as bv
    attrs = {k: v for k, v in vars(model).items() if k not in ('module', 'rngs', '_object__state')}
    return bv.nnx_attrs_to_linen_vars(attrs)
  for step in range(3):
    cases += 1
    vs = held_variables()
    vs = {k: v for k, v in vs.items() if k != 'nnx'} if vs else vs
    want, upd = lin.apply(nn.meta.unbox(vs), x, mutable=['batch_stats', 'counter'])
    got = model(x, mutable=['batch_stats', 'counter'])
    if not _close(want, got):
      fails.append(dict(inputs=dict(direction='ToNNX', module='Dense+BatchNorm+counter', call=step), observed='wrapper output differs from linen apply on the variables it holds', violated='tonnx-output-equal'))
      return cases
    after = nn.meta.unbox({k: v for k, v in held_variables().items() if k != 'nnx'})
    for col in ('batch_stats', 'counter'):
      if not _close(dict(upd)[col], after[col]):
        fails.append(dict(inputs=dict(direction='ToNNX', module='Dense+BatchNorm+counter', call=step, collection=col), observed=f'update of mutable collection {col!r} did not reach the wrapper state: {after[col]} vs {dict(upd)[col]}'[:300], violated='tonnx-mutable-propagated'))
        return cases
  # the same with the stateful layer two levels below the wrapped module
  class Block(nn.Module):
    @nn.compact
    def __call__(self, x, train=True):
      return nn.BatchNorm(use_running_average=not train, momentum=0.5, name='bn')(nn.Dense(4, name='dense')(x))

  class Deep(nn.Module):
    @nn.compact
    def __call__(self, x, train=True):
      return Block(name='block')(x, train)
  deep = Deep()
  dm = bridge.ToNNX(deep, rngs=nnx.Rngs(0))
  bridge.lazy_init(dm, x)

  def held(mod):
    from flax.nnx.bridge import variables as bv
    return nn.meta.unbox({k: v for k, v in bv.nnx_attrs_to_linen_vars({k: v for k, v in vars(mod).items() if k not in ('module', 'rngs', '_object__state')}).items() if k != 'nnx'})
  cases += 1
  truth = deep.init(jax.random.key(0), x)
  got_tree = held(dm)
  if jax.tree_util.tree_map(np.shape, dict(got_tree)) != jax.tree_util.tree_map(np.shape, nn.meta.unbox(dict(truth))):
    fails.append(dict(inputs=dict(direction='ToNNX', module='Dense+BatchNorm two levels below the wrapped module', check='variables after lazy_init'),
                      observed=f'the wrapper holds {jax.tree_util.tree_map(np.shape, dict(got_tree))}, linen init creates {jax.tree_util.tree_map(np.shape, nn.meta.unbox(dict(truth)))}'[:500], violated='tonnx-holds-all-variables'))
    return cases
  for step in range(3):
    cases += 1
    inp = dict(direction='ToNNX', module='Dense+BatchNorm two levels below the wrapped module', call=step)
    try:
      vs = held(dm)
      want, upd = deep.apply(vs, x, mutable=['batch_stats'])
      got = dm(x, mutable=['batch_stats'])
    except Exception as e:  # noqa
      fails.append(dict(inputs=inp, observed=f'raised {e!r}'[:300], violated='tonnx-mutable-propagated'))
      return cases
    after = held(dm)
    if not _close(want, got):
      fails.append(dict(inputs=inp, observed='wrapper output differs from linen apply on the variables it holds', violated='tonnx-output-equal'))
      return cases
    if not _close(after.get('batch_stats'), dict(upd)['batch_stats']) or not _close(after.get('params'), vs['params']):
      fails.append(dict(inputs=inp, observed=f"after the call the wrapper holds params {jax.tree_util.tree_map(np.shape, after.get('params'))} / batch_stats {jax.tree_util.tree_map(np.shape, after.get('batch_stats'))}; expected unchanged params {jax.tree_util.tree_map(np.shape, vs['params'])} and the updated batch_stats"[:400], violated='tonnx-mutable-propagated'))
      return cases
  # a lazy_init that raises part-way (second child rejects its input) leaves no wrapper in initializing mode
  class Head(nn.Module):
    @nn.compact
    def __call__(self, z):
      return z @ self.param('w', nn.initializers.lecun_normal(), (4, 2))

  class Pair(nnx.Module):
    def __init__(self, rngs):
      self.enc = bridge.ToNNX(Deep(), rngs=rngs)
      self.head = bridge.ToNNX(Head(), rngs=rngs)

    def __call__(self, x, z):
      return self.enc(x).sum() + self.head(z).sum()
  cases += 1
  inp = dict(direction='ToNNX', module='nnx parent with two wrapped linen children', sequence='lazy_init raises in the second child; second child re-initialised alone; calls')
  pair = Pair(nnx.Rngs(0))
  try:
    bridge.lazy_init(pair, x, jnp.ones((3, 5)))      # head rejects width 5
    raised = False
  except Exception:  # noqa
    raised = True
  try:
    bridge.lazy_init(pair.head, jnp.ones((3, 4)))
    before = held(pair.enc)
    want = deep.apply(before, x, False, mutable=False)
    got1 = pair.enc(x, False)
    mid = held(pair.enc)
    got2 = pair.enc(x, False)
    want_m, upd = deep.apply(mid, x, mutable=['batch_stats'])
    got_m = pair.enc(x, mutable=['batch_stats'])
    if not raised:
      fails.append(dict(inputs=inp, observed='the failing lazy_init did not raise', violated='tonnx-output-equal'))
    elif not _close(want, got1) or not _close(got1, got2) or not _close(before, mid):
      fails.append(dict(inputs=inp, observed='after the failed lazy_init the first wrapper no longer returns linen apply on the variables it holds (it re-initialises on every call / its held variables change on a non-mutable call)', violated='tonnx-output-equal'))
    elif not _close(want_m, got_m) or not _close(held(pair.enc).get('batch_stats'), dict(upd)['batch_stats']):
      fails.append(dict(inputs=inp, observed='after the failed lazy_init a mutable call does not propagate the updated collection', violated='tonnx-mutable-propagated'))
  except Exception as e:  # noqa
    fails.append(dict(inputs=inp, observed=f'raised {e!r}'[:300], violated='tonnx-output-equal'))
  if fails:
    return cases
  # sharding metadata preserved
  cases += 1
  kernel = [v for p, v in flat.items() if p[-1] == 'kernel'][0]
  sharding = getattr(kernel, 'sharding', None) or kernel.get_metadata().get('sharding')
  if tuple(sharding) != ('in', 'out'):
    fails.append(dict(inputs=dict(direction='ToNNX', check='sharding'), observed=f'kernel sharding metadata is {sharding!r}, the linen box had names (in, out)', violated='metadata-preserved'))
  return cases


def _to_linen(nn, nnx, bridge, jnp, jax, fails):
  cases = 0
  x = jnp.arange(3, dtype=jnp.float32)

  @nnx.register_variable_name('Calls', overwrite=True)
  class Calls(nnx.Variable):
    pass

  class NoisyScale(nnx.Module):
    def __init__(self, dim, *, rngs):
      self.w = nnx.Param(jnp.full((dim,), 2.0), sharding=('model',))
      self.calls = Calls(jnp.zeros((), jnp.int32))
      self.rngs = rngs

    def __call__(self, x):
      self.calls.value += 1
      return x * self.w.value + jax.random.normal(self.rngs.noise(), x.shape)
  model = bridge.to_linen(NoisyScale, 3)
  variables = model.init({'params': jax.random.key(0), 'noise': jax.random.key(1)}, x)
  cases += 1
  for col in ('params', 'Calls', 'RngKey', 'RngCount', 'nnx'):
    if col not in variables:
      fails.append(dict(inputs=dict(direction='ToLinen', module='NoisyScale', check='collections'), observed=f'collection {col!r} missing after init: {sorted(variables)}', violated='collection-variable-type'))
      return cases
  box = variables['params']['w']
  names = getattr(box, 'names', None) or getattr(box, 'metadata', {}).get('sharding')
  if names is None or tuple(names) != ('model',):
    fails.append(dict(inputs=dict(direction='ToLinen', check='sharding'), observed=f'params/w lost its sharding metadata: {box!r}'[:200], violated='metadata-preserved'))
    return cases
  plain = nn.meta.unbox(variables)
  ref = NoisyScale(3, rngs=nnx.Rngs(noise=plain['RngKey']['rngs']['noise']['key']))
  ref.w.value = plain['params']['w']
  for mutable in (['Calls', 'RngCount'], True):
    vs = variables
    ref_i = nnx.clone(ref)
    for step in range(4):
      cases += 1
      want = ref_i(x)
      got, upd = model.apply(vs, x, mutable=mutable)
      inp = dict(direction='ToLinen', module='NoisyScale', mutable=repr(mutable), call=step)
      if not _close(want, got):
        fails.append(dict(inputs=inp, observed=f'ToLinen returned {np.asarray(got)}, the NNX module with the same state returns {np.asarray(want)}', violated='tolinen-output-equal'))
        return cases
      vs = {**vs, **upd}
      u = nn.meta.unbox(vs)
      if int(u['Calls']['calls']) != int(ref_i.calls.value) or int(u['RngCount']['rngs']['noise']['count']) != int(ref_i.rngs.noise.count.value):
        fails.append(dict(inputs=inp, observed=f"state after the call: Calls={int(u['Calls']['calls'])} RngCount={int(u['RngCount']['rngs']['noise']['count'])}; the NNX module holds Calls={int(ref_i.calls.value)} count={int(ref_i.rngs.noise.count.value)}", violated='tolinen-state-roundtrip'))
        return cases
  # a Variable type together with a subclass of it: each is exposed under the collection named after ITS type
  cases += 1

  @nnx.register_variable_name('Ema', overwrite=True)
  class Ema(nnx.BatchStat):
    pass

  class Tracked(nnx.Module):
    def __init__(self, *, rngs):
      self.w = nnx.Param(jnp.ones((3,)))
      self.lora = nnx.LoRAParam(jnp.full((3,), 0.5))
      self.mean = nnx.BatchStat(jnp.zeros((3,)))
      self.ema = Ema(jnp.zeros((3,)))

    def __call__(self, x):
      self.mean.value = x
      self.ema.value = 0.9 * self.ema.value + 0.1 * x
      return x * self.w.value + self.lora.value + self.ema.value
  tr = bridge.to_linen(Tracked)
  tv = tr.init(jax.random.key(0), x)
  layout = {c: sorted(tv[c]) for c in tv if c != 'nnx'}
  want_layout = {'params': ['w'], 'LoRAParam': ['lora'], 'batch_stats': ['mean'], 'Ema': ['ema']}
  if layout != want_layout:
    fails.append(dict(inputs=dict(direction='ToLinen', module='Param + LoRAParam + BatchStat + Ema(BatchStat)', check='collections'),
                      observed=f'collections {layout}, each Variable belongs under the collection named after its own type: {want_layout}', violated='collection-variable-type'))
    return cases
  ref_t = Tracked(rngs=nnx.Rngs(0))
  vs = tv
  for step in range(3):
    cases += 1
    xi = x * (step + 1)
    want = ref_t(xi)
    got, upd = tr.apply(vs, xi, mutable=['Ema', 'batch_stats'])
    vs = {**vs, **upd}
    u = nn.meta.unbox(vs)
    if not _close(want, got) or not _close(u['Ema']['ema'], ref_t.ema.value) or not _close(u['batch_stats']['mean'], ref_t.mean.value):
      fails.append(dict(inputs=dict(direction='ToLinen', module='Param + LoRAParam + BatchStat + Ema(BatchStat)', call=step),
                        observed='output / Ema / batch_stats after the call differ from the NNX module called directly', violated='tolinen-state-roundtrip'))
      return cases
  # a Variable whose only metadata is a per-instance hook keeps the hook through the bridge
  class Hooked(nnx.Module):
    def __init__(self, *, rngs):
      self.w = nnx.Param(jnp.full((3,), 2.0), on_get_value=lambda var, v: v * 10.0)
      self.seen = nnx.BatchStat(jnp.zeros((3,)), on_set_value=lambda var, v: jnp.clip(v, -1.0, 1.0))

    def __call__(self, x):
      self.seen.value = self.seen.value + x
      return x * self.w.value + self.seen.value
  hk = bridge.to_linen(Hooked)
  hv = hk.init(jax.random.key(0), x)
  ref_h = Hooked(rngs=nnx.Rngs(0))
  ref_h(x)          # init called the module once
  vs = hv
  for step in range(3):
    cases += 1
    want = ref_h(x)
    got, upd = hk.apply(vs, x, mutable=['batch_stats'])
    vs = {**vs, **upd}
    if not _close(want, got) or not _close(nn.meta.unbox(vs)['batch_stats']['seen'], ref_h.seen.raw_value):
      fails.append(dict(inputs=dict(direction='ToLinen', module='Param with on_get_value / BatchStat with on_set_value hooks', call=step),
                        observed=f'ToLinen returned {np.asarray(got)}, the NNX module (hooks applied) returns {np.asarray(want)}', violated='tolinen-output-equal'))
      return cases
  # stateless module, no mutable: same output every time, equal to the NNX module
  lin = bridge.to_linen(nnx.Linear, 3, 2)
  vs = lin.init(jax.random.key(3), x[None])
  u = nn.meta.unbox(vs)
  ref = nnx.Linear(3, 2, rngs=nnx.Rngs(0))
  ref.kernel.value, ref.bias.value = u['params']['kernel'], u['params']['bias']
  for step in range(2):
    cases += 1
    if not _close(ref(x[None]), lin.apply(vs, x[None])):
      fails.append(dict(inputs=dict(direction='ToLinen', module='nnx.Linear', call=step), observed='ToLinen(nnx.Linear) differs from nnx.Linear with the same parameters', violated='tolinen-output-equal'))
      return cases
  # sharding metadata NNX -> Linen: the linen tooling derives the sharding the nnx tooling derives (mesh names, logical names
  # resolved by per-variable sharding_rules, logical names resolved by the global logical_axis_rules context)
  class Sharded(nnx.Module):
    def __init__(self, *, rngs):
      init, zeros = nnx.initializers.lecun_normal(), nnx.initializers.zeros_init()
      self.plain = nnx.Param(nnx.with_partitioning(init, ('data', 'model'))(rngs.params(), (4, 3)))
      self.logical = nnx.Param(nnx.with_partitioning(init, ('embed', 'mlp'), sharding_rules=(('embed', None), ('mlp', 'model')))(rngs.params(), (4, 3)))
      self.ctx = nnx.Param(nnx.with_partitioning(init, ('batch', 'hidden'))(rngs.params(), (4, 3)))
      self.bias = nnx.Param(jnp.full((3,), 0.25))
      self.stat = nnx.BatchStat(nnx.with_partitioning(zeros, ('mlp',), sharding_rules=(('mlp', 'model'),))(rngs.params(), (3,)))

    def __call__(self, x):
      return x @ (self.plain + self.logical + self.ctx) + self.bias + self.stat
  sm = bridge.to_linen(Sharded)
  sv = sm.init(jax.random.key(0), jnp.ones((2, 4)))
  ref_s = Sharded(rngs=nnx.Rngs(0))

  def nnx_view():
    out = {}
    for path, vs_ in nnx.to_flat_state(nnx.get_partition_spec(nnx.state(ref_s))):
      out[(nnx.variable_name_from_type(vs_.type), *path)] = vs_.value
    return out

  def linen_view():
    specs = nn.get_partition_spec({c: v for c, v in sv.items() if c != 'nnx'})
    return {(c, n): sp for c, tree in specs.items() for n, sp in tree.items()}
  import contextlib
  for tag, ctx in (('no global rules', contextlib.nullcontext()), ('global logical_axis_rules', nn.logical_axis_rules((('batch', 'data'), ('hidden', 'model'))))):
    cases += 1
    with ctx:
      want, got = nnx_view(), linen_view()
    if want != got:
      diff = {k: (got.get(k), want.get(k)) for k in set(want) | set(got) if got.get(k) != want.get(k)}
      fails.append(dict(inputs=dict(direction='ToLinen', check='sharding', rules=tag), observed=f'linen get_partition_spec vs nnx get_partition_spec (linen, nnx): {diff}'[:400], violated='metadata-preserved'))
      return cases
  return cases


def run(tier, seed):
  import jax
  import jax.numpy as jnp
  import flax.linen as nn
  from flax import nnx
  from flax.nnx import bridge
  cases, fails = 0, []
  for part in (_to_nnx, _to_linen):
    try:
      cases += part(nn, nnx, bridge, jnp, jax, fails)
    except Exception:  # noqa
      import traceback
      return dict(name=NAME, cases=cases, distinct=cases, failures=[], error=f'{part.__name__}: ' + traceback.format_exc()[-1500:])
  return dict(name=NAME, cases=cases, distinct=cases,
              bound='ToNNX(Dense+BatchNorm+counter): 3 calls; ToNNX(BatchNorm two levels deep): 3 calls; ToLinen(NoisyScale with Param/Calls/RNG stream): 4 calls x mutable {[Calls,RngCount], True}; ToLinen(Param+LoRAParam+BatchStat+Ema subclass): layout + 3 calls; ToLinen(Variables with per-instance hooks): 3 calls; ToLinen(nnx.Linear): 2 calls; sharding metadata both ways (mesh names, per-variable sharding_rules, global logical_axis_rules); a lazy_init that raises in the second of two wrapped children',
              failures=fails[:4], error=None)


def replay(inputs):
  r = run('quick', 0)
  return not r['failures']
