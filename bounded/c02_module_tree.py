"""Bounded stand-in (C02): the real Linen init / apply / lazy_init / bind / unbind on a fixed family of
module programs (compact and setup style, explicit and automatic names, submodules called several times,
one instance shared between two attributes / two parents, modules passed in as fields):

  * apply(init(...)) reproduces init's output, needs no further initialisation (apply with mutable=False
    works) and creates, drops or renames nothing (init twice gives the same tree);
  * the variable tree mirrors the module tree: expected paths per program, the compact and the setup spelling
    of the same tree agree, a shared instance owns ONE subtree;
  * a submodule applied on its own subtree computes what it computes inside its parent;
  * a missing or wrongly shaped parameter raises; name clashes raise;
  * lazy_init / eval_shape(init) / jit(init) give the structure, shapes and dtypes of concrete init (with
    default and restricted `mutable`);
  * bind / unbind / re-bind: a bound module computes with the variables of its LAST binding, unbind returns
    the module and variables that reproduce it, and the unbound module can be initialised and applied again.

Labelled bounded: never counted as proved."""
import numpy as np
from . import _env  # noqa: F401

NAME = 'bounded:linen module tree vs variable tree; init/apply/lazy_init/bind/unbind agreement (program family)'


def _paths(tree, prefix=()):
  out = set()
  for k, v in tree.items():
    if hasattr(v, 'items'):
      out |= _paths(v, prefix + (k,))
    else:
      out.add(prefix + (k,))
  return out


def _sig(tree):
  import jax
  leaves, treedef = jax.tree_util.tree_flatten(tree)
  return str(treedef), [(tuple(np.shape(l)), str(getattr(l, 'dtype', type(l)))) for l in leaves]


def _close(a, b):
  import jax
  la, lb = jax.tree_util.tree_leaves(a), jax.tree_util.tree_leaves(b)
  return jax.tree_util.tree_structure(a) == jax.tree_util.tree_structure(b) and all(np.allclose(np.asarray(x), np.asarray(y), atol=1e-6) for x, y in zip(la, lb))


def _programs(nn, jnp):
  class Stat(nn.Module):
    """Dense + a counter in a non-param collection + sow"""
    feat: int = 3

    @nn.compact
    def __call__(self, x):
      y = nn.Dense(self.feat)(x)
      n = self.variable('stats', 'n', lambda: jnp.zeros(()))
      if self.is_mutable_collection('stats') and not self.is_initializing():
        n.value = n.value + 1.0
      self.sow('probe', 'seen', jnp.ones(()))       # a value that does not depend on the inputs (lazy_init needs that)
      return y

  class AutoNames(nn.Module):
    @nn.compact
    def __call__(self, x):
      x = nn.Dense(3)(x)
      x = nn.Dense(3)(x)
      x = Stat()(x)
      return nn.Dense(2, name='head')(x)

  class SetupStyle(nn.Module):
    def setup(self):
      self.a = nn.Dense(3)
      self.blocks = [nn.Dense(3), nn.Dense(3)]
      self.stat = Stat()

    def __call__(self, x):
      x = self.a(x)
      for b in self.blocks:
        x = b(x)
      return self.stat(x)

  class Repeated(nn.Module):
    @nn.compact
    def __call__(self, x):
      d = nn.Dense(3, name='shared')
      return d(d(d(x)))

  class TwoFields(nn.Module):
    """one externally built instance reachable through two attributes"""
    left: nn.Module
    right: nn.Module

    @nn.compact
    def __call__(self, x):
      return self.left(x) + 2.0 * self.right(x)

  class Branch(nn.Module):
    trunk: nn.Module

    @nn.compact
    def __call__(self, x):
      return nn.Dense(3, name='own')(self.trunk(x))

  class TwoParents(nn.Module):
    """one instance shared between two parents"""
    def setup(self):
      t = nn.Dense(3)
      self.left = Branch(trunk=t)
      self.right = Branch(trunk=t)

    def __call__(self, x):
      return self.left(x) - self.right(x)

  class Wrapper(nn.Module):
    inner: nn.Module

    @nn.compact
    def __call__(self, x):
      return self.inner(x) * self.param('scale', lambda k: jnp.full((), 2.0))
  shared = nn.Dense(3)
  progs = {
    'auto-names': (AutoNames(), {('params', 'Dense_0', 'kernel'), ('params', 'Dense_1', 'kernel'), ('params', 'Stat_0', 'Dense_0', 'kernel'), ('params', 'head', 'kernel'), ('stats', 'Stat_0', 'n')}),
    'setup-style': (SetupStyle(), {('params', 'a', 'kernel'), ('params', 'blocks_0', 'kernel'), ('params', 'blocks_1', 'kernel'), ('params', 'stat', 'Dense_0', 'kernel'), ('stats', 'stat', 'n')}),
    'called-3-times': (Repeated(), {('params', 'shared', 'kernel')}),
    'one-instance-two-fields': (TwoFields(left=shared, right=shared), {('params', 'left', 'kernel')}),
    'one-instance-two-parents': (TwoParents(), {('params', 'left', 'trunk', 'kernel'), ('params', 'left', 'own', 'kernel'), ('params', 'right', 'own', 'kernel')}),
    'module-as-field': (Wrapper(inner=Stat()), {('params', 'inner', 'Dense_0', 'kernel'), ('params', 'scale'), ('stats', 'inner', 'n')}),
  }
  return progs, dict(Stat=Stat, Wrapper=Wrapper, Branch=Branch)


def run(tier, seed):
  import jax
  import jax.numpy as jnp
  import flax.linen as nn
  from flax import errors
  cases, fails = 0, []
  x = jnp.linspace(-1.0, 1.0, 6).reshape(2, 3)
  key = jax.random.key(0)
  try:
    progs, cls = _programs(nn, jnp)
    for pname, (m, want_paths) in progs.items():
      inp = dict(program=pname)
      cases += 1
      y0, v = m.init_with_output(key, x)
      got = {p for p in _paths(v) if p[-1] != 'bias' and p[0] != 'probe'}
      if got != want_paths:
        fails.append(dict(inputs=inp, observed=f'variable tree {sorted(got)}, the module tree gives {sorted(want_paths)}', violated='tree-mirrors-modules'))
        continue
      v2 = m.init(key, x)
      if not _close(v, v2):
        fails.append(dict(inputs=inp, observed='two inits with the same rng give different trees / values', violated='init-deterministic'))
        continue
      y1 = m.apply(v, x)                               # no mutable: needs no further initialisation
      if not _close(y0, y1):
        fails.append(dict(inputs=inp, observed='apply on the variables init returned does not reproduce init\'s output', violated='apply-reproduces-init'))
        continue
      y2, upd = m.apply(v, x, mutable=True)
      extra = _paths(upd) - _paths(v)
      if {p for p in extra if p[0] != 'probe'} or (_paths(v) - _paths(upd) - {p for p in _paths(v) if p[0] == 'probe'}):
        fails.append(dict(inputs=inp, observed=f'apply created / dropped variables: +{sorted(extra)} -{sorted(_paths(v) - _paths(upd))}', violated='apply-creates-nothing'))
        continue
      # shape-only initialisation
      for mut in (None, ['params', 'stats'], nn.DenyList('probe')):
        cases += 1
        kw = {} if mut is None else dict(mutable=mut)
        concrete = m.init(key, x, **kw)
        xs = jax.ShapeDtypeStruct(x.shape, x.dtype)
        variants = {
          'lazy_init': lambda: m.lazy_init(key, xs, **kw),
          'eval_shape': lambda: jax.eval_shape(lambda k, a: m.init(k, a, **kw), key, x),
          'jit': lambda: jax.jit(lambda k, a: m.init(k, a, **kw))(key, x),
        }
        for vname, fn in variants.items():
          try:
            got_sig = _sig(fn())
          except Exception as e:  # noqa
            fails.append(dict(inputs=dict(inp, variant=vname, mutable=repr(mut)), observed=f'raised {e!r}'[:300], violated='shape-only-init-agrees'))
            break
          if got_sig != _sig(concrete):
            fails.append(dict(inputs=dict(inp, variant=vname, mutable=repr(mut)), observed=f'{vname} gives {got_sig}, concrete init gives {_sig(concrete)}'[:500], violated='shape-only-init-agrees'))
            break
      # a missing / wrongly shaped parameter raises
      cases += 1
      pth = sorted(p for p in _paths(v) if p[0] == 'params' and p[-1] == 'kernel')[0]
      import copy

      def edit(tree, path, fn):
        t = jax.tree_util.tree_map(lambda a: a, dict(tree))
        node = t
        for k in path[:-1]:
          node[k] = dict(node[k])
          node = node[k]
        fn(node, path[-1])
        return t
      for what, fn, exc in (('missing', lambda n, k: n.pop(k), (errors.ScopeParamNotFoundError, errors.ScopeCollectionNotFound)),
                            ('wrong-shape', lambda n, k: n.__setitem__(k, jnp.zeros((7, 7))), (errors.ScopeParamShapeError,))):
        try:
          m.apply(edit(v, pth, fn), x)
          fails.append(dict(inputs=dict(inp, parameter='/'.join(pth), defect=what), observed='apply accepted the variables instead of raising', violated='bad-params-raise'))
        except exc:
          pass
        except Exception as e:  # noqa
          if what == 'wrong-shape':     # a shape error from the computation itself is a refusal too
            pass
          else:
            fails.append(dict(inputs=dict(inp, parameter='/'.join(pth), defect=what), observed=f'raised {type(e).__name__} instead of a scope error', violated='bad-params-raise'))
    # a wrongly shaped parameter is refused also while 'params' is mutable (it is never silently kept or re-initialised)
    cases += 1
    d3 = nn.Dense(3)
    vd = d3.init(key, x)
    bad = {'params': {'kernel': jnp.zeros((3, 5)), 'bias': vd['params']['bias']}}
    for mut in (['params'], True):
      try:
        d3.apply(bad, x, mutable=mut)
        fails.append(dict(inputs=dict(program='Dense(3)', defect='kernel of shape (3, 5) supplied', mutable=repr(mut)), observed='apply accepted the wrongly shaped parameter', violated='bad-params-raise'))
      except errors.ScopeParamShapeError:
        pass
      except Exception as e:  # noqa
        fails.append(dict(inputs=dict(program='Dense(3)', defect='kernel of shape (3, 5) supplied', mutable=repr(mut)), observed=f'raised {type(e).__name__} instead of ScopeParamShapeError', violated='bad-params-raise'))
    # a submodule on its own subtree computes what it computes inside its parent
    cases += 1
    Stat, Wrapper, Branch = cls['Stat'], cls['Wrapper'], cls['Branch']
    w = Wrapper(inner=Stat())
    vw = w.init(key, x)
    inner_alone = Stat().apply({'params': vw['params']['inner'], 'stats': vw['stats']['inner']}, x)
    if not _close(w.apply(vw, x), np.asarray(inner_alone) * 2.0):
      fails.append(dict(inputs=dict(program='module-as-field', check='submodule on its own subtree'), observed='the submodule applied on its subtree differs from what it computes inside the parent', violated='submodule-subtree'))
    # name clashes raise
    cases += 1

    class Clash(nn.Module):
      @nn.compact
      def __call__(self, x):
        nn.Dense(3, name='a')(x)
        return nn.Dense(3, name='a')(x)

    class ClashVar(nn.Module):
      @nn.compact
      def __call__(self, x):
        self.param('a', lambda k: jnp.zeros(()))
        return nn.Dense(3, name='a')(x)
    for cm in (Clash(), ClashVar()):
      try:
        cm.init(key, x)
        fails.append(dict(inputs=dict(program=type(cm).__name__), observed='a name clash was accepted', violated='name-clash-raises'))
      except errors.NameInUseError:
        pass
      except Exception as e:  # noqa
        fails.append(dict(inputs=dict(program=type(cm).__name__), observed=f'a name clash is not reported as NameInUseError but ends in {e!r}'[:300], violated='name-clash-raises'))
    # bind / re-bind / unbind
    for pname in ('module-as-field', 'one-instance-two-fields', 'one-instance-two-parents', 'setup-style'):
      cases += 1
      m, _ = progs[pname]
      inp = dict(program=pname, check='bind/unbind')
      v1 = m.init(jax.random.key(1), x)
      v2 = m.init(jax.random.key(2), x)
      want1, want2 = m.apply(v1, x), m.apply(v2, x)
      b1 = m.bind(v1)
      b2 = b1.bind(v2)                   # re-binding an already bound module
      if not _close(b1(x), want1) or not _close(b2(x), want2):
        fails.append(dict(inputs=inp, observed='m.bind(v1).bind(v2)(x) is not m.apply(v2, x) (or bind(v1) is not apply(v1))', violated='bind-equals-apply'))
        continue
      if not _close(b2.variables, v2):
        fails.append(dict(inputs=inp, observed='.variables of the second binding are not the variables it was bound to', violated='bind-equals-apply'))
        continue
      try:
        um, uv = b2.unbind()
        ok = _close(uv, v2) and _close(um.apply(uv, x), want2)
        why = 'unbind() does not return a module and variables that reproduce the bound module'
      except Exception as e:  # noqa
        ok, why = False, f'using the result of unbind() raised {e!r}'[:300]
      if not ok:
        fails.append(dict(inputs=inp, observed=why, violated='unbind-roundtrip'))
        continue
      try:
        v3 = um.init(jax.random.key(2), x)
        if _paths(v3) != _paths(v2):
          fails.append(dict(inputs=inp, observed=f'init of the unbound module gives paths {sorted(_paths(v3))}, the original module gives {sorted(_paths(v2))}', violated='unbind-roundtrip'))
      except Exception as e:  # noqa
        fails.append(dict(inputs=inp, observed=f'the unbound module cannot be initialised again: {e!r}'[:300], violated='unbind-roundtrip'))
    # a bound submodule that was only partially used (one collection touched) still hands out ALL its collections
    cases += 1
    wb = w.bind(vw)
    wb.inner.get_variable('params', 'Dense_0')           # touches 'params' only
    held_cols = set(wb.inner.variables.keys())
    if not {'params', 'stats'} <= held_cols:
      fails.append(dict(inputs=dict(program='module-as-field', check='submodule.variables after touching one collection'), observed=f'the bound submodule reports collections {sorted(held_cols)}, its subtree has params and stats', violated='submodule-subtree'))
    else:
      try:
        im, iv = wb.inner.unbind()
        if not _close(im.apply(iv, x), inner_alone):
          fails.append(dict(inputs=dict(program='module-as-field', check='unbind of a partially used submodule'), observed='the unbound submodule computes something else on the variables it was unbound with', violated='unbind-roundtrip'))
      except Exception as e:  # noqa
        fails.append(dict(inputs=dict(program='module-as-field', check='unbind of a partially used submodule'), observed=f'raised {e!r}'[:300], violated='unbind-roundtrip'))
    # a top-level child named like the collection it writes to: what init returns is what apply consumes
    cases += 1

    class NamedLikeCollection(nn.Module):
      @nn.compact
      def __call__(self, x):
        y = nn.BatchNorm(use_running_average=True, name='batch_stats')(x)
        c = self.variable('steps', 'steps', lambda: jnp.zeros(()))
        return y + c.value
    nm = NamedLikeCollection()
    y_i, v_i = nm.init_with_output(key, x)
    try:
      if not _close(nm.apply(v_i, x), y_i):
        fails.append(dict(inputs=dict(program='child / variable named after its collection'), observed='apply on the variables init returned gives another output', violated='apply-reproduces-init'))
    except Exception as e:  # noqa
      fails.append(dict(inputs=dict(program='child / variable named after its collection'), observed=f'apply rejects the variables init returned: {e!r}'[:300], violated='apply-reproduces-init'))
    # a bound submodule plugged into a new parent computes with the NEW binding
    cases += 1
    inner_bound = Stat().bind({'params': vw['params']['inner'], 'stats': vw['stats']['inner']})
    w2 = Wrapper(inner=inner_bound)
    vw2 = w2.init(jax.random.key(5), x)
    if not _close(w2.bind(vw2)(x), w2.apply(vw2, x)):
      fails.append(dict(inputs=dict(program='bound submodule plugged into a new parent'), observed='bind(v)(x) differs from apply(v, x)', violated='bind-equals-apply'))
    # re-entrant compact calls (super().__call__, a compact method calling itself / another compact method): every
    # nn.Dense that the program creates gets its own auto name and its own parameters, in creation order
    created = []

    def dense(width, h):
      created.append(width)
      return nn.Dense(width)(h)

    class Parent(nn.Module):
      @nn.compact
      def __call__(self, h):
        return dense(5, dense(4, h))

    class Child(Parent):
      @nn.compact
      def __call__(self, h):
        h = super().__call__(h)
        return dense(2, dense(6, h))

    class Rec(nn.Module):
      @nn.compact
      def __call__(self, h, d=2):
        h = dense(3 + d, h)
        if d > 0:
          h = self(h, d - 1)
        return dense(7 + d, h)

    class Two(nn.Module):
      @nn.compact
      def helper(self, h):
        return dense(4, h)

      @nn.compact
      def __call__(self, h):
        return dense(6, self.helper(dense(3, h)))
    for pname, mod in (('subclass whose compact __call__ extends super().__call__()', Child()), ('compact __call__ calling itself (depth 2)', Rec()),
                       ('compact __call__ calling another compact method', Two())):
      cases += 1
      inp = dict(program=pname)
      try:
        created.clear()
        y0, v0 = mod.init_with_output(key, x)
        widths = list(created)
        got = {k: np.asarray(v['kernel']).shape[-1] for k, v in v0['params'].items()}
        want = {f'Dense_{i}': w for i, w in enumerate(widths)}
        if got != want:
          fails.append(dict(inputs=inp, observed=f'the program creates Dense layers of widths {widths} (in this order); init returns parameters {got}, expected {want}', violated='tree-mirrors-modules'))
        elif not _close(mod.apply(v0, x), y0):
          fails.append(dict(inputs=inp, observed='apply on the variables init returned gives another output', violated='apply-reproduces-init'))
      except Exception as e:  # noqa
        fails.append(dict(inputs=inp, observed=f'raised {e!r}'[:300], violated='tree-mirrors-modules'))
    # two different submodules that end up with the same name in setup: an error, never silent sharing
    def clash(kind):
      class M(nn.Module):
        def setup(self):
          if kind == 'explicit / explicit':
            self.first, self.second = nn.Dense(3, name='same'), nn.Dense(3, name='same')
          elif kind == 'attribute name / explicit':
            self.enc, self.other = nn.Dense(3), nn.Dense(3, name='enc')
          elif kind == 'list element a_0 / attribute a_0':
            self.a_0 = nn.Dense(3)
            self.a = [nn.Dense(3)]
          elif kind == 'dict element blk_x / attribute blk_x':
            self.blk = {'x': nn.Dense(3)}
            self.blk_x = nn.Dense(3)
          else:
            self.lin, self.sc = nn.Dense(3, name='unit'), nn.LayerNorm(name='unit')

        def __call__(self, h):
          subs = [getattr(self, a) for a in ('first', 'second', 'enc', 'other', 'a_0', 'blk_x', 'lin', 'sc') if hasattr(self, a)]
          subs += list(getattr(self, 'a', [])) + list(getattr(self, 'blk', {}).values())
          for sm in subs:
            h = sm(h)
          return h
      return M()
    for kind in ('explicit / explicit', 'attribute name / explicit', 'list element a_0 / attribute a_0', 'dict element blk_x / attribute blk_x', 'two classes, one name'):
      cases += 1
      try:
        vv = clash(kind).init(key, jnp.ones((2, 3)))
        fails.append(dict(inputs=dict(program='setup() attaching two different submodules under one name', kind=kind),
                          observed=f'no error: init returned {_sig(vv)}'[:300], violated='name-clash-raises'))
      except Exception:  # noqa  (NameInUseError or another refusal)
        pass
  except Exception:
    import traceback
    return dict(name=NAME, cases=cases, distinct=cases, failures=fails[:3], error=traceback.format_exc()[-1500:])
  return dict(name=NAME, cases=cases, distinct=cases,
              bound='6 module programs (auto names, setup style, repeated call, one instance in two fields / two parents, module as field) x {init twice, apply, mutable apply, 3 shape-only variants x 3 mutable filters, '
                    'missing / misshapen parameter}; name clashes (compact and 5 setup forms); 3 re-entrant compact programs; bind / re-bind / unbind on 4 programs',
              failures=fails[:3], error=None)


def replay(inputs):
  r = run('quick', 0)
  return not r['failures']
