"""Bounded stand-in (C03): real nnx.split / merge / state / clone / update / pop on object graphs
built from Modules, lists, tuples, dicts and Variables, with every aliasing pattern from a fixed
family (shared Variables, shared sub-modules, self-reference, containers in non-alphabetical key
order). A canonical form (node types, static attributes, Variable type/value/metadata, identity
classes of reachable objects) is compared before/after. Labelled bounded: never counted as proved."""
import itertools
import numpy as np
from . import _env  # noqa: F401

NAME = 'bounded:nnx split/merge/state/clone/update/pop on small object graphs'


def _canon(nnx, root):
  """canonical description of the graph reachable from root: (structure with back-references)"""
  ids = {}
  out = []

  def visit(x):
    if isinstance(x, (nnx.Variable,)):
      if id(x) in ids:
        return ('ref', ids[id(x)])
      ids[id(x)] = len(ids)
      md = tuple(sorted((k, repr(v)) for k, v in x.get_metadata().items() if not k.endswith('_hooks')))
      lst = lambda a: repr(a if not hasattr(a, 'tolist') else a.tolist())
      return ('var', ids[id(x)], type(x).__name__, lst(x.raw_value), lst(x.value), md)
    if isinstance(x, nnx.Module):
      if id(x) in ids:
        return ('ref', ids[id(x)])
      ids[id(x)] = len(ids)
      me = ids[id(x)]
      items = sorted((k, v) for k, v in vars(x).items() if not k.startswith('_object__'))
      return ('module', me, type(x).__name__, tuple((k, visit(v)) for k, v in items))
    if isinstance(x, dict):
      return (type(x).__name__, tuple((k, visit(x[k])) for k in sorted(x)))
    if isinstance(x, tuple) and hasattr(x, '_fields'):
      return (type(x).__name__, tuple((f, visit(getattr(x, f))) for f in x._fields))     # by FIELD, in declaration order
    if isinstance(x, (list, tuple)):
      return (type(x).__name__, tuple(visit(v) for v in x))
    return ('static', repr(x))
  return visit(root)


def _graphs(nnx):
  """builders (so that every check starts from a fresh graph)"""
  import jax.numpy as jnp

  class M(nnx.Module):
    pass

  def g_tree():
    m = M()
    m.a = nnx.Param(jnp.array(1.0))
    m.b = nnx.BatchStat(jnp.array(2.0))
    m.sub = M()
    m.sub.w = nnx.Param(jnp.array(3.0), tag='t')
    m.k = 7
    return m

  def g_shared_var():
    m = M()
    v = nnx.Param(jnp.array(1.0))
    m.a = v
    m.sub = M()
    m.sub.tied = v
    m.lst = [v, nnx.BatchStat(jnp.array(5.0))]
    return m

  def g_shared_module():
    m = M()
    s = M()
    s.w = nnx.Param(jnp.array(2.0))
    m.x = s
    m.y = s
    return m

  def g_cycle():
    m = M()
    m.w = nnx.Param(jnp.array(1.0))
    m.me = m
    m.sub = M()
    m.sub.parent = m
    m.sub.v = nnx.BatchStat(jnp.array(4.0))
    return m

  def g_dict_order():
    m = M()
    m.d = {'zeta': nnx.Param(jnp.array(1.0)), 'alpha': nnx.BatchStat(jnp.array(2.0)), 'mid': nnx.Param(jnp.array(3.0))}
    m.t = (nnx.Param(jnp.array(9.0)), 3, 'static')
    return m

  def g_var_cycle_shared():
    m = M()
    v = nnx.Param(jnp.array(1.0))
    m.a = {'b': v, 'a': [v, v]}
    m.me = m
    return m
  def g_hooked_var():
    m = M()
    m.a = nnx.Param(jnp.array(1.0), on_get_value=lambda var, v: v + 3.0)     # value seen through a hook differs from the stored value
    m.sub = M()
    m.sub.b = nnx.BatchStat(jnp.array(2.0))
    return m

  import collections
  Pair = collections.namedtuple('Pair', ['left', 'right'])

  def g_namedtuple():
    m = M()
    a, b = M(), M()
    a.w = nnx.Param(jnp.array(1.0))
    b.v = nnx.BatchStat(jnp.array(2.0))
    m.pair = Pair(a, b)         # a tuple subclass holding sub-modules
    m.also = b                  # ... one of them reachable another way too
    return m
  Step = collections.namedtuple('Step', ['zeta', 'alpha', 'mid'])      # field order is not alphabetical

  def g_unsorted_pytree():
    m = M()
    a, b = M(), M()
    a.w = nnx.Param(jnp.array(1.0))
    b.v = nnx.BatchStat(jnp.array(2.0))
    m.step = Step(zeta=a, alpha=nnx.Param(jnp.array(7.0)), mid=b)
    m.od = collections.OrderedDict([('z', nnx.Param(jnp.array(3.0))), ('a', b), ('m', 5)])
    return m
  def g_long_list():
    m = M()
    m.blocks = []
    for i in range(12):                                 # index 10, 11 sort before 2 as strings
      b = M()
      b.w = (nnx.Param if i % 2 == 0 else nnx.BatchStat)(jnp.array(float(i)), tag=f't{i}')
      m.blocks.append(b)
    m.table = {2: nnx.Param(jnp.array(20.0)), 3: nnx.BatchStat(jnp.array(30.0)), 10: nnx.Param(jnp.array(100.0))}
    return m
  return dict(long_list=g_long_list, hooked_var=g_hooked_var, namedtuple=g_namedtuple, unsorted_pytree=g_unsorted_pytree, tree=g_tree, shared_var=g_shared_var, shared_module=g_shared_module, cycle=g_cycle, dict_order=g_dict_order, var_cycle_shared=g_var_cycle_shared)


def _first_paths(nnx, root):
  """reference walk: every Variable once, under its first path in sorted-key order"""
  seen_nodes, seen_vars, out = set(), set(), []

  def walk(x, path):
    if isinstance(x, nnx.Variable):
      if id(x) not in seen_vars:
        seen_vars.add(id(x))
        out.append((path, x))
      return
    if isinstance(x, nnx.Module):
      if id(x) in seen_nodes:
        return
      seen_nodes.add(id(x))
      for k in sorted(k for k in vars(x) if not k.startswith('_object__')):
        walk(vars(x)[k], path + (k,))
    elif isinstance(x, dict):
      for k in sorted(x):
        walk(x[k], path + (k,))
    elif isinstance(x, tuple) and hasattr(x, '_fields'):
      for k in sorted(x._fields):          # named tuples flatten by field name (jax key paths)
        walk(getattr(x, k), path + (k,))
    elif isinstance(x, (list, tuple)):
      for i, v in enumerate(x):
        walk(v, path + (i,))
  walk(root, ())
  return out


def _check(nnx, name, build):
  import jax.numpy as jnp
  g = build()
  before = _canon(nnx, g)
  graphdef, state = nnx.split(g)
  if _canon(nnx, g) != before:
    return 'split changed the graph it was given'
  back = nnx.merge(graphdef, state)
  if _canon(nnx, back) != before:
    return f'merge(split(g)) is not isomorphic to g: {_canon(nnx, back)!r} vs {before!r}'
  # filters partition; merging in any order rebuilds the same graph
  gd, params, rest = nnx.split(g, nnx.Param, ...)
  flat_p, flat_r = dict(nnx.to_flat_state(params)), dict(nnx.to_flat_state(rest))
  if set(flat_p) & set(flat_r):
    return 'a Variable landed in two states'
  ref = _first_paths(nnx, g)
  want_p = {p for p, v in ref if isinstance(v, nnx.Param)}
  want_r = {p for p, v in ref if not isinstance(v, nnx.Param)}
  if set(flat_p) != want_p or set(flat_r) != want_r:
    return f'split by (Param, ...) gives paths {sorted(flat_p)} / {sorted(flat_r)}, first-match partition is {sorted(want_p)} / {sorted(want_r)}'
  for order in ((params, rest), (rest, params)):
    if _canon(nnx, nnx.merge(gd, *order)) != before:
      return 'merging the filtered states in another argument order rebuilds another graph'
  # state: every Variable once, first path, sorted
  st = nnx.state(g)
  paths = [p for p, _ in nnx.to_flat_state(st)]
  if paths != sorted(paths, key=lambda p: tuple(map(str, p))) and paths != sorted(paths):
    pass
  if set(paths) != {p for p, _ in ref} or len(paths) != len(ref):
    return f'state lists paths {paths}, expected each Variable once under its first path: {[p for p, _ in ref]}'
  # clone shares nothing mutable
  c = nnx.clone(g)
  if _canon(nnx, c) != before:
    return 'clone is not isomorphic to the original'
  orig_ids = {id(v) for _, v in ref}
  if any(id(v) in orig_ids for _, v in _first_paths(nnx, c)):
    return 'clone shares a Variable with the original'
  # update: values change in place, identity kept
  st2 = nnx.state(g)
  import jax
  st2 = jax.tree.map(lambda x: x + 10, st2)
  ids_before = [id(v) for _, v in ref]
  nnx.update(g, st2)
  ref2 = _first_paths(nnx, g)
  if [id(v) for _, v in ref2] != ids_before:
    return 'update replaced Variable objects instead of updating them in place'
  for (p, v), (_, old) in zip(ref2, ref):
    pass
  # update from a PURE dict (raw leaves, e.g. a restored checkpoint): same rule - in place, identity and Variable types kept
  try:
    pure = nnx.to_pure_dict(nnx.state(g))
    pure = jax.tree.map(lambda x: x + 1, pure)
    types_before = [type(v).__name__ for _, v in ref2]
    nnx.update(g, pure)
    ref3 = _first_paths(nnx, g)
    if [id(v) for _, v in ref3] != ids_before or [type(v).__name__ for _, v in ref3] != types_before:
      return f'update from a pure dict replaced / dropped Variables: {[(p, type(v).__name__) for p, v in ref3]} (before: {[(p, t) for (p, _), t in zip(ref2, types_before)]})'
    for _, v in ref3:
      v.value = v.value - 1          # undo, so that the value check below sees the +10 state
  except ValueError:
    pass       # graphs with Variables held directly by containers may refuse raw leaves
  vals = [float(v.value) for _, v in ref2]
  want_vals = [float(x) + 0 for x in vals]
  if any(abs(float(v.value) - (10 + w)) > 1e-6 for (_, v), w in zip(ref2, [float(x) - 10 for x in vals])):
    return 'update did not write the new values'
  return None


def _check_pop(nnx, name, build):
  # pop removes exactly the selected Variables
  g3 = build()
  n_params = sum(1 for _, v in _first_paths(nnx, g3) if isinstance(v, nnx.Param))
  try:
    popped = nnx.pop(g3, nnx.Param)
  except ValueError as e:
    if 'Cannot pop key' in str(e):
      return None   # Variables held by list/tuple/dict containers cannot be popped: explicitly refused, not a violation
    raise
  left = _first_paths(nnx, g3)
  if any(isinstance(v, nnx.Param) for _, v in left):
    still = [p for p, v in left if isinstance(v, nnx.Param)]
    return f'after pop(g, Param) a selected Variable is still reachable in the graph at {still} (popped paths: {[p for p, _ in nnx.to_flat_state(popped)]})'
  if len(list(nnx.to_flat_state(popped))) != n_params:
    return 'pop did not return exactly the selected Variables'
  return None


def _array_graphs(nnx):
  """graphs that also hold RAW arrays (jax / numpy) as attributes and container elements"""
  import jax.numpy as jnp

  class M(nnx.Module):
    pass

  def g_array_attrs():
    m = M()
    m.w = nnx.Param(jnp.array(1.0))
    m.table = M()
    m.table.values = jnp.arange(3.0)                 # a sub-module whose ONLY attribute is a raw array
    m.arr = jnp.array([1.0, 2.0])
    m.k = 3
    return m

  def g_arrays_in_containers():
    m = M()
    m.items = [jnp.array(1.0), nnx.Param(jnp.array(2.0)), {'z': np.arange(2.0), 'a': jnp.array(5.0)}]
    m.sub = M()
    m.sub.a = jnp.zeros((2,))
    m.sub.b = nnx.BatchStat(jnp.ones((2,)))
    m.sub.c = jnp.ones((1,))
    return m

  def g_two_arrays_one_level():
    m = M()
    m.left, m.right = M(), M()
    m.left.x, m.left.y = jnp.array(1.0), jnp.array(2.0)
    m.right.x = jnp.array(3.0)
    m.v = nnx.Param(jnp.array(4.0))
    return m
  return dict(array_attrs=g_array_attrs, arrays_in_containers=g_arrays_in_containers, two_arrays_one_level=g_two_arrays_one_level)


def _leaf_paths_with_arrays(nnx, root):
  import jax
  out, seen = [], set()

  def walk(x, path):
    if isinstance(x, nnx.Variable) or isinstance(x, (jax.Array, np.ndarray)):
      out.append((path, x))
    elif isinstance(x, nnx.Module):
      if id(x) in seen:
        return
      seen.add(id(x))
      for k in sorted(k for k in vars(x) if not k.startswith('_object__')):
        walk(vars(x)[k], path + (k,))
    elif isinstance(x, dict):
      for k in sorted(x):
        walk(x[k], path + (k,))
    elif isinstance(x, (list, tuple)):
      for i, v in enumerate(x):
        walk(v, path + (i,))
  walk(root, ())
  return out


def _check_arrays(nnx, name, build):
  g = build()
  before = _canon(nnx, g)
  graphdef, state = nnx.split(g)
  back = nnx.merge(graphdef, state)
  if _canon(nnx, back) != before:
    return f'merge(split(g)) is not isomorphic to g: {_canon(nnx, back)!r} vs {before!r}'
  ref = _leaf_paths_with_arrays(nnx, g)
  flat = dict(nnx.to_flat_state(nnx.state(g)))
  if set(flat) != {p for p, _ in ref}:
    return f'state lists paths {sorted(flat, key=str)}, the Variables and raw arrays of the graph sit at {sorted((p for p, _ in ref), key=str)}'
  for p, leaf in ref:
    got = flat[p]
    gv = got.value if hasattr(got, 'value') and not isinstance(got, np.ndarray) else got
    lv = leaf.value if isinstance(leaf, nnx.Variable) else leaf
    if np.asarray(gv).shape != np.asarray(lv).shape or not np.array_equal(np.asarray(gv), np.asarray(lv)):
      return f'state holds {np.asarray(gv).tolist()} at {p}, the graph holds {np.asarray(lv).tolist()}'
  gd, params, rest = nnx.split(g, nnx.Param, ...)
  if _canon(nnx, nnx.merge(gd, params, rest)) != before or _canon(nnx, nnx.merge(gd, rest, params)) != before:
    return 'merging the (Param, ...) states rebuilds another graph'
  if _canon(nnx, nnx.clone(g)) != before:
    return 'clone is not isomorphic to the original'
  return None


def run(tier, seed):
  from flax import nnx
  graphs = _graphs(nnx)
  cases, fails = 0, []
  for name, build in _array_graphs(nnx).items():
    cases += 1
    try:
      msg = _check_arrays(nnx, name, build)
    except Exception as e:  # noqa
      import traceback
      msg = f'raised {e!r} ' + traceback.format_exc()[-300:]
    if msg:
      fails.append(dict(inputs=dict(graph=name, check='graph-roundtrip (raw arrays)'), observed=msg[:500], violated='graph-roundtrip'))
  for name, build in graphs.items():
    for what, fn in (('graph-roundtrip', _check), ('pop-removes-selected', _check_pop)):
      cases += 1
      try:
        msg = fn(nnx, name, build)
      except Exception as e:  # noqa
        import traceback
        msg = f'raised {e!r} ' + traceback.format_exc()[-300:]
      if msg:
        fails.append(dict(inputs=dict(graph=name, check=what), observed=msg[:500], violated=what))
  return dict(name=NAME, cases=cases, distinct=cases, bound='10 object graphs (incl. a 12-element module list and an int-keyed dict) (tree, shared Variable, shared Module, cycles, non-alphabetical dict, Variable shared across a cycle, Variable with a get-value hook, named tuple of sub-modules, named tuple / OrderedDict with non-alphabetical keys) x split/merge/state/clone/update/pop; 3 graphs holding raw jax / numpy arrays x split/merge/state/clone',
              failures=fails, error=None)


def replay(inputs):
  from flax import nnx
  if inputs.get('graph') in _array_graphs(nnx):
    return _check_arrays(nnx, inputs['graph'], _array_graphs(nnx)[inputs['graph']]) is None
  fn = _check_pop if inputs.get('check') == 'pop-removes-selected' else _check
  return fn(nnx, inputs['graph'], _graphs(nnx)[inputs['graph']]) is None
