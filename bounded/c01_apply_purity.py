"""Bounded stand-in (C01): the real flax.core.apply / init and linen Module.apply / init on a fixed
family of scope programs x mutable filters x variable layouts. Before/after deep snapshots of the
inputs (dict identities, structure, leaf bytes), returned key set, ModifyScopeVariableError on
writes to immutable collections, repeated-call determinism, module object unchanged.
Labelled bounded: never counted as proved."""
import itertools
import numpy as np
from . import _env  # noqa: F401

NAME = 'bounded:core/linen apply purity on scope programs x filters x layouts'


def _snap(t):
  """structure + identity of every dict node + bytes of every leaf"""
  from flax.core import FrozenDict
  if isinstance(t, (dict, FrozenDict)):
    return (type(t).__name__, tuple(sorted((k, _snap(v)) for k, v in t.items())))
  if isinstance(t, (list, tuple)):
    return (type(t).__name__, tuple(_snap(v) for v in t))
  a = np.asarray(t)
  return ('leaf', a.dtype.str, a.shape, a.tobytes())


def _programs():
  import jax.numpy as jnp
  from flax.core import lift  # noqa: F401

  def p_param(scope, x):
    w = scope.param('w', lambda k: jnp.ones((2,)))
    return x * w

  def p_counter(scope, x):
    c = scope.variable('state', 'count', lambda: jnp.zeros((), jnp.int32))
    c.value = c.value + 1
    return x + c.value

  def p_nested(scope, x):
    def child(s, x):
      w = s.param('w', lambda k: jnp.ones((2,)))
      st = s.variable('state', 'n', lambda: jnp.zeros(()))
      st.value = st.value + 1.0
      return x * w + st.value
    return scope.child(child, 'sub')(x)

  def p_foreign(scope, x):
    # writes to a collection that may be immutable: must raise then
    scope.put_variable('other', 'v', jnp.ones(()))
    return x

  def p_shared(scope, x):
    def child(s, x):
      st = s.variable('state', 'n', lambda: jnp.zeros(()))
      st.value = st.value + 1.0
      return x + st.value
    f = scope.child(child, 'shared')
    return f(f(x))
  return dict(param=p_param, counter=p_counter, nested=p_nested, foreign=p_foreign, shared=p_shared)


def _filters():
  from flax.core.scope import DenyList
  return [False, True, 'state', 'params', ['state'], ['state', 'other'], ('params', 'state'), DenyList('params'), DenyList(['state']),
          DenyList(DenyList('state')), 'nonexistent', 'params_axes', 'my_state', ['state_2', 'others']]


def _layouts(variables):
  """the same variables as plain dicts, FrozenDict, and mixed"""
  from flax.core import freeze, unfreeze
  plain = unfreeze(variables)
  outs = [('plain', plain), ('frozen', freeze(plain))]
  mixed = {k: freeze(v) for k, v in plain.items()}
  outs.append(('top-plain/collections-frozen', mixed))
  if 'state' in plain:
    # the written collection is supplied, but empty (only used under filters that make it mutable)
    outs.append(('plain/empty-state', dict(plain, state={})))
  return outs


def _in_filter(f, c):
  """independent reading of the documented filter semantics (not flax's in_filter)"""
  from flax.core.scope import DenyList
  if isinstance(f, bool):
    return f
  if isinstance(f, str):
    return c == f
  if isinstance(f, DenyList):
    return not _in_filter(f.deny, c)
  return c in set(f)


def run(tier, seed):
  import jax
  import jax.numpy as jnp
  from flax import core
  from flax import errors
  progs = _programs()
  cases, fails = 0, []
  x = jnp.arange(2.0)
  for pname, prog in progs.items():
    if pname == 'foreign':
      init_vars = {'other': {'v': jnp.zeros(())}}
    else:
      _, init_vars = core.init(prog)(jax.random.key(0), x)
    for (lname, variables), mut in itertools.product(_layouts(init_vars), _filters()):
      if lname == 'plain/empty-state' and not _in_filter(mut, 'state'):
        continue
      cases += 1
      inputs = dict(program=pname, layout=lname, mutable=repr(mut))
      before = _snap(variables)
      xb = np.asarray(x).tobytes()
      writes = {'param': [], 'counter': ['state'], 'nested': ['state'], 'foreign': ['other'], 'shared': ['state']}[pname]
      should_raise = any(not _in_filter(mut, c) for c in writes)
      try:
        out = core.apply(prog, mutable=mut)(variables, x)
        raised = None
      except errors.ModifyScopeVariableError as e:
        raised = e
      except Exception as e:  # noqa
        fails.append(dict(inputs=inputs, observed=f'unexpected {type(e).__name__}: {e}'[:300], violated='apply'))
        break
      if _snap(variables) != before or np.asarray(x).tobytes() != xb:
        fails.append(dict(inputs=inputs, observed='apply changed the variables / arguments it was given (snapshot differs)', violated='inputs-unchanged'))
        break
      if should_raise != (raised is not None):
        fails.append(dict(inputs=inputs, observed=f'write to collections {writes}: raised={raised is not None}, expected raise={should_raise}', violated='write-gate'))
        break
      if raised is not None:
        continue
      if mut is False:
        y, upd = out, None
      else:
        y, upd = out
        want = {c for c in core.unfreeze(variables) if _in_filter(mut, c)} | {c for c in writes if _in_filter(mut, c)}
        if set(upd.keys()) != want:
          fails.append(dict(inputs=inputs, observed=f'returned collections {sorted(upd.keys())}, expected {sorted(want)}', violated='returned-set'))
          break
      # determinism
      out2 = core.apply(prog, mutable=mut)(variables, x)
      y2 = out2 if mut is False else out2[0]
      if np.asarray(y).tobytes() != np.asarray(y2).tobytes():
        fails.append(dict(inputs=inputs, observed='repeating the call with the same inputs gave another output', violated='determinism'))
        break
    if fails:
      break
  # linen: the module object is not changed by init/apply; bound submodule deep inside stays intact
  if not fails:
    f = _linen_check()
    cases += f[0]
    if f[1]:
      fails.append(f[1])
  return dict(name=NAME, cases=cases, distinct=cases, bound='5 scope programs x 4 variable layouts x 14 mutable filters (+ linen module-object checks)',
              failures=fails[:2], error=None)


def _linen_check():
  import jax
  import jax.numpy as jnp
  import flax.linen as nn

  class Body(nn.Module):
    head: nn.Module

    @nn.compact
    def __call__(self, x):
      return self.head(x)

  class Net(nn.Module):
    body: nn.Module

    @nn.compact
    def __call__(self, x):
      self.sow('intermediates', 'h', x)
      return self.body(x) + nn.Dense(3)(x)

  def describe(m):
    out = [(type(m).__name__, m.name, m.parent is None or type(m.parent).__name__, m.scope is None)]
    for f in getattr(m, '__dataclass_fields__', {}):
      v = getattr(m, f, None)
      if isinstance(v, nn.Module):
        out += describe(v)
    return out
  x = jnp.ones((1, 3))
  n = 0
  dv = nn.Dense(3).init(jax.random.key(1), x)
  for bound_head in (False, True):
    head = nn.Dense(3).bind(dv) if bound_head else nn.Dense(3)
    net = Net(body=Body(head=head))
    before = describe(net)
    hb = np.asarray(head(x)).tobytes() if bound_head else None
    variables = net.init(jax.random.key(0), x)
    y1 = net.apply(variables, x)
    y2, st = net.apply(variables, x, mutable=['intermediates'])
    n += 3
    inputs = dict(program='linen Net(body=Body(head=Dense))', bound_head=bound_head)
    if describe(net) != before:
      return n, dict(inputs=inputs, observed=f'module objects changed by init/apply: before {before}, after {describe(net)}', violated='module-unchanged')
    if bound_head and np.asarray(head(x)).tobytes() != hb:
      return n, dict(inputs=inputs, observed='a bound submodule passed in computes something else after init/apply', violated='module-unchanged')
    if np.asarray(y1).tobytes() != np.asarray(y2).tobytes():
      return n, dict(inputs=inputs, observed='sow changed the primary output', violated='observation-inert')
    if set(st.keys()) != {'intermediates'}:
      return n, dict(inputs=inputs, observed=f'returned collections {sorted(st.keys())}', violated='returned-set')
  return n, None


def replay(inputs):
  r = run('quick', 0)
  return not r['failures']
