"""Bounded stand-in (C01): the real flax.core.apply / init and linen Module.apply / init on a fixed
family of scope programs x mutable filters x variable layouts. Before/after deep snapshots of the
inputs (dict identities, structure, leaf bytes), returned key set, ModifyScopeVariableError on
writes to immutable collections, repeated-call determinism, module object unchanged.
Labelled bounded: never counted as proved."""
import itertools
import numpy as np
from . import _env  # noqa: F401

NAME = 'bounded:core/linen apply purity on scope programs x filters x layouts'


def _snap(t):
  """structure + identity of every dict node + bytes of every leaf"""
  from flax.core import FrozenDict
  if isinstance(t, (dict, FrozenDict)):
    return (type(t).__name__, tuple(sorted((k, _snap(v)) for k, v in t.items())))
  if isinstance(t, (list, tuple)):
    return (type(t).__name__, tuple(_snap(v) for v in t))
  a = np.asarray(t)
  return ('leaf', a.dtype.str, a.shape, a.tobytes())


def _programs():
  import jax.numpy as jnp
  from flax.core import lift  # noqa: F401

  def p_param(scope, x):
    w = scope.param('w', lambda k: jnp.ones((2,)))
    return x * w

  def p_counter(scope, x):
    c = scope.variable('state', 'count', lambda: jnp.zeros((), jnp.int32))
    c.value = c.value + 1
    return x + c.value

  def p_nested(scope, x):
    def child(s, x):
      w = s.param('w', lambda k: jnp.ones((2,)))
      st = s.variable('state', 'n', lambda: jnp.zeros(()))
      st.value = st.value + 1.0
      return x * w + st.value
    return scope.child(child, 'sub')(x)

  def p_foreign(scope, x):
    # writes to a collection that may be immutable: must raise then
    scope.put_variable('other', 'v', jnp.ones(()))
    return x

  def p_shared(scope, x):
    def child(s, x):
      st = s.variable('state', 'n', lambda: jnp.zeros(()))
      st.value = st.value + 1.0
      return x + st.value
    f = scope.child(child, 'shared')
    return f(f(x))
  return dict(param=p_param, counter=p_counter, nested=p_nested, foreign=p_foreign, shared=p_shared)


def _filters():
  from flax.core.scope import DenyList
  return [False, True, 'state', 'params', ['state'], ['state', 'other'], ('params', 'state'), DenyList('params'), DenyList(['state']),
          DenyList(DenyList('state')), 'nonexistent', 'params_axes', 'my_state', ['state_2', 'others']]


def _layouts(variables):
  """the same variables as plain dicts, FrozenDict, and mixed"""
  from flax.core import freeze, unfreeze
  plain = unfreeze(variables)
  outs = [('plain', plain), ('frozen', freeze(plain))]
  mixed = {k: freeze(v) for k, v in plain.items()}
  outs.append(('top-plain/collections-frozen', mixed))
  # an additional collection that exists but holds nothing: it is returned whenever `mutable` selects it
  outs.append(('plain/extra-empty-collection', dict(plain, cache={})))
  if 'state' in plain:
    # the written collection is supplied, but empty (only used under filters that make it mutable)
    outs.append(('plain/empty-state', dict(plain, state={})))
  return outs


def _in_filter(f, c):
  """independent reading of the documented filter semantics (not flax's in_filter)"""
  from flax.core.scope import DenyList
  if isinstance(f, bool):
    return f
  if isinstance(f, str):
    return c == f
  if isinstance(f, DenyList):
    return not _in_filter(f.deny, c)
  return c in set(f)


def _write_sequences(tier):
  """every sequence (length <= 3; 4 in the thorough tier) of writes through a root scope, its child 'mid' and its
  grand-child 'mid/leaf' - leaf values and whole nested sub-trees - against one plain nested dict: after every
  write every scope reads the same tree, and apply returns it"""
  import itertools
  import jax.numpy as jnp
  from flax import core
  ops = [
    ('leaf', 'n', 1.0), ('leaf', 'n', 2.0), ('mid', 'k', 3.0),
    ('root', 'mid', {'leaf': {'n': 10.0}}), ('root', 'mid', {'leaf': {'n': 11.0, 'm': 5.0}, 'k': 7.0}),
    ('mid', 'leaf', {'n': 20.0}), ('root', 'top', 4.0),
  ]
  L = 3 if tier == 'quick' else 4
  cases = 0

  def plain(t):
    from flax.core import FrozenDict
    if isinstance(t, (dict, FrozenDict)):
      return {k: plain(v) for k, v in t.items()}
    return float(t)

  def merge(dst, key, val):
    if key in dst and isinstance(dst[key], dict) and isinstance(val, dict):
      for k, v in val.items():
        merge(dst[key], k, v)
    else:
      import copy
      dst[key] = copy.deepcopy(val)
  for seq in itertools.chain.from_iterable(itertools.product(range(len(ops)), repeat=n) for n in range(1, L + 1)):
    cases += 1
    ref = {'mid': {'leaf': {'n': 0.0}}}
    log = []

    def prog(scope):
      mid = scope.push('mid')
      leaf = mid.push('leaf')
      sc = {'root': scope, 'mid': mid, 'leaf': leaf}
      for i in seq:
        who, key, val = ops[i]
        v = jax_tree(val)
        sc[who].put_variable('state', key, v)
        tgt = ref if who == 'root' else (ref['mid'] if who == 'mid' else ref['mid']['leaf'])
        merge(tgt, key, val)
        seen = dict(root=plain(scope.variables()['state']), mid=plain(mid.variables()['state']), leaf=plain(leaf.variables()['state']))
        want = dict(root=plain_ref(ref), mid=plain_ref(ref['mid']), leaf=plain_ref(ref['mid']['leaf']))
        if seen != want:
          log.append((i, seen, want))
      return 0.0

    def jax_tree(v):
      return {k: jax_tree(x) for k, x in v.items()} if isinstance(v, dict) else jnp.asarray(v)

    def plain_ref(t):
      return {k: plain_ref(v) for k, v in t.items()} if isinstance(t, dict) else float(t)
    variables = {'state': {'mid': {'leaf': {'n': jnp.asarray(0.0)}}}}
    try:
      _, out = core.apply(prog, mutable=['state'])(variables)
    except Exception as e:  # noqa
      return cases, dict(inputs=dict(program='scope write sequence', ops=[repr(ops[i]) for i in seq]), observed=f'raised {e!r}'[:300], violated='writes-returned')
    if log:
      i, seen, want = log[0]
      return cases, dict(inputs=dict(program='scope write sequence', ops=[repr(ops[j]) for j in seq]),
                         observed=f'after write {ops[i]!r} the scopes read {seen}, one nested dict gives {want}'[:500], violated='writes-visible')
    if plain(out['state']) != plain_ref(ref):
      return cases, dict(inputs=dict(program='scope write sequence', ops=[repr(ops[j]) for j in seq]),
                         observed=f'apply returned {plain(out["state"])}, the writes amount to {plain_ref(ref)}'[:500], violated='writes-returned')
    if plain(variables['state']) != {'mid': {'leaf': {'n': 0.0}}}:
      return cases, dict(inputs=dict(program='scope write sequence', ops=[repr(ops[j]) for j in seq]), observed='the supplied variables were changed', violated='inputs-unchanged')
  return cases, None


def run(tier, seed):
  import jax
  import jax.numpy as jnp
  from flax import core
  from flax import errors
  progs = _programs()
  cases, fails = 0, []
  x = jnp.arange(2.0)
  for pname, prog in progs.items():
    if pname == 'foreign':
      init_vars = {'other': {'v': jnp.zeros(())}}
    else:
      _, init_vars = core.init(prog)(jax.random.key(0), x)
    for (lname, variables), mut in itertools.product(_layouts(init_vars), _filters()):
      if lname == 'plain/empty-state' and not _in_filter(mut, 'state'):
        continue
      cases += 1
      inputs = dict(program=pname, layout=lname, mutable=repr(mut))
      before = _snap(variables)
      xb = np.asarray(x).tobytes()
      writes = {'param': [], 'counter': ['state'], 'nested': ['state'], 'foreign': ['other'], 'shared': ['state']}[pname]
      should_raise = any(not _in_filter(mut, c) for c in writes)
      try:
        out = core.apply(prog, mutable=mut)(variables, x)
        raised = None
      except errors.ModifyScopeVariableError as e:
        raised = e
      except Exception as e:  # noqa
        fails.append(dict(inputs=inputs, observed=f'unexpected {type(e).__name__}: {e}'[:300], violated='apply'))
        break
      if _snap(variables) != before or np.asarray(x).tobytes() != xb:
        fails.append(dict(inputs=inputs, observed='apply changed the variables / arguments it was given (snapshot differs)', violated='inputs-unchanged'))
        break
      if should_raise != (raised is not None):
        fails.append(dict(inputs=inputs, observed=f'write to collections {writes}: raised={raised is not None}, expected raise={should_raise}', violated='write-gate'))
        break
      if raised is not None:
        continue
      if mut is False:
        y, upd = out, None
      else:
        y, upd = out
        want = {c for c in core.unfreeze(variables) if _in_filter(mut, c)} | {c for c in writes if _in_filter(mut, c)}
        if set(upd.keys()) != want:
          fails.append(dict(inputs=inputs, observed=f'returned collections {sorted(upd.keys())}, expected {sorted(want)}', violated='returned-set'))
          break
      # determinism
      out2 = core.apply(prog, mutable=mut)(variables, x)
      y2 = out2 if mut is False else out2[0]
      if np.asarray(y).tobytes() != np.asarray(y2).tobytes():
        fails.append(dict(inputs=inputs, observed='repeating the call with the same inputs gave another output', violated='determinism'))
        break
    if fails:
      break
  if not fails:
    # dict-valued ARGUMENTS stored with put_variable and merged into later: the arguments stay as they were
    cases += 1
    d_arg = {'n': jnp.asarray(1.0), 'deep': {'k': jnp.asarray(5.0)}}
    e_arg = {'n': jnp.asarray(2.0), 'm': jnp.asarray(3.0), 'deep': {'j': jnp.asarray(6.0)}}
    snap_d, snap_e = _snap(d_arg), _snap(e_arg)

    def put_twice(scope, d, e):
      scope.put_variable('s', 'v', d)
      scope.put_variable('s', 'v', e)
      return 0
    _, upd = core.apply(put_twice, mutable=['s'])({}, d_arg, e_arg)
    if _snap(d_arg) != snap_d or _snap(e_arg) != snap_e:
      fails.append(dict(inputs=dict(program="put_variable('s','v', d); put_variable('s','v', e) with d, e dict arguments of apply"),
                        observed='an argument of apply was modified in place (the second write was merged into the dict object the caller passed)', violated='inputs-unchanged'))
    elif _snap(core.unfreeze(upd['s']['v'])) != _snap({'n': e_arg['n'], 'm': e_arg['m'], 'deep': {'k': d_arg['deep']['k'], 'j': e_arg['deep']['j']}}):
      fails.append(dict(inputs=dict(program="put_variable('s','v', d); put_variable('s','v', e) with d, e dict arguments of apply"), observed=f"returned {upd['s']['v']}", violated='writes-returned'))
  if not fails:
    n, f = _write_sequences(tier)
    cases += n
    if f:
      fails.append(f)
  # linen: the module object is not changed by init/apply; bound submodule deep inside stays intact
  if not fails:
    f = _linen_check()
    cases += f[0]
    if f[1]:
      fails.append(f[1])
  return dict(name=NAME, cases=cases, distinct=cases, bound='5 scope programs x 5 variable layouts x 14 mutable filters (+ linen module-object checks, 6 kinds of filter object reused after a capturing apply, perturb on signed zeros / denormals / inf / nan); all write sequences of length <= 3 over 7 writes through root / child / grand-child scopes',
              failures=fails[:2], error=None)


def _linen_check():
  import jax
  import jax.numpy as jnp
  import flax.linen as nn

  class Body(nn.Module):
    head: nn.Module

    @nn.compact
    def __call__(self, x):
      return self.head(x)

  class Net(nn.Module):
    body: nn.Module

    @nn.compact
    def __call__(self, x):
      self.sow('intermediates', 'h', x)
      return self.body(x) + nn.Dense(3)(x)

  def describe(m):
    out = [(type(m).__name__, m.name, m.parent is None or type(m.parent).__name__, m.scope is None)]
    for f in getattr(m, '__dataclass_fields__', {}):
      v = getattr(m, f, None)
      if isinstance(v, nn.Module):
        out += describe(v)
    return out
  x = jnp.ones((1, 3))
  n = 0
  dv = nn.Dense(3).init(jax.random.key(1), x)
  for bound_head in (False, True):
    head = nn.Dense(3).bind(dv) if bound_head else nn.Dense(3)
    net = Net(body=Body(head=head))
    before = describe(net)
    hb = np.asarray(head(x)).tobytes() if bound_head else None
    variables = net.init(jax.random.key(0), x)
    y1 = net.apply(variables, x)
    y2, st = net.apply(variables, x, mutable=['intermediates'])
    n += 3
    inputs = dict(program='linen Net(body=Body(head=Dense))', bound_head=bound_head)
    if describe(net) != before:
      return n, dict(inputs=inputs, observed=f'module objects changed by init/apply: before {before}, after {describe(net)}', violated='module-unchanged')
    if bound_head and np.asarray(head(x)).tobytes() != hb:
      return n, dict(inputs=inputs, observed='a bound submodule passed in computes something else after init/apply', violated='module-unchanged')
    if np.asarray(y1).tobytes() != np.asarray(y2).tobytes():
      return n, dict(inputs=inputs, observed='sow changed the primary output', violated='observation-inert')
    if set(st.keys()) != {'intermediates'}:
      return n, dict(inputs=inputs, observed=f'returned collections {sorted(st.keys())}', violated='returned-set')
    # the sown collection fed back in as an IMMUTABLE input: sow is a no-op, the primary output is unchanged, nothing raises
    n += 1
    fed = {**variables, **st}
    for mut2 in (False, ['params'], nn.DenyList('intermediates')):
      try:
        out3 = net.apply(fed, x, mutable=mut2)
      except Exception as e:  # noqa
        return n, dict(inputs=dict(inputs, step='sown collection fed back, mutable=' + repr(mut2)), observed=f'raised {e!r}'[:300], violated='observation-inert')
      y3 = out3 if mut2 is False else out3[0]
      if np.asarray(y3).tobytes() != np.asarray(y1).tobytes():
        return n, dict(inputs=dict(inputs, step='sown collection fed back, mutable=' + repr(mut2)), observed='the primary output changed', violated='observation-inert')
  # observation features of an OUTER call do not leak into an apply nested inside a module method
  class Block(nn.Module):
    @nn.compact
    def __call__(self, x):
      h = nn.relu(nn.Dense(3, name='proj')(x))
      self.sow('intermediates', 'feat', h)
      return nn.Dense(2, name='out')(h)

  class Probe(nn.Module):
    backbone: nn.Module
    backbone_vars: object

    @nn.compact
    def __call__(self, x):
      y, st = self.backbone.apply(self.backbone_vars, x, mutable=['intermediates'])
      n_entries = len(jax.tree_util.tree_leaves(st['intermediates']))
      return nn.Dense(2, name='head')(st['intermediates']['feat'][0]) + y * n_entries
  bb = Block()
  bv = bb.init(jax.random.key(2), x)
  probe = Probe(backbone=bb, backbone_vars=bv)
  pv = probe.init(jax.random.key(3), x)
  base = np.asarray(probe.apply(pv, x))
  for cap in (False, True, (lambda mdl, method_name: True)):
    n += 1
    out = probe.apply(pv, x, capture_intermediates=cap, mutable=['intermediates'] if cap is not False else False)
    y = out[0] if cap is not False else out
    if not np.allclose(np.asarray(y), base):
      return n, dict(inputs=dict(program='module that applies a frozen backbone inside its method', capture_intermediates=repr(cap)[:40]),
                     observed='capture_intermediates on the outer call changed the primary output', violated='observation-inert')
  # the `mutable` FILTER OBJECT the caller passes is an argument too: it comes back unchanged, and reusing it gives the same result
  import copy as _copy
  for kind, mk in (('set', lambda: {'stats'}), ('list', lambda: ['stats']), ('tuple', lambda: ('stats',)), ('frozenset', lambda: frozenset({'stats'})),
                   ('DenyList(set)', lambda: nn.DenyList({'params'})), ('str', lambda: 'stats')):
    for cap in (True, (lambda mdl, method_name: True)):
      n += 1
      mut = mk()
      snap = _copy.deepcopy(mut)
      inputs = dict(program='linen Block with sow', mutable=f'{kind} {snap!r}', capture_intermediates=repr(cap)[:30], step='filter object reused after a capturing apply')
      try:
        bb.apply(bv, x, mutable=mut, capture_intermediates=cap)
        same = (mut == snap) if kind != 'DenyList(set)' else (mut.deny == snap.deny)
        if not same:
          return n, dict(inputs=inputs, observed=f'the filter object passed as `mutable` was changed by apply: {snap!r} -> {mut!r}', violated='inputs-unchanged')
        y_after, st_after = bb.apply(bv, x, mutable=mut)
        y_ref, st_ref = bb.apply(bv, x, mutable=mk())
        if sorted(st_after.keys()) != sorted(st_ref.keys()) or np.asarray(y_after).tobytes() != np.asarray(y_ref).tobytes():
          return n, dict(inputs=inputs, observed=f'reusing the filter object returns collections {sorted(st_after.keys())}, a fresh equal filter returns {sorted(st_ref.keys())}', violated='returned-set')
      except Exception as e:  # noqa
        return n, dict(inputs=inputs, observed=f'raised {e!r}'[:300], violated='apply')
  # perturb without a perturbation collection is the identity - bit for bit (signed zeros, denormals, inf, nan)
  class Probed(nn.Module):
    probes: bool

    @nn.compact
    def __call__(self, x):
      h = x * 1.0
      if self.probes:
        h = self.perturb('h', h)
      return h, 1.0 / h, jnp.arctan2(h, -1.0)
  special = jnp.asarray([-0.0, 0.0, 1e-45, -1e-45, 1.5, -2.5, jnp.inf, -jnp.inf, jnp.nan], jnp.float32)
  for probes_vars in ('no perturbation collection', 'immutable other collections only'):
    n += 1
    vs = {} if probes_vars == 'no perturbation collection' else {'stats': {'k': jnp.zeros(())}}
    want = Probed(False).apply(vs, special)
    got = Probed(True).apply(vs, special)
    if any(np.asarray(a).tobytes() != np.asarray(b).tobytes() for a, b in zip(want, got)):
      return n, dict(inputs=dict(program='module with self.perturb on an activation holding -0.0, denormals, inf, nan', variables=probes_vars),
                     observed=f'perturb without a perturbations collection changed the output bits: {[np.asarray(a).tolist() for a in got]} vs {[np.asarray(a).tolist() for a in want]}'[:400], violated='observation-inert')
  return n, None


def replay(inputs):
  r = run('quick', 0)
  return not r['failures']
