"""Bounded stand-in (C12): real Linen / NNX layers against an independent numpy (float64)
reference on a fixed grid of configurations. This is where the numerical sentences of C12 are
checked -- none of them is provable here. Labelled bounded: never counted as proved."""
import itertools
import numpy as np
from . import _env  # noqa: F401

NAME = 'bounded:linen/nnx layers vs numpy reference (grid)'
TOL = 2e-4


def _conv1d_ref(x, w, stride, dil, padding):
  """x: (B, L, Cin), w: (K, Cin, Cout) -> (B, Lout, Cout); direct sum"""
  B, L, Cin = x.shape
  K, _, Cout = w.shape
  eff = (K - 1) * dil + 1
  if padding == 'VALID':
    lo = hi = 0
    mode = 'constant'
  elif padding == 'SAME':
    out = -(-L // stride)
    total = max((out - 1) * stride + eff - L, 0)
    lo, hi = total // 2, total - total // 2
    mode = 'constant'
  elif padding in ('CIRCULAR', 'REFLECT'):
    lo, hi = (eff - 1) // 2, eff // 2
    mode = 'wrap' if padding == 'CIRCULAR' else 'reflect'
  elif padding == 'CAUSAL':
    lo, hi = eff - 1, 0
    mode = 'constant'
  else:
    lo, hi = padding
    mode = 'constant'
  xp = np.pad(x, ((0, 0), (lo, hi), (0, 0)), mode=mode)
  Lp = xp.shape[1]
  Lout = (Lp - eff) // stride + 1
  y = np.zeros((B, Lout, Cout))
  for o in range(Lout):
    for k in range(K):
      y[:, o, :] += xp[:, o * stride + k * dil, :] @ w[k]
  return y


def _check_conv(fails):
  import jax
  import jax.numpy as jnp
  import flax.linen as nn
  from flax import nnx
  rng = np.random.RandomState(0)
  n = 0
  for K, dil, stride, padding in itertools.product((1, 2, 3, 4), (1, 2), (1, 2), ('SAME', 'VALID', 'CIRCULAR', 'REFLECT', 'CAUSAL', (1, 2))):
    if padding in ('CIRCULAR', 'REFLECT') and stride != 1:
      continue
    L = 9
    x = rng.randn(2, L, 3).astype(np.float32)
    pad_arg = [padding] if isinstance(padding, tuple) else padding
    m = nn.Conv(features=2, kernel_size=(K,), strides=(stride,), kernel_dilation=(dil,), padding=pad_arg, use_bias=True)
    v = m.init(jax.random.key(K * 10 + dil), jnp.asarray(x))
    w, b = np.asarray(v['params']['kernel'], np.float64), np.asarray(v['params']['bias'], np.float64)
    n += 1
    got = np.asarray(m.apply(v, jnp.asarray(x)))
    want = _conv1d_ref(x.astype(np.float64), w, stride, dil, padding) + b
    cfg = dict(layer='linen.Conv', kernel=K, dilation=dil, stride=stride, padding=repr(padding))
    if got.shape != want.shape or np.abs(got - want).max() > TOL:
      fails.append(dict(inputs=cfg, observed=f'differs from the direct-sum convolution (max abs diff {np.abs(got - want).max() if got.shape == want.shape else "shape " + str(got.shape) + " vs " + str(want.shape)})', violated='conv-formula'))
      return n
    if padding in ('SAME', 'CIRCULAR', 'VALID') and stride == 1:
      c = nnx.Conv(3, 2, kernel_size=(K,), kernel_dilation=(dil,), padding=pad_arg, rngs=nnx.Rngs(0))
      c.kernel.value = jnp.asarray(w, jnp.float32)
      c.bias.value = jnp.asarray(b, jnp.float32)
      n += 1
      got2 = np.asarray(c(jnp.asarray(x)))
      if np.abs(got2 - got).max() > TOL:
        fails.append(dict(inputs=dict(cfg, layer='nnx.Conv vs linen.Conv'), observed='Linen and NNX disagree for the same parameters', violated='linen-nnx-agree'))
        return n
  return n


def _check_norms(fails):
  import jax
  import jax.numpy as jnp
  import flax.linen as nn
  rng = np.random.RandomState(1)
  n = 0
  x = rng.randn(4, 6).astype(np.float32) * 2 + 1
  mask = np.array(rng.rand(4, 6) > 0.3)
  mask[:, 0] = True
  for fast, use_mask in itertools.product((True, False), (False, True)):
    mk = jnp.asarray(mask) if use_mask else None
    m = nn.LayerNorm(use_fast_variance=fast, epsilon=1e-5)
    v = m.init(jax.random.key(0), jnp.asarray(x))
    got = np.asarray(m.apply(v, jnp.asarray(x), mask=mk))
    x64 = x.astype(np.float64)
    w = mask.astype(np.float64) if use_mask else np.ones_like(x64)
    mean = (x64 * w).sum(-1, keepdims=True) / w.sum(-1, keepdims=True)
    var = (((x64 - mean) ** 2) * w).sum(-1, keepdims=True) / w.sum(-1, keepdims=True)
    want = (x64 - mean) / np.sqrt(var + 1e-5)
    n += 1
    sel = mask if use_mask else np.ones_like(mask)
    if np.abs(got - want)[sel].max() > 5e-4:
      fails.append(dict(inputs=dict(layer='linen.LayerNorm', use_fast_variance=fast, mask=use_mask), observed=f'differs from the masked mean/variance formula (max abs diff {np.abs(got - want)[sel].max():.4g})', violated='norm-formula'))
      return n
    # BatchNorm: batch statistics + running average update
    bn = nn.BatchNorm(use_running_average=False, momentum=0.9, epsilon=1e-5, use_fast_variance=fast)
    vb = bn.init(jax.random.key(0), jnp.asarray(x))
    yb, upd = bn.apply(vb, jnp.asarray(x), mask=mk, mutable=['batch_stats'])
    mean_b = (x64 * w).sum(0) / w.sum(0)
    var_b = (((x64 - mean_b) ** 2) * w).sum(0) / w.sum(0)
    want_b = (x64 - mean_b) / np.sqrt(var_b + 1e-5)
    n += 1
    if np.abs(np.asarray(yb) - want_b)[sel].max() > 5e-4:
      fails.append(dict(inputs=dict(layer='linen.BatchNorm', use_fast_variance=fast, mask=use_mask), observed='batch normalisation differs from the masked batch statistics', violated='norm-formula'))
      return n
    rm, rv = np.asarray(upd['batch_stats']['mean']), np.asarray(upd['batch_stats']['var'])
    if np.abs(rm - (0.9 * 0 + 0.1 * mean_b)).max() > 5e-4 or np.abs(rv - (0.9 * 1 + 0.1 * var_b)).max() > 5e-4:
      fails.append(dict(inputs=dict(layer='linen.BatchNorm', use_fast_variance=fast, mask=use_mask), observed='running statistics do not follow momentum*old + (1-momentum)*batch', violated='batchnorm-running-stats'))
      return n
  return n


def _check_transpose_general(fails):
  """ConvTranspose: the bias is added once per output position (also across the CIRCULAR wrap) and Linen == NNX;
  DenseGeneral / LinearGeneral: the contraction over `axis` in whatever order the axes are listed"""
  import jax
  import jax.numpy as jnp
  import flax.linen as nn
  from flax import nnx
  rng = np.random.RandomState(4)
  n = 0
  for K, stride, padding, tk in itertools.product((1, 2, 3, 4), (1, 2), ('SAME', 'VALID', 'CIRCULAR'), (False, True)):
    x = jnp.asarray(rng.randn(2, 6, 3).astype(np.float32))
    w = jnp.asarray(rng.randn(K, 2, 3).astype(np.float32) if tk else rng.randn(K, 3, 2).astype(np.float32))
    b = jnp.asarray([0.75, -1.25], jnp.float32)
    cfg = dict(kernel=K, stride=stride, padding=padding, transpose_kernel=tk)
    lm = nn.ConvTranspose(features=2, kernel_size=(K,), strides=(stride,), padding=padding, transpose_kernel=tk)
    yl = np.asarray(lm.apply({'params': {'kernel': w, 'bias': b}}, x))
    yl0 = np.asarray(lm.apply({'params': {'kernel': w, 'bias': jnp.zeros_like(b)}}, x))
    nm = nnx.ConvTranspose(3, 2, kernel_size=(K,), strides=(stride,), padding=padding, transpose_kernel=tk, rngs=nnx.Rngs(0))
    nm.kernel.value, nm.bias.value = w, b
    yn = np.asarray(nm(x))
    nm.bias.value = jnp.zeros_like(b)
    yn0 = np.asarray(nm(x))
    n += 2
    for tag, y, y0 in (('linen.ConvTranspose', yl, yl0), ('nnx.ConvTranspose', yn, yn0)):
      if y.shape != y0.shape or np.abs((y - y0) - np.asarray(b)).max() > TOL:
        fails.append(dict(inputs=dict(cfg, layer=tag), observed=f'layer(W, b) - layer(W, 0) is not the bias at every output position: {np.unique(np.round(y - y0, 4)).tolist()[:8]} for bias {np.asarray(b).tolist()}', violated='conv-formula'))
        return n
    if yl.shape != yn.shape or np.abs(yl - yn).max() > TOL:
      fails.append(dict(inputs=dict(cfg, layer='nnx.ConvTranspose vs linen.ConvTranspose'), observed='Linen and NNX disagree for the same parameters', violated='linen-nnx-agree'))
      return n
  xs = rng.randn(2, 3, 4, 5).astype(np.float32)
  for axis in ((-1,), (-2, -1), (-1, -2), (1, 3), (3, 1), (-1, 1), (1, -1), (3, 2, 1), (1, 2, 3), (-3, -1, -2)):
    for features in ((6,), (2, 3)):
      norm = sorted(a % 4 for a in axis)
      kshape = tuple(xs.shape[a] for a in norm) + features
      kern = rng.randn(*kshape).astype(np.float32)
      bias = rng.randn(*features).astype(np.float32)
      want = np.tensordot(xs.astype(np.float64), kern.astype(np.float64), axes=(norm, list(range(len(norm))))) + bias
      cfg = dict(axis=axis, features=features, input_shape=xs.shape, kernel_shape=kshape)
      n += 2
      try:
        got_l = np.asarray(nn.DenseGeneral(features=features if len(features) > 1 else features[0], axis=axis).apply({'params': {'kernel': jnp.asarray(kern), 'bias': jnp.asarray(bias)}}, jnp.asarray(xs)))
        lg = nnx.LinearGeneral(tuple(xs.shape[a] for a in norm) if len(axis) > 1 else xs.shape[axis[0] % 4], features if len(features) > 1 else features[0], axis=axis, rngs=nnx.Rngs(0))
        if tuple(lg.kernel.value.shape) == kshape:
          lg.kernel.value, lg.bias.value = jnp.asarray(kern), jnp.asarray(bias)
          got_n = np.asarray(lg(jnp.asarray(xs)))
        else:
          got_n = None
      except Exception as e:  # noqa
        fails.append(dict(inputs=cfg, observed=f'raised {e!r}'[:300], violated='dense-formula'))
        return n
      if got_l.shape != want.shape or np.abs(got_l - want).max() > 1e-3:
        fails.append(dict(inputs=dict(cfg, layer='linen.DenseGeneral'), observed='differs from the tensor contraction over the listed axes (kernel dims paired with the axes in ascending order) plus bias', violated='dense-formula'))
        return n
      if got_n is not None and (got_n.shape != want.shape or np.abs(got_n - want).max() > 1e-3):
        fails.append(dict(inputs=dict(cfg, layer='nnx.LinearGeneral'), observed='differs from the tensor contraction over the listed axes (kernel dims paired with the axes in ascending order) plus bias / from linen.DenseGeneral', violated='dense-formula'))
        return n
  # DenseGeneral / LinearGeneral with batch dims and a free (neither batch nor contracted) dim: bias[b, f] goes with batch b
  for B, R in ((3, 3), (2, 4)):
    xb = rng.randn(B, R, 5).astype(np.float32)
    kern = rng.randn(B, 5, 6).astype(np.float32)
    bias = rng.randn(B, 6).astype(np.float32)
    want = np.einsum('brc,bcf->brf', xb.astype(np.float64), kern.astype(np.float64)) + bias[:, None, :]
    cfg = dict(axis=-1, batch_dims=(0,), input_shape=xb.shape, kernel_shape=kern.shape, bias_shape=bias.shape)
    n += 2
    try:
      got_l = np.asarray(nn.DenseGeneral(features=6, axis=-1, batch_dims=(0,)).apply({'params': {'kernel': jnp.asarray(kern), 'bias': jnp.asarray(bias)}}, jnp.asarray(xb)))
      lg = nnx.LinearGeneral(5, 6, axis=-1, batch_axis={0: B}, rngs=nnx.Rngs(0))
      lg.kernel.value, lg.bias.value = jnp.asarray(kern), jnp.asarray(bias)
      got_n = np.asarray(lg(jnp.asarray(xb)))
    except Exception as e:  # noqa
      fails.append(dict(inputs=cfg, observed=f'raised {e!r}'[:300], violated='dense-formula'))
      return n
    for tag, got in (('linen.DenseGeneral', got_l), ('nnx.LinearGeneral', got_n)):
      if got.shape != want.shape or np.abs(got - want).max() > 1e-3:
        fails.append(dict(inputs=dict(cfg, layer=tag), observed='differs from the batched contraction plus bias[b, f] (bias added along the wrong dimension?)', violated='dense-formula'))
        return n
  # BatchNorm: the call argument use_running_average wins over the attribute, also when it is an explicit False
  xbn = rng.randn(8, 4).astype(np.float32) * 2.0 + 1.0
  for attr in (None, False, True):
    for arg in (None, False, True):
      if attr is None and arg is None:
        continue
      use_avg = arg if arg is not None else attr
      n += 1
      cfg = dict(layer='BatchNorm', attribute_use_running_average=attr, call_use_running_average=arg)
      try:
        bn = nnx.BatchNorm(4, use_running_average=attr, momentum=0.9, rngs=nnx.Rngs(0))
        bn.mean.value, bn.var.value = jnp.asarray([0.5, -0.5, 1.0, 0.0]), jnp.asarray([1.5, 0.5, 2.0, 1.0])
        yn = np.asarray(bn(jnp.asarray(xbn)) if arg is None else bn(jnp.asarray(xbn), use_running_average=arg))
        both = attr is not None and arg is not None       # linen refuses the flag given twice (merge_param); nnx lets the call win
        lm = nn.BatchNorm(use_running_average=None if both else attr, momentum=0.9)
        lv = {'params': {'scale': jnp.ones((4,)), 'bias': jnp.zeros((4,))}, 'batch_stats': {'mean': jnp.asarray([0.5, -0.5, 1.0, 0.0]), 'var': jnp.asarray([1.5, 0.5, 2.0, 1.0])}}
        yl, upd = lm.apply(lv, jnp.asarray(xbn), **({} if arg is None else {'use_running_average': arg}), mutable=['batch_stats'])
      except Exception as e:  # noqa
        fails.append(dict(inputs=cfg, observed=f'raised {e!r}'[:300], violated='norm-formula'))
        return n
      m0, v0 = np.array([0.5, -0.5, 1.0, 0.0]), np.array([1.5, 0.5, 2.0, 1.0])
      bm, bv = xbn.mean(0), xbn.var(0)
      mu, var = (m0, v0) if use_avg else (bm, bv)
      want = (xbn - mu) / np.sqrt(var + 1e-5)
      want_mean = m0 if use_avg else 0.9 * m0 + 0.1 * bm
      for tag, y, mean_after in (('nnx.BatchNorm', yn, np.asarray(bn.mean.value)), ('linen.BatchNorm', np.asarray(yl), np.asarray(upd['batch_stats']['mean']))):
        if np.abs(y - want).max() > 2e-3 or np.abs(mean_after - want_mean).max() > 1e-4:
          fails.append(dict(inputs=dict(cfg, layer=tag), observed=f'normalised with {"running" if not use_avg else "batch"} statistics / running mean {mean_after.tolist()} (expected {want_mean.tolist()}): the call argument must win over the attribute', violated='norm-formula'))
          return n
  return n


def _check_misc(fails):
  import jax
  import jax.numpy as jnp
  import flax.linen as nn
  rng = np.random.RandomState(2)
  n = 0
  x = rng.randn(3, 5).astype(np.float32)
  d = nn.Dense(4)
  v = d.init(jax.random.key(0), jnp.asarray(x))
  n += 1
  if np.abs(np.asarray(d.apply(v, jnp.asarray(x))) - (x @ np.asarray(v['params']['kernel']) + np.asarray(v['params']['bias']))).max() > TOL:
    fails.append(dict(inputs=dict(layer='linen.Dense'), observed='differs from x @ kernel + bias', violated='dense-formula'))
    return n
  # Dropout
  big = jnp.asarray(rng.randn(64, 64).astype(np.float32)) + 3.0
  for rate in (0.0, 0.3, 1.0):
    dr = nn.Dropout(rate=rate, deterministic=False)
    y = np.asarray(dr.apply({}, big, rngs={'dropout': jax.random.key(7)}))
    y2 = np.asarray(dr.apply({}, big * 2 + 1, rngs={'dropout': jax.random.key(7)}))
    n += 1
    cfg = dict(layer='linen.Dropout', rate=rate)
    if rate == 0.0 and not np.array_equal(y, np.asarray(big)):
      fails.append(dict(inputs=cfg, observed='rate 0 is not the identity', violated='dropout'))
      return n
    if rate == 1.0 and np.any(y != 0):
      fails.append(dict(inputs=cfg, observed='rate 1 is not zero', violated='dropout'))
      return n
    if 0 < rate < 1:
      keep = y != 0
      if not np.allclose(y[keep], np.asarray(big)[keep] / (1 - rate), rtol=1e-5):
        fails.append(dict(inputs=cfg, observed='survivors are not scaled by 1/(1-rate)', violated='dropout'))
        return n
      if not np.array_equal(keep, y2 != 0):
        fails.append(dict(inputs=cfg, observed='the mask depends on the data (same key, different input, different mask)', violated='dropout'))
        return n
      if abs(keep.mean() - (1 - rate)) > 0.05:
        fails.append(dict(inputs=cfg, observed=f'keep fraction {keep.mean():.3f} far from 1-rate', violated='dropout'))
        return n
  # broadcast_dims: the mask is shared along the named axes, however they are spelled
  x3 = jnp.asarray(rng.randn(4, 5, 6).astype(np.float32)) + 3.0
  for dims in ((1,), (-2,), (0, 2), (-3, -1), (2,), (-1,)):
    n += 1
    y3 = np.asarray(nn.Dropout(rate=0.5, deterministic=False, broadcast_dims=dims).apply({}, x3, rngs={'dropout': jax.random.key(3)}))
    keep3 = y3 != 0
    pos = tuple(d % 3 for d in dims)
    shared = all(np.all(keep3 == np.take(keep3, [0], axis=a)) for a in pos)
    ref = np.asarray(nn.Dropout(rate=0.5, deterministic=False, broadcast_dims=pos).apply({}, x3, rngs={'dropout': jax.random.key(3)})) != 0
    if not shared or not np.array_equal(keep3, ref):
      fails.append(dict(inputs=dict(layer='linen.Dropout', broadcast_dims=list(dims)), observed='the mask is not shared along the broadcast dims (or differs from the same dims spelled non-negatively)', violated='dropout'))
      return n
  dd = nn.Dropout(rate=0.5, deterministic=True)
  n += 1
  if not np.array_equal(np.asarray(dd.apply({}, big)), np.asarray(big)):
    fails.append(dict(inputs=dict(layer='linen.Dropout', deterministic=True), observed='deterministic dropout is not the identity', violated='dropout'))
    return n
  # pooling / embed
  img = jnp.asarray(rng.randn(1, 6, 6, 2).astype(np.float32))
  ap = np.asarray(nn.avg_pool(img, (2, 2), strides=(2, 2)))
  mp = np.asarray(nn.max_pool(img, (2, 2), strides=(2, 2)))
  im = np.asarray(img)
  want_a = im.reshape(1, 3, 2, 3, 2, 2).mean(axis=(2, 4))
  want_m = im.reshape(1, 3, 2, 3, 2, 2).max(axis=(2, 4))
  n += 2
  if np.abs(ap - want_a).max() > TOL or np.abs(mp - want_m).max() > TOL:
    fails.append(dict(inputs=dict(layer='avg_pool/max_pool'), observed='differs from the window reduction', violated='pooling'))
    return n
  e = nn.Embed(5, 3)
  ve = e.init(jax.random.key(0), jnp.array([0]))
  idx = jnp.array([[1, 4], [0, 2]])
  n += 1
  if not np.array_equal(np.asarray(e.apply(ve, idx)), np.asarray(ve['params']['embedding'])[np.asarray(idx)]):
    fails.append(dict(inputs=dict(layer='linen.Embed'), observed='is not a table lookup', violated='embed'))
    return n
  # documented index semantics: negative ids count from the end, ids >= num_embeddings give NaN rows
  from flax import nnx
  table = np.asarray(ve['params']['embedding'])
  ne = nnx.Embed(5, 3, rngs=nnx.Rngs(0))
  ne.embedding.value = jnp.asarray(table)
  for ids in ([-1, -2, -3], [[0, -5], [4, -1]], [5, 7], [2, 6, -1]):
    for api, fn in (('linen', lambda i: e.apply(ve, i)), ('nnx', lambda i: ne(i))):
      n += 1
      got = np.asarray(fn(jnp.asarray(ids)))
      arr = np.asarray(ids)
      want = np.where(((arr >= -5) & (arr < 5))[..., None], table[np.clip(arr, -5, 4)], np.nan)
      if got.shape != want.shape or not np.allclose(got, want, equal_nan=True):
        fails.append(dict(inputs=dict(layer=f'{api}.Embed', ids=repr(ids)), observed=f'lookup of ids {ids} returns {got.tolist()}, the table gives {want.tolist()}'[:400], violated='embed'))
        return n
  return n


def _check_einsum_pool(fails):
  """Einsum = the stated contraction plus a bias laid out along the RESULT's feature letters (Linen and NNX agree);
  pooling with explicit (low, high) padding = the window reduction over an input padded with the reduction's identity"""
  import jax
  import jax.numpy as jnp
  import flax.linen as nn
  from flax import nnx
  n = 0
  rng = np.random.RandomState(5)
  for eq, xshape, kshape in (('ab,bc->ac', (2, 3), (3, 4)), ('abc,cde->abde', (2, 3, 4), (4, 5, 6)), ('abc,cde->abed', (2, 3, 4), (4, 5, 6)), ('ab,bcd->adc', (2, 3), (3, 4, 5))):
    n += 1
    x = rng.randn(*xshape).astype(np.float32)
    m = nn.Einsum(kshape, eq)
    v = m.init(jax.random.key(0), jnp.asarray(x))
    k = np.asarray(v['params']['kernel'])
    out_letters = eq.split('->')[1]
    feat = [c for c in out_letters if c in eq.split(',')[1].split('->')[0] and c not in eq.split(',')[0]]   # kernel-only letters, in result order
    sizes = {c: s for c, s in zip(eq.split(',')[1].split('->')[0], kshape)}
    bshape = tuple(sizes[c] for c in feat)
    if tuple(np.asarray(v['params']['bias']).shape) != bshape:
      fails.append(dict(inputs=dict(layer='linen.Einsum', equation=eq), observed=f"bias parameter has shape {np.asarray(v['params']['bias']).shape}; along the result's feature letters {feat} it is {bshape}", violated='einsum'))
      return n
    b = rng.randn(*bshape).astype(np.float32)
    bcast = [sizes[c] if c in feat else 1 for c in out_letters]
    want = np.einsum(eq, x, k) + b.reshape(bcast)
    got = np.asarray(m.apply({'params': {'kernel': jnp.asarray(k), 'bias': jnp.asarray(b)}}, jnp.asarray(x)))
    ne = nnx.Einsum(eq, kshape, bshape, rngs=nnx.Rngs(0))
    ne.kernel.value, ne.bias.value = jnp.asarray(k), jnp.asarray(b)
    got_nnx = np.asarray(ne(jnp.asarray(x)))
    if got.shape != want.shape or np.abs(got - want).max() > 1e-4 or np.abs(got_nnx - want).max() > 1e-4:
      fails.append(dict(inputs=dict(layer='Einsum (linen / nnx)', equation=eq), observed='differs from einsum(x, kernel) + bias broadcast along the result feature axes', violated='einsum'))
      return n
  img = rng.randn(2, 5, 6, 3).astype(np.float32) - 0.5      # values on both sides of zero
  for name, fn, ident, red in (('max_pool', nn.max_pool, -np.inf, np.max), ('min_pool', __import__('flax.linen.pooling', fromlist=['min_pool']).min_pool, np.inf, np.min), ('avg_pool', nn.avg_pool, 0.0, None)):
    for pads in (((1, 1), (0, 2)), ((0, 1), (2, 0))):
      for strides in ((1, 1), (2, 1)):
        n += 1
        win = (2, 3)
        got = np.asarray(fn(jnp.asarray(img), win, strides=strides, padding=pads))
        p = np.pad(img, ((0, 0), pads[0], pads[1], (0, 0)), constant_values=ident)
        oh = (p.shape[1] - win[0]) // strides[0] + 1
        ow = (p.shape[2] - win[1]) // strides[1] + 1
        want = np.zeros((img.shape[0], oh, ow, img.shape[3]), np.float32)
        for i in range(oh):
          for j in range(ow):
            w_ = p[:, i * strides[0]:i * strides[0] + win[0], j * strides[1]:j * strides[1] + win[1], :]
            want[:, i, j, :] = (w_.sum(axis=(1, 2)) / (win[0] * win[1])) if red is None else red(w_, axis=(1, 2))
        if got.shape != want.shape or np.abs(got - want).max() > 1e-5:
          fails.append(dict(inputs=dict(layer=name, window=list(win), strides=list(strides), padding=[list(q) for q in pads]), observed='differs from the window reduction over the input padded with the identity of the reduction', violated='pooling'))
          return n
  return n


def run(tier, seed):
  fails = []
  cases = 0
  for f in (_check_conv, _check_transpose_general, _check_norms, _check_misc, _check_einsum_pool):
    cases += f(fails)
    if fails:
      break
  return dict(name=NAME, cases=cases, distinct=cases, bound='Conv1D: kernels 1-4 x dilation 1-2 x stride 1-2 x 6 padding modes; LayerNorm/BatchNorm x fast/two-pass variance x mask; ConvTranspose kernels 1-4 x stride 1-2 x SAME/VALID/CIRCULAR x transpose_kernel (bias linearity, linen == nnx); DenseGeneral / LinearGeneral over 10 axis listings x 2 feature shapes and with batch dims + a free dim; BatchNorm attribute x call-argument use_running_average (8 combinations, linen and nnx); Dense, Dropout, pooling, Embed (in-range, negative and out-of-range ids, linen and nnx); Einsum with bias (4 equations incl. permuted result letters, linen and nnx); max/min/avg pooling with explicit padding',
              failures=fails[:2], error=None)


def replay(inputs):
  r = run('quick', 0)
  return not r['failures']
