"""Bounded stand-in (C10): real to_bytes / from_bytes / to_state_dict / from_state_dict /
msgpack_serialize on a grid:

  containers {dict, FrozenDict, list, tuple, namedtuple, struct.dataclass, TrainState-like nest}
  x dtypes {float32, float64, float16, bfloat16, float8_e4m3fn, int4, int8, uint16, int64, bool, complex64}
  x shapes {(), (0,), (3,), (2, 3), (2, 0, 3), (4, 2, 3)} x layouts {C, F, strided view, transposed}
  x chunk thresholds {1, 3, 7, 16, 64 bytes, default}

checking: same structure and container types, leaves with identical dtype / shape / bytes,
independence of the threshold, inputs unmodified, and rejection (with the path in the message)
of missing entries, wrong lengths and differing field names; surplus dict keys are ignored.
Labelled bounded: never counted as proved."""
import collections
import copy
import itertools
import numpy as np
from . import _env  # noqa: F401

NAME = 'bounded:serialization byte-exact round trip (containers x dtypes x shapes x layouts x chunk thresholds)'


def _dtypes():
  import jax.numpy as jnp
  import ml_dtypes
  out = [np.float32, np.float64, np.float16, jnp.bfloat16, np.int8, np.uint16, np.int64, np.bool_, np.complex64]
  for nm in ('float8_e4m3fn', 'int4'):
    if hasattr(ml_dtypes, nm):
      out.append(getattr(ml_dtypes, nm))
  return out


def _arrays(dt, rng):
  for shape in ((), (0,), (3,), (2, 3), (2, 0, 3), (4, 2, 3)):
    n = int(np.prod(shape))
    base = (rng.integers(0, 7, size=n) if n else np.zeros(0)).astype(np.float64).reshape(shape)
    try:
      a = base.astype(dt)
    except Exception:
      continue
    yield 'C', a
    if a.ndim >= 2:
      yield 'F', np.asfortranarray(a)
      yield 'T', a.T
    if a.ndim >= 1 and a.shape[0] >= 2:
      yield 'strided', a[::2]


def _same_leaf(a, b):
  a, b = np.asarray(a), np.asarray(b)
  return a.dtype == b.dtype and a.shape == b.shape and a.tobytes() == b.tobytes()


def _same_tree(a, b, path=''):
  """same structure, same container types, identical leaves; returns a description of the first difference"""
  from flax.core import FrozenDict
  if isinstance(a, (dict, FrozenDict)):
    if type(a) is not type(b):
      return f'{path}: container type {type(b).__name__} instead of {type(a).__name__}'
    if set(a.keys()) != set(b.keys()):
      return f'{path}: keys {sorted(b.keys())} instead of {sorted(a.keys())}'
    for k in a:
      d = _same_tree(a[k], b[k], f'{path}/{k}')
      if d:
        return d
    return None
  if isinstance(a, (list, tuple)):
    if type(a) is not type(b) or len(a) != len(b):
      return f'{path}: {type(b).__name__} of length {len(b) if hasattr(b, "__len__") else "?"} instead of {type(a).__name__} of length {len(a)}'
    for i, (x, y) in enumerate(zip(a, b)):
      d = _same_tree(x, y, f'{path}/{i}')
      if d:
        return d
    return None
  if hasattr(a, '__dataclass_fields__'):
    if type(a) is not type(b):
      return f'{path}: {type(b).__name__} instead of {type(a).__name__}'
    for f in a.__dataclass_fields__:
      d = _same_tree(getattr(a, f), getattr(b, f), f'{path}.{f}')
      if d:
        return d
    return None
  if a is None or isinstance(a, (str, bytes)):
    return None if (type(a) is type(b) and a == b) else f'{path}: {b!r} instead of {a!r}'
  if isinstance(a, (bool, int, float, complex)) and not isinstance(a, np.generic):
    return None if (np.asarray(a).tobytes() == np.asarray(b).tobytes() or a == b) else f'{path}: {b!r} instead of {a!r}'
  return None if _same_leaf(a, b) else f'{path}: leaf dtype/shape/bytes differ: {np.asarray(b).dtype}{np.asarray(b).shape} vs {np.asarray(a).dtype}{np.asarray(a).shape}'


def _snapshot(t):
  import jax
  return [(np.asarray(x).dtype, np.asarray(x).shape, np.asarray(x).tobytes()) if hasattr(x, 'dtype') else x for x in jax.tree_util.tree_leaves(t)], jax.tree_util.tree_structure(t)


def run(tier, seed):
  import jax
  from flax import serialization as ser, struct
  from flax.core import FrozenDict, freeze
  rng = np.random.default_rng(seed or 0)
  Pair = collections.namedtuple('Pair', ['left', 'right'])

  @struct.dataclass
  class Box:
    w: object
    step: object
    tag: str = struct.field(pytree_node=False, default='t')

  def containers(a, b):
    yield 'dict', {'a': a, 'b': {'c': b, 'n': None, 's': 'txt', 'y': b'raw'}}
    yield 'frozen', freeze({'a': a, 'b': {'c': b}})
    yield 'list', [a, [b, 1, 2.5], (a, b)]
    yield 'tuple', (a, (b,), [])
    yield 'namedtuple', Pair(a, {'k': b})
    yield 'dataclass', Box(w={'k': a}, step=b)
    yield 'nest', {'state': Box(w=Pair(a, [b, a]), step=3), 'z': (1 + 2j, True, 7)}
  cases, fails = 0, []
  default_chunk = ser.MAX_CHUNK_SIZE
  thresholds = (1, 3, 7, 16, 64, default_chunk)
  dts = _dtypes()
  if tier == 'quick':
    pairs = [(dt, lay, arr) for dt in dts for lay, arr in _arrays(dt, rng)]
  else:
    pairs = [(dt, lay, arr) for dt in dts for lay, arr in _arrays(dt, rng)] * 2
  other = np.arange(5, dtype=np.int32)
  try:
    for idx, (dt, lay, arr) in enumerate(pairs):
      if len(fails) >= 3:
        break
      conts = list(containers(arr, other))
      # every container for the first layouts of each dtype, a rotating one otherwise (keeps the quick tier short)
      chosen = conts if lay == 'C' and arr.ndim in (0, 2) else [conts[idx % len(conts)]]
      for cname, tree in chosen:
        inp = dict(container=cname, dtype=np.dtype(dt).name, shape=list(arr.shape), layout=lay)
        before = _snapshot(tree)
        encs = {}
        for th in thresholds:
          cases += 1
          ser.MAX_CHUNK_SIZE = th
          try:
            enc = ser.to_bytes(tree)
            back = ser.from_bytes(tree, enc)
          except Exception as e:  # noqa
            fails.append(dict(inputs=dict(inp, threshold=th), observed=f'from_bytes(t, to_bytes(t)) raised {e!r}'[:300], violated='bytes-roundtrip'))
            break
          finally:
            ser.MAX_CHUNK_SIZE = default_chunk
          d = _same_tree(tree, back)
          if d:
            fails.append(dict(inputs=dict(inp, threshold=th), observed='from_bytes(t, to_bytes(t)) differs from t at ' + d[:200], violated='bytes-roundtrip'))
            break
          # decoding must not depend on the threshold in force at decode time either
          back2 = ser.from_bytes(tree, enc)
          if _same_tree(tree, back2):
            fails.append(dict(inputs=dict(inp, threshold=th, decode_threshold='default'), observed='decoding under another threshold gives another tree', violated='threshold-independence'))
            break
          encs[th] = back
        if _snapshot(tree)[0] != before[0] or _snapshot(tree)[1] != before[1]:
          fails.append(dict(inputs=inp, observed='to_bytes modified its input', violated='input-unmodified'))
        cases += 1
        sd = ser.to_state_dict(tree)
        d = _same_tree(tree, ser.from_state_dict(tree, sd))
        if d:
          fails.append(dict(inputs=inp, observed='from_state_dict(t, to_state_dict(t)) differs at ' + d[:200], violated='state-dict-roundtrip'))
        if _snapshot(tree)[0] != before[0]:
          fails.append(dict(inputs=inp, observed='to_state_dict modified its input', violated='input-unmodified'))
        # msgpack_serialize without in_place leaves a (mutable) state dict untouched, also when chunking
        cases += 1
        sd2 = jax.tree_util.tree_map(lambda x: np.array(x) if hasattr(x, 'dtype') else x, ser.to_state_dict(tree))
        snap = copy.deepcopy(sd2)
        ser.MAX_CHUNK_SIZE = 3
        try:
          ser.msgpack_serialize(sd2)
        finally:
          ser.MAX_CHUNK_SIZE = default_chunk
        if _same_tree(snap, sd2):
          fails.append(dict(inputs=dict(inp, threshold=3), observed='msgpack_serialize(in_place=False) modified the state dict: ' + str(_same_tree(snap, sd2))[:200], violated='input-unmodified'))
    # python scalars incl. complex numbers with signed zeros and non-finite parts: restored with identical bytes
    import struct as _struct
    import jax.numpy as _jnp

    def _bits(v):
      return _struct.pack('dd', v.real, v.imag) if isinstance(v, complex) else (_struct.pack('d', v) if isinstance(v, float) else repr(v).encode())
    specials = [0.0, -0.0, float('inf'), float('-inf'), float('nan'), 1.5]
    scalars = [complex(a, b) for a in specials for b in specials] + [-0.0, float('nan'), float('-inf'), 7, True, None, 'txt', b'raw']
    cases += 1
    tree_s = {'vals': {str(i): v for i, v in enumerate(scalars)}, 'lst': [complex(-0.0, float('inf')), (complex(float('nan'), -0.0),)]}
    back_s = ser.from_bytes(tree_s, ser.to_bytes(tree_s))
    bad = [(k, v, back_s['vals'][k]) for k, v in tree_s['vals'].items() if type(back_s['vals'][k]) is not type(v) or (v is not None and _bits(back_s['vals'][k]) != _bits(v))]
    bad += [('lst', a, b) for a, b in ((tree_s['lst'][0], back_s['lst'][0]), (tree_s['lst'][1][0], back_s['lst'][1][0])) if _bits(a) != _bits(b)]
    if bad:
      fails.append(dict(inputs=dict(container='dict / list of python scalars', leaf=repr(bad[0][1])), observed=f'restored as {bad[0][2]!r} (not the same bytes)', violated='bytes-roundtrip'))
    # msgpack_serialize without in_place leaves the caller's tree alone: same leaf objects, same types (jax arrays stay jax arrays)
    cases += 1
    jtree = {'a': _jnp.arange(3.0), 'b': {'c': _jnp.ones((2, 2)), 'n': np.arange(4)}, 'l': [_jnp.zeros(2)]}
    ids_before = [(id(x), type(x).__name__) for x in jax.tree_util.tree_leaves(jtree)]
    for th in (default_chunk, 8):
      ser.MAX_CHUNK_SIZE = th
      try:
        ser.msgpack_serialize(jtree)
      finally:
        ser.MAX_CHUNK_SIZE = default_chunk
      ids_after = [(id(x), type(x).__name__) for x in jax.tree_util.tree_leaves(jtree)]
      if ids_after != ids_before:
        fails.append(dict(inputs=dict(fn='msgpack_serialize', in_place=False, threshold=th), observed=f'the leaves of the tree passed in were replaced: {[t for _, t in ids_before]} -> {[t for _, t in ids_after]}', violated='input-unmodified'))
        break
    # sequences of 12 entries restored from a state dict whose keys come back in another order ('0','1','10','11','2',...)
    for seq in ([np.full((2,), i, np.float32) for i in range(12)], tuple(np.asarray(i * 1.5) for i in range(13))):
      cases += 1
      sd_seq = ser.to_state_dict(seq)
      shuffled = {k: sd_seq[k] for k in sorted(sd_seq)}                       # lexicographic key order
      via_bytes = ser.msgpack_restore(ser.msgpack_serialize(sd_seq))        # what a checkpoint round trip hands back
      for label, state in (('key-sorted dict', shuffled), ('msgpack round trip', via_bytes)):
        d = _same_tree(seq, ser.from_state_dict(seq, state))
        if d:
          fails.append(dict(inputs=dict(container=type(seq).__name__, length=len(seq), state=label), observed='entries are matched by position instead of by index key: ' + d[:200], violated='match-by-key'))
    # rejection: never by position
    tmpl = {'a': np.zeros(2), 'b': [np.zeros(1), np.ones(1)], 'p': Pair(1, 2), 'd': Box(w=1, step=2)}
    good = ser.to_state_dict(tmpl)
    bad_cases = {
      'missing-key': ({k: v for k, v in good.items() if k != 'a'}, 'a'),
      'short-list': (dict(good, b={'0': good['b']['0']}), 'b'),
      'long-list': (dict(good, b=dict(good['b'], **{'2': np.zeros(1)})), 'b'),
      'namedtuple-fields': (dict(good, p={'left': 1, 'middle': 2}), 'p'),
      'dataclass-fields': (dict(good, d={'w': 1, 'stepp': 2}), 'd'),
      # a saved entry named after a STATIC field of the dataclass is not part of its state either
      'dataclass-static-field-name': (dict(good, d={'w': 1, 'step': 2, 'tag': 'x'}), 'd'),
    }
    for nm, (state, where) in bad_cases.items():
      cases += 1
      try:
        got = ser.from_state_dict(tmpl, state)
        fails.append(dict(inputs=dict(rejection=nm), observed=f'accepted a mismatching state and returned {str(got)[:120]}', violated='mismatch-rejected'))
      except (ValueError, KeyError) as e:
        if where not in str(e):
          fails.append(dict(inputs=dict(rejection=nm), observed=f'error does not name the path ({where}): {e}'[:200], violated='mismatch-names-path'))
    cases += 1
    extra = dict(good, surplus=np.zeros(3))
    d = _same_tree(tmpl, ser.from_state_dict(tmpl, extra))
    if d:
      fails.append(dict(inputs=dict(rejection='surplus-key'), observed='surplus dict key changed the result: ' + d, violated='surplus-ignored'))
    # by key, not by position: permuted saved dict
    cases += 1
    perm = dict(reversed(list(good.items())))
    d = _same_tree(tmpl, ser.from_state_dict(tmpl, perm))
    if d:
      fails.append(dict(inputs=dict(rejection='permuted-keys'), observed='restoring from a permuted state dict mis-assigned: ' + d, violated='match-by-key'))
  except Exception:
    import traceback
    ser.MAX_CHUNK_SIZE = default_chunk
    return dict(name=NAME, cases=cases, distinct=cases, failures=[], error=traceback.format_exc()[-1500:])
  return dict(name=NAME, cases=cases, distinct=cases,
              bound=f'{len(dts)} dtypes x 6 shapes x up to 4 layouts = {len(pairs)} arrays; 7 container kinds; thresholds {list(thresholds[:-1])} + default; 8 rejection cases',
              failures=fails[:3], error=None)


def replay(inputs):
  r = run('quick', 0)
  return not r['failures']
