"""Bounded stand-in (C11): the real legacy (msgpack) save_checkpoint on a temp directory.

(1) retention/ordering: for every history from a fixed family (steps, keep, keep_every_n_steps,
    overwrite) the directory after each completed save must equal the reference policy: the
    `keep` newest in numeric order plus the older ones retained by the keep_every_n_steps fold
    (oldest first, from -inf), newer ones removed only with overwrite; a save at an existing or
    older step without overwrite raises and changes nothing.
(2) crash points: the process dies at the k-th file-system operation of a save (every k,
    including a torn write of the tmp file); afterwards latest_checkpoint / restore_checkpoint
    must return a complete checkpoint (the previous latest or the new one), and the save can be
    retried.
Labelled bounded: never counted as proved. Also serves as the native replay of C11 obligations."""
import itertools
import os
import shutil
import tempfile
import numpy as np
from . import _env  # noqa: F401

NAME = 'bounded:checkpoints legacy save histories + crash points'


class Crash(BaseException):
  pass


def _mods(legacy=True):
  from flax import io as fio
  from flax import config
  from flax.training import checkpoints
  fio.set_mode(fio.BackendMode.DEFAULT)
  config.update('flax_use_orbax_checkpointing', not legacy)  # legacy msgpack back-end unless stated
  return fio, checkpoints


def _reference(present_steps, new_step, keep, n, overwrite):
  """directory (set of steps) after a completed save of new_step"""
  steps = sorted(set(present_steps) | {new_step})
  if overwrite:
    steps = [s for s in steps if s <= new_step]
  if keep <= 0 or len(steps) <= keep:
    return set(steps)
  old, newest = steps[:-keep], steps[-keep:]
  kept = set(newest)
  last = -float('inf')
  for s in old:
    if n and (s - last) >= n:
      kept.add(s)
      last = s
  return kept


def _listing(ck, d, prefix='checkpoint_'):
  out = set()
  for f in os.listdir(d):
    if f.startswith(prefix) and not f.endswith('tmp'):
      out.add(float(f[len(prefix):]))
  return out


def _tree(step):
  return {'w': np.full((3,), float(step), np.float32), 'step': np.array(step)}


def _save(ck, d, step, keep, n, overwrite, prefix='checkpoint_'):
  return ck.save_checkpoint(d, _tree(step), step, prefix=prefix, keep=keep, keep_every_n_steps=n, overwrite=overwrite, orbax_checkpointer=None)


def _histories(tier):
  hs = []
  for keep, n in [(1, None), (2, None), (1, 2), (2, 2), (1, 3), (3, 2)]:
    hs.append(dict(steps=[0, 1, 2, 3, 4, 5, 6], keep=keep, n=n, overwrite=False))
    hs.append(dict(steps=[1, 2, 3, 4, 5], keep=keep, n=n, overwrite=False))
    hs.append(dict(steps=[2, 4, 6, 8, 10, 11], keep=keep, n=n, overwrite=False))
  hs.append(dict(steps=[1, 2, 3, 2, 5], keep=2, n=None, overwrite=True))
  hs.append(dict(steps=[1, 2, 3, 4, 2], keep=3, n=2, overwrite=True))
  # roll-backs: an overwrite save at a step older than everything / most of what is retained
  hs.append(dict(steps=[1, 2, 3, 4, 5, 2], keep=3, n=None, overwrite=True))
  hs.append(dict(steps=[1, 2, 3, 4, 5, 6, 3, 4], keep=2, n=None, overwrite=True))
  hs.append(dict(steps=[2, 4, 6, 8, 10, 5, 6], keep=2, n=4, overwrite=True))
  hs.append(dict(steps=[1, 2, 3, 4, 5, 6, 7, 1], keep=1, n=3, overwrite=True))
  hs.append(dict(steps=[0.5, 1.5, 10.0, 9e1], keep=2, n=None, overwrite=False))
  hs.append(dict(steps=[-2, -1, 0, 1], keep=2, n=None, overwrite=False))
  # float steps whose str() carries a SIGNED exponent (below 1e-4, from 1e16 on)
  hs.append(dict(steps=[-2.5, 1e-05, 0.0003, 0.02, 7, 2e+16], keep=2, n=None, overwrite=False))
  hs.append(dict(steps=[1e-07, 5e-06, 1.0, 3e+17, 4e+17], keep=1, n=None, overwrite=False))
  hs.append(dict(steps=[1e-05, 0.0003, 5e-05], keep=3, n=None, overwrite=False))
  # prefixes that contain digits, '-' and '.' themselves: the step is the number AFTER the prefix
  for prefix in ('gpt2_', 'resnet50_v1.5_', 'run-3_'):
    hs.append(dict(steps=[0, 5, 10, 15, 20, 25], keep=1, n=10, overwrite=False, prefix=prefix))
    hs.append(dict(steps=[1, 2, 3, 4, 5, 6], keep=2, n=2, overwrite=False, prefix=prefix))
  return hs


def _run_history(ck, h):
  """-> failure dict or None"""
  d = tempfile.mkdtemp(prefix='c11_', dir=os.environ.get('PYVC_TMP', '/var/tmp'))
  try:
    expect = set()
    prefix = h.get('prefix', 'checkpoint_')
    _l = _listing
    _listing_p = lambda ck_, d_: _l(ck_, d_, prefix)
    for i, step in enumerate(h['steps']):
      before = _listing_p(ck, d)
      legal = h['overwrite'] or not before or step > max(before)
      try:
        _save(ck, d, step, h['keep'], h['n'], h['overwrite'], prefix)
        raised = False
      except Exception as e:  # noqa
        raised = True
      after = _listing_p(ck, d)
      if not legal:
        if not raised or after != before:
          return dict(inputs=dict(history=h, at=i), observed=f'save of step {step} with newer/equal steps {sorted(before)} present and overwrite=False: raised={raised}, dir {sorted(before)} -> {sorted(after)}', violated='overwrite-error')
        continue
      if raised:
        return dict(inputs=dict(history=h, at=i), observed=f'legal save of step {step} raised', violated='save')
      want = _reference(before, step, h['keep'], h['n'], h['overwrite'])
      if after != {float(x) for x in want}:
        return dict(inputs=dict(history=h, at=i), observed=f'after saving step {step} (keep={h["keep"]}, keep_every_n_steps={h["n"]}): directory {sorted(after)}, policy {sorted(float(x) for x in want)}', violated='retention')
      latest = ck.latest_checkpoint(d, prefix)
      if latest is None or float(os.path.basename(latest)[len(prefix):]) != max(after):
        return dict(inputs=dict(history=h, at=i), observed=f'latest_checkpoint={latest} but largest step is {max(after)}', violated='latest')
      got = ck.restore_checkpoint(d, None, prefix=prefix)
      if float(np.asarray(got['step'])) != float(max(after)):
        return dict(inputs=dict(history=h, at=i), observed='restore of the latest step returned another tree', violated='restore')
    return None
  finally:
    shutil.rmtree(d, ignore_errors=True)


class _FaultIO:
  """counts / interrupts the file-system operations flax.training.checkpoints performs"""
  OPS = ('makedirs',)

  def __init__(self, fio, die_at=None):
    self.fio, self.die_at, self.n = fio, die_at, 0
    self.saved = {}

  def _tick(self, what):
    self.n += 1
    if self.die_at is not None and self.n == self.die_at:
      raise Crash(what)

  def __enter__(self):
    fio = self.fio
    for op in self.OPS:
      real = getattr(fio, op)
      self.saved[op] = real

      def wrapped(*a, _real=real, _op=op, **kw):
        self._tick(_op)
        return _real(*a, **kw)
      setattr(fio, op, wrapped)
    real_gfile = fio.GFile
    self.saved['GFile'] = real_gfile
    outer = self

    class TornFile:
      def __init__(self, name, mode):
        self.f = real_gfile(name, mode)
        self.mode = mode

      def write(self, data):
        outer.n += 1
        if outer.die_at is not None and outer.n == outer.die_at and 'w' in self.mode:
          self.f.write(data[: max(1, len(data) // 2)])  # torn write
          self.f.close()
          raise Crash('write')
        return self.f.write(data)

      def __getattr__(self, k):
        return getattr(self.f, k)

      def __enter__(self):
        return self

      def __exit__(self, *a):
        self.f.close()
        return False
    fio.GFile = lambda name, mode: TornFile(name, mode)
    # the python-level primitives flax.io itself uses: a crash may also fall BETWEEN two of them
    import os as _os
    import shutil as _shutil

    class Proxy:
      def __init__(self, mod, names):
        self._mod, self._names = mod, names

      def __getattr__(self, k):
        v = getattr(self._mod, k)
        if k in self._names:
          def w(*a, _v=v, _k=k, **kw):
            outer._tick('os.' + _k)
            return _v(*a, **kw)
          return w
        return v
    self.saved['os'] = fio.os
    self.saved['shutil'] = fio.shutil
    fio.os = Proxy(_os, ('rename', 'remove', 'replace', 'unlink'))
    fio.shutil = Proxy(_shutil, ('rmtree', 'move', 'copy'))
    return self

  def __exit__(self, *a):
    for op, real in self.saved.items():
      setattr(self.fio, op, real)
    return False


def _run_crash(ck, fio, prior, step, keep, n, overwrite):
  # count the operations of an uninterrupted save first
  d0 = tempfile.mkdtemp(prefix='c11c_', dir=os.environ.get('PYVC_TMP', '/var/tmp'))
  try:
    for s in prior:
      _save(ck, d0, s, keep, n, False)
    with _FaultIO(fio) as f0:
      _save(ck, d0, step, keep, n, overwrite)
    total = f0.n
  finally:
    shutil.rmtree(d0, ignore_errors=True)
  cases = 0
  for k in range(1, total + 1):
    d = tempfile.mkdtemp(prefix='c11c_', dir=os.environ.get('PYVC_TMP', '/var/tmp'))
    try:
      for s in prior:
        _save(ck, d, s, keep, n, False)
      prev_latest = max(prior) if prior else None
      try:
        with _FaultIO(fio, die_at=k):
          _save(ck, d, step, keep, n, overwrite)
      except Crash as c:
        where = str(c)
      else:
        where = 'none'
      cases += 1
      inputs = dict(prior=prior, step=step, keep=keep, n=n, overwrite=overwrite, die_at_op=k, op=where)
      latest = ck.latest_checkpoint(d)
      if prior and latest is None:
        return cases, dict(inputs=inputs, observed='after the crash latest_checkpoint is None although complete checkpoints existed', violated='crash-latest')
      if latest is not None:
        if latest.endswith('tmp'):
          return cases, dict(inputs=inputs, observed=f'latest_checkpoint returned the temporary file {latest}', violated='crash-latest')
        try:
          got = ck.restore_checkpoint(d, None)
          val = float(np.asarray(got['step']))
          w = np.asarray(got['w'])
          ok = w.shape == (3,) and bool(np.all(w == np.float32(val)))
        except Exception as e:  # noqa
          return cases, dict(inputs=inputs, observed=f'restore after the crash failed: {e!r}'[:300], violated='crash-restore')
        allowed = {float(step)} | ({float(prev_latest)} if prev_latest is not None else set())
        if not ok or val not in allowed:
          return cases, dict(inputs=inputs, observed=f'after the crash restore returned step {val} (complete={ok}); allowed: previous latest or new {sorted(allowed)}', violated='crash-restore')
      # saving can continue: a later step saves normally
      try:
        _save(ck, d, max([step] + list(prior)) + 1, keep, n, False)
      except Exception as e:  # noqa
        return cases, dict(inputs=inputs, observed=f'a later step could not be saved after the crash: {e!r}'[:300], violated='crash-continue')
    finally:
      shutil.rmtree(d, ignore_errors=True)
  return cases, None


def _run_async(ck, h):
  """the same saves through an AsyncManager whose background task is slow must leave the same
  directory and raise for the same calls as the synchronous run"""
  import time

  class SlowManager(ck.AsyncManager):
    def save_async(self, task):
      def slow():
        time.sleep(0.15)
        return task()
      return super().save_async(slow)
  outs = []
  for use_async in (False, True):
    d = tempfile.mkdtemp(prefix='c11a_', dir=os.environ.get('PYVC_TMP', '/var/tmp'))
    try:
      am = SlowManager() if use_async else None
      raised = []
      for step in h['steps']:
        try:
          ck.save_checkpoint(d, _tree(step), step, keep=h['keep'], keep_every_n_steps=h['n'], overwrite=h['overwrite'],
                             orbax_checkpointer=None, async_manager=am)
          raised.append(False)
        except Exception:  # noqa
          raised.append(True)
      if am is not None:
        try:
          am.wait_previous_save()
        except Exception:  # noqa  (the background task's own failure; visible in the comparison below)
          pass
        if am.save_future is not None:
          try:
            am.save_future.result()
          except Exception:  # noqa
            pass
      outs.append((raised, sorted(os.listdir(d))))
    finally:
      shutil.rmtree(d, ignore_errors=True)
  if outs[0] != outs[1]:
    return dict(inputs=dict(async_history=h), observed=f'synchronous: raised={outs[0][0]} dir={outs[0][1]}; through AsyncManager: raised={outs[1][0]} dir={outs[1][1]}', violated='async-equals-sync')
  return None


def run(tier, seed):
  fio, ck = _mods()
  cases, fails = 0, []
  hs = _histories(tier)
  for legacy in (True, False):
    _mods(legacy)
    for h in (hs if legacy else hs[:6] + hs[-4:-2]):
      cases += len(h['steps'])
      f = _run_history(ck, h)
      if f:
        f['inputs']['backend'] = 'legacy' if legacy else 'orbax'
        fails.append(f)
        break
    if fails:
      break
  _mods(True)
  crash_cfgs = [([1, 2], 3, 2, None, False), ([1, 2, 3], 4, 1, 2, False), ([1, 2, 3], 2, 3, None, True), ([1, 2], 2, 2, None, True)]
  if tier == 'thorough':
    crash_cfgs += [([], 1, 1, None, False), ([0, 1, 2, 3, 4], 5, 2, 2, False), ([1, 2, 3, 4], 3, 2, None, True)]
  if not fails:
    for cfg in crash_cfgs:
      n, f = _run_crash(ck, fio, *cfg)
      cases += n
      if f:
        fails.append(f)
        break
  if not fails:
    for h in [dict(steps=[1, 2, 3], keep=2, n=None, overwrite=False), dict(steps=[5, 5], keep=2, n=None, overwrite=False),
              dict(steps=[5, 3], keep=2, n=None, overwrite=False), dict(steps=[1, 2, 1, 4], keep=3, n=None, overwrite=False)]:
      cases += len(h['steps'])
      f = _run_async(ck, h)
      if f:
        fails.append(f)
        break
  return dict(name=NAME, cases=cases, distinct=cases, bound=f'{len(hs)} save histories (<= 7 saves) + every crash point of {len(crash_cfgs)} saves',
              failures=fails[:2], error=None)


def replay(inputs):
  fio, ck = _mods()
  if 'history' in inputs:
    _mods(inputs.get('backend', 'legacy') == 'legacy')
    return _run_history(ck, inputs['history']) is None
  if 'async_history' in inputs:
    return _run_async(ck, inputs['async_history']) is None
  n, f = _run_crash(ck, fio, inputs['prior'], inputs['step'], inputs['keep'], inputs['n'], inputs['overwrite'])
  return f is None
