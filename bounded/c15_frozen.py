"""Bounded stand-in (C15): alias probes on the real FrozenDict API and pytree behaviour of
struct.dataclass layouts. For nested dicts of depth <= 3 (leaves: ints, lists and tuples that may
themselves hold dicts, FrozenDicts): build a FrozenDict, mutate every mutable container reachable
from the SOURCE and from every value the API RETURNS (freeze, unfreeze, copy, pop, indexing,
items), and require content and hash of the FrozenDict to stay the same; equal contents compare
and hash equal regardless of insertion order; pickle and flatten/unflatten return an equal value.
Labelled bounded: never counted as proved."""
import copy as _copy
import itertools
import pickle
import os
import sys
from . import _env  # noqa: F401

NAME = 'bounded:FrozenDict alias probes + struct.dataclass pytree layouts'


def _sources():
  leaves = [1, [1, 2], (3,), [{'p': 1}], ({'q': [2]},)]
  level1 = [{'a': x} for x in leaves] + [{'a': 1, 'b': [5]}, {'b': 2, 'a': 1}, {}]
  level2 = [{'x': d, 'y': 7} for d in level1] + [{'x': {'a': {'deep': [{'z': 1}]}}}]
  import collections
  # dict SUBCLASSES nested in the source are dicts too: they must be copied, not shared
  sub = [{'cfg': collections.OrderedDict([('lr', 1), ('wd', collections.OrderedDict([('k', 2)]))])},
         {'x': {'inner': collections.defaultdict(int, {'n': 3})}, 'y': 1},
         {'cfg': {'lr': 1, 'wd': 2, 'sub': {'b': 1, 'a': 2}}}]
  return level1 + level2 + sub


def _plain(t):
  """deep, plain-python snapshot (FrozenDict -> dict)"""
  from flax.core import FrozenDict
  if isinstance(t, (dict, FrozenDict)):
    return {k: _plain(v) for k, v in t.items()}
  if isinstance(t, list):
    return [_plain(v) for v in t]
  if isinstance(t, tuple):
    return tuple(_plain(v) for v in t)
  return t


def _scribble(t, seen=None, spine_only=False):
  """mutate every mutable container reachable from t, in place. spine_only: only dicts reached
  through dict values (what freeze promises not to share; lists/tuples are leaves it shares by design)"""
  seen = set() if seen is None else seen
  if spine_only and not isinstance(t, dict):
    return
  from flax.core import FrozenDict
  if id(t) in seen:
    return
  seen.add(id(t))
  if isinstance(t, dict):
    for v in list(t.values()):
      _scribble(v, seen, spine_only)
    t['__scribble__'] = 99
    for k in list(t.keys()):
      if k != '__scribble__' and not isinstance(t[k], (dict, list, tuple, FrozenDict)):
        t[k] = -1
  elif isinstance(t, list):
    for v in t:
      _scribble(v, seen)
    t.append('__scribble__')
  elif isinstance(t, tuple):
    for v in t:
      _scribble(v, seen)
  elif isinstance(t, FrozenDict):
    for v in t._dict.values() if False else []:
      pass


def _check_source(src):
  from flax.core import FrozenDict, freeze, unfreeze, copy, pop
  src = _copy.deepcopy(src)
  fd = freeze(src)
  want = _plain(fd)
  try:
    h = hash(fd)
  except TypeError:
    h = None   # unhashable leaves (lists): hash is not required
  probes = []
  def same(what):
    if _plain(fd) != want:
      return f'{what}: the FrozenDict changed from {want!r} to {_plain(fd)!r}'
    if h is not None and hash(fd) != h:
      return f'{what}: the hash of the FrozenDict changed'
    return None
  _scribble(src, spine_only=True)
  m = same('mutating the source dict after freeze')
  if m:
    return m
  u = unfreeze(fd)
  if _plain(u) != want or not isinstance(u, dict):
    return f'unfreeze returned {u!r}, expected a dict equal to {want!r}'
  _scribble(u)
  m = same('mutating the result of unfreeze')
  if m:
    return m
  c = copy(fd, {'extra': {'k': [1]}})
  if not isinstance(c, FrozenDict) or _plain(c) != dict(want, extra={'k': [1]}):
    return f'copy(add_or_replace) returned {c!r}'
  import collections as _c
  import types as _t
  for wrap_name, wrap in (('MappingProxyType', _t.MappingProxyType), ('UserDict', _c.UserDict), ('ChainMap', lambda d: _c.ChainMap(d))):
    nested_src = {'k': {'n': 1}}
    c2 = copy(fd, wrap(nested_src))
    before_c2 = _plain(c2)
    try:
      h2 = hash(c2)
    except TypeError:
      h2 = None
    nested_src['k']['n'] = 99
    nested_src['k']['extra'] = 1
    if _plain(c2) != before_c2 or (h2 is not None and hash(c2) != h2):
      return f'copy(fd, {wrap_name}(...)): mutating the nested dict of the mapping that was passed in changed the copy from {before_c2!r} to {_plain(c2)!r}'
  for k in list(want.keys()):
    v = fd[k]
    if isinstance(v, dict):
      return f'indexing returned a mutable dict for key {k!r}'
    rest, popped = pop(fd, k)
    if _plain(rest) != {kk: vv for kk, vv in want.items() if kk != k} or _plain(popped) != want[k]:
      return f'pop({k!r}) returned {rest!r}, {popped!r}'
    if isinstance(popped, (list,)):
      pass
  for k, v in fd.items():
    if isinstance(v, dict):
      return f'items() yielded a mutable dict for key {k!r}'
  # every way of getting at the values: nothing handed out is a mutable dict of the FrozenDict itself
  for how, vals in (('values()', list(fd.values())), ('iter(values())', [v for v in iter(fd.values())]), ('dict(fd).values()', list(dict(fd).values())),
                    ('get', [fd.get(k) for k in fd]), ('items()', [v for _, v in fd.items()]), ('reversed(values())', list(reversed(list(fd.values()))))):
    for v in vals:
      if isinstance(v, dict):
        v['__injected__'] = 123
        m = same(f'mutating a nested dict obtained through {how}')
        if m:
          return m
  u2 = fd.unfreeze()
  _scribble(u2)
  m = same('mutating the result of FrozenDict.unfreeze()')
  if m:
    return m
  try:
    fd['new'] = 1
    return '__setitem__ did not raise'
  except ValueError:
    pass
  # value semantics
  rev = freeze({k: want[k] for k in reversed(list(want.keys()))})
  if rev != fd or (h is not None and hash(rev) != h):
    return 'equal contents in another insertion order do not compare / hash equal'

  def deep_rev(t):
    return {k: deep_rev(t[k]) for k in reversed(list(t.keys()))} if isinstance(t, dict) else t
  drev = freeze(deep_rev(want))
  if drev != fd or (h is not None and hash(drev) != h):
    return 'equal contents with the NESTED dicts built in another key order do not compare / hash equal'
  if h is not None and hash(freeze(unfreeze(fd))) != h:
    return 'freeze(unfreeze(fd)) hashes differently from fd'
  if h is not None:
    if pickle.loads(pickle.dumps(fd)) != fd:
      return 'pickle round trip is not equal'
  import jax
  leaves, treedef = jax.tree_util.tree_flatten(fd)
  back = jax.tree_util.tree_unflatten(treedef, leaves)
  if not isinstance(back, FrozenDict) or _plain(back) != want:
    return f'tree flatten/unflatten returned {back!r}'
  return None


def _check_dataclasses():
  import dataclasses
  import jax
  import jax.numpy as jnp
  from flax import struct
  fails = []
  layouts = [dict(), dict(kw_only=True), dict(slots=True), dict(slots=True, kw_only=True), dict(order=True)]
  n = 0
  for kw in layouts:
    @struct.dataclass(**kw)
    class P:
      w: jax.Array
      b: jax.Array
      name: str = struct.field(pytree_node=False, default='p')
      k: int = struct.field(pytree_node=False, default=3)
    n += 1
    p = P(w=jnp.ones((2,)), b=jnp.zeros((2,)))
    what = f'struct.dataclass({kw})'
    leaves, treedef = jax.tree_util.tree_flatten(p)
    if len(leaves) != 2:
      return n, f'{what}: pytree leaves are {leaves!r}, expected exactly the two data fields'
    q = jax.tree_util.tree_map(lambda x: x + 1, p)
    if type(q) is not type(p) or q.name != 'p' or q.k != 3 or float(q.w[0]) != 2.0:
      return n, f'{what}: tree_map did not rebuild the same class with the same static fields'
    r = p.replace(k=4)
    if r.k != 4 or r.name != 'p' or p.k != 3 or r is p:
      return n, f'{what}: replace did not return a new instance changing only the named field'
    if jax.tree_util.tree_structure(r) == treedef:
      return n, f'{what}: changing a static field does not change the treedef (no retrace)'
    try:
      p.k = 9
      return n, f'{what}: instances are not frozen'
    except (dataclasses.FrozenInstanceError, AttributeError, TypeError):
      pass
    g = jax.grad(lambda t: (t.w * t.w).sum() + t.b.sum())(p)
    if type(g) is not type(p) or float(g.w[0]) != 2.0:
      return n, f'{what}: grad did not rebuild the dataclass'
    j = jax.jit(lambda t: t.replace(w=t.w * 2))(p)
    if type(j) is not type(p) or float(j.w[0]) != 2.0 or j.k != 3:
      return n, f'{what}: jit did not rebuild the dataclass'
  # fields declared with one SHARED metadata dict: each field keeps its own pytree_node setting
  for order in ('static-first', 'data-first'):
    n += 1
    md = {'doc': 'shared between the fields'}
    if order == 'static-first':
      @struct.dataclass
      class Q:
        name: str = struct.field(pytree_node=False, default='dense', metadata=md)
        w: jax.Array = struct.field(default=None, metadata=md)
    else:
      @struct.dataclass
      class Q:
        w: jax.Array = struct.field(default=None, metadata=md)
        name: str = struct.field(pytree_node=False, default='dense', metadata=md)
    q = Q(w=jnp.ones((2,)))
    leaves = jax.tree_util.tree_leaves(q)
    if len(leaves) != 1 or not hasattr(leaves[0], 'shape'):
      return n, f'struct.field with a shared metadata dict ({order}): pytree leaves are {leaves!r}, expected exactly the data field w'
    if jax.tree_util.tree_structure(q) == jax.tree_util.tree_structure(q.replace(name='other')):
      return n, f'struct.field with a shared metadata dict ({order}): changing the static field does not change the treedef'
    if md != {'doc': 'shared between the fields'}:
      return n, f'struct.field changed the metadata dict it was given: {md}'
  # struct.PyTreeNode: base class, subclass adding a field, subclass adding only methods
  class Base(struct.PyTreeNode):
    w: jax.Array
    k: int = struct.field(pytree_node=False, default=3)

  class WithField(Base):
    b: jax.Array = None

  class MethodsOnly(Base):
    def double(self):
      return self.replace(w=self.w * 2)

  class MethodsOnly2(MethodsOnly):
    pass
  for cls in (Base, WithField, MethodsOnly, MethodsOnly2):
    n += 1
    what = f'PyTreeNode class {cls.__name__} ({"base" if cls is Base else "subclass of " + cls.__mro__[1].__name__})'
    p = cls(w=jnp.ones((2,)), b=jnp.zeros((2,))) if cls is WithField else cls(w=jnp.ones((2,)))
    want_leaves = 2 if cls is WithField else 1
    leaves, treedef = jax.tree_util.tree_flatten(p)
    if len(leaves) != want_leaves or any(isinstance(l, Base) for l in leaves):
      return n, f'{what}: pytree leaves are {leaves!r}, expected exactly the data fields'
    q = jax.tree_util.tree_map(lambda x: x + 1, p)
    if type(q) is not cls or q.k != 3 or float(q.w[0]) != 2.0:
      return n, f'{what}: tree_map did not rebuild the same class with the same static fields'
    if jax.tree_util.tree_structure(p.replace(k=4)) == treedef:
      return n, f'{what}: changing a static field does not change the treedef (no retrace)'
    for attr in ('k', 'w', 'brand_new_attribute'):
      try:
        setattr(p, attr, 9)
        return n, f'{what}: instances are not frozen (assignment to {attr!r} accepted)'
      except (dataclasses.FrozenInstanceError, AttributeError, TypeError):
        pass
    try:
      j = jax.jit(lambda t: t.replace(w=t.w * 2))(p)
      g = jax.grad(lambda t: (t.w * t.w).sum())(p)
      v = jax.vmap(lambda t: t.w.sum())(jax.tree_util.tree_map(lambda x: jnp.stack([x, x]), p))
    except Exception as e:  # noqa
      return n, f'{what}: jit / grad / vmap reject the instance: {e!r}'[:300]
    if type(j) is not cls or float(j.w[0]) != 2.0 or j.k != 3 or type(g) is not cls or float(g.w[0]) != 2.0 or v.shape != (2,):
      return n, f'{what}: jit / grad / vmap did not rebuild the class'
  return n, None


_WRITER = '''
import sys, pickle
from flax.core import freeze
fd = freeze({'params': {'dense': {'kernel': 'k', 'bias': 1}}, 'name': 'model', 'n': (1, 2)})
hash(fd)                      # the cached hash of THIS process
sys.stdout.buffer.write(pickle.dumps({'hashed': fd, 'fresh': freeze({'a': {'b': 'c'}})}))
'''


def _check_cross_process_pickle():
  """a FrozenDict pickled by another interpreter (other str-hash seed) compares AND hashes like a fresh one"""
  import subprocess
  from flax.core import freeze
  env = dict(os.environ, PYTHONHASHSEED='101', PYTHONPATH=os.pathsep.join(p for p in sys.path if p))
  out = subprocess.run([sys.executable, '-c', _WRITER], env=env, stdout=subprocess.PIPE, stderr=subprocess.PIPE, timeout=300)
  if out.returncode != 0:
    raise RuntimeError('writer process failed: ' + out.stderr.decode()[-500:])
  got = pickle.loads(out.stdout)
  for tag, ref in (('hashed', freeze({'params': {'dense': {'kernel': 'k', 'bias': 1}}, 'name': 'model', 'n': (1, 2)})), ('fresh', freeze({'a': {'b': 'c'}}))):
    g = got[tag]
    if g != ref:
      return f'a FrozenDict unpickled from another process ({tag} before pickling) is not equal to the same contents built here'
    if hash(g) != hash(ref) or g not in {ref} or {g: 1}.get(ref) != 1:
      return f'a FrozenDict unpickled from another process ({tag} before pickling) is equal to, but hashes differently from, the same contents built here (set / dict-key lookups miss)'
  return None


def run(tier, seed):
  cases, fails = 0, []
  for src in _sources():
    cases += 1
    try:
      msg = _check_source(src)
    except Exception as e:  # noqa
      msg = f'raised {e!r}'
    if msg:
      fails.append(dict(inputs=dict(source=repr(src)), observed=msg[:400], violated='frozen-immutability'))
      break
  if not fails:
    n, msg = _check_dataclasses()
    cases += n
    if msg:
      fails.append(dict(inputs=dict(check='struct.dataclass layouts'), observed=msg[:400], violated='dataclass-pytree'))
  if not fails:
    cases += 2
    try:
      msg = _check_cross_process_pickle()
    except Exception as e:  # noqa
      msg = f'raised {e!r}'
    if msg:
      fails.append(dict(inputs=dict(check='pickle written by another interpreter process (PYTHONHASHSEED=101)'), observed=msg[:400], violated='pickle-equal-value'))
  return dict(name=NAME, cases=cases, distinct=cases, bound='nested dicts of depth <= 3 with dict/list/tuple leaves x API calls; 7 dataclass layouts; 4 PyTreeNode classes (base, +field, methods-only, methods-only twice); 2 FrozenDicts pickled in another process',
              failures=fails[:2], error=None)


def replay(inputs):
  if 'pickle' in inputs.get('check', ''):
    return _check_cross_process_pickle() is None
  if 'source' in inputs:
    return _check_source(eval(inputs['source'])) is None
  return _check_dataclasses()[1] is None
