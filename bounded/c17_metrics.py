"""Bounded stand-in (C17, metrics sentence): the real nnx metrics on concrete float32 streams,
every partition from a fixed family, compared with a float64 numpy reference. Labelled bounded:
never counted as proved. This is where machine arithmetic (float32 rounding, int32 counters)
is exercised -- the deductive contracts treat it as mathematical."""
import numpy as np
from . import _env  # noqa: F401

NAME = 'bounded:nnx.metrics partitions vs numpy float64'


def _partitions(n, seed):
  rng = np.random.RandomState(seed)
  ps = [[n], [n // 2, n - n // 2], [n // 4] * 4 + [n - 4 * (n // 4)], [1, n - 1], [n - 1, 1]]
  for _ in range(3):
    k = rng.randint(2, 6)
    cuts = sorted(rng.choice(np.arange(1, n), size=k - 1, replace=False).tolist())
    ps.append([b - a for a, b in zip([0] + cuts, cuts + [n])])
  return [[x for x in p if x > 0] for p in ps]


def _check(stream, parts, after_reset, drift=False):
  from flax import nnx
  import jax.numpy as jnp
  fails = []
  ref_mean, ref_std = float(np.mean(stream.astype(np.float64))), float(np.std(stream.astype(np.float64)))
  ref_sem = ref_std / np.sqrt(len(stream))
  for kind in ('Average', 'Welford', 'MultiMetric'):
    if kind == 'Average':
      m = nnx.metrics.Average()
    elif kind == 'Welford':
      m = nnx.metrics.Welford()
    else:
      m = nnx.MultiMetric(avg=nnx.metrics.Average(), wf=nnx.metrics.Welford())
    if after_reset:
      m.update(values=jnp.asarray(np.array([5.0, -3.0], np.float32)))
      m.reset()
    off = 0
    for p in parts:
      m.update(values=jnp.asarray(stream[off:off + p]))
      off += p
    out = m.compute()
    got = {}
    if kind == 'Average':
      got['mean'] = float(out)
    elif kind == 'Welford':
      got = dict(mean=float(out.mean), std=float(out.standard_deviation), sem=float(out.standard_error_of_mean))
    else:
      got = dict(mean=float(out['avg']), wmean=float(out['wf'].mean), std=float(out['wf'].standard_deviation))
    want = dict(mean=ref_mean, wmean=ref_mean, std=ref_std, sem=ref_sem)
    for k, v in got.items():
      if not np.isfinite(v) or abs(v - want[k]) > 2e-3 * max(1.0, abs(want[k])):
        fails.append(dict(inputs=dict(metric=kind, stream_len=len(stream), drift=drift, partition=parts, after_reset=after_reset),
                          observed=f'{kind}.{k} = {v!r}, reference over the whole stream = {want[k]!r}', violated='batching-independence'))
  return fails


def _check_accuracy(rng, n, parts, after_reset):
  """Accuracy (multi-class and thresholded) and a MultiMetric holding one: the fraction of correct examples of
  the whole stream, however it is split into update calls"""
  from flax import nnx
  import jax.numpy as jnp
  fails = []
  logits = rng.randn(n, 3).astype(np.float32)
  # accuracy drifts along the stream, so that batches of unequal size have unequal accuracy
  labels = np.where(rng.rand(n) < np.linspace(0.95, 0.2, n), logits.argmax(-1), (logits.argmax(-1) + 1) % 3).astype(np.int32)
  blogits = rng.randn(n).astype(np.float32)
  blabels = np.where(rng.rand(n) < np.linspace(0.9, 0.3, n), blogits >= 0.25, blogits < 0.25).astype(np.int32)
  want = dict(multi=float(np.mean(logits.argmax(-1) == labels)), binary=float(np.mean((blogits >= 0.25) == (blabels > 0))))
  for kind in ('multi', 'binary', 'multimetric'):
    m = {'multi': lambda: nnx.metrics.Accuracy(), 'binary': lambda: nnx.metrics.Accuracy(threshold=0.25),
         'multimetric': lambda: nnx.MultiMetric(acc=nnx.metrics.Accuracy(), loss=nnx.metrics.Average('loss'))}[kind]()
    if after_reset:
      if kind == 'binary':
        m.update(logits=jnp.asarray(blogits[:2]), labels=jnp.asarray(1 - blabels[:2]))
      elif kind == 'multi':
        m.update(logits=jnp.asarray(logits[:2]), labels=jnp.asarray((labels[:2] + 1) % 3))
      else:
        m.update(logits=jnp.asarray(logits[:2]), labels=jnp.asarray((labels[:2] + 1) % 3), loss=jnp.asarray([9.0, 9.0]))
      m.reset()
    off = 0
    for p in parts:
      sl = slice(off, off + p)
      if kind == 'binary':
        m.update(logits=jnp.asarray(blogits[sl]), labels=jnp.asarray(blabels[sl]))
      elif kind == 'multi':
        m.update(logits=jnp.asarray(logits[sl]), labels=jnp.asarray(labels[sl]))
      else:
        m.update(logits=jnp.asarray(logits[sl]), labels=jnp.asarray(labels[sl]), loss=jnp.asarray(blogits[sl]))
      off += p
    out = m.compute()
    got = float(out['acc']) if kind == 'multimetric' else float(out)
    ref = want['binary'] if kind == 'binary' else want['multi']
    if not np.isfinite(got) or abs(got - ref) > 1e-4:
      fails.append(dict(inputs=dict(metric=f'Accuracy[{kind}]', stream_len=n, partition=parts, after_reset=after_reset),
                        observed=f'accuracy = {got!r}, fraction of correct examples over the whole stream = {ref!r}', violated='batching-independence'))
    if kind == 'multimetric' and abs(float(out['loss']) - float(np.mean(blogits.astype(np.float64)))) > 2e-3:
      fails.append(dict(inputs=dict(metric='MultiMetric.loss', stream_len=n, partition=parts, after_reset=after_reset),
                        observed='the Average inside the MultiMetric differs from the mean of the whole stream', violated='batching-independence'))
  return fails


def _check_value_shapes(rng):
  """the same 24 values handed over as python scalars, 0-d arrays, 1-d batches and (batch, time) / 3-d arrays: the
  statistic is that of all values"""
  from flax import nnx
  import jax.numpy as jnp
  x = (rng.randn(24) * 2.0 + 1.0).astype(np.float32)
  plans = {
    'flat-1d': [x[:10], x[10:]],
    '2d-(4,6)': [x.reshape(4, 6)],
    '2d-ragged': [x[:12].reshape(2, 6), x[12:].reshape(6, 2)],
    '3d-(2,3,4)': [x.reshape(2, 3, 4)],
    'mixed': [float(x[0]), np.asarray(x[1]), x[2:8], x[8:].reshape(4, 4)],
  }
  ref_mean, ref_std = float(np.mean(x.astype(np.float64))), float(np.std(x.astype(np.float64)))
  fails = []
  for pname, parts in plans.items():
    for kind in ('Average', 'Welford', 'MultiMetric'):
      m = {'Average': lambda: nnx.metrics.Average(), 'Welford': lambda: nnx.metrics.Welford(),
           'MultiMetric': lambda: nnx.MultiMetric(avg=nnx.metrics.Average(), wf=nnx.metrics.Welford())}[kind]()
      if kind != 'Average' and pname == 'mixed':
        continue     # python scalars are an Average feature
      for p in parts:
        m.update(values=p if isinstance(p, float) else jnp.asarray(p))
      out = m.compute()
      got = float(out) if kind == 'Average' else (float(out.mean) if kind == 'Welford' else float(out['avg']))
      if not np.isfinite(got) or abs(got - ref_mean) > 2e-3 * max(1.0, abs(ref_mean)):
        fails.append(dict(inputs=dict(metric=kind, value_shapes=pname), observed=f'{kind} mean = {got!r}; the mean of the 24 values is {ref_mean!r}', violated='batching-independence'))
      if kind == 'Welford' and abs(float(out.standard_deviation) - ref_std) > 2e-3 * max(1.0, ref_std):
        fails.append(dict(inputs=dict(metric=kind, value_shapes=pname), observed=f'Welford std = {float(out.standard_deviation)!r}; reference {ref_std!r}', violated='batching-independence'))
  # Accuracy with (batch, time) labels
  logits = rng.randn(4, 5, 3).astype(np.float32)
  labels = rng.randint(0, 3, size=(4, 5)).astype(np.int32)
  want = float(np.mean(logits.argmax(-1) == labels))
  for pname, sls in (('one-(4,5)-batch', [slice(0, 4)]), ('(1,5)+(3,5)', [slice(0, 1), slice(1, 4)])):
    acc = nnx.metrics.Accuracy()
    for sl in sls:
      acc.update(logits=jnp.asarray(logits[sl]), labels=jnp.asarray(labels[sl]))
    if abs(float(acc.compute()) - want) > 1e-5:
      fails.append(dict(inputs=dict(metric='Accuracy', value_shapes=pname), observed=f'accuracy {float(acc.compute())!r}; fraction of correct tokens {want!r}', violated='batching-independence'))
  return fails


def _check_nonfinite_then_reset(rng):
  """an epoch that saw inf / nan, then reset(): the statistics afterwards are those of the values since the reset only"""
  from flax import nnx
  import jax.numpy as jnp
  x = (rng.randn(24) * 2.0 + 1.0).astype(np.float32)
  ref_mean, ref_std = float(np.mean(x.astype(np.float64))), float(np.std(x.astype(np.float64)))
  fails = []
  for tag, bad in (('inf', np.array([1.0, np.inf, 2.0], np.float32)), ('-inf', np.array([-np.inf], np.float32)), ('nan', np.array([np.nan, 1.0], np.float32)), ('ordinary', np.array([5.0, 6.0], np.float32))):
    for kind in ('Average', 'Welford', 'MultiMetric'):
      m = {'Average': lambda: nnx.metrics.Average(), 'Welford': lambda: nnx.metrics.Welford(),
           'MultiMetric': lambda: nnx.MultiMetric(avg=nnx.metrics.Average(), wf=nnx.metrics.Welford())}[kind]()
      m.update(values=jnp.asarray(bad))
      m.compute()
      for rounds in (1, 2):
        m.reset()
        for part in (x[:7], x[7:]):
          m.update(values=jnp.asarray(part))
        out = m.compute()
        got = float(out) if kind == 'Average' else (float(out.mean) if kind == 'Welford' else float(out['avg']))
        std = None if kind == 'Average' else float((out if kind == 'Welford' else out['wf']).standard_deviation)
        if not np.isfinite(got) or abs(got - ref_mean) > 2e-3 * max(1.0, abs(ref_mean)) or (std is not None and not (abs(std - ref_std) <= 2e-3 * max(1.0, ref_std))):
          fails.append(dict(inputs=dict(metric=kind, before_reset=tag, resets=rounds), observed=f'after reset(): mean {got!r}, std {std!r}; the values since the reset have mean {ref_mean!r}, std {ref_std!r}', violated='since-last-reset'))
          return fails
  return fails


def _check_nested_multimetric(rng):
  """a MultiMetric that groups metrics in a sub-MultiMetric: reset() reaches every metric below it"""
  from flax import nnx
  import jax.numpy as jnp
  fails = []
  x1 = (rng.randn(10) * 2.0 + 5.0).astype(np.float32)
  x2 = (rng.randn(14) - 1.0).astype(np.float32)
  for layout in ('flat', 'grouped', 'grouped twice'):
    if layout == 'flat':
      m = nnx.MultiMetric(loss=nnx.metrics.Average(), wf=nnx.metrics.Welford())
      get = lambda out: (float(out['loss']), float(out['wf'].mean))
    elif layout == 'grouped':
      m = nnx.MultiMetric(group=nnx.MultiMetric(loss=nnx.metrics.Average()), wf=nnx.metrics.Welford())
      get = lambda out: (float(out['group']['loss']), float(out['wf'].mean))
    else:
      m = nnx.MultiMetric(outer=nnx.MultiMetric(inner=nnx.MultiMetric(loss=nnx.metrics.Average(), wf=nnx.metrics.Welford())))
      get = lambda out: (float(out['outer']['inner']['loss']), float(out['outer']['inner']['wf'].mean))
    for part in (x1[:4], x1[4:]):
      m.update(values=jnp.asarray(part))
    first = get(m.compute())
    m.reset()
    for part in (x2[:9], x2[9:]):
      m.update(values=jnp.asarray(part))
    second = get(m.compute())
    for tag, got, ref in (('first epoch', first, float(np.mean(x1))), ('after reset()', second, float(np.mean(x2)))):
      if any(not np.isfinite(g) or abs(g - ref) > 2e-3 * max(1.0, abs(ref)) for g in got):
        fails.append(dict(inputs=dict(metric='MultiMetric', layout=layout, phase=tag), observed=f'mean loss / Welford mean = {got}; the values since the last reset have mean {ref!r}', violated='since-last-reset'))
        return fails
  return fails


def _stream(rng, n, drift):
  # with drift the batch means differ from the running mean (the between-batch term matters)
  x = rng.randn(n) * 1.8 + 0.7
  if drift:
    x = x + np.linspace(-3.0, 3.0, n)
  return x.astype(np.float32)


def run(tier, seed):
  rng = np.random.RandomState(1234 + seed)
  cases, fails, distinct = 0, [], set()
  sizes = [7, 64, 1000] + ([140000] if True else [])
  for n, drift in [(x, d) for x in sizes for d in (False, True)]:
    stream = _stream(rng, n, drift)
    plist = _partitions(n, seed)
    if n >= 100000:
      plist = [[n], [70000, 70000], [35000] * 4, [100000, 40000], [130000, 10000]]
    for parts in plist:
      for after_reset in (False, True):
        if n >= 100000 and after_reset and tier == 'quick':
          continue
        cases += 1
        distinct.add((n, drift, tuple(parts), after_reset))
        fails += _check(stream, parts, after_reset, drift)
        if fails:
          break
      if fails:
        break
    if fails:
      break
  if not fails:
    cases += 14
    fails += _check_value_shapes(np.random.RandomState(5 + seed))
  if not fails:
    cases += 24
    fails += _check_nonfinite_then_reset(np.random.RandomState(9 + seed))
  if not fails:
    cases += 6
    fails += _check_nested_multimetric(np.random.RandomState(11 + seed))
  if not fails:
    for n in (12, 64):
      for parts in _partitions(n, seed) + [[5, 5, 2][:3] if n == 12 else [30, 30, 4]]:
        for after_reset in (False, True):
          cases += 1
          fails += _check_accuracy(np.random.RandomState(77 + seed), n, parts, after_reset)
          if fails:
            break
        if fails:
          break
      if fails:
        break
  return dict(name=NAME, cases=cases, distinct=len(distinct), bound='streams of 7..140000 float32 values x 5-8 partitions x fresh/after-reset; Accuracy (multi-class, thresholded, inside MultiMetric) on streams of 12 / 64 examples x 9 partitions (ragged) x fresh/after-reset; 24 values as python scalars / 0-d / 1-d / 2-d / 3-d update arrays; an epoch containing inf / -inf / nan followed by 1-2 resets and 24 finite values; MultiMetric flat / grouped / grouped twice over two epochs with a reset',
              failures=fails[:3], error=None)


def replay(inputs):
  if 'layout' in inputs:
    return not _check_nested_multimetric(np.random.RandomState(11))
  if 'before_reset' in inputs:
    return not _check_nonfinite_then_reset(np.random.RandomState(9))
  if 'value_shapes' in inputs:
    return not _check_value_shapes(np.random.RandomState(5))
  if str(inputs.get('metric', '')).startswith(('Accuracy', 'MultiMetric.loss')):
    return not _check_accuracy(np.random.RandomState(77), inputs['stream_len'], inputs['partition'], inputs['after_reset'])
  rng = np.random.RandomState(1234)
  n = inputs['stream_len']
  stream = _stream(rng, n, inputs.get('drift', False))
  return not _check(stream, inputs['partition'], inputs['after_reset'], inputs.get('drift', False))
