"""Bounded stand-in (C05): the real nn.jit / nn.remat / nn.cond / nn.switch / nn.while_loop /
identity nn.map_variables against the untransformed module or the equivalent Python control
flow, on a fixed family of programs:

  * outputs, mutated collections and init trees of transformed vs plain (grid over transform,
    mutable filter, predicate / branch index / trip count);
  * writes to a collection that is not mutable still raise under each transform;
  * dropout draws under remat equal the plain draws; under jit they are reproducible;
  * nn.jit call histories: one transformed class, a sequence of instances that differ in an
    attribute, in the class of a sub-module attribute (same module/qualname, different code),
    in a dataclass attribute's class, and in mutability - every call must equal the plain module
    (no stale trace).

Labelled bounded: never counted as proved."""
import itertools
import numpy as np
from . import _env  # noqa: F401

NAME = 'bounded:linen lifted transforms vs plain code (grid + jit call histories)'


def _close(a, b, tol=1e-5):
  import jax
  la, lb = jax.tree_util.tree_leaves(a), jax.tree_util.tree_leaves(b)
  if jax.tree_util.tree_structure(a) != jax.tree_util.tree_structure(b):
    return False
  return all(np.asarray(x).shape == np.asarray(y).shape and np.allclose(np.asarray(x), np.asarray(y), atol=tol) for x, y in zip(la, lb))


def _shapes(t):
  import jax
  return jax.tree_util.tree_map(lambda x: tuple(np.shape(x)), t)


def _strip_names(tree):
  """init trees are compared up to the auto-generated name of a transformed class"""
  import re
  if isinstance(tree, dict):
    return {re.sub(r'^(Jit|Remat|Checkpoint|MapVariables)', '', k): _strip_names(v) for k, v in tree.items()}
  return tree


def _programs(nn, jnp, jax):
  class Inner(nn.Module):
    feat: int = 3
    drop: float = 0.0

    @nn.compact
    def __call__(self, x):
      y = nn.Dense(self.feat)(x)
      cnt = self.variable('stats', 'calls', lambda: jnp.zeros((), jnp.int32))
      if self.is_mutable_collection('stats'):
        cnt.value = cnt.value + 1
      if self.drop > 0:
        y = nn.Dropout(self.drop, deterministic=False)(y)
      return y

  def outer(kind, **kw):
    T = {'plain': lambda c, m: c, 'jit': lambda c, m: nn.jit(c), 'remat': lambda c, m: nn.remat(c),
         'mapvars': lambda c, m: nn.map_variables(c, 'params', mutable=True, init=m.is_initializing()),
         'mapvars_all': lambda c, m: nn.map_variables(c, True, mutable=True, init=m.is_initializing())}[kind]

    class Outer(nn.Module):
      @nn.compact
      def __call__(self, x):
        return T(Inner, self)(name='inner', **kw)(x)
    return Outer()
  return Inner, outer


def _transform_grid(nn, jnp, jax, fails, tier):
  Inner, outer = _programs(nn, jnp, jax)
  x = jnp.linspace(-1.0, 1.0, 8).reshape(2, 4)
  cases = 0
  rngs = {'params': jax.random.key(0), 'dropout': jax.random.key(1)}
  for kind in ('jit', 'remat', 'mapvars', 'mapvars_all'):
    # the variable tree produced by init
    cases += 1
    v_plain = outer('plain', drop=0.0).init(rngs, x)
    v_tr = outer(kind, drop=0.0).init(rngs, x)
    if _shapes(_strip_names(v_plain)) != _shapes(_strip_names(v_tr)):
      fails.append(dict(inputs=dict(transform=kind, phase='init'), observed=f'init tree differs: {_shapes(v_tr)} vs {_shapes(v_plain)}', violated='init-tree-equal'))
    elif kind != 'jit':
      for col in sorted(v_plain):
        if not _close(v_plain[col], v_tr[col]):
          fails.append(dict(inputs=dict(transform=kind, phase='init', collection=col),
                            observed=f'init values of collection {col!r} differ from the plain module: {jax.tree_util.tree_map(np.asarray, v_tr[col])} vs {jax.tree_util.tree_map(np.asarray, v_plain[col])}'[:300],
                            violated='init-values-equal'))
  for kind, mutable, drop in itertools.product(('jit', 'remat', 'mapvars', 'mapvars_all'), (False, ['stats'], True), (0.0, 0.5)):
    if len(fails) > 4:
      return cases
    cases += 1
    inp = dict(transform=kind, mutable=repr(mutable), dropout=drop)
    plain, tr = outer('plain', drop=drop), outer(kind, drop=drop)
    v_plain = plain.init(rngs, x)
    ar = {'dropout': jax.random.key(7)}
    want = plain.apply(v_plain, x, rngs=ar, mutable=mutable)
    got = tr.apply(v_plain, x, rngs=ar, mutable=mutable)
    if mutable is not False:
      (want, wu), (got, gu) = want, got
      if not _close(dict(wu), dict(gu)):
        fails.append(dict(inputs=inp, observed=f'updated collections differ: {_shapes(dict(gu))} / values vs plain {_shapes(dict(wu))}', violated='mutable-updates-equal'))
        continue
    if kind == 'jit' and drop > 0:
      again = tr.apply(v_plain, x, rngs=ar, mutable=mutable)
      again = again[0] if mutable is not False else again
      if not _close(got, again):
        fails.append(dict(inputs=inp, observed='random draws under jit are not reproducible', violated='jit-rng-deterministic'))
    elif not _close(want, got):
      fails.append(dict(inputs=inp, observed='outputs differ from the plain module', violated='outputs-equal'))
  # writes to a collection that is not mutable raise under every transform
  class Writer(nn.Module):
    @nn.compact
    def __call__(self, x):
      v = self.variable('stats', 'n', lambda: jnp.zeros(()))
      if not self.is_initializing():
        v.value = v.value + 1.0
      return x
  for kind in ('jit', 'remat', 'mapvars'):
    cases += 1
    T = {'jit': lambda c, m: nn.jit(c), 'remat': lambda c, m: nn.remat(c),
         'mapvars': lambda c, m: nn.map_variables(c, 'params', mutable=True, init=m.is_initializing())}[kind]

    class Host(nn.Module):
      @nn.compact
      def __call__(self, x):
        return T(Writer, self)()(x)
    vs = Host().init(jax.random.key(0), x)
    for mutable in (False, ['params']):
      try:
        Host().apply(vs, x, mutable=mutable)
        fails.append(dict(inputs=dict(transform=kind, mutable=repr(mutable)), observed='write to the immutable collection "stats" was accepted', violated='immutable-write-raises'))
        return cases
      except Exception as e:  # noqa
        if 'immutable' not in str(e).lower() and 'ModifyScopeVariableError' not in type(e).__name__:
          fails.append(dict(inputs=dict(transform=kind, mutable=repr(mutable)), observed=f'unexpected error {e!r}'[:200], violated='immutable-write-raises'))
          return cases
    _, upd = Host().apply(vs, x, mutable=['stats'])
    if float(upd['stats'][next(iter(upd['stats']))]['n']) != 1.0:
      fails.append(dict(inputs=dict(transform=kind), observed='mutable write lost', violated='mutable-updates-equal'))
      return cases
  return cases


def _control_flow(nn, jnp, jax, fails, tier):
  x = jnp.linspace(-1.0, 1.0, 4).reshape(1, 4)
  cases = 0

  class CondM(nn.Module):
    lifted: bool

    def setup(self):
      self.d = nn.Dense(4)
      self.acc = self.variable('state', 'acc', lambda: jnp.zeros((1, 4)))

    def __call__(self, x, pred):
      def t(mdl, x):
        y = mdl.d(x)
        if mdl.is_mutable_collection('state'):
          mdl.acc.value = mdl.acc.value + y
        return y

      def f(mdl, x):
        y = -2.0 * mdl.d(x)
        if mdl.is_mutable_collection('state'):
          mdl.acc.value = mdl.acc.value - y
        return y
      if self.lifted:
        return nn.cond(pred, t, f, self, x)
      return t(self, x) if pred else f(self, x)

  vs = CondM(False).init(jax.random.key(0), x, True)
  for pred, mutable in itertools.product((True, False), (False, ['state'])):
    cases += 1
    want = CondM(False).apply(vs, x, pred, mutable=mutable)
    got = CondM(True).apply(vs, x, pred, mutable=mutable)
    if not _close(jax.tree_util.tree_map(np.asarray, want), jax.tree_util.tree_map(np.asarray, got)):
      fails.append(dict(inputs=dict(transform='cond', pred=pred, mutable=repr(mutable)), observed='nn.cond differs from the Python if/else', violated='cond-equals-if'))
      return cases
  vl = CondM(True).init(jax.random.key(0), x, True)
  if not _close(vs, vl):
    fails.append(dict(inputs=dict(transform='cond', phase='init'), observed='init tree under nn.cond differs', violated='init-tree-equal'))
    return cases

  class SwitchM(nn.Module):
    lifted: bool

    def setup(self):
      self.d = nn.Dense(4)
      self.hits = self.variable('state', 'hits', lambda: jnp.zeros((3,)))

    def __call__(self, x, idx):
      def mk(i):
        def br(mdl, x):
          if mdl.is_mutable_collection('state'):
            mdl.hits.value = mdl.hits.value.at[i].add(1.0)
          return mdl.d(x) * (i + 1)
        return br
      brs = [mk(i) for i in range(3)]
      if self.lifted:
        return nn.switch(idx, brs, self, x)
      return brs[idx](self, x)
  vs = SwitchM(False).init(jax.random.key(1), x, 0)
  for idx, mutable in itertools.product((0, 1, 2), (False, ['state'])):
    cases += 1
    want = SwitchM(False).apply(vs, x, idx, mutable=mutable)
    got = SwitchM(True).apply(vs, x, idx, mutable=mutable)
    if not _close(jax.tree_util.tree_map(np.asarray, want), jax.tree_util.tree_map(np.asarray, got)):
      fails.append(dict(inputs=dict(transform='switch', index=idx, mutable=repr(mutable)), observed='nn.switch differs from calling branch[index]', violated='switch-equals-index'))
      return cases

  class WhileM(nn.Module):
    lifted: bool

    def setup(self):
      self.d = nn.Dense(4)
      self.trips = self.variable('state', 'trips', lambda: jnp.zeros((), jnp.int32))

    def __call__(self, x, n):
      def cond_fn(mdl, c):
        return c['i'] < n

      def body_fn(mdl, c):
        if mdl.is_mutable_collection('state'):
          mdl.trips.value = mdl.trips.value + 1
        return {'i': c['i'] + 1, 'x': jnp.tanh(mdl.d(c['x']))}
      c0 = {'i': jnp.zeros((), jnp.int32), 'x': x}
      if self.is_initializing():
        return body_fn(self, c0)['x']        # variables cannot be created inside a lifted while_loop
      if self.lifted:
        return nn.while_loop(cond_fn, body_fn, self, c0, carry_variables='state' if self.is_mutable_collection('state') else False)['x']
      c = c0
      while cond_fn(self, c):
        c = body_fn(self, c)
      return c['x']
  vs = WhileM(False).init(jax.random.key(2), x, 0)
  for n, mutable in itertools.product((0, 1, 3), (False, ['state'])):
    cases += 1
    want = WhileM(False).apply(vs, x, n, mutable=mutable)
    got = WhileM(True).apply(vs, x, n, mutable=mutable)
    if not _close(jax.tree_util.tree_map(np.asarray, want), jax.tree_util.tree_map(np.asarray, got)):
      fails.append(dict(inputs=dict(transform='while_loop', trips=n, mutable=repr(mutable)), observed='nn.while_loop differs from the Python while', violated='while-equals-loop'))
      return cases
  return cases


def _jit_histories(nn, jnp, jax, fails, tier):
  import dataclasses
  x = jnp.linspace(-2.0, 2.0, 12).reshape(3, 4)
  cases = 0

  keep_alive = []     # classes stay referenced: a collected class could hand its id (and so its hash) to a later one

  def make_act(kind):
    class Act(nn.Module):           # every call: a new class with the same module / qualname / fields
      def __call__(self, x):
        return {'tanh': jnp.tanh, 'relu': jax.nn.relu, 'neg': lambda v: -v}[kind](x)
    keep_alive.append(Act)
    return Act

  def make_cfg(scale):
    @dataclasses.dataclass(frozen=True)
    class Cfg:                      # same qualname, different behaviour
      k: int = 1

      def apply(self, v):
        return v * scale
    keep_alive.append(Cfg)
    return Cfg

  class Block(nn.Module):
    act: nn.Module
    width: int = 4
    cfg: object = None

    @nn.compact
    def __call__(self, x):
      y = self.act(nn.Dense(self.width)(x))
      seen = self.variable('stats', 'seen', lambda: jnp.zeros(()))
      if self.is_mutable_collection('stats'):
        seen.value = seen.value + 1.0
      return self.cfg.apply(y) if self.cfg is not None else y
  JitBlock = nn.jit(Block)          # one transformed class: one shared trace cache
  histories = [
    [dict(act='tanh'), dict(act='relu'), dict(act='neg')],
    [dict(act='neg'), dict(act='tanh'), dict(act='neg')],
    [dict(act='tanh', width=4), dict(act='tanh', width=2), dict(act='tanh', width=4)],
    [dict(act='tanh', cfg=2.0), dict(act='tanh', cfg=3.0), dict(act='tanh', cfg=None)],
    [dict(act='relu', mutable=False), dict(act='relu', mutable=['stats']), dict(act='relu', mutable=False)],
  ]
  for h in histories:
    for step, c in enumerate(h):
      cases += 1
      kw = dict(width=c.get('width', 4))
      if c.get('cfg') is not None:
        kw['cfg'] = make_cfg(c['cfg'])()
      mutable = c.get('mutable', False)
      mk = lambda cls: cls(act=make_act(c['act'])(), **kw)
      vs = mk(Block).init(jax.random.key(0), x)
      want = mk(Block).apply(vs, x, mutable=mutable)
      got = mk(JitBlock).apply(vs, x, mutable=mutable)
      if not _close(jax.tree_util.tree_map(np.asarray, want), jax.tree_util.tree_map(np.asarray, got)):
        fails.append(dict(inputs=dict(history=[{k: repr(v) for k, v in d.items()} for d in h], step=step),
                          observed='the jitted module returned something else than the plain module (stale trace reused?)', violated='jit-no-stale-trace'))
        return cases
      vj = mk(JitBlock).init(jax.random.key(0), x)
      if _shapes(vj) != _shapes(vs):
        fails.append(dict(inputs=dict(history=[{k: repr(v) for k, v in d.items()} for d in h], step=step, phase='init'),
                          observed=f'init tree under jit {_shapes(vj)} differs from {_shapes(vs)}', violated='init-tree-equal'))
        return cases
  # variables' structure changes between calls of the same jitted instance's class
  class Grow(nn.Module):
    @nn.compact
    def __call__(self, x):
      y = nn.Dense(4)(x)
      if self.has_variable('extra', 'bias'):
        y = y + self.get_variable('extra', 'bias')
      return y
  JG = nn.jit(Grow)
  vs = Grow().init(jax.random.key(0), x)
  seq = [vs, {**vs, 'extra': {'bias': jnp.ones((4,))}}, vs, {**vs, 'extra': {'bias': 2 * jnp.ones((4,))}}]
  for step, v in enumerate(seq):
    cases += 1
    if not _close(Grow().apply(v, x), JG().apply(v, x)):
      fails.append(dict(inputs=dict(history='variables gain/lose collection "extra"', step=step), observed='jitted module differs from plain after the variable structure changed', violated='jit-no-stale-trace'))
      return cases
  return cases


def _method_transforms(nn, jnp, jax, fails, tier):
  """a parent's stateful child used directly before, inside and directly after a lifted helper
  method / control-flow construct, and the same helper called several times (rng draws inside)"""
  cases = 0
  x = jnp.linspace(0.5, 2.0, 4)

  class Acc(nn.Module):
    @nn.compact
    def __call__(self, x):
      count = self.variable('state', 'count', lambda: jnp.zeros((), jnp.int32))
      total = self.variable('state', 'total', lambda: jnp.zeros((), jnp.float32))
      count.value = count.value + 1
      total.value = total.value * 2.0 + jnp.sum(x)
      return x + total.value

  def make(kind):
    def _step(self, x):
      return self.acc(x)

    def _noisy(self, x):
      return x + jax.random.normal(self.make_rng('noise'), x.shape)
    if kind == 'plain':
      step, noisy = _step, _noisy
    elif kind == 'remat':
      step, noisy = nn.remat(_step), nn.remat(_noisy)
    elif kind == 'jit':
      step, noisy = nn.jit(_step), _noisy
    elif kind == 'map_variables':
      step, noisy = nn.map_variables(_step, 'state', mutable=True), nn.map_variables(_noisy, 'state', mutable=True)
    elif kind == 'cond':
      noisy = _noisy

      def step(self, x):
        return nn.cond(True, lambda m, x: m.acc(x), lambda m, x: m.acc(x) * 0.0, self, x)
    elif kind == 'switch':
      noisy = _noisy

      def step(self, x):
        return nn.switch(1, [lambda m, x: m.acc(x) * 0.0, lambda m, x: m.acc(x)], self, x)
    elif kind == 'while_loop':
      noisy = _noisy

      def step(self, x):
        def cond_fn(m, c):
          return c[0] < 1

        def body_fn(m, c):
          return (c[0] + 1, m.acc(c[1]))
        return nn.while_loop(cond_fn, body_fn, self, (0, x), carry_variables='state')[1]

    class Parent(nn.Module):
      def setup(self):
        self.acc = Acc()

      def __call__(self, x):
        y = self.acc(x)          # directly before
        y = self.step(y)         # inside the lifted construct
        y = self.acc(y)          # directly after
        y = self.noisy(y)        # the same helper twice: the second call must draw another key
        y = self.noisy(y)
        return y + jax.random.normal(self.make_rng('noise'), y.shape)
    Parent.step = step
    Parent.noisy = noisy
    return Parent()
  rngs = {'params': jax.random.key(0), 'noise': jax.random.key(4)}
  plain = make('plain')
  v0 = plain.init(rngs, x)
  want_y, want_upd = plain.apply(v0, x, rngs={'noise': jax.random.key(5)}, mutable=['state'])
  for kind in ('remat', 'jit', 'map_variables', 'cond', 'switch', 'while_loop'):
    cases += 1
    inp = dict(program='child used before / inside / after a lifted method; helper with rng draws called twice', transform=kind)
    m = make(kind)
    try:
      v = m.init(rngs, x)
      if not _close(v, v0):
        fails.append(dict(inputs=dict(inp, phase='init'), observed=f'init tree / values differ from the plain module: {jax.tree_util.tree_map(np.asarray, v)} vs {jax.tree_util.tree_map(np.asarray, v0)}'[:300], violated='init-values-equal'))
        continue
      y, upd = m.apply(v0, x, rngs={'noise': jax.random.key(5)}, mutable=['state'])
    except Exception as e:  # noqa
      fails.append(dict(inputs=inp, observed=f'raised {e!r}'[:300], violated='outputs-equal'))
      continue
    if not _close(dict(upd), dict(want_upd)):
      fails.append(dict(inputs=inp, observed=f'updated state {jax.tree_util.tree_map(np.asarray, dict(upd))} differs from the plain code {jax.tree_util.tree_map(np.asarray, dict(want_upd))}'[:300], violated='mutable-updates-equal'))
    elif kind != 'jit' and not _close(y, want_y):
      fails.append(dict(inputs=inp, observed='outputs (incl. random draws) differ from the plain code', violated='outputs-equal'))
  return cases


def _autonames(nn, jnp, jax, fails, tier):
  """auto-named sub-modules created inside the branches / body of nn.cond, nn.switch, nn.while_loop and more of the same class
  created afterwards in the same compact method: the init tree and the outputs equal the Python control flow"""
  cases = 0
  x = jnp.linspace(-1.0, 1.0, 6).reshape(2, 3)

  def make(kind, lifted):
    class M(nn.Module):
      @nn.compact
      def __call__(self, x, sel):
        x = nn.Dense(3)(x)                         # Dense_0

        def br_a(mdl, x):
          return nn.Dense(3)(x)                     # Dense_1 (created inside the construct)

        def br_b(mdl, x):
          return nn.Dense(3)(x) * 2.0
        if kind == 'cond':
          y = nn.cond(sel > 0, br_a, br_a, self, x) if lifted else br_a(self, x)
        elif kind == 'switch':
          y = nn.switch(0, [br_a, br_a], self, x) if lifted else br_a(self, x)
        else:
          def cond_fn(mdl, c):
            return c[0] < 1

          def body_fn(mdl, c):
            return (c[0] + 1, nn.Dense(3)(c[1]))
          if self.is_initializing() or not lifted:
            y = body_fn(self, (0, x))[1]
          else:
            y = nn.while_loop(cond_fn, body_fn, self, (0, x))[1]
        return nn.Dense(3)(y) + nn.Dense(3)(x)      # Dense_2, Dense_3 (created after it)
    return M()
  for kind in ('cond', 'switch', 'while_loop'):
    cases += 1
    plain, lift = make(kind, False), make(kind, True)
    try:
      v_p = plain.init(jax.random.key(0), x, 1)
      v_l = lift.init(jax.random.key(0), x, 1)
      if sorted(v_l['params']) != sorted(v_p['params']) or not _close(v_p, v_l):
        fails.append(dict(inputs=dict(program='auto-named Dense inside and after the lifted construct', transform=kind, phase='init'),
                          observed=f"init tree {sorted(v_l['params'])} / values differ from the Python control flow {sorted(v_p['params'])}", violated='init-tree-equal'))
        continue
      if not _close(plain.apply(v_p, x, 1), lift.apply(v_p, x, 1)):
        fails.append(dict(inputs=dict(program='auto-named Dense inside and after the lifted construct', transform=kind), observed='outputs differ from the Python control flow', violated='outputs-equal'))
    except Exception as e:  # noqa
      fails.append(dict(inputs=dict(program='auto-named Dense inside and after the lifted construct', transform=kind), observed=f'raised {e!r}'[:300], violated='init-tree-equal'))
  # nn.cond follows Python truthiness of the predicate: negative and fractional numbers are true, zeros (also -0.0) are false
  n0 = len(fails)
  class Gate(nn.Module):
    lifted: bool

    def setup(self):
      self.a = nn.Dense(3)
      self.count = self.variable('state', 'count', lambda: jnp.zeros(()))

    def __call__(self, x, pred):
      def t(m, x):
        m.count.value = m.count.value + 1.0
        return m.a(x)

      def f(m, x):
        m.count.value = m.count.value + 10.0
        return m.a(x) * -1.0
      if self.is_initializing():
        return self.a(x)
      if self.lifted:
        return nn.cond(pred, t, f, self, x)
      return t(self, x) if bool(pred) else f(self, x)
  gv = Gate(False).init(jax.random.key(0), x, True)
  for pred in (True, False, 1, 0, 2, -1, 0.5, -0.25, -0.0, np.float32(-3.5), np.int32(-2), jnp.asarray(0.75), jnp.asarray(-1), np.float64(1e-9)):
    cases += 1
    try:
      want = Gate(False).apply(gv, x, pred, mutable=['state'])
      got = Gate(True).apply(gv, x, pred, mutable=['state'])
      got_j = jax.jit(lambda p: Gate(True).apply(gv, x, p, mutable=['state']))(jnp.asarray(pred))
      for tag, g in (('eager predicate', got), ('predicate traced by an outer jit', got_j)):
        if not _close(jax.tree_util.tree_map(np.asarray, want), jax.tree_util.tree_map(np.asarray, g)):
          fails.append(dict(inputs=dict(program='nn.cond with a numeric predicate', transform='cond', predicate=repr(pred), mode=tag),
                            observed=f"state count {float(g[1]['state']['count'])} vs python `if pred` {float(want[1]['state']['count'])}: the other branch ran", violated='outputs-equal'))
          break
    except Exception as e:  # noqa
      fails.append(dict(inputs=dict(program='nn.cond with a numeric predicate', transform='cond', predicate=repr(pred)), observed=f'raised {e!r}'[:300], violated='outputs-equal'))
    if len(fails) > n0:
      break
  # nn.jit over a class with SEVERAL transformed methods: each method keeps its own trace
  class AutoEnc(nn.Module):
    def setup(self):
      self.enc = nn.Dense(3)
      self.dec = nn.Dense(3, use_bias=False)
      self.count = self.variable('state', 'count', lambda: jnp.zeros(()))

    def encode(self, x):
      if not self.is_initializing():
        self.count.value = self.count.value + 1.0
      return jnp.tanh(self.enc(x))

    def decode(self, z):
      if not self.is_initializing():
        self.count.value = self.count.value + 10.0
      return self.dec(z) * 2.0

    def __call__(self, x):
      return self.decode(self.encode(x))
  for methods in (['encode', 'decode'], ['__call__', 'encode', 'decode'], {'encode': {}, 'decode': {}}, ['decode']):
    cases += 1
    inp = dict(program='autoencoder with encode / decode / __call__', transform='jit', methods=repr(methods))
    try:
      J = nn.jit(AutoEnc, methods=methods)
      pv0 = AutoEnc().init(jax.random.key(0), x)
      jv0 = J().init(jax.random.key(0), x)
      if jax.tree_util.tree_map(np.shape, dict(pv0)) != jax.tree_util.tree_map(np.shape, dict(jv0)):
        fails.append(dict(inputs=inp, observed=f'init tree {jax.tree_util.tree_map(np.shape, dict(jv0))} differs from the plain module {jax.tree_util.tree_map(np.shape, dict(pv0))}', violated='init-tree-equal'))
        continue
      for seq in (('encode', 'decode'), ('decode', 'encode', 'encode'), ('__call__', 'decode')):
        for mname in seq:
          want = AutoEnc().apply(pv0, x, method=mname, mutable=['state'])
          got = J().apply(pv0, x, method=mname, mutable=['state'])
          if not _close(jax.tree_util.tree_map(np.asarray, want), jax.tree_util.tree_map(np.asarray, got)):
            fails.append(dict(inputs=dict(inp, sequence=seq, at=mname), observed='output / updated state differ from the plain module (another method\'s trace was used?)', violated='outputs-equal'))
            break
        if len(fails) > n0:
          break
    except Exception as e:  # noqa
      fails.append(dict(inputs=inp, observed=f'raised {e!r}'[:300], violated='outputs-equal'))
    if len(fails) > n0:
      break
  # sub-module ATTRIBUTES declared out of alphabetical order (encoder before decoder) under class transforms
  class Enc(nn.Module):
    @nn.compact
    def __call__(self, x):
      n = self.variable('state', 'n', lambda: jnp.zeros(()))
      if self.is_mutable_collection('state') and not self.is_initializing():
        n.value = n.value + 1.0
      return nn.Dense(3)(x)

  class Dec(nn.Module):
    @nn.compact
    def __call__(self, x):
      n = self.variable('state', 'n', lambda: jnp.zeros(()))
      if self.is_mutable_collection('state') and not self.is_initializing():
        n.value = n.value + 10.0
      return nn.tanh(nn.Dense(3, use_bias=False)(x)) * 2.0

  class Seq2(nn.Module):
    encoder: nn.Module
    decoder: nn.Module

    def __call__(self, x):
      return self.decoder(self.encoder(x))
  plain2 = Seq2(encoder=Enc(), decoder=Dec())
  v2 = plain2.init(jax.random.key(0), x)
  want2 = plain2.apply(v2, x, mutable=['state'])
  for kind, T in (('jit', nn.jit), ('remat', nn.remat), ('map_variables', lambda c: nn.map_variables(c, 'state', mutable=True))):
    cases += 1
    try:
      lifted2 = T(Seq2)(encoder=Enc(), decoder=Dec())
      vl = lifted2.init(jax.random.key(0), x)
      got2 = lifted2.apply(v2, x, mutable=['state'])
      if jax.tree_util.tree_map(np.shape, dict(vl)) != jax.tree_util.tree_map(np.shape, dict(v2)) or not _close(jax.tree_util.tree_map(np.asarray, want2), jax.tree_util.tree_map(np.asarray, got2)):
        fails.append(dict(inputs=dict(program='module with attributes encoder, decoder (declared in that order)', transform=kind), observed='init tree / outputs / updated state differ from the plain module (sub-modules bound to each other\'s scopes?)', violated='outputs-equal'))
    except Exception as e:  # noqa
      fails.append(dict(inputs=dict(program='module with attributes encoder, decoder (declared in that order)', transform=kind), observed=f'raised {e!r}'[:300], violated='outputs-equal'))
  # nn.switch / nn.cond with a `variables` filter that leaves a collection out: a branch writing it still raises
  cases += 1

  class Filtered(nn.Module):
    use_switch: bool

    @nn.compact
    def __call__(self, x):
      st = self.variable('state', 'v', lambda: jnp.zeros(()))

      def writes(mdl, x):
        s2 = mdl.variable('state', 'v', lambda: jnp.zeros(()))
        s2.value = s2.value + 1.0
        return x

      def reads(mdl, x):
        return x * 2.0
      if self.is_initializing():
        return x
      if self.use_switch:
        return nn.switch(0, [writes, reads], self, x, variables='params')
      return nn.cond(True, writes, reads, self, x, variables='params')
  for use_switch in (False, True):
    vf = Filtered(use_switch).init(jax.random.key(0), x)
    try:
      Filtered(use_switch).apply(vf, x, mutable=['state'])
      fails.append(dict(inputs=dict(program='branch writes a collection that the variables= filter does not lift', transform='switch' if use_switch else 'cond'), observed='the write was accepted', violated='immutable-write-raises'))
    except Exception:  # noqa
      pass
  # a write inside the loop condition to a carried collection still raises
  cases += 1

  class Poll(nn.Module):
    @nn.compact
    def __call__(self, x):
      polls = self.variable('state', 'polls', lambda: jnp.zeros(()))

      def cond_fn(mdl, c):
        p = mdl.variable('state', 'polls', lambda: jnp.zeros(()))
        p.value = p.value + 1.0           # the condition may read, not write
        return c < 3

      def body_fn(mdl, c):
        return c + 1
      if self.is_initializing():
        return x
      return nn.while_loop(cond_fn, body_fn, self, jnp.zeros((), jnp.int32), carry_variables='state')
  vp = Poll().init(jax.random.key(0), x)
  try:
    Poll().apply(vp, x, mutable=['state'])
    fails.append(dict(inputs=dict(program='write to a carried collection inside the while_loop condition'), observed='the write was accepted (and silently dropped) instead of raising', violated='immutable-write-raises'))
  except Exception as e:  # noqa
    if 'immutable' not in str(e).lower() and 'Modify' not in type(e).__name__:
      fails.append(dict(inputs=dict(program='write to a carried collection inside the while_loop condition'), observed=f'unexpected error {e!r}'[:200], violated='immutable-write-raises'))
  return cases


def run(tier, seed):
  import jax
  import jax.numpy as jnp
  import flax.linen as nn
  cases, fails = 0, []
  for part in (_transform_grid, _control_flow, _jit_histories, _method_transforms, _autonames):
    try:
      cases += part(nn, jnp, jax, fails, tier)
    except Exception as e:  # noqa
      import traceback
      return dict(name=NAME, cases=cases, distinct=cases, failures=[], error=f'{part.__name__}: ' + traceback.format_exc()[-1200:])
    if len(fails) > 4:
      break
  return dict(name=NAME, cases=cases, distinct=cases,
              bound='transforms {jit, remat, map_variables(params), map_variables(all)} x mutable {False, [stats], True} x dropout {0, .5}; '
                    'cond pred x mutable; switch index 0..2 x mutable; while_loop trips {0,1,3} x mutable; 5 jit call histories of 3 steps + variable-structure history; method-level transforms {remat, jit, map_variables, cond, switch, while_loop} around a child used before/inside/after; auto-named sub-modules inside and after cond / switch / while_loop; write inside the loop condition',
              failures=fails[:6], error=None)


def replay(inputs):
  r = run('quick', 0)
  return not r['failures']
