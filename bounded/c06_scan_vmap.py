"""Bounded stand-in (C06): the real nn.scan and nn.vmap against the unrolled Python loop / the
per-index calls, on a grid:

  scan: params {broadcast, axis 0, axis 1} x reverse x unroll {1, 2} x in/out axes {0, 1} x length {1, 3}
        x split_rngs {True, False}; a carried collection, a per-step (axis) collection, a broadcast
        collection that is already populated and refreshed by the body, and a parent that owns another
        layer created before the scanned cell (init tree);
  vmap: params {shared (None), axis 0, axis 1} x in/out axes {0, 1} x asymmetric In/Out axis markers for a
        read-only input collection and a write-only output collection x split_rngs {True, False}.

The reference is the same cell applied step by step / index by index on explicitly sliced variables.
Labelled bounded: never counted as proved."""
import itertools
import numpy as np
from . import _env  # noqa: F401

NAME = 'bounded:nn.scan vs unrolled loop and nn.vmap vs per-index calls (grid)'
TOL = 1e-5


def _np(t):
  import jax
  return jax.tree_util.tree_map(np.asarray, t)


def _close(a, b):
  import jax
  la, lb = jax.tree_util.tree_leaves(_np(a)), jax.tree_util.tree_leaves(_np(b))
  if jax.tree_util.tree_structure(_np(a)) != jax.tree_util.tree_structure(_np(b)):
    return False
  return all(x.shape == y.shape and np.allclose(x, y, atol=1e-4) for x, y in zip(la, lb))


def _scan_grid(nn, jnp, jax, fails, tier):
  cases = 0
  D = 3

  class Cell(nn.Module):
    @nn.compact
    def __call__(self, h, x):
      w = self.param('w', lambda k: jnp.linspace(0.5, 1.5, D))
      n = 0.0
      if self.has_variable('counter', 'n'):       # carried collections have to exist before the scan starts
        count = self.variable('counter', 'n', lambda: jnp.zeros(()))
        count.value = count.value + 1.0
        n = count.value
      noise = jax.random.normal(self.make_rng('noise'), (D,))
      h = jnp.tanh(h * w + x) + 0.01 * n
      self.sow('trace', 'h', h, reduce_fn=lambda a, b: b, init_fn=lambda: jnp.zeros((D,)))
      self.sow('noise_seen', 'z', noise, reduce_fn=lambda a, b: b, init_fn=lambda: jnp.zeros((D,)))
      return h, h * 2.0

  def run_scan(pax, reverse, unroll, in_ax, out_ax, T, split, xs, h0, variables=None, init=False):
    vaxes = {'trace': out_ax, 'noise_seen': 0}
    vb = 'params' if pax is None else False
    if pax is not None:
      vaxes['params'] = pax
    S = nn.scan(Cell, variable_axes=vaxes, variable_broadcast=vb, variable_carry='counter', split_rngs={'params': pax is not None, 'noise': split},
                in_axes=in_ax, out_axes=out_ax, length=T, reverse=reverse, unroll=unroll)
    rngs = {'params': jax.random.key(0), 'noise': jax.random.key(1)}
    if init:
      return S().init(rngs, h0, xs)
    return S().apply(variables, h0, xs, rngs={'noise': jax.random.key(1)}, mutable=['counter', 'trace', 'noise_seen'])
  for pax, reverse, unroll, in_ax, out_ax, T, split in itertools.product((None, 0, 1), (False, True), (1, 2), (0, 1), (0, 1), (1, 3), (True, False)):
    if len(fails) >= 3:
      return cases
    if tier == 'quick' and unroll == 2 and (in_ax, out_ax) != (0, 0):
      continue
    cases += 1
    inp = dict(transform='scan', params_axis=repr(pax), reverse=reverse, unroll=unroll, in_axes=in_ax, out_axes=out_ax, length=T, split_noise=split)
    xs_t = np.stack([np.linspace(-1, 1, D) * (t + 1) for t in range(T)], 0).astype(np.float32)     # time-major
    xs = jnp.asarray(np.moveaxis(xs_t, 0, in_ax))
    h0 = jnp.asarray(np.linspace(0.1, 0.3, D).astype(np.float32))
    try:
      v = run_scan(pax, reverse, unroll, in_ax, out_ax, T, split, xs, h0, init=True)
      w = np.asarray(v['params']['w'])
      want_shape = (D,) if pax is None else tuple(np.insert(np.array([D]), pax, T))
      if w.shape != want_shape:
        fails.append(dict(inputs=inp, observed=f'init: params/w has shape {w.shape}, expected {want_shape} (one slice per iteration along the declared axis / initialised once when broadcast)', violated='scan-init-shapes'))
        continue
      if pax is not None:
        # give every step its own weights so that a wrong slice is visible
        w = np.moveaxis(np.stack([np.linspace(0.5, 1.5, D) * (1 + 0.1 * t) for t in range(T)], 0), 0, pax).astype(np.float32)
      variables = {'params': {'w': jnp.asarray(w)}, 'counter': {'n': jnp.asarray(2.0)}}
      (h_fin, ys), upd = run_scan(pax, reverse, unroll, in_ax, out_ax, T, split, xs, h0, variables=variables)
    except Exception as e:  # noqa
      fails.append(dict(inputs=inp, observed=f'raised {e!r}'[:300], violated='scan-equals-loop'))
      continue
    # reference loop
    h, n = np.asarray(h0), 2.0
    order = range(T - 1, -1, -1) if reverse else range(T)
    ys_ref, tr_ref = [None] * T, [None] * T
    for t in order:
      wt = w if pax is None else np.take(w, t, axis=pax)
      n += 1.0
      h = np.tanh(h * wt + xs_t[t]) + 0.01 * n
      ys_ref[t], tr_ref[t] = h * 2.0, h
    ys_ref = np.moveaxis(np.stack(ys_ref, 0), 0, out_ax)
    tr_ref = np.moveaxis(np.stack(tr_ref, 0), 0, out_ax)
    if not np.allclose(np.asarray(h_fin), h, atol=1e-4) or np.asarray(ys).shape != ys_ref.shape or not np.allclose(np.asarray(ys), ys_ref, atol=1e-4):
      fails.append(dict(inputs=inp, observed=f'final carry / stacked outputs differ from the unrolled loop: carry {np.asarray(h_fin)} vs {h}; ys shape {np.asarray(ys).shape} vs {ys_ref.shape}', violated='scan-equals-loop'))
      continue
    if abs(float(upd['counter']['n']) - n) > 1e-5:
      fails.append(dict(inputs=inp, observed=f"carried collection ends at {float(upd['counter']['n'])}, the loop leaves {n}", violated='scan-carry-collection'))
      continue
    tr = np.asarray(upd['trace']['h'])
    if tr.shape != tr_ref.shape or not np.allclose(tr, tr_ref, atol=1e-4):
      fails.append(dict(inputs=inp, observed=f'axis collection does not hold one slice per iteration along axis {out_ax}: shape {tr.shape} vs {tr_ref.shape} (or permuted values)', violated='scan-axis-collection'))
      continue
    z = np.asarray(upd['noise_seen']['z'])
    distinct = len({tuple(np.round(r, 6)) for r in z})
    if (split and distinct != T) or (not split and distinct != 1):
      fails.append(dict(inputs=inp, observed=f'{distinct} distinct keys over {T} iterations with split_rngs={split}', violated='scan-rng-split'))
  # broadcast collections: shared, initialised once, and what the body writes wins over what came in
  class Table(nn.Module):
    @nn.compact
    def __call__(self, c, x):
      t = self.variable('table', 'v', lambda: jnp.zeros((3,)))
      if self.is_mutable_collection('table'):
        t.value = jnp.arange(3.0) * 3.0 + 3.0          # refreshed by the body: [3, 6, 9]
      return c + t.value.sum() + x, c

  class Host(nn.Module):
    lifted: bool

    @nn.compact
    def __call__(self, xs):
      y0 = nn.Dense(2, name='first')(jnp.ones((1, 2)))   # another layer of the parent, created BEFORE the scanned cell
      c = jnp.zeros(())
      if self.lifted:
        S = nn.scan(ParamCell, variable_broadcast='params', split_rngs={'params': False}, length=xs.shape[0])
        c, ys = S(name='cell')(c, xs)
      else:
        cell = ParamCell(name='cell')
        outs = []
        for t in range(xs.shape[0]):
          c, y = cell(c, xs[t])
          outs.append(y)
        ys = jnp.stack(outs)
      return c + y0.sum() * 0.0, ys

  class ParamCell(nn.Module):
    @nn.compact
    def __call__(self, c, x):
      k = self.param('k', lambda key: jnp.asarray(2.0))
      return c * 0.5 + k * x, c
  cases += 1
  xs = jnp.asarray([1.0, 2.0, 3.0])
  v_plain = Host(False).init(jax.random.key(0), xs)
  try:
    v_lift = Host(True).init(jax.random.key(0), xs)
    if jax.tree_util.tree_map(np.shape, _np(v_plain['params'])) != jax.tree_util.tree_map(np.shape, _np(v_lift['params'])):
      fails.append(dict(inputs=dict(transform='scan', program='parent with an earlier layer + scanned cell with broadcast params', phase='init'),
                        observed=f"init params tree {jax.tree_util.tree_map(np.shape, _np(v_lift['params']))} differs from the loop version {jax.tree_util.tree_map(np.shape, _np(v_plain['params']))}", violated='scan-broadcast-init'))
    else:
      a, b = Host(False).apply(v_plain, xs), Host(True).apply(v_plain, xs)
      if not _close(a, b):
        fails.append(dict(inputs=dict(transform='scan', program='parent with an earlier layer + scanned cell with broadcast params'), observed='outputs differ from the loop version', violated='scan-equals-loop'))
  except Exception as e:  # noqa
    fails.append(dict(inputs=dict(transform='scan', program='parent with an earlier layer + scanned cell with broadcast params'), observed=f'raised {e!r}'[:300], violated='scan-broadcast-init'))
  cases += 1
  try:
    from flax.core.lift import Out

    class Tick(nn.Module):
      @nn.compact
      def __call__(self, c, x):
        n = self.variable('ticks', 'n', lambda: jnp.zeros(()))
        n.value = n.value + 1.0
        return c + x, c
    for ax in (0, 1):
      St = nn.scan(Tick, variable_axes={'ticks': Out(0)}, split_rngs={}, length=3)
      (c1, _), u1 = St().apply({}, jnp.zeros(()), xs, mutable=['ticks'])
      (c2, _), u2 = St().apply(dict(u1), jnp.zeros(()), xs, mutable=['ticks'])
      if not np.allclose(np.asarray(u2['ticks']['n']), np.asarray(u1['ticks']['n'])) or not np.allclose(np.asarray(u1['ticks']['n']), 1.0):
        fails.append(dict(inputs=dict(transform='scan', program='per-iteration counter in an Out(0) collection, second call fed with the first call\'s updates'),
                          observed=f"per-iteration counters {np.asarray(u1['ticks']['n'])} then {np.asarray(u2['ticks']['n'])}: an output-only collection must start empty in every call", violated='scan-out-only'))
        break
  except Exception as e:  # noqa
    fails.append(dict(inputs=dict(transform='scan', program='per-iteration counter in an Out(0) collection'), observed=f'raised {e!r}'[:300], violated='scan-out-only'))
  cases += 1
  try:
    S = nn.scan(Table, variable_broadcast='table', split_rngs={}, length=3)
    (c, _), upd = S().apply({'table': {'v': jnp.asarray([1.0, 2.0, 3.0])}}, jnp.zeros(()), xs, mutable=['table'])
    if not np.allclose(np.asarray(upd['table']['v']), [3.0, 6.0, 9.0]):
      fails.append(dict(inputs=dict(transform='scan', program='broadcast collection populated on entry and refreshed by the body'),
                        observed=f"the broadcast collection comes back as {np.asarray(upd['table']['v'])}, the body wrote [3. 6. 9.]", violated='scan-broadcast-update'))
  except Exception as e:  # noqa
    fails.append(dict(inputs=dict(transform='scan', program='broadcast collection populated on entry and refreshed by the body'), observed=f'raised {e!r}'[:300], violated='scan-broadcast-update'))
  return cases


def _vmap_grid(nn, jnp, jax, fails, tier):
  cases = 0
  B, D = 3, 2

  class Lin(nn.Module):
    @nn.compact
    def __call__(self, x):
      w = self.param('w', lambda k: jnp.linspace(1.0, 2.0, D))
      scale = self.variable('stats', 'scale', lambda: jnp.ones((D, 4)))      # read-only input collection
      z = jax.random.normal(self.make_rng('noise'), ())
      y = x * w + scale.value[:, 0]
      self.sow('intermediates', 'y', jnp.outer(y, jnp.arange(4.0)), reduce_fn=lambda a, b: b, init_fn=lambda: jnp.zeros((D, 4)))
      self.sow('noise_seen', 'z', z, reduce_fn=lambda a, b: b, init_fn=lambda: jnp.zeros(()))
      return y
  for pax, in_ax, out_ax, stats_in, inter_out, split in itertools.product((None, 0, 1), (0, 1), (0, 1), (0, 1, 2), (0, 1, 2), (True, False)):
    if len(fails) >= 3:
      return cases
    if tier == 'quick' and (stats_in == 1 or inter_out == 0 or (pax == 0 and in_ax != out_ax)):
      continue
    cases += 1
    inp = dict(transform='vmap', params_axis=repr(pax), in_axes=in_ax, out_axes=out_ax, stats_In=stats_in, intermediates_Out=inter_out, split_noise=split)
    from flax.core.lift import In, Out
    vaxes = {'params': pax, 'stats': In(stats_in), 'intermediates': Out(inter_out), 'noise_seen': 0}
    V = nn.vmap(Lin, variable_axes=vaxes, split_rngs={'params': pax is not None, 'noise': split}, in_axes=in_ax, out_axes=out_ax, axis_size=B)
    xs_b = np.stack([np.linspace(-1, 1, D) * (b + 1) for b in range(B)], 0).astype(np.float32)    # batch-major
    xs = jnp.asarray(np.moveaxis(xs_b, 0, in_ax))
    w = np.linspace(1.0, 2.0, D).astype(np.float32)
    if pax is not None:
      w = np.moveaxis(np.stack([w * (1 + 0.5 * b) for b in range(B)], 0), 0, pax)
    stats_b = np.stack([np.ones((D, 4), np.float32) * (b + 1) + np.arange(4, dtype=np.float32) for b in range(B)], 0)
    stats = np.moveaxis(stats_b, 0, stats_in)
    variables = {'params': {'w': jnp.asarray(w)}, 'stats': {'scale': jnp.asarray(stats)}}
    try:
      y, upd = V().apply(variables, xs, rngs={'noise': jax.random.key(2)}, mutable=['intermediates', 'noise_seen'])
    except Exception as e:  # noqa
      fails.append(dict(inputs=inp, observed=f'raised {e!r}'[:300], violated='vmap-equals-per-index'))
      continue
    ys_ref, inter_ref = [], []
    for b in range(B):
      wb = w if pax is None else np.take(w, b, axis=pax)
      yb = xs_b[b] * wb + stats_b[b][:, 0]
      ys_ref.append(yb)
      inter_ref.append(np.outer(yb, np.arange(4.0)))
    ys_ref = np.moveaxis(np.stack(ys_ref, 0), 0, out_ax)
    inter_ref = np.moveaxis(np.stack(inter_ref, 0), 0, inter_out)
    if np.asarray(y).shape != ys_ref.shape or not np.allclose(np.asarray(y), ys_ref, atol=1e-4):
      fails.append(dict(inputs=inp, observed=f'outputs differ from calling the module once per index: shape {np.asarray(y).shape} vs {ys_ref.shape}', violated='vmap-equals-per-index'))
      continue
    got = np.asarray(upd['intermediates']['y'])
    if got.shape != inter_ref.shape or not np.allclose(got, inter_ref, atol=1e-4):
      fails.append(dict(inputs=inp, observed=f'the Out({inter_out}) collection is stacked as {got.shape}, per-index results stacked along axis {inter_out} give {inter_ref.shape} (or other values)', violated='vmap-out-axes'))
      continue
    z = np.asarray(upd['noise_seen']['z']).ravel()
    distinct = len({round(float(v), 6) for v in z})
    if (split and distinct != B) or (not split and distinct != 1):
      fails.append(dict(inputs=inp, observed=f'{distinct} distinct keys over {B} indices with split_rngs={split}', violated='vmap-rng-split'))
      continue
    # an Out(axis) collection is output-only: a second call fed with the first call's updates gives the same result
    try:
      y2, upd2 = V().apply({**variables, **upd}, xs, rngs={'noise': jax.random.key(2)}, mutable=['intermediates', 'noise_seen'])
      if not _close(y2, y) or not _close(upd2['intermediates'], upd['intermediates']):
        fails.append(dict(inputs=dict(inp, call='second call, fed with the updates of the first'), observed='the result depends on what the output-only (Out) collection held on entry', violated='vmap-out-only'))
    except Exception as e:  # noqa
      fails.append(dict(inputs=dict(inp, call='second call, fed with the updates of the first'), observed=f'raised {e!r}'[:300], violated='vmap-out-only'))
  return cases


def _function_style(nn, jnp, jax, fails, tier):
  """nn.scan / nn.vmap applied to a FUNCTION of a parent module whose setup children hold the carried / stacked collection and
  are looked at before and after the loop (same program with an explicit python loop must agree)."""
  cases = 0
  D, N = 3, 4

  class Accum(nn.Module):
    def setup(self):
      self.total = self.variable('state', 'total', lambda: jnp.zeros((D,)))
      self.steps = self.variable('state', 'steps', lambda: jnp.zeros((), jnp.int32))

    def __call__(self, x):
      self.total.value = self.total.value + x
      self.steps.value = self.steps.value + 1
      return self.total.value

  def body(mdl, c, x):
    r = mdl.zacc(x * c)
    r2 = mdl.acc(x)
    return jnp.tanh(c + 0.1 * r + 0.01 * r2), r * 2.0

  class Model(nn.Module):
    lifted: bool
    reverse: bool = False
    unroll: int = 1

    def setup(self):
      self.zacc = Accum()       # declared out of alphabetical order on purpose
      self.acc = Accum()

    def __call__(self, c, xs):
      before = self.zacc.total.value
      if self.is_initializing():
        return c, xs, before, before, self.acc.steps.value
      if self.lifted:
        c, ys = nn.scan(body, variable_carry='state', variable_broadcast='params', split_rngs={'params': False}, reverse=self.reverse, unroll=self.unroll)(self, c, xs)
      else:
        idx = range(N - 1, -1, -1) if self.reverse else range(N)
        out = {}
        for i in idx:
          c, out[i] = body(self, c, xs[i])
        ys = jnp.stack([out[i] for i in range(N)])
      return c, ys, before, self.zacc.total.value, self.acc.steps.value
  xs = jnp.arange(N * D, dtype=jnp.float32).reshape(N, D) / 7.0
  c0 = jnp.ones((D,)) * 0.3
  v = Model(False).init(jax.random.key(0), c0, xs)
  v = jax.tree_util.tree_map(lambda a: a + 1 if a.dtype == jnp.int32 else a + 0.25, v)
  for reverse, unroll in ((False, 1), (True, 1), (False, 2)):
    cases += 1
    inp = dict(transform='scan', program='function-style nn.scan over a parent whose setup children (zacc, acc) carry the state; read before and after the loop', reverse=reverse, unroll=unroll)
    try:
      want = Model(False, reverse, unroll).apply(v, c0, xs, mutable=['state'])
      got = Model(True, reverse, unroll).apply(v, c0, xs, mutable=['state'])
      if not _close(_np(want), _np(got)):
        fails.append(dict(inputs=inp, observed='outputs / post-loop reads / updated carried collection differ from the explicit loop', violated='scan-equals-loop'))
    except Exception as e:  # noqa
      fails.append(dict(inputs=inp, observed=f'raised {e!r}'[:300], violated='scan-equals-loop'))

  def vbody(mdl, x):
    return mdl.zacc(x) + mdl.acc(2 * x)

  class VModel(nn.Module):
    lifted: bool

    def setup(self):
      self.zacc = Accum()
      self.acc = Accum()

    def __call__(self, xs):
      if self.is_initializing():
        return xs, self.zacc.total.value, self.acc.steps.value
      if self.lifted:
        ys = nn.vmap(vbody, variable_axes={'state': 0}, split_rngs={})(self, xs)
      else:
        raise AssertionError
      return ys, self.zacc.total.value, self.acc.steps.value
  cases += 1
  try:
    one = Model(False).init(jax.random.key(0), c0, xs)['state']
    B = N
    stacked = jax.tree_util.tree_map(lambda a: jnp.stack([a + b for b in range(B)]).astype(a.dtype), one)
    (ys, tot, steps), upd = VModel(True).apply({'state': stacked}, xs, mutable=['state'])
    ok = True
    for b in range(B):
      sb = jax.tree_util.tree_map(lambda a: a[b], stacked)
      zt = np.asarray(sb['zacc']['total']) + np.asarray(xs[b])
      at = np.asarray(sb['acc']['total']) + 2 * np.asarray(xs[b])
      ok = ok and np.allclose(np.asarray(ys[b]), zt + at, atol=1e-5) and np.allclose(np.asarray(tot[b]), zt, atol=1e-5) \
          and int(steps[b]) == int(sb['acc']['steps']) + 1 and np.allclose(np.asarray(upd['state']['zacc']['total'][b]), zt, atol=1e-5) \
          and np.allclose(np.asarray(upd['state']['acc']['total'][b]), at, atol=1e-5) and int(upd['state']['zacc']['steps'][b]) == int(sb['zacc']['steps']) + 1
    if not ok:
      fails.append(dict(inputs=dict(transform='vmap', program='function-style nn.vmap over a parent whose setup children (zacc, acc) hold the stacked state; read after the call'),
                        observed='outputs / post-call reads / updated stacked collection differ from running the body once per index', violated='vmap-equals-per-index'))
  except Exception as e:  # noqa
    fails.append(dict(inputs=dict(transform='vmap', program='function-style nn.vmap over a parent with setup children'), observed=f'raised {e!r}'[:300], violated='vmap-equals-per-index'))

  # class transforms over a module with sub-module ATTRIBUTES declared out of alphabetical order
  class Enc(nn.Module):
    @nn.compact
    def __call__(self, x):
      return nn.Dense(D)(x)

  class Dec(nn.Module):
    @nn.compact
    def __call__(self, x):
      return jnp.tanh(nn.Dense(D, use_bias=False)(x)) * 2.0

  class Seq2(nn.Module):
    encoder: nn.Module
    decoder: nn.Module

    def __call__(self, x):
      return self.decoder(self.encoder(x))

  class Seq2Cell(nn.Module):
    encoder: nn.Module
    decoder: nn.Module

    def __call__(self, c, x):
      y = self.decoder(self.encoder(x + c))
      return c * 0.5 + y, y
  plain = Seq2(Enc(), Dec())
  pv = plain.init(jax.random.key(1), xs[0])
  cases += 1
  try:
    V = nn.vmap(Seq2, variable_axes={'params': None}, split_rngs={'params': False}, in_axes=0)
    vv = V(Enc(), Dec()).init(jax.random.key(1), xs)
    got = V(Enc(), Dec()).apply(pv, xs)
    want = jnp.stack([plain.apply(pv, xs[i]) for i in range(N)])
    if jax.tree_util.tree_map(np.shape, _np(vv)) != jax.tree_util.tree_map(np.shape, _np(pv)) or not _close(_np(want), _np(got)):
      fails.append(dict(inputs=dict(transform='vmap', program='module with attributes encoder, decoder (declared in that order), broadcast params'), observed='init tree / outputs differ from calling the plain module once per index', violated='vmap-equals-per-index'))
  except Exception as e:  # noqa
    fails.append(dict(inputs=dict(transform='vmap', program='module with attributes encoder, decoder (declared in that order), broadcast params'), observed=f'raised {e!r}'[:300], violated='vmap-equals-per-index'))
  cases += 1
  try:
    S = nn.scan(Seq2Cell, variable_broadcast='params', split_rngs={'params': False})
    cell = Seq2Cell(Enc(), Dec())
    sv = S(Enc(), Dec()).init(jax.random.key(1), c0, xs)
    cgot, ysgot = S(Enc(), Dec()).apply(pv, c0, xs)
    c, ys = c0, []
    for i in range(N):
      c, y = cell.apply(pv, c, xs[i])
      ys.append(y)
    if jax.tree_util.tree_map(np.shape, _np(sv)) != jax.tree_util.tree_map(np.shape, _np(pv)) or not _close(_np((c, jnp.stack(ys))), _np((cgot, ysgot))):
      fails.append(dict(inputs=dict(transform='scan', program='cell with attributes encoder, decoder (declared in that order), broadcast params'), observed='init tree / outputs differ from the explicit loop over the plain cell', violated='scan-equals-loop'))
  except Exception as e:  # noqa
    fails.append(dict(inputs=dict(transform='scan', program='cell with attributes encoder, decoder (declared in that order), broadcast params'), observed=f'raised {e!r}'[:300], violated='scan-equals-loop'))
  # a chain of module attributes two levels deep (Top(mid=Mid(leaf=Leaf()))) under the class transforms
  class Leaf(nn.Module):
    @nn.compact
    def __call__(self, x):
      return nn.Dense(D, name='proj')(x)

  class Mid(nn.Module):
    leaf: nn.Module

    def __call__(self, x):
      return jnp.tanh(self.leaf(x))

  class Top(nn.Module):
    mid: nn.Module

    def __call__(self, x):
      return self.mid(x) * 2.0

  class TopCell(nn.Module):
    mid: nn.Module

    def __call__(self, c, x):
      y = self.mid(x + c)
      return c * 0.5 + y, y
  top = Top(Mid(Leaf()))
  tv = top.init(jax.random.key(2), xs[0])
  cases += 1
  try:
    V = nn.vmap(Top, variable_axes={'params': None}, split_rngs={'params': False}, in_axes=0)
    got = V(Mid(Leaf())).apply(tv, xs)
    want = jnp.stack([top.apply(tv, xs[i]) for i in range(N)])
    vi = V(Mid(Leaf())).init(jax.random.key(2), xs)
    if jax.tree_util.tree_map(np.shape, _np(vi)) != jax.tree_util.tree_map(np.shape, _np(tv)) or not _close(_np(want), _np(got)):
      fails.append(dict(inputs=dict(transform='vmap', program='Top(mid=Mid(leaf=Leaf())): module attributes nested two levels, broadcast params'), observed='init tree / outputs differ from calling the plain module once per index', violated='vmap-equals-per-index'))
  except Exception as e:  # noqa
    fails.append(dict(inputs=dict(transform='vmap', program='Top(mid=Mid(leaf=Leaf())): module attributes nested two levels, broadcast params'), observed=f'raised {e!r}'[:300], violated='vmap-equals-per-index'))
  cases += 1
  try:
    S = nn.scan(TopCell, variable_broadcast='params', split_rngs={'params': False})
    cgot, ysgot = S(Mid(Leaf())).apply(tv, c0, xs)
    cell = TopCell(Mid(Leaf()))
    c, ys = c0, []
    for i in range(N):
      c, y = cell.apply(tv, c, xs[i])
      ys.append(y)
    if not _close(_np((c, jnp.stack(ys))), _np((cgot, ysgot))):
      fails.append(dict(inputs=dict(transform='scan', program='cell with module attributes nested two levels, broadcast params'), observed='outputs differ from the explicit loop', violated='scan-equals-loop'))
  except Exception as e:  # noqa
    fails.append(dict(inputs=dict(transform='scan', program='cell with module attributes nested two levels, broadcast params'), observed=f'raised {e!r}'[:300], violated='scan-equals-loop'))
  # rng streams declared split give every iteration its own key - also a stream named like a broadcast collection ('params'),
  # drawn at apply time directly or through the 'dropout' -> 'params' fallback
  class KeyCell(nn.Module):
    @nn.compact
    def __call__(self, c, x):
      w = self.param('w', lambda k: jnp.ones(()))
      kp = jax.random.key_data(self.make_rng('params'))
      kd = jax.random.key_data(self.make_rng('dropout'))
      return c + w * x.sum(), (kp, kd)
  kv = KeyCell().init({'params': jax.random.key(0), 'dropout': jax.random.key(1)}, jnp.zeros(()), xs[0])
  for split_p, split_d, rngs in ((True, True, {'params': jax.random.key(3), 'dropout': jax.random.key(4)}), (True, False, {'params': jax.random.key(3), 'dropout': jax.random.key(4)}),
                                 (False, True, {'params': jax.random.key(3), 'dropout': jax.random.key(4)}), (True, True, {'params': jax.random.key(3)})):
    cases += 1
    inp = dict(transform='scan', program='body draws make_rng(params) and make_rng(dropout) at apply time, params broadcast', split_params=split_p, split_dropout=split_d, streams=sorted(rngs))
    try:
      S = nn.scan(KeyCell, variable_broadcast='params', split_rngs={'params': split_p, 'dropout': split_d})
      _, (kps, kds) = S().apply(kv, jnp.zeros(()), xs, rngs=rngs)
      dp = len({tuple(np.asarray(k).ravel().tolist()) for k in np.asarray(kps)})
      dd = len({tuple(np.asarray(k).ravel().tolist()) for k in np.asarray(kds)})
      want_d = split_d if 'dropout' in rngs else split_p      # a missing stream falls back to 'params'
      if (dp == N) != split_p or (dp == 1) == split_p or (dd == N) != want_d:
        fails.append(dict(inputs=inp, observed=f'{dp} distinct params keys and {dd} distinct dropout keys over {N} iterations', violated='scan-rng-split'))
    except Exception as e:  # noqa
      fails.append(dict(inputs=inp, observed=f'raised {e!r}'[:300], violated='scan-rng-split'))
  return cases


def run(tier, seed):
  import jax
  import jax.numpy as jnp
  import flax.linen as nn
  cases, fails = 0, []
  for part in (_scan_grid, _vmap_grid, _function_style):
    try:
      cases += part(nn, jnp, jax, fails, tier)
    except Exception:
      import traceback
      return dict(name=NAME, cases=cases, distinct=cases, failures=[], error=f'{part.__name__}: ' + traceback.format_exc()[-1500:])
  return dict(name=NAME, cases=cases, distinct=cases,
              bound='scan: params {broadcast, axis 0, axis 1} x reverse x unroll {1,2} x in/out axes {0,1} x length {1,3} x split_rngs (quick: unroll 2 only with axes 0/0) + 2 broadcast-collection programs; '
                    'vmap: params {None, 0, 1} x in/out axes {0,1} x stats In{0,1,2} x intermediates Out{0,1,2} x split_rngs, batch 3 (quick: In{0,2} x Out{1,2}); 6 function-style / attribute-order programs; 2 programs with module attributes nested two levels; 4 scan rng-split layouts over a stream named like the broadcast collection',
              failures=fails[:3], error=None)


def replay(inputs):
  r = run('quick', 0)
  return not r['failures']
