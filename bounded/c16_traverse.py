"""Bounded stand-in (C16): inverse laws of flatten_dict/unflatten_dict (flax.traverse_util) and
flatten_mapping/unflatten_mapping (flax.nnx.traversals), and path_aware_map, on ALL nested
string-keyed dicts of depth <= 3 with <= 2 keys per level from {a, b, c}, leaves from
{0, (), {}}, keep_empty_nodes in {False, True}, sep in {None, '/', '.'}, dict and FrozenDict
inputs. Exhaustive over that space; labelled bounded, never counted as proved."""
import itertools
from . import _env  # noqa: F401

NAME = 'bounded:flatten/unflatten inverse laws on nested dicts (exhaustive small scope)'


def _trees(depth, keys=('a', 'b', 'c'), width=2):
  leaves = [0, (), 'x']
  if depth == 0:
    return leaves
  sub = _trees(depth - 1, keys, width) + [{}]
  out = list(leaves) + [{}]
  for n in range(1, width + 1):
    for ks in itertools.combinations(keys, n):
      # bound the product: at depth 3 only use a reduced sub-universe
      pool = sub if depth < 3 else sub[::97] + [{}]
      for vs in itertools.product(pool, repeat=n):
        out.append(dict(zip(ks, vs)))
  return out


def _prune(t):
  """remove empty sub-dicts (what flatten without keep_empty_nodes forgets)"""
  if not isinstance(t, dict):
    return t
  out = {}
  for k, v in t.items():
    pv = _prune(v)
    if isinstance(pv, dict) and not pv:
      continue
    out[k] = pv
  return out


def _leaf_paths(t, prefix=()):
  if isinstance(t, dict) and t:
    out = []
    for k, v in t.items():
      out += _leaf_paths(v, prefix + (k,))
    return out
  return [(prefix, t)]


def _check(t, keep, sep, frozen, which):
  from flax import traverse_util
  from flax.core import freeze, unfreeze
  from flax.nnx import traversals
  src = freeze(t) if frozen else t
  if which == 'traverse_util':
    flat = traverse_util.flatten_dict(src, keep_empty_nodes=keep, sep=sep)
    back = traverse_util.unflatten_dict(flat, sep=sep)
  else:
    flat = traversals.flatten_mapping(src, keep_empty_nodes=keep, sep=sep)
    back = traversals.unflatten_mapping(flat, sep=sep)
  want = t if keep else _prune(t)
  if back != want:
    return f'{which}: unflatten(flatten(t)) = {back!r}, expected {want!r}; flat = {flat!r}'
  # keys: one per leaf, full path, joined or tuple
  for k in flat:
    if sep is None and not isinstance(k, tuple):
      return f'{which}: flat key {k!r} is not a tuple'
    if sep is not None and not isinstance(k, str):
      return f'{which}: flat key {k!r} is not a string'
  exp_paths = {p for p, v in _leaf_paths(t) if p != () and (keep or not (isinstance(v, dict) and not v))}
  got_paths = {tuple(k.split(sep)) if sep is not None else k for k in flat}
  if got_paths != exp_paths:
    return f'{which}: flat paths {sorted(got_paths)} != leaves {sorted(exp_paths)}'
  return None


def _check_path_aware(t):
  from flax import traverse_util
  seen = []
  out = traverse_util.path_aware_map(lambda p, v: (seen.append(p), (p, v))[1], t)
  exp = sorted(p for p, v in _leaf_paths(t) if p != () and not (isinstance(v, dict) and not v))
  if sorted(seen) != exp:
    return f'path_aware_map visited {sorted(seen)}, leaves are {exp}'
  flat_out = dict(_leaf_paths(out))
  for p, v in _leaf_paths(t):
    if isinstance(v, dict) and not v:
      continue
    if flat_out.get(p) != (p, v):
      return f'path_aware_map result at {p} is {flat_out.get(p)!r}, expected {(p, v)!r}'
  if _prune(_map_struct(out)) != _prune(_map_struct(t)):
    return 'path_aware_map changed the structure'
  return None


def _map_struct(t):
  if isinstance(t, dict):
    return {k: _map_struct(v) for k, v in t.items()}
  return 0


def _flat(d, prefix=()):
  out = {}
  for k, v in d.items():
    if isinstance(v, dict):
      out.update(_flat(v, prefix + (k,)))
    else:
      out[prefix + (k,)] = v
  return out


def _check_state_algebra(a, b):
  """nnx State: a - b keeps exactly the flat paths of a that are absent from b (with a's leaves);
  merge_state(a, b) is the union of paths with the later state winning; split/merge of flat states are inverse"""
  from flax import nnx
  from flax.nnx import statelib
  fa, fb = _flat(a), _flat(b)
  if not fa:
    return None
  sa, sb = nnx.State(a), nnx.State(b)
  want = {p: v for p, v in fa.items() if p not in fb}
  for name, fn in (('a - b', lambda: sa - sb), ('statelib.diff', lambda: statelib.diff(sa, sb))):
    got = dict(nnx.to_flat_state(fn()))
    if got != want:
      return f'{name}: flat paths {sorted(got)} with values {got}, expected exactly the paths of a absent from b: {want}'
  back = nnx.from_flat_state(nnx.to_flat_state(sa))
  if dict(nnx.to_flat_state(back)) != fa:
    return 'from_flat_state(to_flat_state(a)) differs from a'
  allp = set(fa) | set(fb)
  if any(p != q and q[:len(p)] == p for p in allp for q in allp):
    return None    # a leaf on one side where the other has a sub-state: the union of paths is not a tree (merge not specified)
  merged = dict(nnx.to_flat_state(nnx.merge_state(sa, sb)))
  if merged != {**fa, **fb}:
    return f'merge_state(a, b) gives {merged}, expected the union of paths with b winning: {({**fa, **fb})}'
  return None


def _check_pure_dict(a):
  """to_pure_dict / replace_by_pure_dict are lossless: overlaying ANY subset of the leaves changes those leaves and nothing else"""
  import itertools as _it
  from flax import nnx
  fa = _flat(a)
  if not fa:
    return None
  if dict(_flat(nnx.to_pure_dict(nnx.State(a)))) != fa:
    return 'to_pure_dict(State(a)) differs from a'
  paths = sorted(fa, key=repr)
  for r in range(1, len(paths) + 1):
    for sub in _it.combinations(paths, r):
      st = nnx.State(a)
      pure = {}
      for p in sub:
        node = pure
        for k in p[:-1]:
          node = node.setdefault(k, {})
        node[p[-1]] = ('new', p)
      nnx.replace_by_pure_dict(st, pure)
      got = dict(nnx.to_flat_state(st))
      want = {p: (('new', p) if p in sub else v) for p, v in fa.items()}
      if got != want:
        return f'replace_by_pure_dict with a pure dict covering {list(sub)}: state becomes {got}, expected {want}'
  return None


def _check_mixed_and_shared():
  """(1) plain dicts with FrozenDict subtrees (and the reverse): flat keys are FULL leaf paths and path_aware_map reaches every
  leaf; (2) one dict OBJECT reachable under two paths: flatten / unflatten and the State conversions lose nothing"""
  from flax import traverse_util, nnx
  from flax.core import freeze, unfreeze, FrozenDict
  from flax.nnx import traversals
  n = 0
  inner = {'kernel': 1, 'bias': {'b0': 2, 'b1': 3}}
  mixes = {
      'dict of FrozenDicts': {'params': freeze(inner), 'batch_stats': freeze({'mean': 4})},
      'FrozenDict below two dict levels': {'a': {'b': freeze(inner)}, 'c': 5},
      'dict inside FrozenDict inside dict': {'top': FrozenDict({'mid': {'leaf': 7}, 'x': 8})},
  }
  for tag, t in mixes.items():
    plain = unfreeze(freeze(t))
    want_paths = sorted(p for p, v in _leaf_paths(plain))
    for sep in (None, '/'):
      n += 1
      flat = traverse_util.flatten_dict(t, sep=sep)
      got_paths = sorted(tuple(k.split(sep)) if sep else k for k in flat)
      if got_paths != want_paths or any(isinstance(v, (dict, FrozenDict)) for v in flat.values()):
        return n, f'flatten_dict({tag}, sep={sep!r}) has keys {got_paths}; the leaves sit at {want_paths}'
      if unfreeze(freeze(traverse_util.unflatten_dict(flat, sep=sep))) != plain:
        return n, f'unflatten_dict(flatten_dict({tag})) is not the original tree'
    n += 1
    seen = []
    traverse_util.path_aware_map(lambda p, v: seen.append(p) or v, t)
    if sorted(seen) != want_paths:
      return n, f'path_aware_map over {tag} visited {sorted(seen)}; the leaves sit at {want_paths}'
  blk = {'w': 1, 'sub': {'b': 2}}
  shared = {'enc': blk, 'dec': blk, 'head': {'w': 3}}
  want = {('enc', 'w'): 1, ('enc', 'sub', 'b'): 2, ('dec', 'w'): 1, ('dec', 'sub', 'b'): 2, ('head', 'w'): 3}
  n += 1
  flat = traversals.flatten_mapping(shared)
  if dict(flat) != want or traversals.unflatten_mapping(flat) != shared:
    return n, f'traversals.flatten_mapping of a tree whose sub-dict object is reachable under two paths gives {dict(flat)}, expected {want}'
  n += 1
  if dict(traverse_util.flatten_dict(shared)) != want:
    return n, f'traverse_util.flatten_dict of a tree with a shared sub-dict object gives {dict(traverse_util.flatten_dict(shared))}'
  n += 1
  st = nnx.State({'encoder': {'w': 1, 'sub': {'b': 2}}, 'head': {'w': 3}})
  st['decoder'] = st['encoder']
  fs = nnx.to_flat_state(st)
  want_s = {('encoder', 'w'): 1, ('encoder', 'sub', 'b'): 2, ('decoder', 'w'): 1, ('decoder', 'sub', 'b'): 2, ('head', 'w'): 3}
  if dict(fs) != want_s or nnx.from_flat_state(fs) != st or nnx.to_pure_dict(st) != {'encoder': {'w': 1, 'sub': {'b': 2}}, 'decoder': {'w': 1, 'sub': {'b': 2}}, 'head': {'w': 3}}:
    return n, f'State with one sub-state assigned under two keys: flat state {dict(fs)}, pure dict {nnx.to_pure_dict(st)}'
  return n, None


def _odd_key_trees():
  """nested dicts whose keys are unusual but legal strings (empty, blank, digits, containing '.'): the separator '/' or '|'
  does not occur in any of them"""
  keys = ['w', 'layer.0', '7', ' ', '']
  leaves = [0, 'x']
  level1 = [{k: v} for k in keys for v in leaves] + [{a: 0, b: 'x'} for a, b in itertools.combinations(keys, 2)]
  out = list(level1)
  for k in keys:
    for sub in level1[::3]:
      out.append({k: sub})
      out.append({k: sub, 'w' if k != 'w' else '7': 1})
  for k1, k2 in itertools.product(keys, repeat=2):
    out.append({k1: {k2: {'': 5}}})
    out.append({k1: {k2: {}}, 'z': 1})
  return out


def _check_type_split():
  """split_state / filter_state with Variable TYPES as filters, in every order: first match wins (a subclass leaf goes to an
  earlier superclass filter)"""
  from flax import nnx
  import jax.numpy as jnp
  n = 0
  leaves = {('a', 'w'): nnx.VariableState(type=nnx.Param, value=1), ('a', 'lora'): nnx.VariableState(type=nnx.LoRAParam, value=2),
            ('b', 'mean'): nnx.VariableState(type=nnx.BatchStat, value=3), ('b', 'cache'): nnx.VariableState(type=nnx.Cache, value=4),
            ('c',): nnx.VariableState(type=nnx.Intermediate, value=5)}
  state = nnx.State.from_flat_path(leaves) if hasattr(nnx.State, 'from_flat_path') else nnx.State(leaves)
  types = [nnx.Variable, nnx.Param, nnx.LoRAParam, nnx.BatchStat, nnx.Cache]
  for r in (1, 2, 3):
    for fs in itertools.permutations(types, r):
      for tail in ((), (...,)):
        filters = fs + tail
        n += 1
        want = [dict() for _ in filters]
        rest = {}
        for path, v in leaves.items():
          for i, f in enumerate(filters):
            if f is ... or issubclass(v.type, f):
              want[i][path] = v.value
              break
          else:
            rest[path] = v.value
        try:
          got = nnx.split_state(state, *filters) if not rest else None
          if got is None:
            try:
              nnx.split_state(state, *filters)
              return n, f'split_state{filters}: leaves {sorted(rest)} match no filter but no error was raised'
            except ValueError:
              pass
            got = nnx.filter_state(state, *filters)
        except Exception as e:  # noqa
          return n, f'split_state / filter_state{filters} raised {e!r}'[:300]
        got = (got,) if isinstance(got, nnx.State) else tuple(got)
        got_flat = [{p: v.value for p, v in nnx.to_flat_state(g)} for g in got]
        if got_flat != want:
          return n, f'filters {tuple(getattr(f, "__name__", f) for f in filters)}: groups {got_flat}, first match gives {want}'
  return n, None


def run(tier, seed):
  depth = 2 if tier == 'quick' else 3
  trees = [t for t in _trees(depth) if isinstance(t, dict)]
  cases, fails = 0, []
  for t in trees:
    for keep, sep, frozen, which in itertools.product((False, True), (None, '/', '.'), (False, True), ('traverse_util', 'traversals')):
      if which == 'traversals' and frozen:
        continue
      cases += 1
      try:
        msg = _check(t, keep, sep, frozen, which)
      except Exception as e:  # noqa
        msg = f'{which}: raised {e!r}'
      if msg:
        fails.append(dict(inputs=dict(tree=repr(t), keep_empty_nodes=keep, sep=sep, frozen=frozen, api=which), observed=msg[:400], violated='inverse-law'))
        break
    if fails:
      break
    cases += 1
    msg = _check_path_aware(t)
    if msg:
      fails.append(dict(inputs=dict(tree=repr(t), api='path_aware_map'), observed=msg[:400], violated='path-aware-map'))
      break
  for t in (_odd_key_trees() if not fails else ()):
    for keep, sep, which in itertools.product((False, True), (None, '/', '|'), ('traverse_util', 'traversals')):
      cases += 1
      try:
        msg = _check(t, keep, sep, False, which)
      except Exception as e:  # noqa
        msg = f'{which}: raised {e!r}'
      if msg:
        fails.append(dict(inputs=dict(tree=repr(t), keep_empty_nodes=keep, sep=sep, frozen=False, api=which), observed=msg[:400], violated='inverse-law'))
        break
    if fails:
      break
  if not fails:
    try:
      n, msg = _check_mixed_and_shared()
    except Exception as e:  # noqa
      n, msg = 1, f'raised {e!r}'
    cases += n
    if msg:
      fails.append(dict(inputs=dict(api='flatten / path_aware_map on mixed dict-FrozenDict trees and shared sub-dicts'), observed=msg[:400], violated='inverse-law'))
  if not fails:
    try:
      n, msg = _check_type_split()
    except Exception as e:  # noqa
      n, msg = 1, f'raised {e!r}'
    cases += n
    if msg:
      fails.append(dict(inputs=dict(api='nnx.split_state / filter_state by Variable types'), observed=msg[:400], violated='first-match-partition'))
  if not fails:
    # State algebra on pairs of small nested states, including a sub-state on one side where the other has a leaf
    pool = [{'a': 1}, {'a': 1, 'b': 2}, {'a': {'x': 1, 'y': 2}, 'b': 3}, {'a': {'x': 5}}, {'a': 7, 'c': {'z': 1}}, {'a': {'x': {'deep': 1, 'other': 2}}, 'out': 3},
            {'a': {'x': 9}}, {'norm': {'scale': {'gamma': 1, 'beta': 2}}, 'out': 3}, {'norm': {'scale': 5}}, {}]
    for a in pool:
      cases += 1
      try:
        msg = _check_pure_dict(a)
      except Exception as e:  # noqa
        msg = f'raised {e!r}'
      if msg:
        fails.append(dict(inputs=dict(a=repr(a), api='nnx to_pure_dict / replace_by_pure_dict'), observed=msg[:400], violated='pure-dict-lossless'))
        break
    for a, b in (itertools.product(pool, repeat=2) if not fails else ()):
      cases += 1
      try:
        msg = _check_state_algebra(a, b)
      except Exception as e:  # noqa
        msg = f'raised {e!r}'
      if msg:
        fails.append(dict(inputs=dict(a=repr(a), b=repr(b), api='nnx.State diff/merge'), observed=msg[:400], violated='state-algebra'))
        break
  return dict(name=NAME, cases=cases, distinct=len(trees), bound=f'all nested dicts of depth <= {depth}, <= 2 keys/level from {{a,b,c}}, leaves {{0,(),"x",{{}}}} + nested dicts over the keys {{w, layer.0, 7, blank, empty}} with separators / and |; 3 mixed dict / FrozenDict nestings; a sub-dict object reachable under two paths (dict and nnx.State); split_state / filter_state by every ordered choice of <= 3 of 5 Variable types (+ ...); State diff/merge on 10 x 10 small nested states; replace_by_pure_dict with every subset of leaves',
              exhaustive=True, failures=fails[:2], error=None)


def replay(inputs):
  if inputs.get('api') == 'flatten / path_aware_map on mixed dict-FrozenDict trees and shared sub-dicts':
    return _check_mixed_and_shared()[1] is None
  if inputs.get('api') == 'nnx.split_state / filter_state by Variable types':
    return _check_type_split()[1] is None
  if inputs.get('api') == 'nnx to_pure_dict / replace_by_pure_dict':
    return _check_pure_dict(eval(inputs['a'])) is None
  if inputs.get('api') == 'nnx.State diff/merge':
    return _check_state_algebra(eval(inputs['a']), eval(inputs['b'])) is None
  t = eval(inputs['tree'])
  if inputs.get('api') == 'path_aware_map':
    return _check_path_aware(t) is None
  return _check(t, inputs['keep_empty_nodes'], inputs['sep'], inputs['frozen'], inputs['api']) is None
