"""Bounded stand-in (C14 NNX part, also C16/C03): real nnx filters against a reference
denotation, and real split_state / FlatState.split against a reference first-match partition
(including "loses and duplicates nothing", which the deductive part does not prove).
Exhaustive over filter expressions of nesting depth <= 2 built from a fixed atom set; labelled
bounded, never counted as proved."""
import itertools
from . import _env  # noqa: F401

NAME = 'bounded:nnx filters denotation + first-match split (exhaustive small scope)'


def _setup():
  from flax import nnx
  atoms = [
    ('tag', 't1'), ('tag', 't2'), ('type', nnx.Param), ('type', nnx.BatchStat), ('pathc', 'a'),
    ('pathin', (('a', 'w'),)), ('const', True), ('const', False), ('const', None), ('const', ...),
  ]
  return nnx, atoms


def _build(nnx, e):
  k = e[0]
  if k == 'tag':
    return e[1]
  if k == 'type':
    return e[1]
  if k == 'pathc':
    return nnx.PathContains(e[1])
  if k == 'pathin':
    return nnx.filterlib.PathIn(*e[1])
  if k == 'const':
    return e[1]
  if k == 'any':
    return nnx.Any(*[_build(nnx, x) for x in e[1]])
  if k == 'all':
    return nnx.All(*[_build(nnx, x) for x in e[1]])
  if k == 'not':
    return nnx.Not(_build(nnx, e[1]))
  if k == 'seq':
    return tuple(_build(nnx, x) for x in e[1])
  if k == 'list':
    return [_build(nnx, x) for x in e[1]]
  raise ValueError(k)


def _ref(nnx, e, path, x):
  k = e[0]
  if k == 'tag':
    return getattr(x, 'tag', None) == e[1] and hasattr(x, 'tag')
  if k == 'type':
    return isinstance(x, e[1]) or (hasattr(x, 'type') and issubclass(x.type, e[1]))
  if k == 'pathc':
    return e[1] in path
  if k == 'pathin':
    return path in e[1]
  if k == 'const':
    return e[1] is True or e[1] is ...
  if k in ('any', 'seq', 'list'):
    return any(_ref(nnx, s, path, x) for s in e[1])
  if k == 'all':
    return all(_ref(nnx, s, path, x) for s in e[1])
  if k == 'not':
    return not _ref(nnx, e[1], path, x)
  raise ValueError(k)


def _exprs(atoms, depth):
  level = list(atoms)
  out = list(level)
  for _ in range(depth):
    nxt = []
    pool = level[:6] + [a for a in atoms if a[0] == 'const'][:2]
    for a, b in itertools.product(pool, repeat=2):
      for k in ('any', 'all', 'seq', 'list'):
        nxt.append((k, (a, b)))
    # a combinator given exactly ONE argument that is itself a sequence: the sequence is one filter ("any of its elements")
    for a, b in itertools.product(pool[:4], repeat=2):
      for k in ('all', 'any'):
        nxt.append((k, (('seq', (a, b)),)))
        nxt.append((k, (('list', (a, b)),)))
      nxt.append(('all', (('seq', (a, b, atoms[2])),)))
    for k in ('all', 'any'):
      nxt.append((k, (('seq', ()),)))
      nxt.append((k, (('list', ()),)))
    for a in pool:
      nxt.append(('not', a))
      nxt.append(('all', (a, ('seq', (atoms[0], atoms[2])))))   # a sequence nested directly inside All
      nxt.append(('any', (a, ('list', (atoms[1], atoms[4])))))
    out += nxt
    level = nxt[:40]
  return out


def _values(nnx):
  vs = []
  for typ, tag in [(nnx.Param, 't1'), (nnx.Param, 't2'), (nnx.BatchStat, 't1'), (nnx.BatchStat, None)]:
    kw = {} if tag is None else {'tag': tag}
    vs.append(nnx.VariableState(type=typ, value=len(vs), **kw))
  return vs


def run(tier, seed):
  nnx, atoms = _setup()
  exprs = _exprs(atoms, 1 if tier == 'quick' else 2)
  vals = _values(nnx)
  probes = [(('a', 'w'), vals[0]), (('b', 'w'), vals[1]), (('a', 'stats'), vals[2]), (('c',), vals[3])]
  cases, fails = 0, []
  for e in exprs:
    try:
      pred = nnx.filterlib.to_predicate(_build(nnx, e))
    except Exception as ex:  # noqa
      fails.append(dict(inputs=dict(filter=repr(e)), observed=f'to_predicate raised {ex!r}'[:300], violated='denotation'))
      break
    for path, x in probes:
      cases += 1
      got, want = bool(pred(path, x)), bool(_ref(nnx, e, path, x))
      if got != want:
        fails.append(dict(inputs=dict(filter=repr(e), path=path, value=repr(x)), observed=f'predicate gives {got}, documented meaning gives {want}', violated='denotation'))
        break
    if fails:
      break
  # first-match partition, nothing lost or duplicated
  if not fails:
    flat = nnx.statelib.FlatState(list(probes), sort=False)
    pool = [e for e in exprs if e[0] != 'const'][:60]
    for fs in itertools.chain(((a,) for a in pool), itertools.product(pool[:14], repeat=2), ((a, b, ('const', ...)) for a, b in itertools.product(pool[:6], repeat=2)),
                              # several trailing catch-alls: the FIRST one takes what is left, the later ones stay empty
                              ((a, ('const', ...), ('const', ...)) for a in pool[:8]), ((a, ('const', True), ('const', ...)) for a in pool[:8]),
                              ((a, b, ('const', True), ('const', True), ('const', ...)) for a, b in itertools.product(pool[:4], repeat=2)),
                              [(('const', ...), ('const', ...)), (('const', True), ('const', ...))]):
      cases += 1
      try:
        groups = nnx.statelib._split_state(flat, *[_build(nnx, f) for f in fs])
      except Exception as ex:  # noqa
        fails.append(dict(inputs=dict(filters=repr(fs)), observed=f'_split_state raised {ex!r}'[:300], violated='first-match-partition'))
        break
      want = [[] for _ in range(len(fs) + 1)]
      for path, x in probes:
        for i, f in enumerate(fs):
          if _ref(nnx, f, path, x):
            want[i].append(path)
            break
        else:
          want[-1].append(path)
      got = [[p for p, _ in g] for g in groups]
      if got != want:
        fails.append(dict(inputs=dict(filters=repr(fs)), observed=f'split gives {got}, first-match partition is {want}', violated='first-match-partition'))
        break
      # variablelib.split_flat_state: the same partition without a remainder group - a leaf matched by no filter is an error
      for order in (list(probes), list(reversed(probes))):
        want2 = [[] for _ in fs]
        unmatched = False
        for path, x in order:
          for i, f in enumerate(fs):
            if _ref(nnx, f, path, x):
              want2[i].append(path)
              break
          else:
            unmatched = True
        try:
          g2 = nnx.variablelib.split_flat_state(order, tuple(_build(nnx, f) for f in fs))
          got2 = [[p for p, _ in g] for g in g2]
          if unmatched:
            fails.append(dict(inputs=dict(filters=repr(fs), fn='variablelib.split_flat_state'), observed='a leaf matched by no filter did not raise', violated='first-match-partition'))
          elif got2 != want2:
            fails.append(dict(inputs=dict(filters=repr(fs), fn='variablelib.split_flat_state', leaf_order=[p for p, _ in order]), observed=f'split_flat_state gives {got2}, first-match partition is {want2}', violated='first-match-partition'))
        except ValueError:
          if not unmatched:
            fails.append(dict(inputs=dict(filters=repr(fs), fn='variablelib.split_flat_state'), observed='raised ValueError although every leaf is matched by some filter', violated='first-match-partition'))
        if fails:
          break
      if fails:
        break
  return dict(name=NAME, cases=cases, distinct=len(exprs), bound=f'{len(exprs)} filter expressions (nesting depth <= {1 if tier == "quick" else 2}) x 4 probes; splits by 1-5 filters incl. several trailing catch-alls',
              failures=fails[:2], error=None)


def replay(inputs):
  r = run('quick', 0)
  return not r['failures']
