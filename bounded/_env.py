"""Environment shim shared by the bounded stand-ins: the installed jax (0.11.2) removed
jax.core.get_opaque_trace_state, which this flax version calls when constructing Linen scopes and
nnx Variables. The alias changes jax, not flax."""
import os
os.environ.setdefault('JAX_PLATFORMS', 'cpu')
import jax  # noqa: E402
import jax.extend.core  # noqa: E402

if not hasattr(jax.core, 'get_opaque_trace_state'):
  jax.core.get_opaque_trace_state = jax.extend.core.get_opaque_trace_state
