"""Environment shim shared by the bounded stand-ins: the installed jax (0.11.2) removed
jax.core.get_opaque_trace_state, which this flax version calls when constructing Linen scopes and
nnx Variables. The alias changes jax, not flax."""
import os
os.environ.setdefault('JAX_PLATFORMS', 'cpu')
# several host devices, so that pmap / pad_shard_unpad have something to shard over (C20)
if 'xla_force_host_platform_device_count' not in os.environ.get('XLA_FLAGS', ''):
  os.environ['XLA_FLAGS'] = (os.environ.get('XLA_FLAGS', '') + ' --xla_force_host_platform_device_count=4').strip()
import jax  # noqa: E402
import jax.extend.core  # noqa: E402

if not hasattr(jax.core, 'get_opaque_trace_state'):
  jax.core.get_opaque_trace_state = jax.extend.core.get_opaque_trace_state

# the installed jax also dropped the (long deprecated) `concrete` argument of jax.remat, which
# flax.core.lift.checkpoint still passes (always False unless the user asks otherwise)
import functools  # noqa: E402
import inspect  # noqa: E402

if 'concrete' not in inspect.signature(jax.remat).parameters:
  _remat = jax.remat

  @functools.wraps(_remat)
  def _remat_compat(fun, *, concrete=False, **kw):
    if concrete:
      raise NotImplementedError('jax.remat(concrete=True) is not available in the installed jax')
    return _remat(fun, **kw)
  jax.remat = _remat_compat

# jax.device_put_sharded / device_put_replicated were removed from the installed jax; flax.jax_utils.prefetch_to_device and
# replicate still call them. A stand-in that stacks the per-device shards (enough to run the iterator logic on CPU).
if not hasattr(jax, 'device_put_sharded'):
  import numpy as _np

  def _device_put_sharded(shards, devices):
    return jax.device_put(_np.stack([_np.asarray(s) for s in shards]))
  jax.device_put_sharded = _device_put_sharded
