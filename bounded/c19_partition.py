"""Bounded stand-in (C19): partition metadata stays aligned with the array axes under the real
nn.scan / nn.vmap (Linen boxes, metadata_params) and nnx.vmap / nnx.scan (transform_metadata):

  * Linen: the partition name is inserted at the stacking axis k in {0,1,2} for boxed params, with the
    other collections declared as plain / In / Out axes in both dict orders; get_partition_spec returns the
    same names; feeding the variables back in works (remove_axis finds the name where it was put); nested
    scan-in-vmap and vmap-in-scan;
  * NNX: Variables with a full, partial or empty sharding tuple, stacked at every axis 0..rank: the name sits
    at the stacking axis, missing positions are padded with None, un-stacking restores the original tuple;
  * logical_to_mesh_axes: rule priority and no mesh axis twice on a grid of rules.

Labelled bounded: never counted as proved."""
import itertools
import numpy as np
from . import _env  # noqa: F401

NAME = 'bounded:partition names vs stacking axes under linen/nnx scan and vmap; logical_to_mesh_axes (grid)'
L, B, DIN, DOUT = 3, 5, 4, 2


def _linen(fails):
  import jax
  import jax.numpy as jnp
  import flax.linen as nn
  from flax.core import meta
  from flax.core.lift import In, Out
  P = jax.sharding.PartitionSpec
  cases = 0

  class Layer(nn.Module):
    @nn.compact
    def __call__(self, c, _):
      w = self.param('w', nn.with_partitioning(nn.initializers.lecun_normal(), ('in', 'out')), (DIN, DIN))
      s = self.get_variable('consts', 'scale') if self.has_variable('consts', 'scale') else 1.0
      y = jnp.tanh(c @ w) * s
      self.sow('acts', 'mean', y.mean())
      return y, None

  def boxes(tree):
    return jax.tree_util.tree_leaves(tree, is_leaf=lambda x: isinstance(x, meta.Partitioned))

  def aligned(variables, expected):
    ps = nn.get_partition_spec(variables)
    for box, spec in zip(boxes(variables['params']), boxes(ps['params'])):
      names, shape = tuple(box.names), box.value.shape
      if len(names) != len(shape):
        return f'names {names} do not have one entry per dimension of {shape}'
      if spec != P(*names):
        return f'get_partition_spec gives {spec}, the box says {names}'
      for name, size in expected.items():
        want = shape.index(size)
        got = names.index(name) if name in names else None
        if got != want:
          return f'{name!r} is at position {got} of {names}, the array {shape} was stacked along axis {want}'
      if tuple(n for n in names if n not in expected) != ('in', 'out'):
        return f'original names disturbed: {names}'
    return None

  def scan_model(vaxes):
    class Model(nn.Module):
      @nn.compact
      def __call__(self, x):
        S = nn.scan(Layer, variable_axes=vaxes, split_rngs={'params': True}, length=L, metadata_params={nn.PARTITION_NAME: 'layers'})
        return S(name='stack')(x, None)[0]
    return Model()
  x = jnp.ones((2, DIN))
  for k in (0, 1, 2):
    variants = {
      'plain': {'params': k},
      'acts-out-first': {'acts': Out(0), 'params': k},
      'consts-in-first': {'consts': In(0), 'params': k, 'acts': Out(0)},
      'consts-in-other-axis-first': {'consts': In((k + 1) % 2), 'params': k},
      'params-first': {'params': k, 'consts': In(0), 'acts': Out(0)},
    }
    for vname, vaxes in variants.items():
      cases += 1
      inp = dict(api='linen.scan', stacking_axis=k, variable_axes=vname)
      try:
        m = scan_model(vaxes)
        variables = {'params': m.init(jax.random.key(0), x)['params']}
        msg = aligned(variables, {'layers': L})
        if msg:
          fails.append(dict(inputs=inp, observed=msg, violated='name-at-stacking-axis'))
          return cases
        if 'consts' in vaxes:
          ax = vaxes['consts'].axis
          variables = {**variables, 'consts': {'stack': {'scale': jnp.moveaxis(jnp.arange(1.0, L + 1).reshape(L, 1), 0, ax) if ax else jnp.arange(1.0, L + 1)}}}
          if ax:
            variables['consts']['stack']['scale'] = jnp.moveaxis(jnp.broadcast_to(jnp.arange(1.0, L + 1)[:, None], (L, 1)), 0, ax)
        y = m.apply(variables, x, mutable=['acts'])[0]      # feeding the stacked, named variables back in
        w = np.moveaxis(np.asarray(meta.unbox(variables)['params']['stack']['w']), k, 0)
        ref = np.asarray(x)
        for i in range(L):
          ref = np.tanh(ref @ w[i]) * (i + 1.0 if 'consts' in vaxes else 1.0)
        if not np.allclose(np.asarray(y), ref, atol=1e-4):
          fails.append(dict(inputs=inp, observed='boxed variables do not compute like their raw arrays (output differs from the loop over the stacked slices)', violated='boxed-equals-raw'))
          return cases
      except Exception as e:  # noqa
        fails.append(dict(inputs=inp, observed=f'raised {type(e).__name__}: {e}'[:300], violated='name-at-stacking-axis'))
        return cases
  # a variable whose value is a CONTAINER of boxed arrays keeps its boxes when raw arrays are assigned to it
  cases += 1

  class Stats(nn.Module):
    @nn.compact
    def __call__(self, x):
      s = self.variable('stats', 's', lambda: {'mean': meta.Partitioned(jnp.zeros((DIN,)), names=('feat',)), 'count': meta.Partitioned(jnp.zeros(()), names=())})
      if not self.is_initializing():
        s.value = {'mean': s.value['mean'] + x.mean(0), 'count': s.value['count'] + 1.0}
      return x
  vs0 = Stats().init(jax.random.key(0), x)
  _, upd = Stats().apply(vs0, x, mutable=['stats'])
  bx = upd['stats']['s']
  if not (isinstance(bx['mean'], meta.Partitioned) and isinstance(bx['count'], meta.Partitioned) and tuple(bx['mean'].names) == ('feat',)):
    fails.append(dict(inputs=dict(api='linen Variable.value setter', value='dict of Partitioned arrays assigned raw arrays'),
                      observed=f'after the assignment the variable holds {jax.tree_util.tree_map(lambda v: type(v).__name__, bx, is_leaf=lambda v: isinstance(v, meta.Partitioned))}: the boxes (and their axis names) are gone', violated='boxes-kept'))
    return cases
  if not np.allclose(np.asarray(bx['count'].value), 1.0) or nn.get_partition_spec(upd)['stats']['s']['mean'] != P('feat'):
    fails.append(dict(inputs=dict(api='linen Variable.value setter', value='dict of Partitioned arrays assigned raw arrays'), observed='values / partition spec wrong after the assignment', violated='boxes-kept'))
    return cases
  # nested: scan inside vmap and vmap inside scan
  for outer, ks, kv in itertools.product(('vmap', 'scan'), (0, 1), (0, 2)):
    cases += 1
    inp = dict(api=f'linen scan/vmap nested, outer={outer}', scan_axis=ks, vmap_axis=kv)

    class Nest(nn.Module):
      @nn.compact
      def __call__(self, x):
        if outer == 'vmap':
          inner = nn.scan(Layer, variable_axes={'params': ks, 'acts': Out(0)}, split_rngs={'params': True}, length=L, metadata_params={nn.PARTITION_NAME: 'layers'})
          mod = nn.vmap(inner, variable_axes={'params': kv, 'acts': Out(0)}, split_rngs={'params': True}, in_axes=(0, None), metadata_params={nn.PARTITION_NAME: 'batch'})
        else:
          inner = nn.vmap(Layer, variable_axes={'params': kv, 'acts': Out(0)}, split_rngs={'params': True}, in_axes=(0, None), metadata_params={nn.PARTITION_NAME: 'batch'})
          mod = nn.scan(inner, variable_axes={'params': ks, 'acts': Out(0)}, split_rngs={'params': True}, length=L, metadata_params={nn.PARTITION_NAME: 'layers'})
        return mod(name='m')(x, None)[0]
    try:
      xs = jnp.ones((B, 2, DIN))
      variables = {'params': Nest().init(jax.random.key(0), xs)['params']}
      msg = aligned(variables, {'layers': L, 'batch': B})
      if msg:
        fails.append(dict(inputs=inp, observed=msg, violated='name-at-stacking-axis'))
        return cases
      Nest().apply(variables, xs, mutable=['acts'])
    except Exception as e:  # noqa
      fails.append(dict(inputs=inp, observed=f'raised {type(e).__name__}: {e}'[:300], violated='name-at-stacking-axis'))
      return cases
  return cases


def _nnx(fails):
  import jax.numpy as jnp
  from flax import nnx
  cases = 0
  for rank in (1, 2, 3):
    shape = (2, 3, 4)[:rank]
    names = ('a', 'b', 'c')[:rank]
    for nsh in range(0, rank + 1):
      sharding = names[:nsh]
      for axis in range(0, rank + 1):
        for kind in ('vmap', 'scan'):
          cases += 1
          inp = dict(api=f'nnx.{kind}', shape=list(shape), sharding=list(sharding), stacking_axis=axis)

          class M(nnx.Module):
            def __init__(self):
              self.w = nnx.Param(jnp.ones(shape), sharding=sharding)
          try:
            sa = nnx.StateAxes({nnx.Param: axis})
            if kind == 'vmap':
              mk = nnx.vmap(lambda: M(), in_axes=(), out_axes=sa, axis_size=7, transform_metadata={nnx.PARTITION_NAME: 'layers'})
            else:
              mk = lambda: nnx.scan(lambda c: (c, M()), in_axes=(nnx.Carry,), out_axes=(nnx.Carry, sa), length=7, transform_metadata={nnx.PARTITION_NAME: 'layers'})(jnp.zeros(()))[1]
            m = mk()
            got = tuple(m.w.sharding)
            want = list(sharding) + [None] * max(0, axis - len(sharding))
            want.insert(axis, 'layers')
            if m.w.value.shape != tuple(np.insert(np.array(shape), axis, 7)) or got != tuple(want):
              fails.append(dict(inputs=inp, observed=f'stacked Variable has shape {m.w.value.shape} and sharding {got}; the name belongs at position {axis}: {tuple(want)}', violated='name-at-stacking-axis'))
              return cases
            # un-stacking through a transform over the same axis restores the original tuple
            seen = []

            def peek(mod):
              seen.append(tuple(mod.w.sharding))
              return jnp.zeros(())
            if kind == 'vmap':
              nnx.vmap(peek, in_axes=(sa,), out_axes=0, transform_metadata={nnx.PARTITION_NAME: 'layers'})(m)
            else:
              nnx.scan(lambda c, mod: (c, peek(mod)), in_axes=(nnx.Carry, sa), out_axes=(nnx.Carry, 0), transform_metadata={nnx.PARTITION_NAME: 'layers'})(jnp.zeros(()), m)
            padded = tuple(list(sharding) + [None] * max(0, axis - len(sharding)))
            if seen and seen[0] != padded:
              fails.append(dict(inputs=inp, observed=f'inside the transform the per-slice sharding is {seen[0]}, expected {padded}', violated='unstack-restores'))
              return cases
            if tuple(m.w.sharding) != tuple(want):
              fails.append(dict(inputs=inp, observed=f'after the transform the stacked sharding is {tuple(m.w.sharding)}, expected {tuple(want)} again', violated='unstack-restores'))
              return cases
          except Exception as e:  # noqa
            fails.append(dict(inputs=inp, observed=f'raised {type(e).__name__}: {e}'[:300], violated='name-at-stacking-axis'))
            return cases
  return cases


def _nnx_rules(fails):
  """nnx.get_partition_spec with sharding rules: a name with a rule is translated, every other name (e.g. the partition name a
  transform inserted) is passed through unchanged"""
  import jax
  import jax.numpy as jnp
  from flax import nnx
  P = jax.sharding.PartitionSpec
  cases = 0
  for sharding, rules, want in (
      (('a', 'layers'), (('a', 'X'),), ('X', 'layers')),
      (('layers', 'a', None), (('a', 'X'), ('b', 'Y')), ('layers', 'X', None)),
      (('a', 'b'), (('a', 'X'), ('b', 'Y')), ('X', 'Y')),
      (('a', 'b'), (), ('a', 'b')),
      (('c',), (('a', 'X'),), ('c',))):
    cases += 1

    class M(nnx.Module):
      def __init__(self):
        self.w = nnx.Param(jnp.ones((2,) * len(sharding)), sharding=sharding, sharding_rules=rules)
    spec = nnx.get_partition_spec(nnx.state(M()))
    got = spec['w'].value if hasattr(spec['w'], 'value') else spec['w']
    if got != P(*want):
      fails.append(dict(inputs=dict(api='nnx.get_partition_spec', sharding=list(sharding), sharding_rules=[list(r) for r in rules]), observed=f'{got} instead of {P(*want)}', violated='partition-spec-names'))
      return cases
  return cases


def _logical(fails):
  import flax.linen as nn
  from flax.linen import spmd
  cases = 0
  logical = ('batch', 'embed', 'heads', None)
  mesh = ('X', 'Y', ('X', 'Y'), None)
  rule_pool = [(l, m) for l in logical[:3] for m in mesh]
  for names in (('batch', 'embed'), ('embed', 'batch', 'heads'), ('batch', None, 'embed'), ('heads',)):
    for rules in itertools.permutations(rule_pool, 3):
      cases += 1
      res = spmd._logical_to_mesh_axes(names, rules)
      # reference: rules in priority order; a rule applies to an unassigned dimension when none of its mesh axes is taken
      ref = [spmd._unassigned_axis if isinstance(n, str) else n for n in names]
      taken = set()
      for l, m in rules:
        if l in names:
          pos = names.index(l)
          axes = set() if m is None else ({m} if isinstance(m, str) else set(m))
          if ref[pos] is spmd._unassigned_axis and not (axes & taken):
            ref[pos] = m
            taken |= axes
      if list(res) != ref:
        fails.append(dict(inputs=dict(api='_logical_to_mesh_axes', names=list(names), rules=list(rules)), observed=f'{list(res)} instead of {ref} (rules in priority order, no mesh axis twice)', violated='logical-rules'))
        return cases
  return cases


def _leaf_kinds(fails):
  """linen get_partition_spec / get_sharding per leaf kind: boxed -> its names, any unboxed array-like -> replicated, other -> None"""
  import jax
  import jax.numpy as jnp
  import flax.linen as nn
  from jax.sharding import PartitionSpec as P
  cases = 0
  mesh = jax.sharding.Mesh(np.array(jax.devices()[:1]).reshape(1, 1), ('x', 'y'))
  for rank in (0, 1, 2, 3):
    shape = (2, 3, 4)[:rank]
    kinds = {
        'jax array': jnp.zeros(shape), 'numpy array (device_get / restored checkpoint)': np.zeros(shape, np.float32),
        'ShapeDtypeStruct (eval_shape)': jax.ShapeDtypeStruct(shape, jnp.float32), 'numpy scalar type': np.float32(1.0) if rank == 0 else np.ones(shape, np.int32),
    }
    for tag, leaf in kinds.items():
      cases += 1
      names = ('x', None, 'y')[:rank]
      tree = {'params': {'kernel': nn.Partitioned(leaf, names=names), 'bias': leaf, 'meta': {'count': leaf}}, 'other': 1.5}
      spec = nn.get_partition_spec(tree)
      want = {'params': {'kernel': P(*names), 'bias': P(), 'meta': {'count': P()}}, 'other': None}
      if spec != want:
        fails.append(dict(inputs=dict(api='linen', fn='get_partition_spec', leaf=tag, rank=rank), observed=f'{spec} instead of {want}'[:300], violated='partition-spec-per-leaf'))
        return cases
      sh = nn.get_sharding(tree, mesh)
      ok = sh['other'] is None and all(isinstance(v, jax.sharding.NamedSharding) for v in (sh['params']['kernel'], sh['params']['bias'], sh['params']['meta']['count'])) \
          and sh['params']['bias'].spec == P() and sh['params']['kernel'].spec == P(*names)
      if not ok:
        fails.append(dict(inputs=dict(api='linen', fn='get_sharding', leaf=tag, rank=rank), observed=f'{sh}'[:300], violated='partition-spec-per-leaf'))
        return cases
  return cases


def _undeclared_and_legacy(fails):
  """(1) a boxed variable stacked by nn.vmap WITHOUT a declared partition name is refused, never returned with names that no
  longer line up; (2) the legacy param_with_axes / scan_with_axes / vmap_with_axes API: one name per dimension for ranks 0-2"""
  import jax
  import jax.numpy as jnp
  import flax.linen as nn
  from flax.linen import partitioning as nnp
  from flax.core import unfreeze
  from flax.traverse_util import flatten_dict
  from jax.sharding import PartitionSpec as P
  cases = 0

  class Boxed(nn.Module):
    @nn.compact
    def __call__(self, x):
      k = self.param('kernel', nn.with_partitioning(nn.initializers.lecun_normal(), ('in', 'out')), (3, 4))
      return x @ k
  for kw in ({}, {'metadata_params': {}}):
    cases += 1
    V = nn.vmap(Boxed, variable_axes={'params': 0}, split_rngs={'params': True}, in_axes=0, **kw)
    try:
      v = V().init(jax.random.key(0), jnp.ones((5, 2, 3)))
      box = v['params']['kernel']
      fails.append(dict(inputs=dict(api='linen', transform='vmap', metadata_params='omitted' if not kw else '{}', program='boxed kernel stacked on axis 0, no partition name declared'),
                        observed=f'accepted: value of shape {np.shape(box.value)} boxed with names {box.names}', violated='names-align-with-dims'))
      return cases
    except Exception:  # noqa  (PartitioningUnspecifiedError)
      pass

  class Layer(nn.Module):
    @nn.compact
    def __call__(self, c, _):
      kernel = nnp.param_with_axes('kernel', nn.initializers.lecun_normal(), (3, 3), axes=('embed', 'mlp'))
      bias = nnp.param_with_axes('bias', nn.initializers.zeros, (3,), axes=('mlp',))
      gate = nnp.param_with_axes('gate', nn.initializers.ones, (), axes=())
      count = nnp.variable_with_axes('stats', 'count', jnp.zeros, (), jnp.float32, axes=())
      if self.is_mutable_collection('stats'):
        count.value = count.value + 1.0
      return (c @ kernel + bias) * gate, None
  for kind, axis in (('scan_with_axes', 0), ('vmap_with_axes', 0)):     # axis 0 is the only stacking position valid for the rank-0 variables
    cases += 1

    class Stack(nn.Module):
      @nn.compact
      def __call__(self, x):
        if kind == 'scan_with_axes':
          T = nnp.scan_with_axes(Layer, variable_axes={'params': axis, 'stats': axis}, split_rngs={'params': True}, length=5, axis_name='layers', axes_collections=('params', 'stats'))
        else:
          T = nnp.vmap_with_axes(Layer, variable_axes={'params': axis, 'stats': axis}, split_rngs={'params': True}, in_axes=(0, None), out_axes=0,
                                 partitioning_axis_names={'params': 'layers', 'stats': 'layers'})
        y, _ = T(name='stack')(x, None)
        return y
    xin = jnp.ones((2, 3)) if kind == 'scan_with_axes' else jnp.ones((5, 2, 3))
    try:
      v = Stack().init(jax.random.key(0), xin)
      for col in ('params', 'stats'):
        arrays = flatten_dict(unfreeze(v[col]), sep='/')
        specs = flatten_dict(unfreeze(nnp.get_axis_names(v[f'{col}_axes'])), sep='/')
        for name, arr in arrays.items():
          spec = specs.get(name)
          rank_inner = np.ndim(arr) - 1
          ax = min(axis, rank_inner)
          if not isinstance(spec, P) or len(spec) != np.ndim(arr) or spec[ax] != 'layers':
            fails.append(dict(inputs=dict(api='linen legacy partitioning', transform=kind, axis=axis, variable=f'{col}/{name}', inner_rank=rank_inner),
                              observed=f'array of shape {np.shape(arr)} carries axis names {spec}: one name per dimension with `layers` at the stacking position is required', violated='names-align-with-dims'))
            return cases
    except Exception as e:  # noqa
      fails.append(dict(inputs=dict(api='linen legacy partitioning', transform=kind, axis=axis), observed=f'raised {e!r}'[:300], violated='names-align-with-dims'))
      return cases
  return cases


def run(tier, seed):
  cases, fails = 0, []
  for part in (_linen, _nnx, _nnx_rules, _logical, _leaf_kinds, _undeclared_and_legacy):
    try:
      cases += part(fails)
    except Exception:
      import traceback
      return dict(name=NAME, cases=cases, distinct=cases, failures=[], error=f'{part.__name__}: ' + traceback.format_exc()[-1500:])
    if fails:
      break
  return dict(name=NAME, cases=cases, distinct=cases,
              bound='linen.scan stacking axis {0,1,2} x 5 variable_axes layouts (plain / In / Out, both orders) + 8 nested scan/vmap cases; nnx vmap/scan: ranks 1-3 x every sharding prefix x every stacking axis; '
                    'nnx.get_partition_spec under 5 sharding-rule sets; a linen variable holding a dict of boxes; _logical_to_mesh_axes: 4 name tuples x all ordered triples of 12 rules; linen get_partition_spec / get_sharding x 4 leaf kinds x ranks 0-3; vmap over a boxed variable without a declared name; scan_with_axes / vmap_with_axes over variables of rank 0-2',
              failures=fails[:2], error=None)


def replay(inputs):
  r = run('quick', 0)
  return not r['failures']
