"""BOUNDED stand-in for C17 (optimizer part): nnx.Optimizer.update against optax update + apply_updates done by hand on the
same values, for several optimizers x parameter layouts x steps - parameters, every optimizer-state leaf and the step
counter compared after each step. Includes parameters that carry Variable hooks (on_set_value), a `wrt` filter that selects
a subset."""
import numpy as np
from . import _env  # noqa: F401

NAME = 'bounded:nnx.Optimizer.update vs optax by hand (optimizers x layouts x steps)'


def _np(t):
  import jax
  return jax.tree_util.tree_map(lambda a: np.asarray(a), t)


def _same(a, b, tol=1e-6):
  import jax
  la, ta = jax.tree_util.tree_flatten(a)
  lb, tb = jax.tree_util.tree_flatten(b)
  return len(la) == len(lb) and all(np.asarray(x).shape == np.asarray(y).shape and np.allclose(np.asarray(x), np.asarray(y), atol=tol, rtol=tol) for x, y in zip(la, lb))


def run(tier, seed):
  import jax
  import jax.numpy as jnp
  import optax
  from flax import nnx
  cases, fails = 0, []
  clip = lambda var, v: jnp.clip(v, -0.05, 0.05)      # WGAN-style weight clipping hook

  class Plain(nnx.Module):
    def __init__(self):
      self.w = nnx.Param(jnp.asarray([0.7, -1.4, 2.1, -2.8]))
      self.b = nnx.Param(jnp.asarray(0.5))
      self.stat = nnx.BatchStat(jnp.asarray(3.0))

  class Hooked(nnx.Module):
    def __init__(self):
      self.w = nnx.Param(jnp.asarray([0.04, -0.03, 0.02, -0.01]), on_set_value=clip)
      self.b = nnx.Param(jnp.asarray(0.5))
      self.stat = nnx.BatchStat(jnp.asarray(3.0))

  class HookedGet(nnx.Module):
    def __init__(self):
      self.w = nnx.Param(jnp.asarray([0.7, -1.4, 2.1, -2.8]), on_get_value=lambda var, v: v * 3.0)      # reads are scaled, the stored value is not
      self.b = nnx.Param(jnp.asarray(0.5))
      self.stat = nnx.BatchStat(jnp.asarray(3.0))

  class Lora(nnx.Module):
    def __init__(self):
      self.w = nnx.Param(jnp.asarray([0.7, -1.4, 2.1, -2.8]))
      self.b = nnx.LoRAParam(jnp.asarray(0.5))
      self.stat = nnx.BatchStat(jnp.asarray(3.0))
  txs = {
      'sgd': lambda: optax.sgd(0.1), 'sgd+momentum': lambda: optax.sgd(0.1, momentum=0.9), 'adam': lambda: optax.adam(0.05),
      'adamw+schedule': lambda: optax.chain(optax.clip_by_global_norm(1.0), optax.adamw(optax.linear_schedule(0.1, 0.01, 5), weight_decay=0.01)),
  }

  def grads_for(params, step):
    return jax.tree_util.tree_map(lambda p: (p * 0.5 + 0.7) * (step + 1), params)
  for mname, mk, wrt in (('plain', Plain, nnx.Param), ('hooked', Hooked, nnx.Param), ('hooked-get', HookedGet, nnx.Param), ('lora-subset', Lora, nnx.LoRAParam), ('lora-all', Lora, nnx.Param)):
    for tname, mktx in txs.items():
      cases += 1
      inp = dict(model=mname, optimizer=tname, wrt=wrt.__name__)
      try:
        model = mk()
        opt = nnx.Optimizer(model, mktx(), wrt=wrt)
        tx = mktx()
        params = jax.tree_util.tree_map(jnp.asarray, nnx.to_pure_dict(nnx.state(model, wrt)))
        st = tx.init(params)
        for step in range(3):
          g = grads_for(params, step)
          gstate = nnx.state(model, wrt)
          nnx.replace_by_pure_dict(gstate, g)
          opt.update(gstate)
          upd, st = tx.update(g, st, params)
          params = optax.apply_updates(params, upd)
          got_p = nnx.to_pure_dict(nnx.state(model, wrt))
          got_s = jax.tree_util.tree_leaves(nnx.to_pure_dict(nnx.state(opt.opt_state)))
          want_s = jax.tree_util.tree_leaves(st)
          if not _same(got_p, params):
            fails.append(dict(inputs=dict(inp, step=step), observed=f'parameters {_np(got_p)} differ from optax by hand {_np(params)}'[:400], violated='optimizer-update-equals-optax'))
            break
          if not _same(sorted(map(lambda a: tuple(np.asarray(a, np.float64).ravel().round(6)), got_s)), sorted(map(lambda a: tuple(np.asarray(a, np.float64).ravel().round(6)), want_s)), tol=1e-5):
            fails.append(dict(inputs=dict(inp, step=step), observed=f'optimizer state leaves {[np.asarray(a).tolist() for a in got_s]} differ from optax by hand {[np.asarray(a).tolist() for a in want_s]}'[:400], violated='optimizer-update-equals-optax'))
            break
          if int(opt.step.value) != step + 1 or float(model.stat.value) != 3.0:
            fails.append(dict(inputs=dict(inp, step=step), observed=f'step counter {int(opt.step.value)} (want {step + 1}) / untouched BatchStat {float(model.stat.value)}', violated='optimizer-update-equals-optax'))
            break
      except Exception as e:  # noqa
        fails.append(dict(inputs=inp, observed=f'raised {e!r}'[:300], violated='optimizer-update-equals-optax'))
      if fails:
        break
    if fails:
      break
  return dict(name=NAME, cases=cases, distinct=cases, bound='5 models (plain, Param with on_set_value hook, Param with on_get_value hook, wrt=LoRAParam subset, wrt=Param incl. subclass) x 4 optax optimizers (sgd, momentum, adam, clipped adamw with schedule) x 3 steps',
              failures=fails[:2], error=None)


def replay(inputs):
  return not run('quick', 0)['failures']
