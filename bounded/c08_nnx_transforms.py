"""Bounded stand-in (C08): real nnx.vmap / nnx.scan / nnx.grad against the explicit per-index
stack, the Python loop and jax.grad of the functional form, on a fixed grid (axis positions
0, 1, 2, -1; reverse; StateAxes groups), plus rejection of inconsistent aliasing.
Labelled bounded: never counted as proved."""
import itertools
import numpy as np
from . import _env  # noqa: F401

NAME = 'bounded:nnx vmap/scan/grad vs stack/loop/jax.grad (grid)'
TOL = 1e-5


def _scan_case(nnx, jnp, axis, reverse):
  class Cell(nnx.Module):
    def __init__(self, w):
      self.w = nnx.Param(w)          # scanned along `axis`
      self.count = nnx.BatchStat(jnp.zeros(()))   # carried
  T = 3
  base = np.arange(2 * 3 * 4, dtype=np.float32).reshape(2, 3, 4) / 10.0
  shape = list(base.shape)
  ax = axis % 3
  # put the scan dimension (length T) at position ax
  w = np.moveaxis(np.stack([base[:, :, 0] * (t + 1) for t in range(T)], 0), 0, ax)   # (.., T, ..)
  cell = Cell(jnp.asarray(w))
  state_axes = nnx.StateAxes({nnx.Param: axis, nnx.BatchStat: nnx.Carry})

  @nnx.scan(in_axes=(state_axes, nnx.Carry), out_axes=(nnx.Carry, 0), reverse=reverse)
  def step(c, carry):
    c.count.value = c.count.value + 1
    c.w.value = c.w.value + 1.0        # per-step update of the sliced state
    new = carry + c.w.value.sum()
    return new, new
  final, ys = step(cell, jnp.zeros(()))
  # reference loop
  order = list(range(T))[::-1] if reverse else list(range(T))
  carry = 0.0
  ys_ref = [None] * T
  w_ref = w.copy()
  for t in order:
    sl = np.take(w, t, axis=ax) + 1.0
    idx = [slice(None)] * 3
    idx[ax] = t
    w_ref[tuple(idx)] = sl
    carry = carry + sl.sum()
    ys_ref[t] = carry
  if abs(float(final) - carry) > 1e-3 or np.abs(np.asarray(ys) - np.asarray(ys_ref)).max() > 1e-3:
    return f'final carry / outputs differ from the loop: {float(final)} vs {carry}'
  got_w = np.asarray(cell.w.value)
  if got_w.shape != w_ref.shape or np.abs(got_w - w_ref).max() > 1e-4:
    return f'the scanned Variable does not end in the stacked per-step updates (shape {got_w.shape} vs {w_ref.shape}, or values permuted)'
  if abs(float(cell.count.value) - T) > 1e-6:
    return 'the Carry state does not hold the final carry'
  return None


def _vmap_case(nnx, jnp, axis):
  class M(nnx.Module):
    def __init__(self, w, b):
      self.w = nnx.Param(w)
      self.b = nnx.BatchStat(b)
  n = 3
  w = np.arange(2 * 3 * 4, dtype=np.float32).reshape(2, 3, 4)
  w = np.moveaxis(np.stack([w[:, :, 0] + i for i in range(n)], 0), 0, axis % 3)
  m = M(jnp.asarray(w), jnp.asarray(np.float32(2.0)))
  sa = nnx.StateAxes({nnx.Param: axis, nnx.BatchStat: None})

  @nnx.vmap(in_axes=(sa, 0), out_axes=0)
  def f(mod, x):
    return (mod.w.value * x).sum() + mod.b.value
  xs = jnp.asarray(np.array([1.0, 2.0, 3.0], np.float32))
  got = np.asarray(f(m, xs))
  want = np.array([(np.take(w, i, axis=axis % 3) * float(xs[i])).sum() + 2.0 for i in range(n)])
  if np.abs(got - want).max() > 1e-3:
    return f'vmap differs from calling the function per index: {got} vs {want}'
  return None


def _grad_case(nnx, jnp):
  import jax

  class M(nnx.Module):
    def __init__(self):
      self.w = nnx.Param(jnp.asarray([1.0, 2.0]))
      self.s = nnx.BatchStat(jnp.asarray(3.0))
  m = M()
  loss = lambda mod, x: ((mod.w.value * x).sum() * mod.s.value) ** 2
  g = nnx.grad(loss)(m, jnp.asarray([0.5, -1.0]))
  ref = jax.grad(lambda w: ((w * jnp.asarray([0.5, -1.0])).sum() * 3.0) ** 2)(jnp.asarray([1.0, 2.0]))
  flat = dict(nnx.to_flat_state(g))
  if set(flat) != {('w',)}:
    return f'grad contains {sorted(flat)}; only the selected Param should appear'
  if np.abs(np.asarray(flat[('w',)].value) - np.asarray(ref)).max() > 1e-4:
    return 'grad differs from jax.grad of the functional form'
  return None


def _scan_carry_modules(nnx, jnp):
  """Carry holding several graph nodes of the same class: after the scan every object ends in ITS OWN final state"""
  class Acc(nnx.Module):
    def __init__(self, v):
      self.v = nnx.BatchStat(jnp.asarray(v))
  for n_mods in (2, 3):
    mods = [Acc(float(i + 1)) for i in range(n_mods)]
    xs = jnp.asarray([1.0, 2.0, 3.0])

    @nnx.scan(in_axes=(nnx.Carry, 0), out_axes=(nnx.Carry, 0))
    def step(carry, x):
      ms, tot = carry
      for i, m in enumerate(ms):
        m.v.value = m.v.value * (i + 2) + x          # a different recurrence per position
      return (ms, tot + x), tot
    (out_ms, tot), ys = step((tuple(mods), jnp.zeros(())), xs)
    want = []
    for i in range(n_mods):
      v = float(i + 1)
      for x in (1.0, 2.0, 3.0):
        v = v * (i + 2) + x
      want.append(v)
    got_objs = [float(m.v.value) for m in mods]
    got_ret = [float(m.v.value) for m in out_ms]
    if any(abs(a - b) > 1e-3 for a, b in zip(got_objs, want)) or any(abs(a - b) > 1e-3 for a, b in zip(got_ret, want)) or any(a is not b for a, b in zip(out_ms, mods)):
      return dict(carry_modules=n_mods), f'caller objects end at {got_objs}, returned carry at {got_ret} (identity kept: {[a is b for a, b in zip(out_ms, mods)]}); the loop leaves {want}'
  return None, None


def _grad_argnums_cases(nnx, jnp):
  """nnx.grad / value_and_grad over argnums {0, 1, (0,1), (1,0), (2,0), DiffState mixes}: the i-th result is
  the gradient w.r.t. the i-th REQUESTED argument, restricted to the selected Variables"""
  import jax

  class M(nnx.Module):
    def __init__(self, w, s):
      self.w = nnx.Param(jnp.asarray(w))
      self.s = nnx.BatchStat(jnp.asarray(s))
  ws = ([1.0, 2.0], [0.5, -1.5], [2.0, 0.25])
  ss = (3.0, -2.0, 0.5)

  def loss(a, b, c):
    return ((a.w.value * b.w.value).sum() * a.s.value + (c.w.value ** 2).sum() * b.s.value * c.s.value + (b.w.value ** 3).sum()) ** 2

  def ref_loss(vals):
    (aw, as_), (bw, bs), (cw, cs) = vals
    return ((aw * bw).sum() * as_ + (cw ** 2).sum() * bs * cs + (bw ** 3).sum()) ** 2
  vals = tuple((jnp.asarray(w), jnp.asarray(s)) for w, s in zip(ws, ss))
  full = jax.grad(ref_loss)(vals)      # d/d(everything)
  P, S = nnx.Param, nnx.BatchStat
  configs = [0, 1, 2, (0, 1), (1, 0), (2, 0), (2, 1, 0), nnx.DiffState(1, S), (nnx.DiffState(1, S), nnx.DiffState(0, P)),
             (nnx.DiffState(2, nnx.Any(P, S)), 0), (1, nnx.DiffState(0, S))]
  for cfg in configs:
    items = cfg if isinstance(cfg, tuple) else (cfg,)
    want = []
    for it in items:
      idx, flt = (it.argnum, it.filter) if isinstance(it, nnx.DiffState) else (it, P)
      sel = {}
      if flt in (P,) or (not isinstance(flt, type) and flt is not S):
        if flt is P or not isinstance(flt, type):
          sel[('w',)] = np.asarray(full[idx][0])
      if flt is S or not isinstance(flt, type):
        sel[('s',)] = np.asarray(full[idx][1])
      want.append(sel)
    for kind in ('grad', 'value_and_grad'):
      ms = [M(w, s) for w, s in zip(ws, ss)]
      try:
        if kind == 'grad':
          got = nnx.grad(loss, argnums=cfg)(*ms)
        else:
          val, got = nnx.value_and_grad(loss, argnums=cfg)(*ms)
          if abs(float(val) - float(ref_loss(vals))) > 1e-3 * max(1.0, abs(float(ref_loss(vals)))):
            return dict(argnums=repr(cfg), kind=kind), 'value differs from the loss'
      except Exception as e:  # noqa
        return dict(argnums=repr(cfg), kind=kind), f'raised {e!r}'[:200]
      got = got if isinstance(cfg, tuple) else (got,)
      if len(got) != len(want):
        return dict(argnums=repr(cfg), kind=kind), f'{len(got)} gradients for {len(want)} requested arguments'
      for i, (g, w_) in enumerate(zip(got, want)):
        flat = {p: np.asarray(v.value) for p, v in nnx.to_flat_state(g)}
        if set(flat) != set(w_):
          return dict(argnums=repr(cfg), kind=kind), f'result {i} contains {sorted(flat)}, selected were {sorted(w_)} (unselected state must be absent)'
        for p in flat:
          if np.abs(flat[p] - w_[p]).max() > 1e-3 * max(1.0, np.abs(w_[p]).max()):
            return dict(argnums=repr(cfg), kind=kind), f'result {i} at {p} is {flat[p]}, jax.grad of the same loss w.r.t. argument {items[i] if not isinstance(items[i], nnx.DiffState) else items[i].argnum} gives {w_[p]}'
  return None, None


def _aliasing_cases(nnx, jnp):
  class M(nnx.Module):
    def __init__(self):
      self.a = nnx.Param(jnp.ones((3, 3)))
  m = M()
  bad = []
  for in_axes in ((0, 1), (0, None), (None, 0), (nnx.StateAxes({nnx.Param: 0}), nnx.StateAxes({nnx.Param: None}))):
    try:
      nnx.vmap(lambda m1, m2: m1.a.value.sum() + m2.a.value.sum(), in_axes=in_axes, out_axes=0)(m, m)
      bad.append(repr(in_axes))
    except ValueError:
      pass
    except Exception:  # noqa  (any refusal counts as rejected)
      pass
  if bad:
    return f'the same Variable passed twice under different axis specifications was accepted for in_axes={bad}'
  # consistent aliasing is accepted
  try:
    nnx.vmap(lambda m1, m2: m1.a.value.sum() + m2.a.value.sum(), in_axes=(0, 0), out_axes=0)(m, m)
  except Exception as e:  # noqa
    return f'consistent aliasing was rejected: {e!r}'[:200]
  return None


def _output_aliasing_cases(nnx, jnp):
  """what a scan / vmap body RETURNS must not alias an input Variable under a different axis specification."""
  xs = jnp.arange(1.0, 5.0)

  class Acc(nnx.Module):
    def __init__(self):
      self.n = nnx.BatchStat(jnp.asarray(0.0))

  class Layer(nnx.Module):
    def __init__(self, w):
      self.w = nnx.Param(jnp.asarray(w, jnp.float32))

  class Holder(nnx.Module):
    def __init__(self, v):
      self.v = v

  def a():
    def step(acc, x):
      acc.n.value = acc.n.value + x
      return acc, acc
    return nnx.scan(step, in_axes=(nnx.Carry, 0), out_axes=(nnx.Carry, 0))(Acc(), xs)

  def b():
    def step(acc, x):
      acc.n.value = acc.n.value + x
      return acc, Holder(acc.n)
    return nnx.scan(step, in_axes=(nnx.Carry, 0), out_axes=(nnx.Carry, 0))(Acc(), xs)

  def c():
    return nnx.scan(lambda m, x: Holder(m.w), in_axes=(0, 0), out_axes=1)(Layer(np.arange(8.0).reshape(4, 2)), xs)

  def d():
    return nnx.scan(lambda m, x: Holder(m.w), in_axes=(None, 0), out_axes=0)(Layer(np.arange(2.0)), xs)

  def e():
    return nnx.vmap(lambda m, x: Holder(m.w), in_axes=(0, 0), out_axes=1)(Layer(np.arange(8.0).reshape(4, 2)), xs)

  def f():
    return nnx.vmap(lambda m, x: Holder(m.w), in_axes=(None, 0), out_axes=0)(Layer(np.arange(2.0)), xs)
  bad = []
  for name, thunk in (('scan: Carry module also returned as axis-0 output', a), ('scan: Carry Variable held by an axis-0 output', b),
                      ('scan: axis-0 Variable held by an out_axes=1 output', c), ('scan: broadcast Variable held by a stacked output', d),
                      ('vmap: axis-0 Variable held by an out_axes=1 output', e), ('vmap: broadcast Variable held by a stacked output', f)):
    try:
      thunk()
      bad.append(name)
    except Exception:  # noqa  (any refusal counts as rejected)
      pass
  if bad:
    return f'an output aliasing an input Variable under a different axis specification was accepted: {bad}'
  # control: same axis on both sides is accepted and keeps identity of values
  try:
    m = Layer(np.arange(8.0).reshape(4, 2))
    h = nnx.scan(lambda m, x: Holder(m.w), in_axes=(0, 0), out_axes=0)(m, xs)
    if np.asarray(h.v.value).shape != (4, 2) or not np.allclose(np.asarray(h.v.value), np.arange(8.0).reshape(4, 2)):
      return f'consistent input/output aliasing gives {np.asarray(h.v.value).tolist()}'
  except Exception as ex:  # noqa
    return f'consistent input/output aliasing was rejected: {ex!r}'[:200]
  return None


def _bare_variable_cases(nnx, jnp):
  """Variables handed to vmap / grad directly or inside plain containers end in the state the reference leaves them in."""
  import jax
  N = 4
  xs = jnp.arange(1.0, N + 1)
  s0 = np.arange(N, dtype=np.float32) * 10
  stat, total = nnx.BatchStat(jnp.asarray(s0)), nnx.BatchStat(jnp.asarray(5.0))

  def f(stat, total, x):
    stat.value = stat.value + x
    total.value = total.value + 1.0
    return stat.value * 2 + total.value
  y = nnx.vmap(f, in_axes=(0, None, 0), out_axes=0)(stat, total, xs)
  if not np.allclose(np.asarray(y), (s0 + np.asarray(xs)) * 2 + 6.0) or not np.allclose(np.asarray(stat.value), s0 + np.asarray(xs)) or not np.allclose(np.asarray(total.value), 6.0):
    return dict(transform='vmap', arguments='bare Variables (axis 0, axis None)'), f'after the call the Variables hold {np.asarray(stat.value).tolist()} / {float(total.value)}; per-index updates give {(s0 + np.asarray(xs)).tolist()} / 6.0'
  w0 = np.arange(N * 2, dtype=np.float32).reshape(N, 2)
  params = {'w': nnx.Param(jnp.asarray(w0)), 'calls': nnx.BatchStat(jnp.zeros((N,)))}

  def g(params, x):
    params['calls'].value = params['calls'].value + 1
    params['w'].value = params['w'].value * x
    return params['w'].value.sum()
  y = nnx.vmap(g, in_axes=({'w': 0, 'calls': 0}, 0), out_axes=0)(params, xs)
  ref_w = w0 * np.asarray(xs)[:, None]
  if not np.allclose(np.asarray(y), ref_w.sum(1)) or not np.allclose(np.asarray(params['w'].value), ref_w) or not np.allclose(np.asarray(params['calls'].value), 1.0):
    return dict(transform='vmap', arguments='dict of Variables'), f"after the call w={np.asarray(params['w'].value).tolist()} calls={np.asarray(params['calls'].value).tolist()}; per-index updates give {ref_w.tolist()} / ones"
  p, steps = nnx.Param(jnp.asarray(3.0)), nnx.BatchStat(jnp.asarray(0, jnp.int32))

  def loss(p, steps, x):
    steps.value = steps.value + 1
    return (p.value * x) ** 2
  for call in (1, 2):
    gr = nnx.grad(loss)(p, steps, 2.0)
    if not np.allclose(np.asarray(gr.value), 24.0) or float(p.value) != 3.0 or int(steps.value) != call:
      return dict(transform='grad', arguments='bare Variables', call=call), f'gradient {np.asarray(gr.value)}, Param {float(p.value)}, forward counter {int(steps.value)} (want 24.0, 3.0, {call})'
  params = {'w': nnx.Param(jnp.asarray([1.0, -2.0])), 'b': nnx.Param(jnp.asarray(0.5))}
  stats = [nnx.BatchStat(jnp.asarray(0.0)), nnx.BatchStat(jnp.asarray(0, jnp.int32))]
  x = jnp.asarray([3.0, 4.0])

  def loss2(params, stats, x):
    pre = (params['w'].value * x).sum() + params['b'].value
    stats[0].value = 0.9 * stats[0].value + 0.1 * pre
    stats[1].value = stats[1].value + 1
    return pre ** 2, pre
  (val, aux), grads = nnx.value_and_grad(loss2, argnums=0, has_aux=True)(params, stats, x)
  pre = (np.asarray([1.0, -2.0]) * np.asarray(x)).sum() + 0.5
  if not np.allclose(float(val), pre ** 2) or not np.allclose(np.asarray(grads['w'].value), 2 * pre * np.asarray(x)) or not np.allclose(float(stats[0].value), 0.1 * pre) or int(stats[1].value) != 1 \
      or not np.allclose(np.asarray(params['w'].value), [1.0, -2.0]):
    return dict(transform='value_and_grad', arguments='dict of Params + list of BatchStats', argnums=0), f'value {float(val)}, running mean {float(stats[0].value)}, counter {int(stats[1].value)} (want {pre ** 2}, {0.1 * pre}, 1)'
  return None, None


def _removal_and_rng_cases(nnx, jnp):
  """(1) a function that REMOVES a Variable the module held on entry (nnx.pop / del): after grad / vmap the caller's module is
  in the state the eager call leaves - the Variable is gone. (2) vmap under split_rngs called repeatedly: every call gets fresh
  per-index keys and the Rngs end where the reference leaves them."""
  import jax

  class Net(nnx.Module):
    def __init__(self):
      self.w = nnx.Param(jnp.asarray([1.0, 2.0, 3.0]))
      self.steps = nnx.BatchStat(jnp.zeros((), jnp.int32))

    def __call__(self, x):
      h = jnp.tanh(self.w.value * x)
      self.sow(nnx.Intermediate, 'acts', h)
      self.steps.value += 1
      return h

  def loss_fn(model, x):
    pred = model(x)
    inter = nnx.pop(model, nnx.Intermediate)
    return jnp.mean(pred ** 2) + 0.1 * sum(jnp.mean(a ** 2) for a in inter['acts'].value) / len(inter['acts'].value)
  x = jnp.asarray([0.5, -1.0, 2.0])
  for kind in ('grad', 'value_and_grad'):
    model, ref = Net(), Net()
    model(x)
    ref(x)                               # both hold an Intermediate from an eager call
    want_loss = loss_fn(ref, x)          # the reference: the eager call (pops the intermediates)
    out = (nnx.grad if kind == 'grad' else nnx.value_and_grad)(loss_fn)(model, x)
    for step in (1, 2):
      if hasattr(model, 'acts') != hasattr(ref, 'acts') or int(model.steps.value) != int(ref.steps.value):
        return dict(transform=kind, program='loss pops the Intermediates the module held on entry', after_call=step), \
            f'after the transform the module has acts={hasattr(model, "acts")}, steps={int(model.steps.value)}; after the eager call acts={hasattr(ref, "acts")}, steps={int(ref.steps.value)}'
      want_loss = loss_fn(ref, x)
      out = nnx.value_and_grad(loss_fn)(model, x)
      if not np.allclose(float(out[0]), float(want_loss), atol=1e-6):
        return dict(transform=kind, program='loss pops the Intermediates the module held on entry', after_call=step + 1), f'loss {float(out[0])} differs from the eager loss {float(want_loss)} (stale intermediates re-entered)'

  class Cell(nnx.Module):
    def __init__(self):
      self.scratch = nnx.BatchStat(jnp.zeros((4,)))
      self.total = nnx.BatchStat(jnp.zeros((4,)))

  def fold(cell, xv):
    cell.total.value = cell.total.value + cell.scratch.value + xv
    del cell.scratch
    return cell.total.value
  cell = Cell()
  nnx.vmap(fold, in_axes=(0, 0), out_axes=0)(cell, jnp.arange(4.0))
  if hasattr(cell, 'scratch') or not np.allclose(np.asarray(cell.total.value), np.arange(4.0)):
    return dict(transform='vmap', program='body deletes an attribute Variable of the module'), f'after vmap the module still has scratch={hasattr(cell, "scratch")}, total={np.asarray(cell.total.value).tolist()}'
  # split_rngs + vmap, three consecutive calls
  N = 4

  def body(rngs):
    return jax.random.key_data(rngs.dropout())

  @nnx.split_rngs(splits=N)
  @nnx.vmap(in_axes=(nnx.StateAxes({nnx.RngState: 0}),), out_axes=0)
  def draw_all(rngs):
    return body(rngs)
  rngs = nnx.Rngs(params=0, dropout=1)
  ref = nnx.Rngs(params=0, dropout=1)
  seen = []
  for call in range(3):
    out = np.asarray(draw_all(rngs))
    kd = jax.random.split(ref.dropout(), N)        # the split consumes one key of the stream and splits it
    ref.params()
    want = np.stack([np.asarray(jax.random.key_data(nnx.Rngs(dropout=kd[i]).dropout())) for i in range(N)])
    if out.shape != want.shape or not np.array_equal(out, want):
      return dict(transform='vmap', program='@split_rngs(splits=4) @vmap drawing one key per index', call=call), 'per-index keys differ from splitting the next key of the stream and drawing once per index'
    seen += [tuple(r.ravel().tolist()) for r in out]
    if int(rngs.dropout.count.value) != int(ref.dropout.count.value):
      return dict(transform='vmap', program='@split_rngs(splits=4) @vmap drawing one key per index', call=call), f'after the call the stream count is {int(rngs.dropout.count.value)}, the reference (one key consumed by the split) is at {int(ref.dropout.count.value)}'
  if len(set(seen)) != len(seen):
    return dict(transform='vmap', program='@split_rngs(splits=4) @vmap, three calls'), 'a per-index key was handed out twice across the calls'
  return None, None


def run(tier, seed):
  from flax import nnx
  import jax.numpy as jnp
  cases, fails = 0, []
  for axis, reverse in itertools.product((0, 1, 2, -1), (False, True)):
    cases += 1
    try:
      msg = _scan_case(nnx, jnp, axis, reverse)
    except Exception as e:  # noqa
      msg = f'raised {e!r}'[:300]
    if msg:
      fails.append(dict(inputs=dict(transform='scan', axis=axis, reverse=reverse), observed=msg, violated='scan-equals-loop'))
      break
  if not fails:
    for axis in (0, 1, 2, -1):
      cases += 1
      try:
        msg = _vmap_case(nnx, jnp, axis)
      except Exception as e:  # noqa
        msg = f'raised {e!r}'[:300]
      if msg:
        fails.append(dict(inputs=dict(transform='vmap', axis=axis), observed=msg, violated='vmap-equals-stack'))
        break
  if not fails:
    for fn, tag in ((_grad_case, 'grad-equals-jax-grad'), (_aliasing_cases, 'inconsistent-aliasing-rejected'), (_output_aliasing_cases, 'inconsistent-aliasing-rejected')):
      cases += 1
      try:
        msg = fn(nnx, jnp)
      except Exception as e:  # noqa
        msg = f'raised {e!r}'[:300]
      if msg:
        fails.append(dict(inputs=dict(check=tag), observed=msg, violated=tag))
        break
  if not fails:
    cases += 2
    try:
      inp, msg = _scan_carry_modules(nnx, jnp)
    except Exception as e:  # noqa
      inp, msg = dict(check='scan-carry-modules'), f'raised {e!r}'[:300]
    if msg:
      fails.append(dict(inputs=inp, observed=msg, violated='scan-final-carry-objects'))
  if not fails:
    cases += 22
    try:
      inp, msg = _grad_argnums_cases(nnx, jnp)
    except Exception as e:  # noqa
      inp, msg = dict(check='grad-argnums'), f'raised {e!r}'[:300]
    if msg:
      fails.append(dict(inputs=inp, observed=msg, violated='grad-equals-jax-grad'))
  if not fails:
    cases += 4
    try:
      r = _bare_variable_cases(nnx, jnp)
      inp, msg = r if r else (None, None)
    except Exception as e:  # noqa
      inp, msg = dict(check='bare-variables'), f'raised {e!r}'[:300]
    if msg:
      fails.append(dict(inputs=inp, observed=msg, violated='side-effects-propagated'))
  if not fails:
    cases += 6
    try:
      inp, msg = _removal_and_rng_cases(nnx, jnp)
    except Exception as e:  # noqa
      import traceback
      inp, msg = dict(check='removal / split_rngs'), f'raised {e!r} ' + traceback.format_exc()[-300:]
    if msg:
      fails.append(dict(inputs=inp, observed=msg[:500], violated='side-effects-propagated'))
  return dict(name=NAME, cases=cases, distinct=cases, bound='scan: StateAxes axis in {0,1,2,-1} x reverse (decorator form); vmap: axis in {0,1,2,-1}; grad / value_and_grad x 11 argnums / DiffState configurations over 3 module arguments; 4 input aliasing conflicts + 6 input/output aliasing conflicts; 4 programs over bare Variables / containers of Variables; grad / value_and_grad / vmap over functions that remove a Variable of the module; split_rngs + vmap called three times; scan Carry holding 2 / 3 modules of one class',
              failures=fails[:2], error=None)


def replay(inputs):
  r = run('quick', 0)
  return not r['failures']
