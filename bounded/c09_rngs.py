"""Bounded stand-in (C09): the real Linen make_rng / param initialisers and NNX Rngs streams on a
fixed family of module trees, stream sets and call sequences, under both settings of the
RNG-separator flag toggled back and forth within one process:

  * determinism: the same program with the same seeds yields the same keys (also after the flag was
    switched away and back);
  * independence: adding / removing / reordering unrelated siblings, streams or variables changes no
    other key;
  * no reuse within a run: different counts, stream seeds, sibling names - and with the separator
    fix enabled any two different paths (incl. 'ab/c' vs 'a/bc') - give different keys;
  * a missing stream falls back to 'params' (Linen) / 'default' (NNX);
  * NNX: split_rngs + restore resumes the original stream without replaying a key; reseed (int and
    key seeds) restarts the stream.

Labelled bounded: never counted as proved."""
import itertools
import numpy as np
from . import _env  # noqa: F401

NAME = 'bounded:linen make_rng / nnx Rngs key discipline (module trees x streams x call sequences x separator flag)'


def _kd(k):
  import jax
  return tuple(np.asarray(jax.random.key_data(k)).ravel().tolist())


def _linen_keys(nn, jax, tree, streams, seeds, extra_siblings=(), order=None, draws=2):
  """Runs a module tree given as {child_name: {grandchild_name: ...}} and returns
  {(path, stream, draw_index): key_data}. Unrelated siblings named in `extra_siblings` are created
  (and draw keys) too; `order` permutes the creation order of the children at every level."""
  out = {}

  def make(path, sub):
    names = list(sub)
    if path == ():
      names = names + [n for n in extra_siblings if n not in names]
    if order == 'reversed':
      names = names[::-1]

    class Node(nn.Module):
      @nn.compact
      def __call__(self):
        for s in streams:
          for i in range(draws):
            out[(path, s, i)] = _kd(self.make_rng(s))
        for n in names:
          make(path + (n,), sub.get(n, {}))(name=n)()
    return Node
  make((), tree)().apply({}, rngs={s: jax.random.key(seeds[s]) for s in seeds})
  return out


def _linen_part(fails):
  import jax
  import flax
  import flax.linen as nn
  cases = 0
  trees = {
    'flat': {'a': {}, 'b': {}},
    'nested': {'a': {'b': {}, 'c': {}}, 'd': {}},
    'separator': {'ab': {'c': {}}, 'a': {'bc': {}}},
    'deep': {'x': {'y': {'z': {}}}, 'xy': {'z': {}}, 'x_y': {}},
  }
  seeds = {'params': 0, 'dropout': 1}
  first = {}
  saved_flag = flax.config.flax_fix_rng_separator
  try:
    for rnd, flag in enumerate((False, True, False, True)):
      flax.config.update('flax_fix_rng_separator', flag)
      for tname, tree in trees.items():
        cases += 1
        inp = dict(api='linen', tree=tname, separator_fix=flag, round=rnd)
        keys = _linen_keys(nn, jax, tree, ('params', 'dropout'), seeds)
        # determinism (also after the flag has been switched away and back)
        if (tname, flag) in first and first[(tname, flag)] != keys:
          fails.append(dict(inputs=inp, observed='the same program with the same seeds gave other keys than in an earlier run under the same flag setting', violated='deterministic'))
          return cases
        first.setdefault((tname, flag), keys)
        # no reuse within a run
        inv = {}
        for pos, k in keys.items():
          inv.setdefault(k, []).append(pos)
        dup = [v for v in inv.values() if len(v) > 1]
        if dup and (flag or tname not in ('separator', 'deep')):
          fails.append(dict(inputs=inp, observed=f'the same key was handed out at {dup[0][:2]}', violated='no-key-reuse'))
          return cases
        # independence of unrelated siblings and of creation order
        for variant, kw in (('extra-sibling', dict(extra_siblings=('zzz', 'other'))), ('reordered', dict(order='reversed'))):
          cases += 1
          k2 = _linen_keys(nn, jax, tree, ('params', 'dropout'), seeds, **kw)
          diff = [p for p in keys if k2.get(p) != keys[p]]
          if diff:
            fails.append(dict(inputs=dict(inp, variant=variant), observed=f'keys at {diff[:2]} changed although only unrelated siblings were added / reordered', violated='sibling-independence'))
            return cases
        # an extra stream changes no key of the others; a missing stream falls back to 'params'
        cases += 1
        k3 = _linen_keys(nn, jax, tree, ('params', 'dropout'), dict(seeds, noise=5))
        if k3 != keys:
          fails.append(dict(inputs=dict(inp, variant='extra-stream'), observed='supplying an unrelated stream changed keys of the other streams', violated='stream-independence'))
          return cases
        cases += 1
        k4 = _linen_keys(nn, jax, tree, ('noise',), {'params': 0})
        k5 = _linen_keys(nn, jax, tree, ('noise',), {'params': 0, 'noise': 9})
        k6 = _linen_keys(nn, jax, tree, ('noise',), {'params': 1})
        if k4 == k6:
          fails.append(dict(inputs=dict(inp, variant='missing-stream'), observed="keys of a missing stream do not depend on the 'params' seed", violated='fallback'))
          return cases
        if k4 == k5:
          fails.append(dict(inputs=dict(inp, variant='missing-stream'), observed="a missing stream did not fall back to the 'params' seed (same keys as an unrelated seed)", violated='fallback'))
          return cases
        if len(set(k4.values())) != len(k4) and (flag or tname not in ('separator', 'deep')):
          fails.append(dict(inputs=dict(inp, variant='missing-stream'), observed='fallback stream reused a key', violated='no-key-reuse'))
          return cases
      # weight sharing: ONE module instance called several times in a forward pass; its children keep counting
      cases += 1
      seen = []

      class Leaf(nn.Module):
        @nn.compact
        def __call__(self):
          seen.append(('leaf', _kd(self.make_rng('dropout'))))

      class Shared(nn.Module):
        @nn.compact
        def __call__(self):
          seen.append(('own', _kd(self.make_rng('dropout'))))
          Leaf(name='leaf')()

      class Net(nn.Module):
        @nn.compact
        def __call__(self):
          blk = Shared(name='shared')
          for _ in range(3):
            blk()
      Net().apply({}, rngs={'dropout': jax.random.key(1)})
      ks = [k for _, k in seen]
      if len(set(ks)) != len(ks):
        dup = [t for t, k in seen if ks.count(k) > 1]
        fails.append(dict(inputs=dict(api='linen', check='one module instance called 3 times (children draw keys)', separator_fix=flag),
                          observed=f'keys repeat across the calls of the shared instance (draws of: {sorted(set(dup))})', violated='no-key-reuse'))
        return cases
      first_run = list(ks)
      seen.clear()
      Net().apply({}, rngs={'dropout': jax.random.key(1)})
      if [k for _, k in seen] != first_run:
        fails.append(dict(inputs=dict(api='linen', check='one module instance called 3 times (children draw keys)', separator_fix=flag), observed='same seed, other keys on a second run', violated='deterministic'))
        return cases
      # the same through nn.jit (cached trace on the later calls) and across repeated applies
      cases += 1

      class JNet(nn.Module):
        @nn.compact
        def __call__(self, x):
          blk = nn.jit(SharedX)(name='shared')
          for _ in range(3):
            x = blk(x)
          return x

      class SharedX(nn.Module):
        @nn.compact
        def __call__(self, x):
          x = x + jax.random.normal(self.make_rng('dropout'), x.shape)
          return LeafX(name='leaf')(x)

      class LeafX(nn.Module):
        @nn.compact
        def __call__(self, x):
          return x + jax.random.normal(self.make_rng('dropout'), x.shape)
      import jax.numpy as jnp
      outs = [np.asarray(JNet().apply({}, jnp.zeros((3,)), rngs={'dropout': jax.random.key(1)})) for _ in range(3)]
      if not (np.allclose(outs[0], outs[1]) and np.allclose(outs[0], outs[2])):
        fails.append(dict(inputs=dict(api='linen', check='nn.jit block called 3 times per apply, apply repeated 3 times', separator_fix=flag),
                          observed='the same apply with the same seed gives other random draws on a later execution (traced vs cached)', violated='deterministic'))
        return cases
      # a helper method lifted by nn.remat (fresh inner scope per call) called twice: the second call continues the counts
      cases += 1

      class R(nn.Module):
        def draw(self, x):
          return x + jax.random.normal(self.make_rng('dropout'), x.shape)

        @nn.compact
        def __call__(self, x):
          a = nn.remat(R.draw)(self, x) if self.lifted else self.draw(x)
          b = nn.remat(R.draw)(self, a) if self.lifted else self.draw(a)
          return a, b, self.draw(b)
        lifted: bool = False
      want_r = R(lifted=False).apply({}, jnp.zeros((3,)), rngs={'dropout': jax.random.key(1)})
      got_r = R(lifted=True).apply({}, jnp.zeros((3,)), rngs={'dropout': jax.random.key(1)})
      if not all(np.allclose(np.asarray(p), np.asarray(q)) for p, q in zip(want_r, got_r)):
        fails.append(dict(inputs=dict(api='linen', check='method lifted by nn.remat called twice, then a plain draw', separator_fix=flag),
                          observed='draws inside / after the lifted calls differ from the plain code (counts not carried across the lifted scope)', violated='no-key-reuse'))
        return cases
      # sibling / nested nn.jit layers drawing through the 'params' fallback at apply time: all keys distinct
      cases += 1
      drawn = []

      class Noisy(nn.Module):
        @nn.compact
        def __call__(self, x):
          k = self.make_rng('dropout')
          jax.debug.callback(lambda kd, name=self.name: drawn.append((name, tuple(np.asarray(kd).ravel().tolist()))), jax.random.key_data(k))
          return x + jax.random.normal(k, x.shape)

      class Outer(nn.Module):
        @nn.compact
        def __call__(self, x):
          return nn.jit(Noisy)(name='inner')(x) * 2.0

      class JModel(nn.Module):
        @nn.compact
        def __call__(self, x):
          a = nn.jit(Noisy)(name='a')(x)
          b = nn.jit(Noisy)(name='b')(x)
          c = Noisy(name='c')(x)
          d = nn.jit(Outer)(name='d')(x)
          return a, b, c, d
      for rngs in ({'params': jax.random.key(5)}, jax.random.key(5), {'params': jax.random.key(5), 'dropout': jax.random.key(6)}):
        drawn.clear()
        outs_j = JModel().apply({}, jnp.zeros((4,)), rngs=rngs)
        jax.effects_barrier()
        ks_j = [k for _, k in drawn]
        if len(set(ks_j)) != len(ks_j) or len(ks_j) != 4 or np.allclose(np.asarray(outs_j[0]), np.asarray(outs_j[1])):
          fails.append(dict(inputs=dict(api='linen', check='sibling and nested nn.jit layers draw at apply time', rngs='single key' if not isinstance(rngs, dict) else sorted(rngs), separator_fix=flag),
                            observed=f'{len(ks_j)} draws, {len(set(ks_j))} distinct keys: sibling jitted layers were handed the same key', violated='no-key-reuse'))
          return cases
      # one scope drawing from several UN-SEEDED names next to 'params' draws and parameter initialisers: every draw its own key
      cases += 1

      class Fallbacks(nn.Module):
        @nn.compact
        def __call__(self):
          got = []
          self.param('w', lambda k: got.append(('init w', _kd(k))) or np.zeros(()))
          for nm in ('dropout', 'noise', 'params', 'dropout', 'noise'):
            got.append((nm, _kd(self.make_rng(nm))))
          self.param('v', lambda k: got.append(('init v', _kd(k))) or np.zeros(()))
          return got
      for rngs in ({'params': jax.random.key(7)}, jax.random.key(7)):
        (got, _) = Fallbacks().init_with_output(rngs)
        ks = [k for _, k in got]
        if len(set(ks)) != len(ks):
          dup = sorted({a for (a, k) in got if ks.count(k) > 1})
          fails.append(dict(inputs=dict(api='linen', check='un-seeded streams falling back to params, in one scope with params draws and initialisers', separator_fix=flag),
                            observed=f'the same key was handed out for {dup}', violated='no-key-reuse'))
          return cases
        (again, _) = Fallbacks().init_with_output(rngs)
        if again != got:
          fails.append(dict(inputs=dict(api='linen', check='un-seeded streams falling back to params', separator_fix=flag), observed='same seed, other keys on a second run', violated='deterministic'))
          return cases
      # parameter initialisers: keys are position-addressed and not shared
      cases += 1

      class P(nn.Module):
        @nn.compact
        def __call__(self):
          got = {}
          for n in ('w', 'v'):
            self.param(n, lambda k, n=n: got.setdefault(n, _kd(k)) and np.zeros(()))
          return got
      class Top(nn.Module):
        @nn.compact
        def __call__(self):
          return {c: P(name=c)() for c in ('ab', 'a')}
      (got, _) = Top().init_with_output(jax.random.key(3))
      flat = [v for d in got.values() for v in d.values()]
      if len(set(flat)) != len(flat):
        fails.append(dict(inputs=dict(api='linen', check='param-init-keys', separator_fix=flag), observed='two parameters were initialised from the same key', violated='no-key-reuse'))
        return cases
  finally:
    flax.config.update('flax_fix_rng_separator', saved_flag)
  return cases


def _nnx_part(fails):
  import jax
  import jax.numpy as jnp
  from flax import nnx
  cases = 0
  # determinism / per-stream counts / stream independence / fallback
  for seeds in ({'default': 0}, {'default': 0, 'dropout': 1}, {'params': 2, 'dropout': 1, 'default': 0}):
    cases += 1
    inp = dict(api='nnx', seeds=seeds)

    def draw(rngs, plan):
      return [(_s, _kd(getattr(rngs, _s)())) for _s in plan]
    plan = ['dropout', 'default', 'dropout', 'noise', 'noise', 'dropout']
    a = draw(nnx.Rngs(**seeds), plan)
    b = draw(nnx.Rngs(**seeds), plan)
    if a != b:
      fails.append(dict(inputs=inp, observed='same seeds, same call sequence, other keys', violated='deterministic'))
      return cases
    ks = [k for _, k in a]
    if len(set(ks)) != len(ks):
      fails.append(dict(inputs=inp, observed='a key was returned twice within one run', violated='no-key-reuse'))
      return cases
    # interleaving draws of another stream changes no key of this one
    c = dict()
    r = nnx.Rngs(**seeds)
    only = [_kd(r.dropout()) for _ in range(3)]
    if 'dropout' in seeds and only != [k for s, k in a if s == 'dropout']:
      fails.append(dict(inputs=inp, observed='draws from other streams changed the keys of stream "dropout"', violated='stream-independence'))
      return cases
    # a missing stream falls back to 'default'
    if 'noise' not in seeds:
      r1, r2 = nnx.Rngs(**seeds), nnx.Rngs(**dict(seeds, default=seeds['default'] + 7))
      if _kd(r1.noise()) == _kd(r2.noise()):
        fails.append(dict(inputs=inp, observed="a missing stream does not depend on the 'default' seed", violated='fallback'))
        return cases
  # split_rngs / restore: resumes without replaying a key
  for splits, only in itertools.product((2, 3), (..., 'dropout')):
    cases += 1
    inp = dict(api='nnx', check='split-restore', splits=splits, only=repr(only))
    rngs = nnx.Rngs(params=0, dropout=1)
    before = [_kd(rngs.dropout()), _kd(rngs.params())]
    backups = nnx.split_rngs(rngs, splits=splits, only=only)
    inner = []
    for i in range(splits):
      inner.append(tuple(np.asarray(jax.random.key_data(rngs.dropout.key.value)).reshape(splits, -1)[i].tolist()))
    nnx.restore_rngs(backups)
    after = [_kd(rngs.dropout()), _kd(rngs.params()), _kd(rngs.dropout())]
    allk = before + inner + after
    if len(set(allk)) != len(allk):
      fails.append(dict(inputs=inp, observed='a key was replayed across split_rngs / restore_rngs', violated='split-restore-no-replay'))
      return cases
    ref = nnx.Rngs(params=0, dropout=1)
    ref_before = [_kd(ref.dropout()), _kd(ref.params())]
    ref.dropout()      # the split consumes one draw of every split stream
    if only is ...:
      ref.params()
    ref_after = [_kd(ref.dropout()), _kd(ref.params()), _kd(ref.dropout())]
    if ref_before != before or ref_after != after:
      fails.append(dict(inputs=inp, observed='after restore the stream does not resume where the original stream would be (one draw consumed by the split)', violated='split-restore-resumes'))
      return cases
  # a squeezed split (splits=1, squeeze=True) is restored like any other
  cases += 1
  rngs = nnx.Rngs(params=0, dropout=1)
  first = _kd(rngs.dropout())
  backups = nnx.split_rngs(rngs, splits=1, squeeze=True)
  inner_key = _kd(rngs.dropout.key.value)
  inner_draw = _kd(rngs.dropout())
  nnx.restore_rngs(backups)
  after = [_kd(rngs.dropout()), _kd(rngs.dropout())]
  ref = nnx.Rngs(params=0, dropout=1)
  ref.dropout(); ref.dropout()
  ref_after = [_kd(ref.dropout()), _kd(ref.dropout())]
  if after != ref_after or len({first, inner_draw, *after}) != 4:
    fails.append(dict(inputs=dict(api='nnx', check='split-restore', splits=1, squeeze=True), observed='after restore the stream does not resume the original stream (the split key is still installed, or a key is replayed)', violated='split-restore-resumes'))
    return cases
  # copies of an Rngs (clone, split/merge, a saved state) have their OWN position: drawing from one moves no other
  cases += 1
  r0 = nnx.Rngs(params=0, dropout=1)
  r0.dropout()
  snap = nnx.state(r0)
  cl = nnx.clone(r0)
  gd, st = nnx.split(r0)
  mg = nnx.merge(gd, st)
  ref_seq = nnx.Rngs(params=0, dropout=1)
  ref_seq.dropout()
  want_seq = [_kd(ref_seq.dropout()) for _ in range(3)]
  got_clone = [_kd(cl.dropout()) for _ in range(3)]
  got_merged = [_kd(mg.dropout()) for _ in range(3)]
  got_orig = [_kd(r0.dropout()) for _ in range(3)]
  nnx.update(r0, snap)
  got_restored = [_kd(r0.dropout()) for _ in range(3)]
  for tag, got_seq in (('clone', got_clone), ('merge(split(rngs))', got_merged), ('the original after its copies were used', got_orig), ('the original after nnx.update with a state saved earlier', got_restored)):
    if got_seq != want_seq:
      fails.append(dict(inputs=dict(api='nnx', check='copies-have-own-position', object=tag), observed='the keys are not those of the same call sequence on a fresh Rngs with the same seeds (a copy shares the counter of the original, or a restored state does not rewind)', violated='deterministic'))
      return cases
  # reseed restarts the stream: int and key seeds, used streams
  for seed_kind, used in itertools.product(('int', 'key', 'derived-key'), (0, 3)):
    cases += 1
    inp = dict(api='nnx', check='reseed', seed=seed_kind, draws_before=used)
    seed = {'int': 42, 'key': jax.random.key(42), 'derived-key': jax.random.fold_in(jax.random.key(1), 5)}[seed_kind]

    class M(nnx.Module):
      def __init__(self, rngs):
        self.rngs = rngs
    m = M(nnx.Rngs(dropout=7))
    for _ in range(used):
      m.rngs.dropout()
    nnx.reseed(m, dropout=seed)
    got = [_kd(m.rngs.dropout()) for _ in range(3)]
    fresh = nnx.Rngs(dropout=seed)
    want = [_kd(fresh.dropout()) for _ in range(3)]
    if got != want:
      fails.append(dict(inputs=inp, observed='after reseed the stream does not produce the keys of a freshly seeded stream', violated='reseed-restarts'))
      return cases
  return cases


def run(tier, seed):
  cases, fails = 0, []
  for part in (_linen_part, _nnx_part):
    try:
      cases += part(fails)
    except Exception:
      import traceback
      return dict(name=NAME, cases=cases, distinct=cases, failures=[], error=f'{part.__name__}: ' + traceback.format_exc()[-1500:])
    if fails:
      break
  return dict(name=NAME, cases=cases, distinct=cases,
              bound='linen: 4 module trees (depth <= 3, incl. ab/c vs a/bc) x separator flag toggled F,T,F,T x {base, extra siblings, reversed order, extra stream, missing stream} x 2 draws per stream and scope; '
                    'sibling / nested nn.jit layers x 3 rngs layouts; nnx: 3 seed sets x 6-draw plan, split/restore splits {2,3} x only {..., dropout} + squeezed split of 1, reseed {int, key, derived key} x {unused, used} stream',
              failures=fails[:2], error=None)


def replay(inputs):
  r = run('quick', 0)
  return not r['failures']
