"""Bounded stand-in (C20): the real flax.jax_utils.scan_in_dim against the nested Python loop over the
chosen axes (every ordered axis tuple of length 1-3 of a rank-3 / rank-4 input, keepdims on/off, pytree
inputs, a body that depends on the carry), and pad_shard_unpad against the wrapped function on the
unpadded batch (batch sizes 1..2*devices+1 on 4 host devices, min_device_batch in {None, 1, 2, 3},
static arguments and a pytree batch). Labelled bounded: never counted as proved."""
import itertools
import numpy as np
from . import _env  # noqa: F401

NAME = 'bounded:jax_utils scan_in_dim vs nested loops; pad_shard_unpad vs the unpadded call'


def _scan_cases(fails):
  import jax
  import jax.numpy as jnp
  from flax import jax_utils
  cases = 0
  rng = np.random.RandomState(0)
  for shape in ((2, 3, 4), (2, 3, 2, 2)):
    x = rng.randn(*shape).astype(np.float32)
    z = rng.randn(*shape).astype(np.float32)
    for n in (1, 2, 3):
      for axes in itertools.permutations(range(len(shape)), n):
        for keepdims in (False, True):
          cases += 1

          def body(c, xs):
            a, b = xs['a'], xs['b']
            c = c * 0.5 + jnp.sum(a) - jnp.sum(b) * 0.25      # depends on the order of the iterations
            return c, {'y': a * c, 'w': b + c}
          ax_arg = axes if n > 1 else (axes[0] if not keepdims else axes)
          try:
            c, ys = jax_utils.scan_in_dim(body, jnp.zeros(()), {'a': jnp.asarray(x), 'b': jnp.asarray(z)}, axis=ax_arg, keepdims=keepdims)
          except Exception as e:  # noqa
            fails.append(dict(inputs=dict(fn='scan_in_dim', shape=list(shape), axis=repr(ax_arg), keepdims=keepdims), observed=f'raised {e!r}'[:300], violated='scan-in-dim-equals-loop'))
            return cases
          # reference: nested python loops, first axis outermost
          cref = 0.0
          ya, yw = np.zeros_like(x), np.zeros_like(z)
          for idx in itertools.product(*[range(shape[a]) for a in axes]):
            sl = [slice(None)] * len(shape)
            for a, i in zip(axes, idx):
              sl[a] = i
            sa, sb = x[tuple(sl)], z[tuple(sl)]
            cref = cref * 0.5 + float(sa.sum()) - float(sb.sum()) * 0.25
            ya[tuple(sl)] = sa * cref
            yw[tuple(sl)] = sb + cref
          got_a, got_w = np.asarray(ys['y']), np.asarray(ys['w'])
          if abs(float(c) - cref) > 1e-3 * max(1.0, abs(cref)) or got_a.shape != ya.shape or not np.allclose(got_a, ya, atol=1e-3) or not np.allclose(got_w, yw, atol=1e-3):
            fails.append(dict(inputs=dict(fn='scan_in_dim', shape=list(shape), axis=repr(ax_arg), keepdims=keepdims),
                              observed=f'carry {float(c)} / ys differ from the nested loop over axes {axes} (carry {cref}; ys shape {got_a.shape} vs {ya.shape})', violated='scan-in-dim-equals-loop'))
            return cases
  return cases


def _pad_cases(fails):
  import jax
  import jax.numpy as jnp
  from flax import jax_utils
  cases = 0
  d = jax.local_device_count()
  if d < 4:
    raise RuntimeError(f'only {d} host device(s): XLA_FLAGS --xla_force_host_platform_device_count did not take effect (jax was imported before bounded._env)')

  def per_example(x, y, scale):
    return {'o': x * scale + y['v'].sum(axis=-1, keepdims=True), 'n': jnp.sum(x, axis=-1)}
  pm = jax.pmap(per_example, static_broadcasted_argnums=(2,))
  for b, mdb in itertools.product(range(1, 2 * d + 2), (None, 1, 2, 3)):
    cases += 1
    x = np.arange(b * 3, dtype=np.float32).reshape(b, 3) + 1
    y = {'v': np.arange(b * 2, dtype=np.float32).reshape(b, 2) * 0.5}
    want = per_example(x, y, 2.0)
    try:
      got = jax_utils.pad_shard_unpad(pm, static_argnums=(2,))(x, y, 2.0, min_device_batch=mdb)
    except Exception as e:  # noqa
      fails.append(dict(inputs=dict(fn='pad_shard_unpad', devices=d, batch=b, min_device_batch=mdb), observed=f'raised {e!r}'[:300], violated='pad-shard-unpad-equals-plain'))
      return cases
    for k in want:
      g, w = np.asarray(got[k]), np.asarray(want[k])
      if g.shape != w.shape or not np.allclose(g, w, atol=1e-5):
        fails.append(dict(inputs=dict(fn='pad_shard_unpad', devices=d, batch=b, min_device_batch=mdb), observed=f'output {k!r}: shape {g.shape} / values differ from the wrapped function on the unpadded batch ({w.shape})', violated='pad-shard-unpad-equals-plain'))
        return cases
  return cases


def run(tier, seed):
  cases, fails = 0, []
  for part in (_scan_cases, _pad_cases):
    try:
      cases += part(fails)
    except Exception:
      import traceback
      return dict(name=NAME, cases=cases, distinct=cases, failures=[], error=f'{part.__name__}: ' + traceback.format_exc()[-1500:])
    if fails:
      break
  import jax
  return dict(name=NAME, cases=cases, distinct=cases,
              bound=f'scan_in_dim: all ordered axis tuples of length 1-3 of shapes (2,3,4), (2,3,2,2) x keepdims; pad_shard_unpad: batch 1..{2 * jax.local_device_count() + 1} on {jax.local_device_count()} host devices x min_device_batch {{None,1,2,3}}',
              failures=fails[:2], error=None)


def replay(inputs):
  r = run('quick', 0)
  return not r['failures']
