"""Bounded stand-in (C20): the real flax.jax_utils.scan_in_dim against the nested Python loop over the
chosen axes (every ordered axis tuple of length 1-3 of a rank-3 / rank-4 input, keepdims on/off, pytree
inputs, a body that depends on the carry), and pad_shard_unpad against the wrapped function on the
unpadded batch (batch sizes 1..2*devices+1 on 4 host devices, min_device_batch in {None, 1, 2, 3},
static arguments and a pytree batch). Labelled bounded: never counted as proved."""
import itertools
import numpy as np
from . import _env  # noqa: F401

NAME = 'bounded:jax_utils scan_in_dim vs nested loops; pad_shard_unpad vs the unpadded call'


def _scan_cases(fails):
  import jax
  import jax.numpy as jnp
  from flax import jax_utils
  cases = 0
  rng = np.random.RandomState(0)
  for shape in ((2, 3, 4), (2, 3, 2, 2)):
    x = rng.randn(*shape).astype(np.float32)
    z = rng.randn(*shape).astype(np.float32)
    for n in (1, 2, 3):
      for axes in itertools.permutations(range(len(shape)), n):
        for keepdims in (False, True):
          cases += 1

          def body(c, xs):
            a, b = xs['a'], xs['b']
            c = c * 0.5 + jnp.sum(a) - jnp.sum(b) * 0.25      # depends on the order of the iterations
            return c, {'y': a * c, 'w': b + c}
          ax_arg = axes if n > 1 else (axes[0] if not keepdims else axes)
          try:
            c, ys = jax_utils.scan_in_dim(body, jnp.zeros(()), {'a': jnp.asarray(x), 'b': jnp.asarray(z)}, axis=ax_arg, keepdims=keepdims)
          except Exception as e:  # noqa
            fails.append(dict(inputs=dict(fn='scan_in_dim', shape=list(shape), axis=repr(ax_arg), keepdims=keepdims), observed=f'raised {e!r}'[:300], violated='scan-in-dim-equals-loop'))
            return cases
          # reference: nested python loops, first axis outermost
          cref = 0.0
          ya, yw = np.zeros_like(x), np.zeros_like(z)
          for idx in itertools.product(*[range(shape[a]) for a in axes]):
            sl = [slice(None)] * len(shape)
            for a, i in zip(axes, idx):
              sl[a] = i
            sa, sb = x[tuple(sl)], z[tuple(sl)]
            cref = cref * 0.5 + float(sa.sum()) - float(sb.sum()) * 0.25
            ya[tuple(sl)] = sa * cref
            yw[tuple(sl)] = sb + cref
          got_a, got_w = np.asarray(ys['y']), np.asarray(ys['w'])
          if abs(float(c) - cref) > 1e-3 * max(1.0, abs(cref)) or got_a.shape != ya.shape or not np.allclose(got_a, ya, atol=1e-3) or not np.allclose(got_w, yw, atol=1e-3):
            fails.append(dict(inputs=dict(fn='scan_in_dim', shape=list(shape), axis=repr(ax_arg), keepdims=keepdims),
                              observed=f'carry {float(c)} / ys differ from the nested loop over axes {axes} (carry {cref}; ys shape {got_a.shape} vs {ya.shape})', violated='scan-in-dim-equals-loop'))
            return cases
  return cases


def _pad_cases(fails):
  import jax
  import jax.numpy as jnp
  from flax import jax_utils
  cases = 0
  d = jax.local_device_count()
  if d < 4:
    raise RuntimeError(f'only {d} host device(s): XLA_FLAGS --xla_force_host_platform_device_count did not take effect (jax was imported before bounded._env)')

  def per_example(x, y, scale):
    return {'o': x * scale + y['v'].sum(axis=-1, keepdims=True), 'n': jnp.sum(x, axis=-1)}
  pm = jax.pmap(per_example, static_broadcasted_argnums=(2,))
  for b, mdb in itertools.product(range(1, 2 * d + 2), (None, 1, 2, 3)):
    cases += 1
    x = np.arange(b * 3, dtype=np.float32).reshape(b, 3) + 1
    y = {'v': np.arange(b * 2, dtype=np.float32).reshape(b, 2) * 0.5}
    want = per_example(x, y, 2.0)
    try:
      got = jax_utils.pad_shard_unpad(pm, static_argnums=(2,))(x, y, 2.0, min_device_batch=mdb)
    except Exception as e:  # noqa
      fails.append(dict(inputs=dict(fn='pad_shard_unpad', devices=d, batch=b, min_device_batch=mdb), observed=f'raised {e!r}'[:300], violated='pad-shard-unpad-equals-plain'))
      return cases
    for k in want:
      g, w = np.asarray(got[k]), np.asarray(want[k])
      if g.shape != w.shape or not np.allclose(g, w, atol=1e-5):
        fails.append(dict(inputs=dict(fn='pad_shard_unpad', devices=d, batch=b, min_device_batch=mdb), observed=f'output {k!r}: shape {g.shape} / values differ from the wrapped function on the unpadded batch ({w.shape})', violated='pad-shard-unpad-equals-plain'))
        return cases
  return cases


def _prefetch_cases(fails):
  """prefetch_to_device: every source length 0..5, buffer size 1..3, failing position (none, or any position incl. the first
  item and the end): exactly the items before the failure, in order, each once, then the source's exception (or a stop)"""
  import jax
  from flax import jax_utils
  cases = 0
  d = jax.local_device_count()

  class Boom(Exception):
    pass

  def src(n, fail_at):
    for i in range(n):
      if i == fail_at:
        raise Boom(i)
      yield np.full((d, 1), i, np.float32)
    if fail_at == n:
      raise Boom(n)
  for size in (1, 2, 3):
    for n in range(0, 6):
      for fail_at in [None] + list(range(0, n + 1)):
        cases += 1
        got, exc = [], None
        try:
          for b in jax_utils.prefetch_to_device(src(n, fail_at), size):
            got.append(int(np.asarray(b)[0, 0]))
        except Boom as e:
          exc = e
        want = list(range(n if fail_at is None else fail_at))
        if got != want or (exc is None) != (fail_at is None):
          fails.append(dict(inputs=dict(fn='prefetch_to_device', size=size, source_length=n, source_fails_at=fail_at),
                            observed=f'consumer received {got} and {"no exception" if exc is None else "the exception"}; the source produced {want} before ' + ('stopping' if fail_at is None else 'raising'),
                            violated='prefetch-delivers-in-order'))
          return cases
  return cases


def _reshape_cases(fails):
  """onehot / shard / stack_forest are the stated reshapes (onehot also for non-finite on / off values)"""
  import jax
  import jax.numpy as jnp
  from flax.training import common_utils
  cases = 0
  d = jax.local_device_count()
  for labels in (np.array([0, 2, 1]), np.array([[1, 0], [3, 3]]), np.array(2)):
    for on, off in ((1.0, 0.0), (0.9, 0.025), (0.0, -np.inf), (np.inf, 0.0), (1.0, np.nan), (-2.0, 5.0)):
      cases += 1
      n = 4
      got = np.asarray(common_utils.onehot(jnp.asarray(labels), n, on_value=on, off_value=off))
      want = np.where(labels[..., None] == np.arange(n), np.float32(on), np.float32(off)).astype(np.float32)
      if got.shape != want.shape or not np.array_equal(got, want, equal_nan=True):
        fails.append(dict(inputs=dict(fn='onehot', labels=labels.tolist(), on_value=repr(on), off_value=repr(off)), observed=f'{got.tolist()} instead of {want.tolist()}'[:300], violated='reshape-helpers'))
        return cases
  cases += 1
  x = {'a': np.arange(d * 3 * 2).reshape(d * 3, 2), 'b': np.arange(d * 3)}
  sh = common_utils.shard(x)
  if np.asarray(sh['a']).shape != (d, 3, 2) or not np.array_equal(np.asarray(sh['a']).reshape(d * 3, 2), x['a']) or not np.array_equal(np.asarray(sh['b']).reshape(-1), x['b']):
    fails.append(dict(inputs=dict(fn='shard', devices=d), observed='shard is not the reshape to (devices, -1, ...)', violated='reshape-helpers'))
  # shard for every multiple of the device count - also exactly one example per device
  for k in (1, 2, 3):
    cases += 1
    xb = {'feat': np.arange(d * k * 3).reshape(d * k, 3), 'label': np.arange(d * k), 'img': np.arange(d * k * 2 * 2).reshape(d * k, 2, 2)}
    shb = common_utils.shard(xb)
    for name, leaf in xb.items():
      want = leaf.reshape((d, k) + leaf.shape[1:])
      got = np.asarray(shb[name])
      if got.shape != want.shape or not np.array_equal(got, want):
        fails.append(dict(inputs=dict(fn='shard', devices=d, batch=d * k, leaf=name), observed=f'shape {got.shape}, the reshape to (devices, -1, ...) gives {want.shape}', violated='reshape-helpers'))
        return cases
  # get_metrics: unreplicated (x[0]) and stacked over the recorded steps - also for metrics replicated over a SUBSET of the devices
  for kdev in sorted({1, 2, d}):
    if kdev > d:
      continue
    for T in (1, 3):
      cases += 1
      devs_k = jax.local_devices()[:kdev]
      step = jax.pmap(lambda v: {'loss': jax.lax.pmean(v.sum(), 'b'), 'acc': jax.lax.pmean(v.mean(), 'b')}, axis_name='b', devices=devs_k)
      recorded, wants = [], []
      for t in range(T):
        v = np.arange(kdev * 3, dtype=np.float32).reshape(kdev, 3) + t
        recorded.append(step(jnp.asarray(v)))
        wants.append({'loss': v.sum(1).mean(), 'acc': v.mean(1).mean()})
      try:
        gm = common_utils.get_metrics(recorded)
        ok = all(np.asarray(gm[kk]).shape == (T,) and np.allclose(np.asarray(gm[kk]), [w[kk] for w in wants], atol=1e-5) for kk in ('loss', 'acc'))
        msg = f"shapes {[np.asarray(gm[kk]).shape for kk in ('loss', 'acc')]}, expected ({T},) each with the per-step values"
      except Exception as e:  # noqa
        ok, msg = False, f'raised {e!r}'[:200]
      if not ok:
        fails.append(dict(inputs=dict(fn='get_metrics', replicated_over=kdev, local_devices=d, steps=T), observed=msg, violated='reshape-helpers'))
        return cases
  cases += 1
  forest = [{'w': np.full((2,), i), 'k': {'v': np.array(i * 10)}} for i in range(3)]
  st = common_utils.stack_forest(forest)
  if not np.array_equal(np.asarray(st['w']), np.stack([f['w'] for f in forest])) or not np.array_equal(np.asarray(st['k']['v']), np.array([0, 10, 20])):
    fails.append(dict(inputs=dict(fn='stack_forest'), observed='stack_forest is not the leaf-wise stack', violated='reshape-helpers'))
  # forests whose trees differ in dtype at a leaf position: the result is np.stack's (promoted dtype, exact values)
  mixed = {
      'int then float': [{'lr': np.array(0)}, {'lr': np.array(0.25)}, {'lr': np.array(0.5)}],
      'float32 then float64': [{'lr': np.array(1.0, np.float32)}, {'lr': np.array(16777217.0, np.float64)}],
      'int16 then int32': [{'lr': np.array([1, 2], np.int16)}, {'lr': np.array([70000, 3], np.int32)}],
      'bool then int': [{'lr': np.array(True)}, {'lr': np.array(7)}],
      'python scalars': [{'lr': 0}, {'lr': 0.5}],
  }
  for tag, forest in mixed.items():
    cases += 1
    try:
      got = np.asarray(common_utils.stack_forest(forest)['lr'])
      want = np.stack([f['lr'] for f in forest])
      ok = got.shape == want.shape and got.dtype == want.dtype and np.array_equal(got, want)
      msg = f'{got.tolist()} ({got.dtype}) instead of {want.tolist()} ({want.dtype})'
    except Exception as e:  # noqa
      ok, msg = False, f'raised {e!r}'[:200]
    if not ok:
      fails.append(dict(inputs=dict(fn='stack_forest', forest=tag), observed=msg, violated='reshape-helpers'))
      return cases
  # unreplicate is x[0] at every leaf, whatever the layout of the leaf over the devices
  from flax import jax_utils
  from jax.sharding import Mesh, NamedSharding, PartitionSpec as P
  devs = np.array(jax.local_devices())
  base = np.arange(d * 4 * 3, dtype=np.float32).reshape(d, 4, 3)
  layouts = {'numpy leaf': base, 'device array': jnp.asarray(base)}
  if d > 1:
    mesh = Mesh(devs, ('d',))
    layouts['leading axis split'] = jax.device_put(base, NamedSharding(mesh, P('d')))
    layouts['fully replicated'] = jax.device_put(base, NamedSharding(mesh, P()))
    if 4 % d == 0:
      layouts['second axis split'] = jax.device_put(base, NamedSharding(mesh, P(None, 'd')))
      layouts['pmap out_axes=1'] = jax.pmap(lambda v: v * 1.0, out_axes=1)(jnp.asarray(np.arange(d * d * 3, dtype=np.float32).reshape(d, d, 3)))
    if d % 2 == 0 and d >= 4:
      mesh2 = Mesh(devs[:4].reshape(2, 2), ('a', 'b'))
      layouts['2x2 mesh, two axes split'] = jax.device_put(np.arange(4 * 6, dtype=np.float32).reshape(4, 6), NamedSharding(mesh2, P('a', 'b')))
    layouts['pmap output'] = jax.pmap(lambda v: v + 1.0)(jnp.asarray(base))
  for tag, arr in layouts.items():
    cases += 1
    try:
      got = np.asarray(jax_utils.unreplicate({'x': arr})['x'])
      want = np.asarray(arr)[0]
      ok = got.shape == want.shape and np.array_equal(got, want)
      msg = f'shape {got.shape} instead of x[0] with shape {want.shape}' if got.shape != want.shape else 'values differ from x[0]'
    except Exception as e:  # noqa
      ok, msg = False, f'raised {e!r}'[:200]
    if not ok:
      fails.append(dict(inputs=dict(fn='unreplicate', layout=tag, devices=d), observed=msg, violated='reshape-helpers'))
      return cases
  return cases


def run(tier, seed):
  cases, fails = 0, []
  for part in (_scan_cases, _pad_cases, _prefetch_cases, _reshape_cases):
    try:
      cases += part(fails)
    except Exception:
      import traceback
      return dict(name=NAME, cases=cases, distinct=cases, failures=[], error=f'{part.__name__}: ' + traceback.format_exc()[-1500:])
    if fails:
      break
  import jax
  return dict(name=NAME, cases=cases, distinct=cases,
              bound=f'scan_in_dim: all ordered axis tuples of length 1-3 of shapes (2,3,4), (2,3,2,2) x keepdims; pad_shard_unpad: batch 1..{2 * jax.local_device_count() + 1} on {jax.local_device_count()} host devices x min_device_batch {{None,1,2,3}}; prefetch_to_device: buffer size 1..3 x source length 0..5 x every failing position; onehot (3 label shapes x 6 on/off pairs incl. inf / nan), shard, stack_forest (+ 5 mixed-dtype forests), unreplicate x 8 device layouts, shard with 1-3 examples per device, get_metrics over pmaps on 1 / 2 / all devices',
              failures=fails[:2], error=None)


def replay(inputs):
  r = run('quick', 0)
  return not r['failures']
