#!/usr/bin/env python3
"""Regenerates MANIFEST.json from pyvc/propcfg.py (claimed checks) + properties.jsonl (the rest not_applicable)."""
import json, sys, os
sys.path.insert(0, os.path.dirname(os.path.abspath(__file__)))
from pyvc import propcfg
from pyvc.manifest_text import ADDED, TEXT, NA
props = [json.loads(l) for l in open('properties.jsonl')]
checks = []
for p in props:
  pid = p['id']
  if pid not in propcfg.PROPS:
    continue
  t = TEXT[pid]
  checks.append(dict(
    property_id=pid,
    quick_cmd=f'./check {pid} --tier quick',
    thorough_cmd=f'./check {pid} --tier thorough',
    evidence_file=f'evidence/{pid}.json',
    replay_cmd_template=f'./check {pid} --replay {{path}}',
    engine='pyvc',
    level_claimed=dict(category='proof', text=t['level'] + (' ' + ADDED[pid] if pid in ADDED else ''), design_ref=t.get('design_ref', 'DESIGN.md section 6')),
    level_note=t['note'],
    technique=t['technique'],
  ))
m = dict(
  version=1, setup_cmd='./setup.sh',
  hooks=dict(guard='FLAX_VERIF', enable='no hooks: nothing in /repo is edited for verification; checks read /repo\'s working tree directly (fix: commits are unguarded repairs, see KNOWN_FINDINGS.json)',
             baseline_off_cmd='cd /repo && /venv/bin/python -m pytest -ra -q -p no:cacheprovider --timeout=900 --continue-on-collection-errors',
             source_commits=[], add_only=True),
  engines=[dict(name='pyvc', path='pyvc/', serves_properties=sorted(propcfg.PROPS),
                kind_free_text='contract-based deductive verification: own AST->VC generator over the real /repo source (re-read every run) against sidecar contracts in specs/, discharged by z3 5.1 (API) with cvc5 1.0.3 / z3 4.8.12 (CLI) on what z3 leaves open; the same contract text is evaluated natively on the real functions as a bounded stand-in')],
  checks=checks,
  not_applicable=[dict(property_id=p['id'], reason=NA.get(p['id'], 'check not built yet; see DESIGN.md')) for p in props if p['id'] not in propcfg.PROPS],
  notes='see DESIGN.md; exit codes: 0 held, 1 VIOLATION, 2 undecided (code left the verified subset, no violation claimed), 3 checker error',
)
json.dump(m, open('MANIFEST.json', 'w'), indent=1)
import jsonschema
jsonschema.validate(m, json.load(open('/root/.vp/MANIFEST.schema.json')))
print('MANIFEST ok:', len(checks), 'checks;', len(m['not_applicable']), 'not applicable')
