"""Sidecar contracts: flax/nnx/spmd.py add_axis / remove_axis field arithmetic (property C19):
stacking a variable along axis k inserts the partition name at position k of its sharding tuple,
padding a shorter tuple with None; un-stacking removes exactly that position."""
from pyvc.vc import *  # noqa

F = 'flax/nnx/spmd.py'
AxName = opaque('ShardingAxisName', universe=['layers', 'data', 'model'], nullable=True)
Fields = SeqOf(AxName)

insert_field = function(
  F + '::add_axis.<locals>.insert_field', params=[('fields', Fields), ('index', INT), ('value', AxName)], returns=Fields,
  requires=['index >= 0'],
  ensures=[
    # one position more than the (padded) tuple; the name sits at the stacking axis; every other position keeps its
    # entry, shifted by one behind the stacking axis; missing positions are padded with None
    'len(result) == (len(fields) if len(fields) >= index else index) + 1',
    'result[index] == value',
    'forall(Int, lambda i: implies(0 <= i and i < index, result[i] == (fields[i] if i < len(fields) else None)))',
    'forall(Int, lambda i: implies(index < i and i < len(result), result[i] == fields[i - 1]))',
  ],
  invariants={0: [
    'len(iterable) >= len(fields)', 'len(iterable) <= (len(fields) if len(fields) >= index else index)',
    'forall(Int, lambda i: implies(0 <= i and i < len(fields), iterable[i] == fields[i]))',
    'forall(Int, lambda i: implies(len(fields) <= i and i < len(iterable), iterable[i] is None))',
  ]},
  while_decreases={0: 'index - len(iterable)'},
  props=('C19',))
insert_field.locals = {'iterable': Fields}

remove_field = function(
  F + '::remove_axis.<locals>.remove_field', params=[('fields', Fields), ('index', INT), ('value', AxName)], returns=Fields,
  requires=['0 <= index and index < len(fields)'],
  raises={'AssertionError': 'fields[index] != value'},      # un-stacking along an axis that does not carry the partition name is refused
  ensures=[
    'len(result) == len(fields) - 1',
    'forall(Int, lambda i: implies(0 <= i and i < index, result[i] == fields[i]))',
    'forall(Int, lambda i: implies(index <= i and i < len(result), result[i] == fields[i + 1]))',
  ],
  props=('C19',))
remove_field.locals = {'iterable': Fields}

lemma(
  'nnx_insert_then_remove_field', params=[('fields', Fields), ('index', INT), ('value', AxName)], returns=Fields,
  requires=['0 <= index and index <= len(fields)'],
  ensures=['seq_eq(result, fields)'],
  body='''
t = insert_field(fields, index, value)
return remove_field(t, index, value)
''', bindings={'insert_field': insert_field, 'remove_field': remove_field}, props=('C19',))

# ---- _get_partition_name_and_metadata: the axis name, and the REST of the transform metadata (the caller's dict untouched) ----
MKey = opaque('TransformMetadataKey', universe=['partition_name', 'other_key', 'third'])
MVal = opaque('TransformMetadataValue', is_str=False, universe=['x', 'y'])
TMeta = MapOf(MKey, MVal)
NameAndMeta = TupleOf(MVal, TMeta)
name_and_meta = function(
  F + '::_get_partition_name_and_metadata', params=[('transform_metadata', TMeta)], returns=NameAndMeta,
  raises={'ValueError': "'partition_name' not in transform_metadata"},
  ensures=["result[0] == transform_metadata['partition_name']",
           "forall(TransformMetadataKey, lambda k: (k in result[1]) == (k in transform_metadata and k != 'partition_name'))",
           "forall(TransformMetadataKey, lambda k: implies(k in result[1], result[1][k] == transform_metadata[k]))",
           'transform_metadata == old(transform_metadata)'],
  bindings={'PARTITION_NAME': Lit('partition_name')}, props=('C19',))
name_and_meta.dict_hint = TMeta

# ---- get_partition_spec.<locals>._maybe_replicate: any array-like without sharding is replicated, anything else gets None ----
import z3 as _z3
from pyvc.values import SV as _SV
NLeaf = opaque('NNXLeafValue', is_str=False)
NPSpec = opaque('NNXPartitionSpecOrNone', is_str=False, nullable=True)
n_has_shape = UFn('nnx_leaf_has_shape', [NLeaf], BOOL, "hasattr(x, 'shape')")
n_replicated = UFn('nnx_replicated_pspec', [], NPSpec, 'PartitionSpec()')
NLeaf.hasattr_hook = lambda ex, v, name: ex.call_value(n_has_shape, [v], {}) if name == 'shape' else _SV(BOOL, _z3.Bool('nnx_leaf_has_' + name))
NLeaf.isinstance_hook = lambda ex, v, names: _z3.Bool('nnx_leaf_isinstance_' + '_'.join(sorted(names)))
maybe_replicate = function(
  F + '::get_partition_spec.<locals>._maybe_replicate', params=[('x', NLeaf)], returns=NPSpec,
  requires=['nnx_replicated_pspec() is not None'],
  ensures=['implies(nnx_leaf_has_shape(x), result == nnx_replicated_pspec())', 'implies(not nnx_leaf_has_shape(x), result is None)'],
  bindings={'PartitionSpec': Handler('PartitionSpec', lambda ex, a, kw: ex.call_value(n_replicated, [], {}) if not a else (_ for _ in ()).throw(OutsideSubset('PartitionSpec(args)')), 'PartitionSpec() is the replicated spec'),
            'jax.Array': TypeTag('jax.Array'), 'np.ndarray': TypeTag('np.ndarray')},
  modifies=[], props=('C19',))

# ---- get_partition_spec.<locals>.f: what replaces the value of a Variable(State) in the spec tree ---------------------------
from specs.core_spmd import Entry as SEntry, Rules as SRules, Sharding as SSharding  # noqa: E402
is_varlike = UFn('is_variable_or_state', [NLeaf], BOOL, 'isinstance(x, (VariableState, Variable))')
has_sharding_a = UFn('has_sharding_attr', [NLeaf], BOOL, "hasattr(x, 'sharding')")
has_rules_a = UFn('has_sharding_rules_attr', [NLeaf], BOOL, "hasattr(x, 'sharding_rules')")
sharding_of = UFn('sharding_of', [NLeaf], SSharding, 'x.sharding (None is read as the empty tuple: both are falsy and take the same branch)')
rules_of = UFn('sharding_rules_of', [NLeaf], SRules, 'x.sharding_rules')
value_of = UFn('value_of', [NLeaf], NLeaf, 'x.value')
ctx_rules = UFn('context_logical_axis_rules', [], SRules, 'core_spmd.get_logical_axis_rules() (stable during the call)')
composite = UFn('composite_rules', [SRules, SRules], SRules, 'core_spmd.composite_rules (not under contract)')
fsr = UFn('from_sharding_rules', [SSharding, SRules], SSharding, 'core_spmd.from_sharding_rules (contract: specs/core_spmd.py)')
mrep = UFn('maybe_replicate', [NLeaf], NPSpec, '_maybe_replicate (contract above)')
RepArg = Union('ReplaceArgument', [Ctor('APSpec', [('entries', SSharding)], pytypes=('PartitionSpec',)),
                                   Ctor('AOpt', [('p', NPSpec)], pytypes=('NoneType', 'object'), payload='p')])
_REPLACE = Effect('x.replace', [NLeaf, RepArg], ret=NLeaf)


def _nleaf_isinstance(ex, v, names):
  if names == {'variablelib.VariableState', 'variablelib.Variable'}:
    return ex.call_value(is_varlike, [v], {}).t
  return _z3.Bool('nnx_leaf_isinstance_' + '_'.join(sorted(names)))


def _nleaf_hasattr(ex, v, name):
  if name == 'shape':
    return ex.call_value(n_has_shape, [v], {})
  if name == 'sharding':
    return ex.call_value(has_sharding_a, [v], {})
  if name == 'sharding_rules':
    return ex.call_value(has_rules_a, [v], {})
  return _SV(BOOL, _z3.Bool('nnx_leaf_has_' + name))


NLeaf.isinstance_hook = _nleaf_isinstance
NLeaf.hasattr_hook = _nleaf_hasattr
NLeaf.attr_hooks = {}
NLeaf.attrs['value'] = (NLeaf, None)
NLeaf.methods = {'replace': lambda ex, v, a, kw: ex.call_value(_REPLACE, [v, a[0]], {})}


def _getattr3(ex, a, kw):
  """getattr(x, 'sharding_rules', ()): the attribute if present, else the default"""
  if len(a) == 3 and getattr(a[1], 'py', None) == 'sharding_rules':
    v = ex.deref(a[0])
    has = ex.call_value(has_rules_a, [v], {}).t
    r = ex.call_value(rules_of, [v], {})
    empty = ex.call_value(empty_rules, [], {})      # the default `()`: the one empty rule tuple
    return _SV(SRules, _z3.If(has, r.t, empty.t))
  if len(a) == 2 and getattr(a[1], 'py', None):
    return ex.getattr_(a[0], a[1].py)
  raise OutsideSubset('getattr')


def _sharding_attr(ex, v):
  return ex.call_value(sharding_of, [v], {})


def _pspec_star(ex, a, kw):
  star = [x[1] for x in a if isinstance(x, tuple) and not isinstance(x, PyTuple) and len(x) == 2 and x[0] == '*']
  if len(star) != 1 or len(a) != 1:
    raise OutsideSubset('PartitionSpec(*entries) expected')
  return _SV(RepArg, RepArg.mk('APSpec', ex.coerce(star[0], SSharding).t))


SHARDED = '(has_sharding_attr(x) and len(x.sharding) > 0)'
RULED = '(len(context_logical_axis_rules()) > 0 or has_sharding_rules_attr(x))'
LOCAL = '(sharding_rules_of(x) if has_sharding_rules_attr(x) else ())'
gps_f = function(
  F + '::get_partition_spec.<locals>.f', params=[('x', NLeaf)], returns=ANY,
  ensures=[
    # not a Variable / VariableState: replicated if it is array-like, None otherwise
    "implies(not is_variable_or_state(x), ncalls('x.replace') == 0 and result == maybe_replicate(x))",
    "implies(is_variable_or_state(x), ncalls('x.replace') == 1 and call_args('x.replace')[0] == x)",
    # sharded and some logical rules are in force: the names are translated by the context rules combined with the variable's own rules
    f"implies(is_variable_or_state(x) and {SHARDED} and {RULED}, is_(call_args('x.replace')[1], 'APSpec') and "
    f"call_args('x.replace')[1].entries == from_sharding_rules(x.sharding, composite_rules(context_logical_axis_rules(), sharding_rules_of(x) if has_sharding_rules_attr(x) else empty_rules())))",
    # sharded, no rules anywhere: the names are mesh axes already
    f"implies(is_variable_or_state(x) and {SHARDED} and not {RULED}, is_(call_args('x.replace')[1], 'APSpec') and call_args('x.replace')[1].entries == x.sharding)",
    # no sharding: replicated / None according to the value
    f"implies(is_variable_or_state(x) and not {SHARDED}, is_(call_args('x.replace')[1], 'AOpt') and call_args('x.replace')[1].p == maybe_replicate(x.value))",
  ],
  bindings={'variablelib.VariableState': TypeTag('variablelib.VariableState'), 'variablelib.Variable': TypeTag('variablelib.Variable'),
            'core_spmd.get_logical_axis_rules': ctx_rules, 'core_spmd.composite_rules': composite, 'core_spmd.from_sharding_rules': fsr,
            '_maybe_replicate': mrep, 'getattr': Handler('getattr', _getattr3, "getattr(x, 'sharding_rules', ())"),
            'PartitionSpec': Handler('PartitionSpec', _pspec_star, 'PartitionSpec(*entries): an injective constructor of the entries')},
  props=('C19', 'C18'))
empty_rules = UFn('empty_rules', [], SRules, 'the empty rule tuple ()')
gps_f.assume_axioms = ['len(empty_rules()) == 0']
NLeaf.attrs['sharding'] = (SSharding, None)
