"""Sidecar contracts: flax/nnx/spmd.py add_axis / remove_axis field arithmetic (property C19):
stacking a variable along axis k inserts the partition name at position k of its sharding tuple,
padding a shorter tuple with None; un-stacking removes exactly that position."""
from pyvc.vc import *  # noqa

F = 'flax/nnx/spmd.py'
AxName = opaque('ShardingAxisName', universe=['layers', 'data', 'model'], nullable=True)
Fields = SeqOf(AxName)

insert_field = function(
  F + '::add_axis.<locals>.insert_field', params=[('fields', Fields), ('index', INT), ('value', AxName)], returns=Fields,
  requires=['index >= 0'],
  ensures=[
    # one position more than the (padded) tuple; the name sits at the stacking axis; every other position keeps its
    # entry, shifted by one behind the stacking axis; missing positions are padded with None
    'len(result) == (len(fields) if len(fields) >= index else index) + 1',
    'result[index] == value',
    'forall(Int, lambda i: implies(0 <= i and i < index, result[i] == (fields[i] if i < len(fields) else None)))',
    'forall(Int, lambda i: implies(index < i and i < len(result), result[i] == fields[i - 1]))',
  ],
  invariants={0: [
    'len(iterable) >= len(fields)', 'len(iterable) <= (len(fields) if len(fields) >= index else index)',
    'forall(Int, lambda i: implies(0 <= i and i < len(fields), iterable[i] == fields[i]))',
    'forall(Int, lambda i: implies(len(fields) <= i and i < len(iterable), iterable[i] is None))',
  ]},
  while_decreases={0: 'index - len(iterable)'},
  props=('C19',))
insert_field.locals = {'iterable': Fields}

remove_field = function(
  F + '::remove_axis.<locals>.remove_field', params=[('fields', Fields), ('index', INT), ('value', AxName)], returns=Fields,
  requires=['0 <= index and index < len(fields)'],
  raises={'AssertionError': 'fields[index] != value'},      # un-stacking along an axis that does not carry the partition name is refused
  ensures=[
    'len(result) == len(fields) - 1',
    'forall(Int, lambda i: implies(0 <= i and i < index, result[i] == fields[i]))',
    'forall(Int, lambda i: implies(index <= i and i < len(result), result[i] == fields[i + 1]))',
  ],
  props=('C19',))
remove_field.locals = {'iterable': Fields}

lemma(
  'nnx_insert_then_remove_field', params=[('fields', Fields), ('index', INT), ('value', AxName)], returns=Fields,
  requires=['0 <= index and index <= len(fields)'],
  ensures=['seq_eq(result, fields)'],
  body='''
t = insert_field(fields, index, value)
return remove_field(t, index, value)
''', bindings={'insert_field': insert_field, 'remove_field': remove_field}, props=('C19',))
