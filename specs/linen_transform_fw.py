"""Sidecar contracts: flax/linen/transforms.py - the Linen wrappers hand every option to the lifted core
transform under the right parameter (properties C05 / C06). Generated from the real signatures: for a wrapper
`nn.scan(target, variable_axes=..., reverse=..., ...)` the call `lift_transform(lift.scan, target, ...)` must
bind each wrapper option to the lift.scan parameter of the same name (or the documented other name), whether it
is passed by keyword or by position."""
from pyvc.vc import *  # noqa
from pyvc.extract import find_function

T = 'flax/linen/transforms.py'
L = 'flax/core/lift.py'
Opt = opaque('WrapperOption', is_str=False, nullable=True)

WRAPPERS = [
  # wrapper, lift function, via, renamed options {wrapper name: lift name}, options transformed on the way (not compared), properties
  ('vmap', 'vmap', 'lift_transform', {}, (), ('C06',)),
  ('scan', 'scan', 'lift_transform', {}, (), ('C06',)),
  ('remat_scan', 'remat_scan', 'lift_transform', {}, (), ('C06',)),
  ('jit', 'jit', 'lift_transform_cached', {}, (), ('C05',)),
  ('checkpoint', 'checkpoint', 'lift_transform', {}, ('static_argnums',), ('C05',)),
  ('map_variables', 'map_variables', 'lift_transform', {'trans_in_fn': 'map_in_fn', 'trans_out_fn': 'map_out_fn'}, (), ('C05',)),
]


def _params(file, name):
  fnode, _, _ = find_function(file, name)
  a = fnode.args
  return [x.arg for x in a.posonlyargs + a.args], [x.arg for x in a.kwonlyargs]


def _make(wrapper, liftname, via, renamed, transformed, props):
  wpos, wkw = _params(T, wrapper)
  lpos, lkw = _params(L, liftname)
  opts = [o for o in wpos + wkw if o != 'target']
  lift_tag = TypeTag('lift.' + liftname)

  def rec(ex, args, kw):
    """lift_transform(transform, target, *trafo_args, methods=None, **trafo_kwargs): trafo_args bind the lift function's
    parameters after `fn` by position, trafo_kwargs by name"""
    ex.ghost['fw:n'] = ex.ghost.get('fw:n', 0) + 1
    ex.ghost['fw:transform'] = bool(args) and args[0] is lift_tag
    ex.ghost['fw:target'] = args[1]
    bound = {}
    for i, v in enumerate(args[2:]):
      if i + 1 < len(lpos):
        bound[lpos[i + 1]] = v
      else:
        bound[f'<extra positional {i}>'] = v
    clash = [k for k in kw if k in bound]
    bound.update({k: v for k, v in kw.items()})
    ex.ghost['fw:clash'] = not clash
    for p in lpos[1:] + lkw + ['methods']:
      ex.ghost['fw:' + p] = ex.coerce(bound[p], Opt) if p in bound else SV(Opt, Opt.literal('<not passed: the default of the lifted transform applies>'))
    ex.ghost['fw:unknown'] = not [k for k in bound if k not in lpos + lkw + ['methods']]
    return ex.fresh(Opt, 'transformed_target')
  ens = ["ghost('fw:n') == 1", "ghost('fw:transform')", "ghost('fw:target') == target", "ghost('fw:clash')", "ghost('fw:unknown')"]
  for o in opts:
    if o in transformed:
      continue
    ens.append(f"ghost('fw:{renamed.get(o, o)}') == {o}")
  return function(
    f'{T}::{wrapper}', params=[('target', Opt)] + [(o, Opt) for o in opts], returns=ANY, ensures=ens,
    bindings={via: Handler(via, rec, 'records how the lifted transform is parameterised'), 'lift.' + liftname: lift_tag,
              'jax.tree_util.tree_map': Handler('jax.tree_util.tree_map', lambda ex, a, kw: ex.fresh(Opt, 'mapped'), 'opaque')},
    props=props)


SPECS = [_make(*w) for w in WRAPPERS]


def _make_direct(wrapper, liftname, n_fns, props):
  """nn.while_loop(cond_fn, body_fn, mdl, init, *options) -> lift_direct_transform(lift.while_loop, (cond_fn, body_fn), mdl, init, *options)"""
  wpos, wkw = _params(T, wrapper)
  lpos, lkw = _params(L, liftname)
  lift_tag = TypeTag('lift.' + liftname)
  fns, rest = wpos[:n_fns], wpos[n_fns + 1:]       # functions, then the module, then the remaining options

  def rec(ex, args, kw):
    ex.ghost['fw:n'] = ex.ghost.get('fw:n', 0) + 1
    ex.ghost['fw:transform'] = bool(args) and args[0] is lift_tag
    tg = ex.deref(args[1])
    ex.ghost['fw:fns_len'] = isinstance(tg, PyTuple) and len(tg) == n_fns
    for i, f in enumerate(fns):
      ex.ghost['fw:fn%d' % i] = ex.coerce(tg[i], Opt) if isinstance(tg, PyTuple) and i < len(tg) else SV(Opt, Opt.literal('<missing>'))
    ex.ghost['fw:mdl'] = args[2]
    bound = {}
    for i, v in enumerate(args[3:]):
      nm = lpos[n_fns + 1 + i] if n_fns + 1 + i < len(lpos) else f'<extra positional {i}>'
      bound[nm] = v
    bound.update(kw)
    for p in lpos[n_fns + 1:] + lkw:
      ex.ghost['fw:' + p] = ex.coerce(bound[p], Opt) if p in bound else SV(Opt, Opt.literal('<not passed: the default of the lifted transform applies>'))
    return ex.fresh(Opt, 'result')
  ens = ["ghost('fw:n') == 1", "ghost('fw:transform')", "ghost('fw:fns_len')", f"ghost('fw:mdl') == {wpos[n_fns]}"]
  ens += [f"ghost('fw:fn{i}') == {f}" for i, f in enumerate(fns)]
  ens += [f"ghost('fw:{o}') == {o}" for o in rest + wkw]
  return function(
    f'{T}::{wrapper}', params=[(o, Opt) for o in wpos + wkw], returns=ANY, ensures=ens,
    bindings={'lift_direct_transform': Handler('lift_direct_transform', rec, 'records how the lifted transform is parameterised'), 'lift.' + liftname: lift_tag},
    props=props)


SPECS.append(_make_direct('while_loop', 'while_loop', 2, ('C05',)))


# ---- nn.cond / nn.switch: predicate / index, branches, module, operands and BOTH filters reach the lifted transform ----------
from pyvc.values import StarOf as _StarOf, PyTuple as _PyTuple
Operands = opaque('Operands', is_str=False)
Operands.star_opaque = True
Branches = SeqOf(Opt)


def _rec_direct(expect_tag):
  def rec(ex, args, kw):
    ex.ghost['fw:n'] = ex.ghost.get('fw:n', 0) + 1
    ex.ghost['fw:transform'] = bool(args) and args[0] is expect_tag
    ex.ghost['fw:fns'] = ex.coerce(args[1], Branches) if not isinstance(ex.deref(args[1]), _PyTuple) else ex.seq_from_items(list(ex.deref(args[1])), Opt)
    ex.ghost['fw:mdl'] = args[2]
    star = lambda x: isinstance(x, tuple) and not isinstance(x, _PyTuple) and len(x) == 2 and x[0] == '*'
    ex.ghost['fw:first'] = ex.coerce(args[3], Opt) if len(args) > 3 and not star(args[3]) else SV(Opt, Opt.literal('<missing>'))
    rest = args[4:]
    ex.ghost['fw:operands_ok'] = len(rest) == 1 and star(rest[0])
    ex.ghost['fw:operands'] = rest[0][1] if (len(rest) == 1 and star(rest[0])) else ex.fresh(Operands, 'other')
    for k in ('variables', 'rngs', 'n_branches'):
      ex.ghost['fw:' + k] = kw[k] if k in kw else SV(Opt, Opt.literal('<not passed: the default applies>'))
    ex.ghost['fw:unknown'] = not [k for k in kw if k not in ('variables', 'rngs', 'n_branches')]
    return ex.fresh(Opt, 'result')
  return rec


_cond_tag, _sw_tag = TypeTag('_cond_wrapper'), TypeTag('_switch_wrapper')
COMMON = ["ghost('fw:n') == 1", "ghost('fw:transform')", "ghost('fw:mdl') == mdl", "ghost('fw:operands_ok')", "ghost('fw:operands') == operands",
          "ghost('fw:variables') == variables", "ghost('fw:rngs') == rngs", "ghost('fw:unknown')"]
nn_cond = function(
  f'{T}::cond', params=[('pred', Opt), ('true_fun', Opt), ('false_fun', Opt), ('mdl', Opt), ('operands', Operands), ('variables', Opt), ('rngs', Opt)], returns=ANY,
  ensures=COMMON + ["ghost('fw:first') == pred", "len(ghost('fw:fns')) == 2 and ghost('fw:fns')[0] == true_fun and ghost('fw:fns')[1] == false_fun"],
  bindings={'lift_direct_transform': Handler('lift_direct_transform', _rec_direct(_cond_tag), 'records how the lifted transform is parameterised'), '_cond_wrapper': _cond_tag},
  props=('C05',))
nn_switch = function(
  f'{T}::switch', params=[('index', Opt), ('branches', Branches), ('mdl', Opt), ('operands', Operands), ('variables', Opt), ('rngs', Opt)], returns=ANY,
  ensures=COMMON + ["ghost('fw:first') == index", "len(ghost('fw:fns')) == len(branches)",
                    "forall(Int, lambda i: implies(0 <= i and i < len(branches), ghost('fw:fns')[i] == branches[i]))", "ghost('fw:n_branches') == len(branches)"],
  bindings={'lift_direct_transform': Handler('lift_direct_transform', _rec_direct(_sw_tag), 'records how the lifted transform is parameterised'), '_switch_wrapper': _sw_tag},
  props=('C05',))


# the two module-level wrappers that lift_direct_transform calls with (branch functions..., scope, pred / index, *operands)
def _rec_lift(names):
  def rec(ex, args, kw):
    star = lambda x: isinstance(x, tuple) and not isinstance(x, _PyTuple) and len(x) == 2 and x[0] == '*'
    ex.ghost['lw:n'] = ex.ghost.get('lw:n', 0) + 1
    fixed = [a for a in args if not star(a)]
    stars = [a for a in args if star(a)]
    ex.ghost['lw:shape'] = len(fixed) == len(names) and len(stars) == 1 and star(args[-1])
    for nm, v in zip(names, fixed):
      ex.ghost['lw:' + nm] = v
    ex.ghost['lw:operands'] = stars[0][1] if stars else ex.fresh(Operands, 'none')
    for k in ('variables', 'rngs'):
      ex.ghost['lw:' + k] = kw[k] if k in kw else SV(Opt, Opt.literal('<not passed: the default applies>'))
    ex.ghost['lw:unknown'] = not [k for k in kw if k not in ('variables', 'rngs')]
    return ex.fresh(Opt, 'result')
  return rec


cond_wrapper = function(
  f'{T}::_cond_wrapper', params=[('t_fn', Opt), ('f_fn', Opt), ('scope', Opt), ('pred', Opt), ('ops', Operands), ('variables', Opt), ('rngs', Opt)], returns=ANY,
  ensures=["ghost('lw:n') == 1", "ghost('lw:shape')", "ghost('lw:pred') == pred", "ghost('lw:true_fun') == t_fn", "ghost('lw:false_fun') == f_fn", "ghost('lw:scope') == scope",
           "ghost('lw:operands') == ops", "ghost('lw:variables') == variables", "ghost('lw:rngs') == rngs", "ghost('lw:unknown')"],
  bindings={'lift.cond': Handler('lift.cond', _rec_lift(['pred', 'true_fun', 'false_fun', 'scope']), 'records how lift.cond is called')},
  props=('C05',))


def _rec_switch(ex, args, kw):
  star = lambda x: isinstance(x, tuple) and not isinstance(x, _PyTuple) and len(x) == 2 and x[0] == '*'
  ex.ghost['sw:n'] = ex.ghost.get('sw:n', 0) + 1
  ex.ghost['sw:shape'] = len(args) == 4 and star(args[3]) and not any(star(a) for a in args[:3])
  ex.ghost['sw:index'] = ex.coerce(args[0], Opt)
  ex.ghost['sw:branches'] = ex.coerce(args[1], Branches)
  ex.ghost['sw:scope'] = ex.coerce(args[2], Opt)
  ex.ghost['sw:operands'] = ex.coerce(args[3][1], Branches) if len(args) == 4 and star(args[3]) else ex.fresh(Branches, 'none')
  for k in ('variables', 'rngs'):
    ex.ghost['sw:' + k] = kw[k] if k in kw else SV(Opt, Opt.literal('<not passed: the default applies>'))
  ex.ghost['sw:unknown'] = not [k for k in kw if k not in ('variables', 'rngs')]
  return ex.fresh(Opt, 'result')


switch_wrapper = function(
  f'{T}::_switch_wrapper', params=[('args', Branches), ('variables', Opt), ('rngs', Opt), ('n_branches', INT)], returns=ANY,
  requires=['0 <= n_branches', 'len(args) >= n_branches + 2'],
  ensures=["ghost('sw:n') == 1", "ghost('sw:shape')", "ghost('sw:unknown')", "ghost('sw:variables') == variables", "ghost('sw:rngs') == rngs",
           # the first n_branches arguments are the branches, then the scope, then the index, the rest are the operands
           "len(ghost('sw:branches')) == n_branches and forall(Int, lambda i: implies(0 <= i and i < n_branches, ghost('sw:branches')[i] == args[i]))",
           "ghost('sw:scope') == args[n_branches] and ghost('sw:index') == args[n_branches + 1]",
           "len(ghost('sw:operands')) == len(args) - n_branches - 2 and forall(Int, lambda i: implies(0 <= i and i < len(args) - n_branches - 2, ghost('sw:operands')[i] == args[n_branches + 2 + i]))"],
  bindings={'lift.switch': Handler('lift.switch', _rec_switch, 'records how lift.switch is called')},
  props=('C05',))
switch_wrapper.vararg = 'args'
