"""Sidecar contracts: flax/linen/transforms.py - the Linen wrappers hand every option to the lifted core
transform under the right parameter (properties C05 / C06). Generated from the real signatures: for a wrapper
`nn.scan(target, variable_axes=..., reverse=..., ...)` the call `lift_transform(lift.scan, target, ...)` must
bind each wrapper option to the lift.scan parameter of the same name (or the documented other name), whether it
is passed by keyword or by position."""
from pyvc.vc import *  # noqa
from pyvc.extract import find_function

T = 'flax/linen/transforms.py'
L = 'flax/core/lift.py'
Opt = opaque('WrapperOption', is_str=False, nullable=True)

WRAPPERS = [
  # wrapper, lift function, via, renamed options {wrapper name: lift name}, options transformed on the way (not compared), properties
  ('vmap', 'vmap', 'lift_transform', {}, (), ('C06',)),
  ('scan', 'scan', 'lift_transform', {}, (), ('C06',)),
  ('remat_scan', 'remat_scan', 'lift_transform', {}, (), ('C06',)),
  ('jit', 'jit', 'lift_transform_cached', {}, (), ('C05',)),
  ('checkpoint', 'checkpoint', 'lift_transform', {}, ('static_argnums',), ('C05',)),
  ('map_variables', 'map_variables', 'lift_transform', {'trans_in_fn': 'map_in_fn', 'trans_out_fn': 'map_out_fn'}, (), ('C05',)),
]


def _params(file, name):
  fnode, _, _ = find_function(file, name)
  a = fnode.args
  return [x.arg for x in a.posonlyargs + a.args], [x.arg for x in a.kwonlyargs]


def _make(wrapper, liftname, via, renamed, transformed, props):
  wpos, wkw = _params(T, wrapper)
  lpos, lkw = _params(L, liftname)
  opts = [o for o in wpos + wkw if o != 'target']
  lift_tag = TypeTag('lift.' + liftname)

  def rec(ex, args, kw):
    """lift_transform(transform, target, *trafo_args, methods=None, **trafo_kwargs): trafo_args bind the lift function's
    parameters after `fn` by position, trafo_kwargs by name"""
    ex.ghost['fw:n'] = ex.ghost.get('fw:n', 0) + 1
    ex.ghost['fw:transform'] = bool(args) and args[0] is lift_tag
    ex.ghost['fw:target'] = args[1]
    bound = {}
    for i, v in enumerate(args[2:]):
      if i + 1 < len(lpos):
        bound[lpos[i + 1]] = v
      else:
        bound[f'<extra positional {i}>'] = v
    clash = [k for k in kw if k in bound]
    bound.update({k: v for k, v in kw.items()})
    ex.ghost['fw:clash'] = not clash
    for p in lpos[1:] + lkw + ['methods']:
      ex.ghost['fw:' + p] = ex.coerce(bound[p], Opt) if p in bound else SV(Opt, Opt.literal('<not passed: the default of the lifted transform applies>'))
    ex.ghost['fw:unknown'] = not [k for k in bound if k not in lpos + lkw + ['methods']]
    return ex.fresh(Opt, 'transformed_target')
  ens = ["ghost('fw:n') == 1", "ghost('fw:transform')", "ghost('fw:target') == target", "ghost('fw:clash')", "ghost('fw:unknown')"]
  for o in opts:
    if o in transformed:
      continue
    ens.append(f"ghost('fw:{renamed.get(o, o)}') == {o}")
  return function(
    f'{T}::{wrapper}', params=[('target', Opt)] + [(o, Opt) for o in opts], returns=ANY, ensures=ens,
    bindings={via: Handler(via, rec, 'records how the lifted transform is parameterised'), 'lift.' + liftname: lift_tag,
              'jax.tree_util.tree_map': Handler('jax.tree_util.tree_map', lambda ex, a, kw: ex.fresh(Opt, 'mapped'), 'opaque')},
    props=props)


SPECS = [_make(*w) for w in WRAPPERS]


def _make_direct(wrapper, liftname, n_fns, props):
  """nn.while_loop(cond_fn, body_fn, mdl, init, *options) -> lift_direct_transform(lift.while_loop, (cond_fn, body_fn), mdl, init, *options)"""
  wpos, wkw = _params(T, wrapper)
  lpos, lkw = _params(L, liftname)
  lift_tag = TypeTag('lift.' + liftname)
  fns, rest = wpos[:n_fns], wpos[n_fns + 1:]       # functions, then the module, then the remaining options

  def rec(ex, args, kw):
    ex.ghost['fw:n'] = ex.ghost.get('fw:n', 0) + 1
    ex.ghost['fw:transform'] = bool(args) and args[0] is lift_tag
    tg = ex.deref(args[1])
    ex.ghost['fw:fns_len'] = isinstance(tg, PyTuple) and len(tg) == n_fns
    for i, f in enumerate(fns):
      ex.ghost['fw:fn%d' % i] = ex.coerce(tg[i], Opt) if isinstance(tg, PyTuple) and i < len(tg) else SV(Opt, Opt.literal('<missing>'))
    ex.ghost['fw:mdl'] = args[2]
    bound = {}
    for i, v in enumerate(args[3:]):
      nm = lpos[n_fns + 1 + i] if n_fns + 1 + i < len(lpos) else f'<extra positional {i}>'
      bound[nm] = v
    bound.update(kw)
    for p in lpos[n_fns + 1:] + lkw:
      ex.ghost['fw:' + p] = ex.coerce(bound[p], Opt) if p in bound else SV(Opt, Opt.literal('<not passed: the default of the lifted transform applies>'))
    return ex.fresh(Opt, 'result')
  ens = ["ghost('fw:n') == 1", "ghost('fw:transform')", "ghost('fw:fns_len')", f"ghost('fw:mdl') == {wpos[n_fns]}"]
  ens += [f"ghost('fw:fn{i}') == {f}" for i, f in enumerate(fns)]
  ens += [f"ghost('fw:{o}') == {o}" for o in rest + wkw]
  return function(
    f'{T}::{wrapper}', params=[(o, Opt) for o in wpos + wkw], returns=ANY, ensures=ens,
    bindings={'lift_direct_transform': Handler('lift_direct_transform', rec, 'records how the lifted transform is parameterised'), 'lift.' + liftname: lift_tag},
    props=props)


SPECS.append(_make_direct('while_loop', 'while_loop', 2, ('C05',)))
