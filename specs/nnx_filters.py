"""Sidecar contracts: flax/nnx/filterlib.py and the first-match split loops (properties C14-NNX,
C16, C03).

`holds(p, path, x)` is the documented meaning of a predicate object; `denotes(f)` the predicate a
Filter literal stands for. Sequences of filters / predicates are opaque handles with length and
item observers (python lists/tuples of arbitrary nesting)."""
import z3
from pyvc.vc import *  # noqa
from pyvc.sorts import fresh_name, qforall
from pyvc.values import ELLIPSIS

F = 'flax/nnx/filterlib.py'

Tag = opaque('Tag', universe=['t1', 't2'])
PyType = opaque('PyType', is_str=False)
PathP = opaque('PathParts', is_str=False)
KeyT = opaque('PathKey', is_str=False)
Val = opaque('NodeValue', is_str=False)
FSeqId = opaque('FilterSeq', is_str=False)
PSeqId = opaque('PredSeq', is_str=False)

# observers of the value being filtered
has_tag = UFn('has_tag', [Val], BOOL, "hasattr(x, 'tag')")
tag_of = UFn('tag_of', [Val], Tag, 'x.tag')
has_type = UFn('has_type_attr', [Val], BOOL, "hasattr(x, 'type')")
type_of = UFn('type_attr', [Val], PyType, 'x.type')
isinst = UFn('isinstance_of', [Val, PyType], BOOL, 'isinstance(x, t)')
subcls = UFn('issubclass_of', [PyType, PyType], BOOL, 'issubclass(a, b)')
path_has = UFn('path_contains', [PathP, KeyT], BOOL, 'key in path')

Pred = Union('Predicate', [
  Ctor('PWithTag', [('tag', Tag)], pytypes=('WithTag', 'callable')),
  Ctor('PPathContains', [('key', KeyT)], pytypes=('PathContains', 'callable')),
  Ctor('PPathIn', [('paths', SetOf(PathP))], pytypes=('PathIn', 'callable')),
  Ctor('POfType', [('type', PyType)], pytypes=('OfType', 'callable')),
  Ctor('PAny', [('predicates', PSeqId)], pytypes=('Any', 'callable')),
  Ctor('PAll', [('predicates', PSeqId)], pytypes=('All', 'callable')),
  Ctor('PNot', [('predicate', 'SELF')], pytypes=('Not', 'callable')),
  Ctor('PEverything', [], pytypes=('Everything', 'callable')),
  Ctor('PNothing', [], pytypes=('Nothing', 'callable')),
  Ctor('PUser', [('fn', opaque('UserPredicate', is_str=False))], pytypes=('function', 'callable')),
])
ps_len = UFn('predseq_len', [PSeqId], INT, 'len(predicates)')
ps_item = UFn('predseq_item', [PSeqId, INT], Pred, 'predicates[i]')
user_holds = UFn('user_predicate_holds', [Pred.field_sort('PUser', 'fn'), PathP, Val], BOOL, 'a user callable applied to (path, x)')


@spec(Pred, PathP, Val, ret=BOOL)
def holds(p, path, x):
  """the documented meaning of a predicate object"""
  return ((has_tag(x) and tag_of(x) == p.tag) if is_(p, 'PWithTag') else
          path_contains(path, p.key) if is_(p, 'PPathContains') else
          (path in p.paths) if is_(p, 'PPathIn') else
          (isinstance_of(x, p.type) or (has_type(x) and issubclass_of(type_of(x), p.type))) if is_(p, 'POfType') else
          exists(Int, lambda i: 0 <= i and i < predseq_len(p.predicates) and holds(predseq_item(p.predicates, i), path, x)) if is_(p, 'PAny') else
          forall(Int, lambda i: implies(0 <= i and i < predseq_len(p.predicates), holds(predseq_item(p.predicates, i), path, x))) if is_(p, 'PAll') else
          (not holds(p.predicate, path, x)) if is_(p, 'PNot') else
          True if is_(p, 'PEverything') else
          False if is_(p, 'PNothing') else
          user_predicate_holds(p.fn, path, x))


# calling a predicate object: its __call__ contract (modular: result == holds(...))
Pred.call_hook = lambda ex, f, a, kw: ex.call_value(holds, [f, a[0], a[1]], {})
PSeqId.iter_hook = lambda ex, v: IterView(ps_len.decl()(v.t), lambda k: SV(Pred, ps_item.decl()(v.t, k)), Pred)
Val.hasattr_hook = lambda ex, v, name: {'tag': has_tag, 'type': has_type}[name]
Val.attr_hooks2 = {'tag': tag_of, 'type': type_of}
PathP.contains_hook = lambda ex, c, x: path_has.decl()(c.t, ex.coerce(x, KeyT).t)

B = {
  '_has_tag': Inline(F + '::_has_tag'),
  'hasattr': Handler('hasattr', lambda ex, a, kw: ex.call_value(Val.hasattr_hook(ex, a[0], a[1].py), [a[0]], {}), "hasattr(x, 'tag'|'type')"),
  'isinstance': Handler('isinstance', lambda ex, a, kw: ex.call_value(isinst, [a[0], a[1]], {}), 'isinstance(x, self.type)'),
  'issubclass': subcls,
}
Val.attrs['tag'] = (Tag, None)
Val.attrs['type'] = (PyType, None)
tag_of.name = 'attr!NodeValue.tag'
type_of.name = 'attr!NodeValue.type'


def _call(cls, ctor, extra=()):
  return function(
    F + f'::{cls}.__call__', params=[('self', Pred), ('path', PathP), ('x', Val)], returns=BOOL,
    requires=[f"is_(self, '{ctor}')"] + list(extra),
    ensures=['result == holds(self, path, x)'],
    bindings=B, props=('C14',))


with_tag_call = _call('WithTag', 'PWithTag')
path_contains_call = _call('PathContains', 'PPathContains')
path_in_call = _call('PathIn', 'PPathIn')
of_type_call = _call('OfType', 'POfType')
any_call = _call('Any', 'PAny', ['predseq_len(self.predicates) >= 0'])
all_call = _call('All', 'PAll', ['predseq_len(self.predicates) >= 0'])
not_call = _call('Not', 'PNot')
everything_call = _call('Everything', 'PEverything')
nothing_call = _call('Nothing', 'PNothing')

# ---- to_predicate and the constructors of Any / All / Not -------------------------------------------------
FilterV = Union('FilterLiteral', [
  Ctor('LStr', [('s', Tag)], pytypes=('str',), payload='s'),
  Ctor('LType', [('t', PyType)], pytypes=('type', 'callable'), payload='t'),
  Ctor('LBool', [('b', BOOL)], pytypes=('bool', 'int'), payload='b'),
  Ctor('LEllipsis', [], pytypes=('ellipsis',), is_const=Ellipsis),
  Ctor('LNone', [], pytypes=('NoneType',), is_const=None),
  Ctor('LPred', [('p', Pred)], pytypes=('callable',), payload='p'),
  Ctor('LSeq', [('items', FSeqId)], pytypes=('list', 'tuple'), payload='items'),
  Ctor('LInvalid', [('o', opaque('OtherObject', is_str=False))], pytypes=('object',), payload='o'),
])
fs_len = UFn('filterseq_len', [FSeqId], INT, 'len(filters)')
fs_item = UFn('filterseq_item', [FSeqId, INT], FilterV, 'filters[i]')
conv = UFn('predicates_of', [FSeqId], PSeqId, 'tuple(to_predicate(f) for f in filters)')
FSeqId.iter_hook = lambda ex, v: IterView(fs_len.decl()(v.t), lambda k: SV(FilterV, fs_item.decl()(v.t, k)), FilterV)
FSeqId.star_opaque = True


@spec(FilterV, ret=Pred, axioms=[])
def denotes(f):
  """the predicate a Filter literal stands for"""
  return (mk_with_tag(f.s) if is_(f, 'LStr') else
          mk_of_type(f.t) if is_(f, 'LType') else
          (mk_everything() if f.b else mk_nothing()) if is_(f, 'LBool') else
          mk_everything() if is_(f, 'LEllipsis') else
          mk_nothing() if is_(f, 'LNone') else
          f.p if is_(f, 'LPred') else
          mk_any(predicates_of(f.items)))


def _mk(name, ctor, argsorts):
  h = Handler(name, lambda ex, a, kw: SV(Pred, Pred.mk(ctor, *[ex.coerce(x, s).t for x, s in zip(a, argsorts)])), f'{ctor} constructor')
  GLOBALS_[name] = h
  return h


from pyvc.symexec import GLOBAL_BINDINGS as GLOBALS_  # noqa: E402
mk_with_tag = _mk('mk_with_tag', 'PWithTag', [Tag])
mk_of_type = _mk('mk_of_type', 'POfType', [PyType])
mk_everything = _mk('mk_everything', 'PEverything', [])
mk_nothing = _mk('mk_nothing', 'PNothing', [])
mk_any = _mk('mk_any', 'PAny', [PSeqId])
mk_all = _mk('mk_all', 'PAll', [PSeqId])
mk_not = _mk('mk_not', 'PNot', [Pred])

# predicates_of(filters)[i] == denotes(filters[i])  (the meaning of converting a sequence)
CONV_AX = ['forall(FilterSeq, lambda fs: predseq_len(predicates_of(fs)) == filterseq_len(fs) and filterseq_len(fs) >= 0 and '
           'forall(Int, lambda i: implies(0 <= i and i < filterseq_len(fs), predseq_item(predicates_of(fs), i) == denotes(filterseq_item(fs, i)))))']


def _any_ctor(ex, a, kw):
  """Any(*filter): an Any object whose predicates are the converted members (see Any.__init__)"""
  from pyvc.values import StarOf
  if len(a) == 1 and (isinstance(a[0], StarOf) or (isinstance(a[0], tuple) and a[0] and a[0][0] == '*')):
    v = a[0].v if isinstance(a[0], StarOf) else a[0][1]
    v = ex.coerce(v, FSeqId)
    return SV(Pred, Pred.mk('PAny', conv.decl()(v.t)))
  raise OutsideSubset('Any(...) with explicit members')


TB = dict(B)
TB.update({
  'WithTag': Handler('WithTag', lambda ex, a, kw: SV(Pred, Pred.mk('PWithTag', ex.coerce(a[0], Tag).t)), 'dataclass constructor'),
  'OfType': Handler('OfType', lambda ex, a, kw: SV(Pred, Pred.mk('POfType', ex.coerce(a[0], PyType).t)), 'dataclass constructor'),
  'Everything': Handler('Everything', lambda ex, a, kw: SV(Pred, Pred.mk('PEverything')), 'constructor'),
  'Nothing': Handler('Nothing', lambda ex, a, kw: SV(Pred, Pred.mk('PNothing')), 'constructor'),
  'Any': Handler('Any', _any_ctor, 'Any(*filters): see the Any.__init__ contract'),
  'Ellipsis': ELLIPSIS,
  'callable': Handler('callable', lambda ex, a, kw: SV(BOOL, ex.isinstance_(a[0], [TypeTag('callable')])), 'callable(x)'),
})
from pyvc.values import ELLIPSIS  # noqa: E402
TB['Ellipsis'] = ELLIPSIS
TB['isinstance'] = GLOBALS_['isinstance']

to_predicate = function(
  F + '::to_predicate', params=[('filter', FilterV)], returns=Pred,
  raises={'TypeError': "is_(filter, 'LInvalid')"},
  ensures=['result == denotes(filter)'],
  bindings=TB, props=('C14',))
to_predicate.assume_axioms = CONV_AX
TB['to_predicate'] = to_predicate

# ---- constructors: Any / All convert every member, in order; Not converts its argument ------------------
from pyvc.heap import ObjSort  # noqa: E402
Preds = SeqOf(Pred)
AnyObj = ObjSort('AnyObj', dict(predicates=Preds), pytypes=('Any',))
AllObj = ObjSort('AllObj', dict(predicates=Preds), pytypes=('All',))
NotObj = ObjSort('NotObj', dict(predicate=Pred), pytypes=('Not',))
NOINVALID = ["forall(Int, lambda i: implies(0 <= i and i < filterseq_len(filters), not is_(filterseq_item(filters, i), 'LInvalid')))"]
MEMBERS = ['len(self.predicates) == filterseq_len(filters)',
           'forall(Int, lambda i: implies(0 <= i and i < filterseq_len(filters), self.predicates[i] == denotes(filterseq_item(filters, i))))']
any_init = function(F + '::Any.__init__', params=[('self', AnyObj), ('filters', FSeqId)], requires=NOINVALID, ensures=MEMBERS,
                    modifies=['self.predicates'], bindings=TB, props=('C14',))
all_init = function(F + '::All.__init__', params=[('self', AllObj), ('filters', FSeqId)], requires=NOINVALID, ensures=MEMBERS,
                    modifies=['self.predicates'], bindings=TB, props=('C14',))
not_init = function(F + '::Not.__init__', params=[('self', NotObj), ('collection_filter', FilterV)],
                    requires=["not is_(collection_filter, 'LInvalid')"],
                    ensures=['self.predicate == denotes(collection_filter)'],
                    modifies=['self.predicate'], bindings=TB, props=('C14',))
for _f in (any_init, all_init, not_init):
  _f.assume_axioms = CONV_AX


# ---- statelib._split_state: every split by filters is a first-match partition -------------------------------
S = 'flax/nnx/statelib.py'
Item = Union('StateItem', [Ctor('StateItem', [('path', PathP), ('value', Val)], pytypes=('tuple',), tuple_like=True)])
Items = SeqOf(Item)
Groups = SeqOf(Items)
FlatSt = Union('FlatStateV', [Ctor('FlatStateV', [('_keys', SeqOf(PathP)), ('_values', SeqOf(Val))], pytypes=('FlatState', 'Sequence'))])
FlatSt.closed = True


def _fs_iter(ex, v):
  ks, vs = FlatSt.acc('FlatStateV', '_keys', v.t), FlatSt.acc('FlatStateV', '_values', v.t)
  KS, VS = SeqOf(PathP), SeqOf(Val)
  return IterView(KS.len(ks), lambda k: PyTuple((SV(PathP, KS.get(ks, k)), SV(Val, VS.get(vs, k)))), None)


FlatSt.iter_hook = _fs_iter
Filters = SeqOf(FilterV)
Preds = SeqOf(Pred)


def _mk_flat(ex, a, kw):
  """FlatState(items, sort=False): keeps the items in the given order"""
  items = ex.coerce(a[0], Items)
  KS, VS = SeqOf(PathP), SeqOf(Val)
  ks, vs = KS.const('keys'), VS.const('values')
  i = z3.Int(fresh_name('i'))
  n = Items.len(items.t)
  ex.assume(KS.len(ks) == n)
  ex.assume(VS.len(vs) == n)
  ex.assume(qforall([i], z3.Implies(z3.And(i >= 0, i < n), z3.And(KS.get(ks, i) == Item.acc('StateItem', 'path', Items.get(items.t, i)),
                                                                   VS.get(vs, i) == Item.acc('StateItem', 'value', Items.get(items.t, i)))),
                    patterns=[KS.get(ks, i)]))
  ex.assume(qforall([i], z3.Implies(z3.And(i >= 0, i < n), VS.get(vs, i) == Item.acc('StateItem', 'value', Items.get(items.t, i))), patterns=[VS.get(vs, i)]))
  return SV(FlatSt, FlatSt.mk('FlatStateV', ks, vs))


SPB = dict(TB)
SPB.update({'filterlib.to_predicate': to_predicate, 'FlatState': Handler('FlatState', _mk_flat, 'FlatState(items, sort=False)')})

NV = "forall(Int, lambda i: implies(0 <= i and i < len(filters), not is_(filters[i], 'LInvalid')))"
ISLAST = "(filters[i] == ... or filters[i] == True)"
PRED = "denotes(filters[%s])"
ITEM = "flat_state._keys[%s], flat_state._values[%s]"
# group of item m: the first predicate that holds, else the remainder group len(filters)
FIRST = ("(j < len(filters) and holds(denotes(filters[j]), flat_state._keys[m], flat_state._values[m]) and "
         "forall(Int, lambda jj: implies(0 <= jj and jj < j, not holds(denotes(filters[jj]), flat_state._keys[m], flat_state._values[m]))))")
REST = "(j == len(filters) and forall(Int, lambda jj: implies(0 <= jj and jj < len(filters), not holds(denotes(filters[jj]), flat_state._keys[m], flat_state._values[m]))))"
GOES = f"({FIRST} or {REST})"


def _split_inv(groups, upto):
  E = f'{groups}[j][q]'
  return [
    f'len({groups}) == len(filters) + 1',
    # first match: every element of group j satisfies filter j and none of the earlier filters;
    # the last group holds exactly elements matched by no filter
    f"forall(Int, Int, lambda j, q: implies(0 <= j and j < len(filters) and 0 <= q and q < len({groups}[j]), "
    f"holds(denotes(filters[j]), {E}.path, {E}.value)))",
    f"forall(Int, Int, Int, lambda j, q, jj: implies(0 <= j and j < len(filters) and 0 <= q and q < len({groups}[j]) and 0 <= jj and jj < j, "
    f"not holds(denotes(filters[jj]), {E}.path, {E}.value)))",
    f"forall(Int, lambda q: implies(0 <= q and q < len({groups}[len(filters)]), "
    f"forall(Int, lambda jj: implies(0 <= jj and jj < len(filters), not holds(denotes(filters[jj]), {groups}[len(filters)][q].path, {groups}[len(filters)][q].value)))))",
  ]


split_state = function(
  S + '::_split_state', params=[('flat_state', FlatSt), ('filters', Filters)], returns=SeqOf(FlatSt),
  requires=[NV, 'len(flat_state._keys) == len(flat_state._values)'],
  raises_any=('ValueError',),  # `...`/True followed by another kind of filter (checked separately below)
  ensures=['len(result) == len(filters) + 1',
           # each returned FlatState lists elements matched first by its own filter (the last one: by none)
           "forall(Int, Int, lambda j, q: implies(0 <= j and j < len(filters) and 0 <= q and q < len(result[j]._keys), "
           "holds(denotes(filters[j]), result[j]._keys[q], result[j]._values[q]) and forall(Int, lambda jj: implies(0 <= jj and jj < j, not holds(denotes(filters[jj]), result[j]._keys[q], result[j]._values[q])))))",
           "forall(Int, lambda q: implies(0 <= q and q < len(result[len(filters)]._keys), forall(Int, lambda jj: implies(0 <= jj and jj < len(filters), "
           "not holds(denotes(filters[jj]), result[len(filters)]._keys[q], result[len(filters)]._values[q])))))"],
  invariants={
    0: [],
    1: _split_inv('flat_states', '_k'),
    2: _split_inv('flat_states', '_k') + [
        'forall(Int, lambda jj: implies(0 <= jj and jj < _k, not holds(denotes(filters[jj]), path, value)))'],
  },
  bindings=SPB, props=('C14', 'C16', 'C03'))
split_state.vararg = 'filters'
split_state.assume_axioms = CONV_AX
split_state.locals = {'flat_states': Groups, 'predicates': Preds}

# ---- variablelib.split_flat_state: same first-match partition, but a leaf matched by no filter is an error ------------
VL = 'flax/nnx/variablelib.py'
preds_of = UFn('filters_to_predicates', [Filters], Preds, 'filterlib.filters_to_predicates(filters): one predicate per filter, in order (its `...`-must-be-last check may raise)')


def _split_flat_inv(groups):
  E = f'{groups}[j][q]'
  return [
    f'len({groups}) == len(filters)',
    f"forall(Int, Int, lambda j, q: implies(0 <= j and j < len(filters) and 0 <= q and q < len({groups}[j]), "
    f"holds(denotes(filters[j]), {E}.path, {E}.value)))",
    f"forall(Int, Int, Int, lambda j, q, jj: implies(0 <= j and j < len(filters) and 0 <= q and q < len({groups}[j]) and 0 <= jj and jj < j, "
    f"not holds(denotes(filters[jj]), {E}.path, {E}.value)))",
  ]


PRED_IS = 'len(predicates) == len(filters) and forall(Int, lambda i: implies(0 <= i and i < len(filters), predicates[i] == denotes(filters[i])))'
split_flat_state = function(
  VL + '::split_flat_state', params=[('flat_state', Items), ('filters', Filters)], returns=Groups,
  requires=[NV],
  raises_any=('ValueError',),     # a leaf that no filter matches (and the `...`-must-be-last check of filters_to_predicates)
  ensures=_split_flat_inv('result'),
  invariants={
    0: [PRED_IS] + _split_flat_inv('flat_states'),
    1: [PRED_IS] + _split_flat_inv('flat_states') + ['forall(Int, lambda jj: implies(0 <= jj and jj < _k, not holds(denotes(filters[jj]), path, value)))'],
  },
  bindings=dict(SPB, **{'filterlib.filters_to_predicates': Handler('filterlib.filters_to_predicates', lambda ex, a, kw: _ftp(ex, a), 'assumed: returns to_predicate(f) for every filter, in order (or raises)')}),
  props=('C14',))
split_flat_state.assume_axioms = CONV_AX
split_flat_state.locals = {'flat_states': Groups, 'predicates': Preds}


def _ftp(ex, a):
  """filters_to_predicates(filters) == tuple(map(to_predicate, filters)) (after its own validity check)"""
  return ex.call_value(GLOBAL_BINDINGS_['tuple'], [ex.call_value(GLOBAL_BINDINGS_['map'], [to_predicate, a[0]], {})], {})


from pyvc.symexec import GLOBAL_BINDINGS as GLOBAL_BINDINGS_  # noqa: E402

# ---- filterlib.filters_to_predicates: one predicate per filter, in order; `...` / True anywhere but at the end (followed by
# ---- something else) is rejected ---------------------------------------------------------------------------------------
CATCHALL = lambda i: f"(filters[{i}] == ... or filters[{i}] == True)"
filters_to_predicates = function(
  F + '::filters_to_predicates', params=[('filters', Filters)], returns=Preds,
  requires=[NV],
  raises={'ValueError': f"exists(Int, Int, lambda i, j: 0 <= i and i < j and j < len(filters) and {CATCHALL('i')} and not {CATCHALL('j')})"},
  ensures=['len(result) == len(filters)', 'forall(Int, lambda i: implies(0 <= i and i < len(filters), result[i] == denotes(filters[i])))'],
  invariants={0: [f"forall(Int, Int, lambda i, j: implies(0 <= i and i < _k and i < j and j < len(filters) and {CATCHALL('i')}, {CATCHALL('j')}))"]},
  bindings=dict(SPB, to_predicate=to_predicate), props=('C14',))
filters_to_predicates.assume_axioms = CONV_AX
filters_to_predicates.locals = {'remaining_filters': Filters}
