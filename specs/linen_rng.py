"""Sidecar contracts: Linen RNG bookkeeping in flax/core/scope.py (property C09, Linen part).

A key handed to user code is _fold_in_static(seed, suffix): what is proved is that the pre-image
(seed, suffix) is the deterministic, position-addressed, never-repeated object the property
describes: suffix = module path names ++ (per-scope call count). That distinct pre-images give
distinct keys is the idealisation of SHA-1 / fold_in (assumed; see DESIGN.md C09)."""
import z3
from pyvc.vc import *  # noqa
from pyvc.heap import ObjSort

F = 'flax/core/scope.py'

PKey = opaque('LinenPRNGKey', is_str=False)
Stream = opaque('RngStreamName', universe=['params', 'dropout', 'other'])
SName = opaque('ScopeName', universe=['Dense_0', 'a', 'b'], nullable=True)

Foldable = Union('PRNGFoldable', [
  Ctor('FoldStr', [('s', SName)], pytypes=('str',), payload='s'),
  Ctor('FoldInt', [('i', INT)], pytypes=('int',), payload='i'),
])
Suffix = SeqOf(Foldable)

RngLike = Union('RngLike', [
  Ctor('RKey', [('k', PKey)], pytypes=('Array',), payload='k'),
  Ctor('RLazy', [('rng', PKey), ('suffix', Suffix)], pytypes=('LazyRng',)),
])

B = {'LazyRng': CtorFn(RngLike, 'RLazy')}

lazy_create = function(
  F + '::LazyRng.create', params=[('rng', RngLike), ('suffix', Suffix)], returns=RngLike,
  ensures=[
    "is_(result, 'RLazy')",
    # the seed key is kept, the new static data is APPENDED to the existing suffix
    "result.rng == (rng.rng if is_(rng, 'RLazy') else rng.k)",
    "implies(is_(rng, 'RLazy'), seq_eq(result.suffix, rng.suffix + suffix))",
    "implies(is_(rng, 'RKey'), seq_eq(result.suffix, suffix))",
  ],
  bindings=B, props=('C09',))
lazy_create.vararg = 'suffix'
B['LazyRng.create'] = lazy_create

clear_suffix = function(
  F + '::LazyRng.clear_suffix', params=[('self', RngLike)], returns=RngLike,
  requires=["is_(self, 'RLazy')"],
  ensures=["is_(result, 'RLazy') and result.rng == self.rng and len(result.suffix) == 0"],
  bindings=B, props=('C09',))

# ---- Scope (RNG-relevant fields) ------------------------------------------------------------------------------
Counters = ObjSort('RngCounters', {})
Counters.fields.update(count=MapOf(Stream, INT), children=MapOf(SName, Counters))
Rngs = MapOf(Stream, RngLike)
Scope = ObjSort('Scope', dict(rngs=Rngs, rng_counters=Counters, name=SName, _invalid=BOOL))


def _is_child_key(idx):
  return isinstance(idx, PyTuple) and len(idx) == 2


def _cnt_getitem(ex, base, idx):
  idx = ex.deref(idx)
  if _is_child_key(idx):
    m = ex.getattr_(base, 'children')
    return ex.getitem(m, idx[1])
  return ex.getitem(ex.getattr_(base, 'count'), idx)


def _cnt_setitem(ex, base, idx, v):
  idx = ex.deref(idx)
  if _is_child_key(idx):
    return ex.setitem(ex.getattr_(base, 'children'), idx[1], v)
  return ex.setitem(ex.getattr_(base, 'count'), idx, v)


def _cnt_contains(ex, c, x):
  x = ex.deref(x)
  if _is_child_key(x):
    return ex.contains(ex.getattr_(c, 'children'), x[1])
  return ex.contains(ex.getattr_(c, 'count'), x)


Counters.getitem = _cnt_getitem
Counters.setitem = _cnt_setitem
Counters.contains_hook = _cnt_contains
Counters.methods = {'get': lambda ex, v, a, kw: _cnt_getitem(ex, v, a[0])}
Counters.attr_hooks = {'get': lambda ex, v: Handler('dict.get', lambda ex2, a, kw, v=v: _cnt_getitem(ex2, v, a[0]), 'rng_counters.get(key) for a key that is present')}


def _as_jax_rng(ex, a, kw):
  """LazyRng.as_jax_rng(): _fold_in_static(self.rng, self.suffix); the pre-image is recorded as
  ghost('fold_rng') / ghost('fold_suffix'), the result is an opaque key."""
  v = ex.deref(a[0])
  ex.ghost['fold_rng'] = SV(PKey, RngLike.acc('RLazy', 'rng', v.t))
  ex.ghost['fold_suffix'] = SV(Suffix, RngLike.acc('RLazy', 'suffix', v.t))
  ex.ghost['fold_calls'] = ex.ghost.get('fold_calls', 0) + 1
  return ex.fresh(PKey, 'key')


SB = dict(B)
SB.update({
  'LazyRng.as_jax_rng': Handler('LazyRng.as_jax_rng', _as_jax_rng, '_fold_in_static pre-image recorded'),
  'Scope.has_rng': Inline(F + '::Scope.has_rng'),
  'Scope._check_valid': Inline(F + '::Scope._check_valid'),
  'Scope._validate_trace_level': Skip('Scope._validate_trace_level (jax trace-level check)'),
  'errors.InvalidRngError': TypeTag('InvalidRngError', (TypeTag('Exception'),)),
  'errors.InvalidScopeError': TypeTag('InvalidScopeError', (TypeTag('Exception'),)),
})

USED = "(name if name in self.rngs else 'params')"
HAS = "(name in self.rngs or 'params' in self.rngs)"
make_rng = function(
  F + '::Scope.make_rng', params=[('self', Scope), ('name', Stream)], returns=PKey,
  requires=[
    'forall(RngStreamName, lambda s: implies(s in self.rngs, s in self.rng_counters.count and is_(self.rngs[s], "RLazy")))',
  ],
  raises={'InvalidRngError': f'not {HAS}',                      # a missing stream falls back to 'params', else raises
          'InvalidScopeError': f'{HAS} and self._invalid'},
  ensures=[
    # the per-scope call count of the stream used advances by one; no other counter moves
    f'self.rng_counters.count[{USED}] == old(self.rng_counters.count[{USED}]) + 1',
    f'forall(RngStreamName, lambda s: implies(s != {USED}, (s in self.rng_counters.count) == (s in old(self.rng_counters.count)) and '
    f'implies(s in self.rng_counters.count, self.rng_counters.count[s] == old(self.rng_counters.count[s]))))',
    # the key is folded from (seed of the stream, scope path suffix ++ (new count,)): position-addressed
    f"ghost('fold_rng') == self.rngs[{USED}].rng",
    f"len(ghost('fold_suffix')) == len(self.rngs[{USED}].suffix) + 1",
    f"forall(Int, lambda i: implies(0 <= i and i < len(self.rngs[{USED}].suffix), ghost('fold_suffix')[i] == self.rngs[{USED}].suffix[i]))",
    f"is_(ghost('fold_suffix')[len(self.rngs[{USED}].suffix)], 'FoldInt') and "
    f"ghost('fold_suffix')[len(self.rngs[{USED}].suffix)].i == self.rng_counters.count[{USED}]",
  ],
  modifies=['self.rng_counters.count'],
  bindings=SB, props=('C09',))
