"""Sidecar contracts: flax/struct.py dataclass (properties C15, C10)."""
import z3
from pyvc.vc import *  # noqa

F = 'flax/struct.py'
FName = opaque('FieldName', universe=['a', 'b', 'c'])
MetaKey = opaque('FieldMetadataKey', universe=['pytree_node', 'other'])
KwKey = opaque('DataclassKwarg', universe=['frozen', 'kw_only', 'slots'])
KwVal = opaque('DataclassKwargValue', is_str=False)
ClassObj = opaque('PyClass', is_str=False, nullable=True)
ClassObj.pytypes = ('type',)
FieldInfo = Union('FieldInfo', [Ctor('FieldInfo', [('name', FName), ('metadata', MapOf(MetaKey, BOOL))], pytypes=('Field',))])
Fields = SeqOf(FieldInfo)
Names = SeqOf(FName)
Kwargs = MapOf(KwKey, KwVal)
true_val = UFn('kwarg_true', [], KwVal, 'the python value True as a dataclass keyword argument')
KwVal.coerce_bool = True

fields_of = UFn('dataclasses_fields', [ClassObj], Fields, 'dataclasses.fields(data_clz)')
is_flax_dc = UFn('has_flax_dataclass_flag', [ClassObj], BOOL, "'_flax_dataclass' in clz.__dict__")
_DC = Effect('dataclasses.dataclass', [Kwargs, ClassObj], ret=ClassObj)
_REG = Effect('jax.tree_util.register_dataclass', [ClassObj, Names, Names])
_REGSER = Effect('serialization.register_serialization_state', [ClassObj])
_SETATTR = Effect('setattr', [ClassObj, opaque('AttrNameS', universe=['replace', '_flax_dataclass'])])


def _dataclass_decorator(ex, a, kw):
  kwargs = ex.deref(kw['**'])
  return Handler('dataclasses.dataclass(**kwargs)', lambda ex2, a2, kw2: ex2.call_value(_DC, [kwargs, a2[0]], {}), 'the decorator returned by dataclasses.dataclass(**kwargs)')


ClassObj.attrs['__dict__'] = (opaque('ClassDict', is_str=False), None)
ClassObj.attrs['__dict__'][0].contains_hook = lambda ex, c, x: z3.Function('classdict_has_flax_flag', c.sort.z3(), z3.BoolSort())(c.t)
ClassObj.setattr_hook = lambda ex, b, attr, v: ex.call_value(_SETATTR, [b, Lit(attr)], {})


class _DictView:
  pass


B = {
  'dataclasses.dataclass': Handler('dataclasses.dataclass', _dataclass_decorator, 'dataclasses.dataclass(**kwargs) -> decorator'),
  'dataclasses.fields': fields_of,
  'jax.tree_util.register_dataclass': _REG,
  'serialization.register_serialization_state': Handler('serialization.register_serialization_state', lambda ex, a, kw: ex.call_value(_REGSER, [a[0]], {}), 'registers the two nested handlers for data_clz'),
  'functools.partial': Handler('functools.partial', lambda ex, a, kw: ex.fresh(ClassObj, 'partial'), 'decorator factory form'),
  'dataclass': NONEV,
}
PYTREE = "(not ('pytree_node' in dataclasses_fields(call_args('dataclasses.dataclass')[1] if False else result)[i].metadata) or dataclasses_fields(result)[i].metadata['pytree_node'])"
dataclass = function(
  F + '::dataclass', params=[('clz', ClassObj), ('kwargs', Kwargs)], returns=ClassObj, assigns=('kwargs',),
  requires=['clz is not None', "not ('_flax_dataclass' in clz.__dict__)"],
  ensures=[
    # instances are frozen unless the caller says otherwise
    "ncalls('dataclasses.dataclass') == 1 and call_args('dataclasses.dataclass')[1] == clz",
    "'frozen' in call_args('dataclasses.dataclass')[0] and implies(not ('frozen' in old(kwargs)), call_args('dataclasses.dataclass')[0]['frozen'] == kwarg_true())",
    "implies('frozen' in old(kwargs), call_args('dataclasses.dataclass')[0]['frozen'] == old(kwargs)['frozen'])",
    # the class that is returned is the one registered as a pytree node ...
    "ncalls('jax.tree_util.register_dataclass') == 1 and call_args('jax.tree_util.register_dataclass')[0] == result",
    # ... its leaves are exactly the fields not marked pytree_node=False, the others travel as static metadata; in field order
    "forall(Int, lambda j: implies(0 <= j and j < len(call_args('jax.tree_util.register_dataclass')[1]), exists(Int, lambda i: 0 <= i and i < len(dataclasses_fields(result)) and "
    "dataclasses_fields(result)[i].name == call_args('jax.tree_util.register_dataclass')[1][j] and "
    "(not ('pytree_node' in dataclasses_fields(result)[i].metadata) or dataclasses_fields(result)[i].metadata['pytree_node']))))",
    "forall(Int, lambda j: implies(0 <= j and j < len(call_args('jax.tree_util.register_dataclass')[2]), exists(Int, lambda i: 0 <= i and i < len(dataclasses_fields(result)) and "
    "dataclasses_fields(result)[i].name == call_args('jax.tree_util.register_dataclass')[2][j] and "
    "('pytree_node' in dataclasses_fields(result)[i].metadata) and not dataclasses_fields(result)[i].metadata['pytree_node'])))",
    "forall(Int, lambda i: implies(0 <= i and i < len(dataclasses_fields(result)), "
    "exists(Int, lambda j: 0 <= j and j < len(call_args('jax.tree_util.register_dataclass')[1]) and call_args('jax.tree_util.register_dataclass')[1][j] == dataclasses_fields(result)[i].name) or "
    "exists(Int, lambda j: 0 <= j and j < len(call_args('jax.tree_util.register_dataclass')[2]) and call_args('jax.tree_util.register_dataclass')[2][j] == dataclasses_fields(result)[i].name)))",
    "ncalls('serialization.register_serialization_state') == 1 and call_args('serialization.register_serialization_state')[0] == result",
  ],
  invariants={0: [
    "forall(Int, lambda j: implies(0 <= j and j < len(data_fields), exists(Int, lambda i: 0 <= i and i < _k and _at(i).name == data_fields[j] and (not ('pytree_node' in _at(i).metadata) or _at(i).metadata['pytree_node']))))",
    "forall(Int, lambda j: implies(0 <= j and j < len(meta_fields), exists(Int, lambda i: 0 <= i and i < _k and _at(i).name == meta_fields[j] and ('pytree_node' in _at(i).metadata) and not _at(i).metadata['pytree_node'])))",
    "forall(Int, lambda i: implies(0 <= i and i < _k, exists(Int, lambda j: 0 <= j and j < len(data_fields) and data_fields[j] == _at(i).name) or exists(Int, lambda j: 0 <= j and j < len(meta_fields) and meta_fields[j] == _at(i).name)))",
  ]},
  bindings=B, props=('C15',))
dataclass.locals = {'meta_fields': Names, 'data_fields': Names}
dataclass.inv_hints = {0: ['data_fields[len(data_fields) - 1]', 'meta_fields[len(meta_fields) - 1]', 'len(data_fields) - 1', 'len(meta_fields) - 1']}

# ---- PyTreeNode.__init_subclass__: EVERY subclass - also one that adds no field of its own - is made a flax dataclass ----
_FLAXDC = Effect('dataclass', [ClassObj, Kwargs], ret=ClassObj)
init_subclass = function(
  F + '::PyTreeNode.__init_subclass__', params=[('cls', ClassObj), ('kwargs', Kwargs)],
  requires=['cls is not None'],
  ensures=[
    # unconditional: the subclass itself is frozen, registered as a pytree node and for serialization (contract of `dataclass`)
    "ncalls('dataclass') == 1 and call_args('dataclass')[0] == cls and call_args('dataclass')[1] == kwargs",
  ],
  bindings={'dataclass': Handler('dataclass', lambda ex, a, kw: ex.call_value(_FLAXDC, [a[0], kw['**'] if '**' in kw else ex.empty_map(Kwargs)], {}), 'flax.struct.dataclass(cls, **kwargs): contract above'),
            'dataclasses.dataclass': NONEV},
  props=('C15',))
