"""Sidecar contracts: flax/core/meta.py Partitioned (properties C19, C18)."""
from pyvc.vc import *  # noqa
from pyvc.native import NativeHarness as NH

F = 'flax/core/meta.py'

AxisName = opaque('AxisName', universe=['x', 'y', 'z', 'w'], nullable=True)
ParamKey = opaque('ParamKey', universe=['partition_name', 'other_key'])
Value = opaque('Value', universe=['v0', 'v1'], is_str=False)
Mesh = opaque('Mesh', universe=['mesh0'], nullable=True, is_str=False)
Params = MapOf(ParamKey, AxisName)


def _abs_part(p):
  return ADTVal('Partitioned', value=p.value, names=tuple(p.names), mesh=p.mesh)


def _conc_part(sp):
  from flax.core import meta
  return meta.Partitioned(sp.value, names=tuple(sp.names), mesh=sp.mesh)


def _enum_part(bound):
  out = []
  for names in SeqOf(AxisName).enumerate(bound):
    out.append(ADTVal('Partitioned', value='v0', names=tuple(names), mesh=None))
  return out


Partitioned = Union('Partitioned', [
  Ctor('Partitioned', [('value', Value), ('names', SeqOf(AxisName)), ('mesh', Mesh)], pytypes=('Partitioned',)),
], abstract=_abs_part, concretise=_conc_part, enumerate=_enum_part)

PSpec = opaque('PartitionSpec', is_str=False)

B = {
  'PARTITION_NAME': Lit('partition_name'),
  'errors.PartitioningUnspecifiedError': TypeTag('PartitioningUnspecifiedError', (TypeTag('Exception'),)),
}

get_name = function(
  F + '::Partitioned._get_partition_name', params=[('self', Partitioned), ('params', Params)], returns=AxisName,
  raises={'PartitioningUnspecifiedError': "'partition_name' not in params"},
  ensures=["result == params['partition_name']"],
  bindings=B, props=('C19',),
  native=NH('flax.core.meta', 'Partitioned._get_partition_name'))
B['Partitioned._get_partition_name'] = get_name

PADDED = "(self.names[i] if i < len(self.names) else None)"

add_axis = function(
  F + '::Partitioned.add_axis', params=[('self', Partitioned), ('index', INT), ('params', Params)], returns=Partitioned,
  requires=['index >= 0'],
  raises={'PartitioningUnspecifiedError': "'partition_name' not in params"},
  ensures=[
    'len(result.names) == max(len(self.names), index) + 1',
    "result.names[index] == params['partition_name']",
    f'forall(Int, lambda i: implies(0 <= i and i < index, result.names[i] == {PADDED}))',
    'forall(Int, lambda i: implies(index < i and i < len(result.names), result.names[i] == self.names[i - 1]))',
    'result.value == self.value and result.mesh == self.mesh',
  ],
  invariants={0: [
    'len(names) >= len(self.names)',
    'len(names) <= max(len(self.names), index)',
    'forall(Int, lambda i: implies(0 <= i and i < len(self.names), names[i] == self.names[i]))',
    'forall(Int, lambda i: implies(len(self.names) <= i and i < len(names), names[i] is None))',
  ]},
  while_decreases={0: 'index - len(names)'},
  bindings=B, props=('C19', 'C06'), enum_bound=2,
  native=NH('flax.core.meta', 'Partitioned.add_axis'))
add_axis.locals = {'names': SeqOf(AxisName)}

remove_axis = function(
  F + '::Partitioned.remove_axis', params=[('self', Partitioned), ('index', INT), ('params', Params)], returns=Partitioned,
  requires=['0 <= index and index < len(self.names)', "'partition_name' in params",
            "self.names[index] == params['partition_name']"],
  ensures=[
    'len(result.names) == len(self.names) - 1',
    'forall(Int, lambda i: implies(0 <= i and i < index, result.names[i] == self.names[i]))',
    'forall(Int, lambda i: implies(index <= i and i < len(result.names), result.names[i] == self.names[i + 1]))',
    'result.value == self.value and result.mesh == self.mesh',
  ],
  bindings=B, props=('C19', 'C06'), enum_bound=2,
  native=NH('flax.core.meta', 'Partitioned.remove_axis'))
remove_axis.locals = {'names': SeqOf(AxisName)}

# add then remove at the same position restores the (padded) names: a lemma over the two contracts
lemma(
  'add_then_remove_axis', params=[('p', Partitioned), ('index', INT), ('q', Params)],
  requires=['index >= 0', "'partition_name' in q"],
  ensures=[
    'len(result.names) == max(len(p.names), index)',
    'forall(Int, lambda i: implies(0 <= i and i < len(result.names), result.names[i] == (p.names[i] if i < len(p.names) else None)))',
    'implies(index <= len(p.names), seq_eq(result.names, p.names))',
  ],
  returns=Partitioned,
  body='''
a = add_axis(p, index, q)
return remove_axis(a, index, q)
''', bindings={'add_axis': add_axis, 'remove_axis': remove_axis}, props=('C19',))

pspec_of = UFn('pspec_of', [SeqOf(AxisName)], PSpec)

get_partition_spec = function(
  F + '::Partitioned.get_partition_spec', params=[('self', Partitioned)], returns=PSpec,
  ensures=['result == pspec_of(self.names)'],
  bindings={'jax.sharding.PartitionSpec': Handler(
    'jax.sharding.PartitionSpec',
    lambda ex, a, kw: ex.call_value(pspec_of, [_starred(a)], {}),
    'PartitionSpec(*names) is an injective constructor applied to exactly the names')},
  props=('C19',))


def _starred(a):
  if len(a) == 1 and isinstance(a[0], tuple) and a[0] and a[0][0] == '*':
    return a[0][1]
  return PyTuple(a)




# ---- _get_leaf_pspec: the per-leaf function of get_partition_spec / get_sharding --------------------------------------
import z3 as _z3
from pyvc.values import SV as _SV
Leaf = opaque('TreeLeaf', is_str=False)
PSpecOpt = opaque('PartitionSpecOrNone', is_str=False, nullable=True)
has_gps = UFn('has_get_partition_spec', [Leaf], BOOL, "hasattr(x, 'get_partition_spec') (boxed value)")
has_shape = UFn('has_shape', [Leaf], BOOL, "hasattr(x, 'shape') (any array-like: jax, numpy, ShapeDtypeStruct)")
leaf_gps = UFn('leaf_get_partition_spec', [Leaf], PSpecOpt, 'x.get_partition_spec()')
replicated = UFn('replicated_pspec', [], PSpecOpt, 'PartitionSpec()')


def _leaf_hasattr(ex, v, name):
  if name == 'get_partition_spec':
    return ex.call_value(has_gps, [v], {})
  if name == 'shape':
    return ex.call_value(has_shape, [v], {})
  return _SV(BOOL, _z3.Bool('leaf_has_' + name))


Leaf.hasattr_hook = _leaf_hasattr
# membership of an arbitrary leaf in some python class is unconstrained: array-likes need not be instances of any given class
Leaf.isinstance_hook = lambda ex, v, names: _z3.Bool('leaf_isinstance_' + '_'.join(sorted(names)))
Leaf.methods = {'get_partition_spec': lambda ex, v, a, kw: ex.call_value(leaf_gps, [v], {})}

get_leaf_pspec = function(
  F + '::_get_leaf_pspec', params=[('x', Leaf)], returns=PSpecOpt,
  ensures=[
    'implies(has_get_partition_spec(x), result == leaf_get_partition_spec(x))',           # boxed: its own names
    'implies(not has_get_partition_spec(x) and has_shape(x), result == replicated_pspec())',   # unboxed arrays: replicated
    'implies(not has_get_partition_spec(x) and not has_shape(x), result is None)',
  ],
  requires=['replicated_pspec() is not None'],
  bindings={'jax.sharding.PartitionSpec': Handler('jax.sharding.PartitionSpec', lambda ex, a, kw: ex.call_value(replicated, [], {}) if not a else (_ for _ in ()).throw(OutsideSubset('PartitionSpec(args)')), 'PartitionSpec() is the replicated spec'),
            'jax.Array': TypeTag('jax.Array'), 'jax.ShapeDtypeStruct': TypeTag('jax.ShapeDtypeStruct'), 'np.ndarray': TypeTag('np.ndarray')},
  modifies=[], props=('C19',))

# ---- with_partitioning(fn, names, mesh).<wrapper>: the initialiser's value boxed with exactly these names and this mesh ----
InitFnP = opaque('PartitionedInitFn', is_str=False)
ArgsP = opaque('InitArgs', is_str=False)
KwP = opaque('InitKwargs', is_str=False)
init_value = UFn('initializer_value', [InitFnP, ArgsP, KwP], Value, 'fn(*args, **kwargs)')


def _call_init(ex, f, a, kw):
  star = [x[1] for x in a if isinstance(x, tuple) and not isinstance(x, PyTuple) and len(x) == 2 and x[0] == '*']
  if len(star) != 1 or len(a) != 1 or set(kw) != {'**'}:
    raise OutsideSubset('fn(*args, **kwargs) expected')
  return ex.call_value(init_value, [f, star[0], kw['**']], {})


InitFnP.call_hook = _call_init


def _mk_partitioned(ex, a, kw):
  if len(a) != 2 or set(kw) != {'mesh'}:
    raise OutsideSubset('Partitioned(value, names, mesh=mesh) expected')
  return SV(Partitioned, Partitioned.mk('Partitioned', ex.coerce(a[0], Value).t, ex.coerce(a[1], SeqOf(AxisName)).t, ex.coerce(kw['mesh'], Mesh).t))


with_part_wrapper = function(
  F + '::with_partitioning.<locals>.wrapper', params=[('args', ArgsP), ('kwargs', KwP)], free=[('fn', InitFnP), ('names', SeqOf(AxisName)), ('mesh', Mesh)],
  returns=Partitioned,
  ensures=['result.value == initializer_value(fn, args, kwargs)', 'result.names == names', 'result.mesh == mesh'],
  bindings={'Partitioned': Handler('Partitioned', _mk_partitioned, 'the dataclass constructor')}, props=('C19',))
with_part_wrapper.vararg = 'args'
with_part_wrapper.kwarg = 'kwargs'

# ---- meta.add_axis / meta.remove_axis (tree level): every box of the tree gets box.add_axis(index, params) / remove_axis ----
BoxT = opaque('AxisMetadataBox', is_str=False)
TreeT2 = opaque('TreeWithBoxes', is_str=False)
ParamsT = opaque('TransformParams', is_str=False)


def _box_method(name):
  def call(ex, v, a, kw):
    bound, ok = bind_call(['index', 'params'], a, kw)
    ex.ghost['bm:n'] = ex.ghost.get('bm:n', 0) + 1
    ex.ghost['bm:method'] = Lit(name)
    ex.ghost['bm:recv'] = v
    ex.ghost['bm:ok'] = ok and 'index' in bound and 'params' in bound
    ex.ghost['bm:index'] = bound.get('index', 0)
    ex.ghost['bm:params'] = bound.get('params', ex.fresh(ParamsT, 'missing'))
    r = ex.fresh(BoxT, 'r_' + name)
    ex.ghost['bm:result'] = r
    return r
  return call


BoxT.methods = {'add_axis': _box_method('add_axis'), 'remove_axis': _box_method('remove_axis')}


def _map_axis_meta(ex, a, kw):
  """map_axis_meta(fn, tree): fn is applied to every box of the tree (contract of map_axis_meta.<locals>.wrapper below);
  here it is applied to one arbitrary box and what it does is recorded"""
  bound, ok = bind_call(['fn', 'tree'], a, kw)
  if not ok or 'fn' not in bound or 'tree' not in bound:
    raise OutsideSubset('map_axis_meta(fn, tree) expected')
  probe = ex.fresh(BoxT, 'any_box')
  ex.ghost['mam:probe'] = probe
  ex.ghost['mam:tree'] = ex.deref(bound['tree'])
  ex.ghost['mam:fn_result'] = ex.call_value(bound['fn'], [probe], {})
  return ex.fresh(TreeT2, 'mapped_tree')


for _name in ('add_axis', 'remove_axis'):
  function(
    F + '::' + _name, params=[('tree', TreeT2), ('index', INT), ('params', ParamsT)], returns=TreeT2,
    ensures=["ghost('mam:tree') == tree", "ghost('bm:n') == 1 and ghost('bm:ok')", f"ghost('bm:method') == '{_name}'", "ghost('bm:recv') == ghost('mam:probe')",
             "ghost('bm:index') == index and ghost('bm:params') == params", "ghost('mam:fn_result') == ghost('bm:result')"],
    bindings={'map_axis_meta': Handler('map_axis_meta', _map_axis_meta, 'applies fn to every AxisMetadata node')}, props=('C19', 'C06'))

AnyNode = opaque('TreeNodeOrBox', is_str=False)
is_box = UFn('is_axis_metadata_instance', [AnyNode], BOOL, 'isinstance(x, AxisMetadata)')
AnyNode.isinstance_hook = lambda ex, v, names: ex.call_value(is_box, [v], {}).t if names == {'AxisMetadata'} else (_ for _ in ()).throw(OutsideSubset('isinstance ' + repr(names)))
MapFn = opaque('BoxFunction', is_str=False)
app_fn = UFn('apply_box_fn', [MapFn, AnyNode], AnyNode, 'fn(x)')
MapFn.call_hook = lambda ex, f, a, kw: ex.call_value(app_fn, [f, a[0]], {})
function(
  F + '::map_axis_meta.<locals>.wrapper', params=[('x', AnyNode)], free=[('fn', MapFn)], returns=AnyNode,
  ensures=['result == (apply_box_fn(fn, x) if is_axis_metadata_instance(x) else x)'],       # boxes are mapped, everything else is left alone
  bindings={'AxisMetadata': TypeTag('AxisMetadata')}, modifies=[], props=('C19', 'C06'))

box_unbox = UFn('box_unbox', [AnyNode], AnyNode, 'c.unbox()')
box_replace = UFn('box_replace_boxed', [AnyNode, AnyNode], AnyNode, 'c.replace_boxed(v)')
rec_replace = UFn('replace_boxed_rec', [AnyNode, AnyNode], AnyNode, 'replace_boxed(tree, updates) (the recursive call, uninterpreted)')
AnyNode.methods = {'unbox': lambda ex, v, a, kw: ex.call_value(box_unbox, [v], {}), 'replace_boxed': lambda ex, v, a, kw: ex.call_value(box_replace, [v, a[0]], {})}
function(
  F + '::replace_boxed.<locals>.inner_update', params=[('c', AnyNode), ('v', AnyNode)], returns=AnyNode,
  # a box keeps its metadata and receives the update for what it wraps (recursively); a plain leaf is replaced by the update
  ensures=['result == (box_replace_boxed(c, replace_boxed_rec(box_unbox(c), v)) if is_axis_metadata_instance(c) else v)'],
  bindings={'AxisMetadata': TypeTag('AxisMetadata'), 'replace_boxed': rec_replace}, modifies=[], props=('C19',))
