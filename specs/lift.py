"""Sidecar contracts: flax/core/lift.py kernels (property C05; shared with C09/C06)."""
import z3
from pyvc.vc import *  # noqa
from pyvc.heap import ObjSort
from specs.linen_filters import *  # noqa: F401,F403
from specs.linen_filters import Filter, Name, mem, B as FB, group_collections, XS, CollTree, Filters, Groups

F = 'flax/core/lift.py'

# ---- CountsHolder: rng-counter deltas recorded by a traced (jitted) call and re-applied on a cache hit --------
CKey = opaque('CounterPath', is_str=False, universe=[('params',), ('dropout',), ('child', 'params')])
Counts = MapOf(CKey, INT)
DefCounts = MapOf(CKey, INT)
DefCounts.default_factory = lambda: z3.IntVal(0)     # collections.defaultdict(int, d)
Holder = Union('CountsHolder', [Ctor('CountsHolder', [('flat_d', Counts)], pytypes=('CountsHolder',))])
CB = {
  'collections.defaultdict': Handler('collections.defaultdict', lambda ex, a, kw: ex.new_box(ex.coerce(a[1], DefCounts)), 'defaultdict(int, d): a copy of d reading 0 for missing keys'),
  'int': NONEV,
  'CountsHolder': Handler('CountsHolder', lambda ex, a, kw: SV(Holder, Holder.mk('CountsHolder', ex.coerce(a[0], Counts).t)), 'constructor'),
}
GET0 = '(other.flat_d[k] if k in other.flat_d else 0)'


def _arith(op):
  return function(
    F + f'::CountsHolder.{ "sub" if op == "-" else "add"}', params=[('self', Holder), ('other', Holder)], returns=Holder,
    ensures=[
      # one entry per counter of `self` (so counters of scopes first created inside the traced call are kept)
      'dom(result.flat_d) == dom(self.flat_d)',
      f'forall(CounterPath, lambda k: implies(k in self.flat_d, result.flat_d[k] == self.flat_d[k] {op} {GET0}))',
    ],
    invariants={0: [
      'forall(CounterPath, lambda k: (k in delta_flat_d) == exists(Int, lambda i: 0 <= i and i < _k and _at(i) == k))',
      f'forall(CounterPath, lambda k: implies(k in delta_flat_d, delta_flat_d[k] == self.flat_d[k] {op} {GET0}))',
      'forall(CounterPath, lambda k: (k in new_flat_d) == (k in self.flat_d)) and forall(CounterPath, lambda k: implies(k in self.flat_d, new_flat_d[k] == self.flat_d[k]))',
      'forall(CounterPath, lambda k: (k in old_flat_d) == (k in other.flat_d)) and forall(CounterPath, lambda k: implies(k in other.flat_d, old_flat_d[k] == other.flat_d[k]))',
    ]},
    bindings=CB, props=('C05', 'C09'))


counts_sub = _arith('-')
counts_add = _arith('+')
from pyvc.native import NativeHarness as _NH  # noqa: E402
from pyvc.native import ADTVal as _ADT  # noqa: E402


def _conc_holder(sp):
  from flax.core import lift
  return lift.CountsHolder(dict(sp.flat_d))


Holder.abstract = lambda py: _ADT('CountsHolder', flat_d=dict(py.flat_d))
Holder.concretise = _conc_holder
_PATHS = [('params',), ('dropout',), ('child', 'params')]
Holder.enumerate = lambda bound: [_ADT('CountsHolder', flat_d=d) for d in (
  {}, {_PATHS[0]: 1}, {_PATHS[0]: 2, _PATHS[1]: 0}, {_PATHS[0]: 3, _PATHS[2]: 1}, {_PATHS[1]: 5, _PATHS[2]: 2}, {_PATHS[0]: 1, _PATHS[1]: 1, _PATHS[2]: 4})]
counts_sub.native = _NH('flax.core.lift', 'CountsHolder.sub')
counts_add.native = _NH('flax.core.lift', 'CountsHolder.add')
for _f in (counts_sub, counts_add):
  _f.locals = {'delta_flat_d': Counts}

# a cache hit re-applies the recorded delta on top of the counts before the call: the counters end exactly where
# the traced run left them, including those of scopes created inside it
lemma(
  'jit_cache_hit_restores_counters', params=[('new', Holder), ('old', Holder)], returns=Holder,
  requires=['forall(CounterPath, lambda k: implies(k in old.flat_d, k in new.flat_d))'],
  ensures=['dom(result.flat_d) == dom(new.flat_d)',
           'forall(CounterPath, lambda k: implies(k in new.flat_d, result.flat_d[k] == new.flat_d[k]))'],
  body='''
delta = sub(new, old)
return add(delta, old)
''', bindings={'sub': counts_sub, 'add': counts_add}, props=('C05', 'C09'))

# ---- _partial_pack.publish_results_fn: results are written back only into collections the scope may mutate ------
SName = opaque('VariableName', universe=['w', 'b'])
VarVal = opaque('VariableValue2', is_str=False)
Coll = MapOf(SName, VarVal)
Group = MapOf(Name, Coll)
GroupSeq = SeqOf(Group)
GroupsXs = SeqOf(GroupSeq)
ScopeO = ObjSort('Scope', dict(mutable=Filter), pytypes=('Scope',))
Scopes = SeqOf(ScopeO)
CountersO = opaque('RngCountersObj', is_str=False)

is_mutable = function(
  'flax/core/scope.py::Scope.is_mutable_collection', params=[('self', ScopeO), ('col', Name)], returns=BOOL,
  ensures=['result == mem(self.mutable, col)'], bindings=FB, props=())
put_variable_gate = function(
  '<callee>::Scope.put_variable', params=[('self', ScopeO), ('col', Name), ('name', SName), ('value', VarVal)],
  requires=['mem(self.mutable, col)'],      # a write to an immutable collection would raise (see C01): the caller must be past the gate
  trusted=True, notes='callee contract used at call sites: the precondition is the mutability gate; its body is verified under C01')


def _transpose(ex, a, kw):
  """_transpose(xs) == tuple(zip(*xs)): r[i][j] == xs[j][i] (all inner sequences of one length)"""
  xs = ex.coerce(a[0], GroupsXs)
  r = GroupsXs.const('transposed')
  i, j = z3.Int('ti!' + str(id(r))), z3.Int('tj!' + str(id(r)))
  n = GroupsXs.len(xs.t)
  m = z3.Int('inner_len!' + str(id(r)))
  ex.assume(m >= 0)
  ex.assume(GroupsXs.len(r) == z3.If(n > 0, m, 0))
  ex.assume(z3.ForAll([j], z3.Implies(z3.And(j >= 0, j < n), GroupSeq.len(GroupsXs.get(xs.t, j)) == m)))
  ex.assume(z3.ForAll([i], z3.Implies(z3.And(i >= 0, i < m), GroupSeq.len(GroupsXs.get(r, i)) == n)))
  ex.assume(z3.ForAll([i, j], z3.Implies(z3.And(i >= 0, i < m, j >= 0, j < n), GroupSeq.get(GroupsXs.get(r, i), j) == GroupSeq.get(GroupsXs.get(xs.t, j), i))))
  return SV(GroupsXs, r)


PB = dict(FB)
PB.update({'_transpose': Handler('_transpose', _transpose, 'tuple(zip(*xs))'),
           'Scope.is_mutable_collection': is_mutable, 'Scope.put_variable': put_variable_gate})
publish = function(
  F + '::_partial_pack.<locals>.publish_results_fn', params=[('out_variable_groups_xs_t', GroupsXs)],
  free=[('scopes', Scopes), ('inner_rng_counters', SeqOf(CountersO))],
  # every obligation of interest is the precondition of put_variable at its call site (pre:put_variable):
  # a collection that the outer scope may not mutate is skipped, never written
  invariants={0: [], 1: [], 2: [], 3: []},
  bindings=PB, props=('C05',))
publish.frame_except = {'Scope.mutable': 'False'}

# ---- _partial_pack.repack_fn: a mutable collection of the inner scope that no out filter maps is an error ---------
from specs.linen_filters import in_filter  # noqa: E402
InnerScope = ObjSort('Scope', dict(mutable=Filter, _variables=XS, _invalid=BOOL), pytypes=('Scope',))
InnerScopes = SeqOf(InnerScope)
TreeDef = opaque('TreeDef', is_str=False)
ScopeTree = opaque('ScopeTree', is_str=False)
PathEntry = Union('DedupPathEntry', [Ctor('DedupPathEntry', [('root', opaque('RootScopeRef', is_str=False)), ('path', opaque('NamePath', is_str=False))], pytypes=('tuple',), tuple_like=True)])
PathsT = SeqOf(PathEntry)
flatten_up_to = UFn('treedef_flatten_up_to', [TreeDef, ScopeTree], InnerScopes, 'treedef.flatten_up_to(inner_scope_tree)')
dedup_scopes = UFn('dedup_scopes', [InnerScopes], InnerScopes, '_dedup_scopes(scopes)[0]')
TreeDef.methods = {'flatten_up_to': lambda ex, v, a, kw: ex.call_value(flatten_up_to, [v, a[0]], {})}
OutGroups = SeqOf(SeqOf(XS))


def _transpose2(ex, a, kw):
  return ex.fresh(OutGroups, 'transposed')


RB = dict(FB)
RB.update({
  '_dedup_scopes': Handler('_dedup_scopes', lambda ex, a, kw: PyTuple((ex.call_value(dedup_scopes, [a[0]], {}), ex.fresh(PathsT, 'inner_paths'))), '_dedup_scopes: (deduplicated scopes, paths)'),
  'list': Handler('list', lambda ex, a, kw: a[0], 'list(scopes)'),
  'Scope.invalidate': Skip('Scope.invalidate (marks the inner scope unusable)'),
  'Scope._validate_trace_level': Skip('Scope._validate_trace_level'),
  'in_filter': in_filter,
  'group_collections': group_collections,
  '_transpose': Handler('_transpose', _transpose2, 'tuple(zip(*xs))'),
})
SC = 'dedup_scopes(treedef_flatten_up_to(treedef, inner_scope_tree))'
UNMAPPED = ("exists(Name, lambda c: c in %s._variables and mem(%s.mutable, c) and "
            "forall(Int, lambda j: implies(0 <= j and j < len(out_variable_filters), not mem(out_variable_filters[j], c))))")
repack = function(
  F + '::_partial_pack.<locals>.repack_fn', params=[('inner_scope_tree', ScopeTree)],
  free=[('treedef', TreeDef), ('paths', PathsT), ('out_variable_filters', Filters)], returns=OutGroups,
  raises_when={'ValueError': f"exists(Int, lambda s: 0 <= s and s < len({SC}) and {UNMAPPED % (SC + '[s]', SC + '[s]')})"},
  raises_any=('AssertionError',),
  invariants={0: [f"forall(Int, lambda s: implies(0 <= s and s < _k, not {UNMAPPED % (SC + '[s]', SC + '[s]')}))"]},
  bindings=RB, props=('C05',))
repack.locals = {'out_variable_groups_xs': OutGroups, 'mutable_variables': XS}
repack.comp_elem_hint = None

# ---- _partial_pack.scope_fn: the inner scopes handed to the transformed function ------------------------------------
from specs.linen_filters import union_filters, intersect_filters  # noqa: E402
RngVal = opaque('RngValue2', is_str=False)
RngMap = MapOf(Name, RngVal)
RngGroupSeq = SeqOf(RngMap)
RngGroupsXs = SeqOf(RngGroupSeq)
VarGroupSeq = SeqOf(XS)
VarGroupsXs = SeqOf(VarGroupSeq)
ScopeNameT = opaque('ScopeName3', nullable=True)
DName = opaque('DebugPathEntry')
PathSeq = SeqOf(ScopeNameT)
DPath = SeqOf(DName)
FlagsT = opaque('ScopeFlags', is_str=False)
TName = opaque('TransformName', nullable=True)
FullScope = ObjSort('Scope', dict(mutable=Filter, _variables=XS, _invalid=BOOL, name=ScopeNameT, path=PathSeq, debug_path=DPath,
                                  flags=FlagsT, rngs=RngMap, rng_counters=CountersO, parent=opaque('ParentScope', is_str=False, nullable=True)),
                    pytypes=('Scope',))
FullScopes = SeqOf(FullScope)
dbg_name = UFn('decorated_debug_name', [TName, DName], DName, "f'{name}({debug_path[-1]})'")
dbg_root = UFn('decorated_debug_root', [TName], DName, "f'{name}()'")
copy_vars = UFn('tree_map_identity_dict', [XS], XS, 'jax.tree_util.tree_map(lambda x: x, variables): a fresh dict with copied collections')
unflatten_t = UFn('treedef_unflatten', [TreeDef, FullScopes], ScopeTree, 'treedef.unflatten(inner_scopes)')


def _transpose_g(sort_outer, sort_inner):
  def h(ex, a, kw):
    xs = ex.coerce(a[0], sort_outer)
    return ex.fresh(sort_outer, 'transposed')
  return h


def _new_scope(ex, a, kw):
  """Scope(variables, name=, rngs=, mutable=, parent=, path=, debug_path=, flags=): a NEW scope whose fields are the
  arguments (rng_counters: fresh zero counters, reassigned by the caller); see Scope.__init__"""
  obj = ex.alloc(FullScope, 'inner_scope')
  vals = dict(_variables=a[0], name=kw['name'], rngs=kw['rngs'], mutable=kw['mutable'], parent=kw['parent'], path=kw['path'],
              debug_path=kw['debug_path'], flags=kw['flags'], _invalid=False, rng_counters=ex.fresh(CountersO, 'fresh_counters'))
  for f, v in vals.items():
    ex.obj_setattr(obj, f, v)
  return obj


def _dup_scopes(ex, a, kw):
  ex.ghost['inner_scopes'] = ex.coerce(a[1], FullScopes)
  return ex.ghost['inner_scopes']


def _fstr(ex, parts):
  if len(parts) == 3 and parts[1] == '(' and parts[2] == ')':
    return None
  if len(parts) == 4 and parts[1] == '(' and parts[3] == ')':
    return ex.call_value(dbg_name, [parts[0], parts[2]], {})
  if len(parts) == 2 and parts[1] == '()':
    return ex.call_value(dbg_root, [parts[0]], {})
  return None


SFB = dict(FB)
SFB.update({
  'union_filters': union_filters, 'intersect_filters': intersect_filters,
  '_transpose': Handler('_transpose', lambda ex, a, kw: ex.fresh(ex.deref(a[0]).sort, 'transposed'), 'tuple(zip(*xs)) (only its length / elements as opaque groups matter here)'),
  'jax.tree_util.tree_map': Handler('jax.tree_util.tree_map', lambda ex, a, kw: ex.call_value(copy_vars, [a[1]], {}), 'tree_map(lambda x: x, variables)'),
  'Scope': Handler('Scope', _new_scope, 'constructor summary (see Scope.__init__)'),
  '_dup_scopes': Handler('_dup_scopes', _dup_scopes, '_dup_scopes(scopes, inner_scopes, paths): re-creates child scopes for deduplicated leaves; records the inner scopes'),
})
TreeDef.methods['unflatten'] = lambda ex, v, a, kw: ex.call_value(unflatten_t, [v, a[0]], {})
IS = "ghost('inner_scopes')"
ANY_OUT = "exists(Int, lambda j: 0 <= j and j < len(out_variable_filters) and mem(out_variable_filters[j], c))"
scope_fn = function(
  F + '::_partial_pack.<locals>.scope_fn',
  params=[('variable_groups_xs_t', VarGroupsXs), ('rng_groups_xs_t', RngGroupsXs), ('mutable_filter', Filter)],
  free=[('out_variable_filters', Filters), ('scopes', FullScopes), ('inner_rng_counters', SeqOf(CountersO)), ('name', TName),
        ('treedef', TreeDef), ('paths', PathsT)],
  returns=ScopeTree,
  requires=['len(inner_rng_counters) == len(scopes)'],
  raises_any=('AssertionError',),
  ensures=[
    f'len({IS}) == len(scopes)',
    # the inner scope SHARES the outer scope's rng counters (draws inside a lifted transform advance the outer count) ...
    f'forall(Int, lambda i: implies(0 <= i and i < len(scopes), {IS}[i].rng_counters == inner_rng_counters[i]))',
    # ... keeps name and path ...
    f'forall(Int, lambda i: implies(0 <= i and i < len(scopes), {IS}[i].name == scopes[i].name and seq_eq({IS}[i].path, scopes[i].path) and {IS}[i].parent is None))',
    # ... and may mutate exactly the collections that the outer scope may mutate AND some out filter lifts AND mutable_filter allows
    f'forall(Int, Name, lambda i, c: implies(0 <= i and i < len(scopes), mem({IS}[i].mutable, c) == (mem(scopes[i].mutable, c) and {ANY_OUT} and mem(mutable_filter, c))))',
  ],
  invariants={
    0: ['forall(Name, lambda c: mem(mutable, c) == exists(Int, lambda j: 0 <= j and j < _k and mem(out_variable_filters[j], c)))'],
    1: [
      'len(inner_scopes) == _k',
      'forall(Int, lambda i: implies(0 <= i and i < _k, allocated(inner_scopes[i]) and not old(allocated(inner_scopes[i]))))',
      'forall(FullScope, lambda r: implies(old(allocated(r)), allocated(r)))',
      'forall(Int, lambda i: implies(0 <= i and i < _k, inner_scopes[i].rng_counters == inner_rng_counters[i]))',
      'forall(Int, lambda i: implies(0 <= i and i < _k, inner_scopes[i].name == scopes[i].name and seq_eq(inner_scopes[i].path, scopes[i].path) and inner_scopes[i].parent is None))',
      f'forall(Int, Name, lambda i, c: implies(0 <= i and i < _k, mem(inner_scopes[i].mutable, c) == (mem(scopes[i].mutable, c) and {ANY_OUT} and mem(mutable_filter, c))))',
      f'forall(Name, lambda c: mem(mutable, c) == {ANY_OUT})',
    ],
    2: ['True'],   # for variable_group in variable_groups: variables.update(...)
    3: ['True'],   # for rng_group in rng_groups: rngs.update(...)
  },
  bindings=SFB, props=('C05', 'C09'))
scope_fn.locals = {'inner_scopes': FullScopes, 'mutable': Filter, 'variables': XS, 'rngs': RngMap,
                   'variable_groups_xs': VarGroupsXs, 'rng_groups_xs': RngGroupsXs, 'new_debug_path': DPath}
scope_fn.fstring_hook = _fstr
_NEW = 'not old(allocated(r))'
scope_fn.frame_except = {f'Scope.{f}': _NEW for f in FullScope.fields}
scope_fn.defaults = {'mutable_filter': True}
scope_fn.loop_heap = {1: list(FullScope.fields) + ['$alloc']}

# ---- remat_scan hands the caller's lifting specification to scan unchanged (property C06) -------------------------
RFilter = opaque('RngFilterKey', is_str=False, universe=['params', True])
RFilter.coerce_bool = True
SplitRngs = MapOf(RFilter, BOOL)
VarSpec = opaque('VariableLiftSpec', is_str=False)
Lengths = SeqOf(INT)
Policy = opaque('RematPolicy', is_str=False, nullable=True)
BodyFn = opaque('BodyFn', is_str=False)


def _partial(ex, a, kw):
  if isinstance(a[0], Handler) and a[0].name == 'scan':
    ex.ghost['scan_calls'] = ex.ghost.get('scan_calls', 0) + 1
    for k in ('variable_broadcast', 'variable_carry', 'variable_axes', 'split_rngs'):
      ex.ghost['scan_' + k] = ex.deref(kw[k])
  return Handler('partial', lambda ex2, a2, kw2: Handler('scanned', lambda ex3, a3, kw3: PyTuple((ex3.fresh(VarSpec, 'out'), PyTuple(()))), 'lifted scan of fn'), 'functools.partial(f, **kw)')


RSB = {
  'functools.partial': Handler('functools.partial', _partial, 'functools.partial: the keyword arguments bound for scan are recorded'),
  'scan': Handler('scan', None, 'lift.scan'),
  'remat': Handler('remat', None, 'lift.remat'),
  'remat_scan': Handler('remat_scan', None, 'recursive call (only inside the nested closure, not executed)'),
}
remat_scan = function(
  F + '::remat_scan',
  params=[('body_fn', BodyFn), ('lengths', Lengths), ('policy', Policy), ('variable_broadcast', VarSpec), ('variable_carry', VarSpec),
          ('variable_axes', VarSpec), ('split_rngs', SplitRngs)], returns=ANY,
  requires=['len(lengths) >= 1'],
  ensures=[
    # which collections are broadcast / carried / scanned and which rng streams are split is exactly what the caller declared
    "ghost('scan_variable_broadcast') == variable_broadcast and ghost('scan_variable_carry') == variable_carry and ghost('scan_variable_axes') == variable_axes",
    "dom(ghost('scan_split_rngs')) == dom(split_rngs) and forall(RngFilterKey, lambda k: implies(k in split_rngs, ghost('scan_split_rngs')[k] == split_rngs[k]))",
  ],
  bindings=RSB, props=('C06',))
remat_scan.locals = {'split_rngs': SplitRngs}
