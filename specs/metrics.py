"""Sidecar contracts: flax/nnx/training/metrics.py (property C17, metrics sentence).

Floats are reals (stated assumption: over IEEE floats the batching sentence holds only up to
rounding, and int32 counters are treated as mathematical integers). A batch is observed only
through its moments: size n >= 1, sum s1, sum of squares s2; `values.mean()` is s1/n and
`values.var()` is s2/n - (s1/n)^2 (summaries of jnp)."""
import z3
from pyvc.vc import *  # noqa
from pyvc.heap import ObjSort

F = 'flax/nnx/training/metrics.py'

ArgName = opaque('ArgName', universe=['values', 'loss'])
Batch = opaque('Batch', is_str=False)
n_ = UFn('attr!Batch.size', [Batch], INT, 'values.size')
s1_ = UFn('bsum', [Batch], REAL, 'values.sum()')
s2_ = UFn('bsumsq', [Batch], REAL, 'sum of squares of the batch (ghost moment)')
Batch.attrs['size'] = (INT, None)


def _size(ex, v):
  t = n_.decl()(v.t)
  ex.assume(t >= 1)
  return SV(INT, t)


Batch.methods = {
  'sum': lambda ex, v, a, kw: SV(REAL, s1_.decl()(v.t)),
  'mean': lambda ex, v, a, kw: SV(REAL, s1_.decl()(v.t) / z3.ToReal(_size(ex, v).t)),
  'var': lambda ex, v, a, kw: SV(REAL, s2_.decl()(v.t) / z3.ToReal(_size(ex, v).t)
                                  - (s1_.decl()(v.t) / z3.ToReal(_size(ex, v).t)) * (s1_.decl()(v.t) / z3.ToReal(_size(ex, v).t))),
}
Batch.attrs['size'] = (INT, lambda t: [t >= 1])

Values = Union('Values', [
  Ctor('VNum', [('x', REAL)], pytypes=('float', 'int'), payload='x'),
  Ctor('VArr', [('a', Batch)], pytypes=('Array',), payload='a'),
])
Kwargs = MapOf(ArgName, Values)

MetricState = ObjSort('MetricState', dict(value=REAL))
MetricState.proxy_field = 'value'
Average = ObjSort('Average', dict(argname=ArgName, total=MetricState, count=MetricState))
Welford = ObjSort('Welford', dict(argname=ArgName, count=MetricState, mean=MetricState, m2=MetricState))

B = {
  'jnp.array': Handler('jnp.array', lambda ex, a, kw: a[0], 'jnp.array(x, dtype) is x (reals)'),
  'jnp.float32': NONEV, 'jnp.int32': NONEV, 'jnp.uint32': NONEV,
  'float': TypeTag('float'),
}
# moments of the update argument, whichever form it has (python number: n = 1, s1 = x, s2 = x^2)
V = 'kwargs[self.argname]'
N = f"(1 if is_({V}, 'VNum') else n_({V}.a))"
S1 = f"({V}.x if is_({V}, 'VNum') else s1_({V}.a))"
S2 = f"({V}.x * {V}.x if is_({V}, 'VNum') else s2_({V}.a))"
POS = [f"implies(is_({V}, 'VArr'), n_({V}.a) >= 1)"]

avg_update = function(
  F + '::Average.update', params=[('self', Average), ('kwargs', Kwargs)],
  requires=POS + ['self.total != self.count'],
  raises={'TypeError': 'self.argname not in kwargs'},
  ensures=[f'self.total.value == old(self.total.value) + {S1}',
           f'self.count.value == old(self.count.value) + {N}'],
  modifies=['self.total.value', 'self.count.value'],
  bindings=B, props=('C17',))
avg_update.locals = {'values': Values}

avg_compute = function(
  F + '::Average.compute', params=[('self', Average)], returns=REAL,
  requires=['self.count.value != 0'],
  ensures=['result == self.total.value / self.count.value'],
  bindings=B, props=('C17',))

avg_reset = function(
  F + '::Average.reset', params=[('self', Average)],
  requires=['self.total != self.count'],
  ensures=['self.total.value == 0 and self.count.value == 0'],
  modifies=['self.total.value', 'self.count.value'],
  bindings=B, props=('C17',))

# Welford: the state (count, mean, m2) represents the totals  N = count, S1 = mean*N,
# S2 = m2 + S1^2/N  of everything seen since reset; update adds the batch moments to the totals.
DIST = ['self.count != self.mean and self.count != self.m2 and self.mean != self.m2']
OC, OM, OQ = 'old(self.count.value)', 'old(self.mean.value)', 'old(self.m2.value)'
DELTA = f'({S1} / {N} - {OM})'
wf_update = function(
  F + '::Welford.update', params=[('self', Welford), ('kwargs', Kwargs)],
  requires=POS + DIST + ['self.count.value >= 0'],
  raises={'TypeError': 'self.argname not in kwargs'},
  ensures=[
    # Chan et al. pairwise merge of (count, mean, m2) with the batch moments (n, s1, s2)
    f'self.count.value == {OC} + {N}',
    f'self.mean.value == {OM} + {DELTA} * {N} / ({OC} + {N})',
    f'self.m2.value == {OQ} + ({S2} / {N} - ({S1} / {N}) * ({S1} / {N})) * {N} + {DELTA} * {DELTA} * {N} * {OC} / ({OC} + {N})',
  ],
  modifies=['self.count.value', 'self.mean.value', 'self.m2.value'],
  bindings=B, props=('C17',))
wf_update.locals = {'values': Values}

wf_reset = function(
  F + '::Welford.reset', params=[('self', Welford)],
  requires=DIST,
  ensures=['self.count.value == 0 and self.mean.value == 0 and self.m2.value == 0'],
  modifies=['self.count.value', 'self.mean.value', 'self.m2.value'],
  bindings=B, props=('C17',))


# The merge formulas above keep the representation invariant: with totals N, S1 = mean*N,
# S2 = m2 + S1^2/N of everything seen so far, one update ADDS the batch moments to the totals --
# so the state after any sequence of updates depends only on the multiset of values, not on
# how it was split into update calls (reals).
lemma(
  'welford_merge_adds_moments',
  params=[('N0', REAL), ('M0', REAL), ('Q0', REAL), ('n', REAL), ('s1', REAL), ('s2', REAL)],
  requires=['N0 > 0', 'n >= 1'],
  ensures=[
    '(M0 + (s1 / n - M0) * n / (N0 + n)) * (N0 + n) == M0 * N0 + s1',
    '(Q0 + (s2 / n - (s1 / n) * (s1 / n)) * n + (s1 / n - M0) * (s1 / n - M0) * n * N0 / (N0 + n))'
    ' + ((M0 + (s1 / n - M0) * n / (N0 + n)) * (N0 + n)) * ((M0 + (s1 / n - M0) * n / (N0 + n)) * (N0 + n)) / (N0 + n)'
    ' == Q0 + (M0 * N0) * (M0 * N0) / N0 + s2',
  ],
  body='pass', props=('C17',))
lemma(
  'welford_first_batch',
  params=[('n', REAL), ('s1', REAL), ('s2', REAL)],
  requires=['n >= 1'],
  ensures=[
    # from the reset state (0, 0, 0): mean = s1/n and m2 = s2 - s1^2/n
    '(0 + (s1 / n - 0) * n / (0 + n)) == s1 / n',
    '(0 + (s2 / n - (s1 / n) * (s1 / n)) * n + (s1 / n - 0) * (s1 / n - 0) * n * 0 / (0 + n)) == s2 - s1 * s1 / n',
  ],
  body='pass', props=('C17',))
