"""Sidecar contracts: flax/nnx/training/metrics.py (property C17, metrics sentence).

Floats are reals (stated assumption: over IEEE floats the batching sentence holds only up to
rounding, and int32 counters are treated as mathematical integers). A batch is observed only
through its moments: size n >= 1, sum s1, sum of squares s2; `values.mean()` is s1/n and
`values.var()` is s2/n - (s1/n)^2 (summaries of jnp)."""
import z3
from pyvc.vc import *  # noqa
from pyvc.heap import ObjSort

F = 'flax/nnx/training/metrics.py'

ArgName = opaque('ArgName', universe=['values', 'loss'])
Batch = opaque('Batch', is_str=False)
n_ = UFn('attr!Batch.size', [Batch], INT, 'values.size')
s1_ = UFn('bsum', [Batch], REAL, 'values.sum()')
s2_ = UFn('bsumsq', [Batch], REAL, 'sum of squares of the batch (ghost moment)')
Batch.attrs['size'] = (INT, None)


def _size(ex, v):
  t = n_.decl()(v.t)
  ex.assume(t >= 1)
  return SV(INT, t)


Batch.methods = {
  'sum': lambda ex, v, a, kw: SV(REAL, s1_.decl()(v.t)),
  'mean': lambda ex, v, a, kw: SV(REAL, s1_.decl()(v.t) / z3.ToReal(_size(ex, v).t)),
  'var': lambda ex, v, a, kw: SV(REAL, s2_.decl()(v.t) / z3.ToReal(_size(ex, v).t)
                                  - (s1_.decl()(v.t) / z3.ToReal(_size(ex, v).t)) * (s1_.decl()(v.t) / z3.ToReal(_size(ex, v).t))),
}
Batch.attrs['size'] = (INT, lambda t: [t >= 1])

Values = Union('Values', [
  Ctor('VNum', [('x', REAL)], pytypes=('float', 'int'), payload='x'),
  Ctor('VArr', [('a', Batch)], pytypes=('Array',), payload='a'),
])
Kwargs = MapOf(ArgName, Values)

MetricState = ObjSort('MetricState', dict(value=REAL))
MetricState.proxy_field = 'value'
Average = ObjSort('Average', dict(argname=ArgName, total=MetricState, count=MetricState))
Welford = ObjSort('Welford', dict(argname=ArgName, count=MetricState, mean=MetricState, m2=MetricState))

B = {
  'jnp.array': Handler('jnp.array', lambda ex, a, kw: a[0], 'jnp.array(x, dtype) is x (reals)'),
  'jnp.float32': NONEV, 'jnp.int32': NONEV, 'jnp.uint32': NONEV,
  'float': TypeTag('float'),
}
# moments of the update argument, whichever form it has (python number: n = 1, s1 = x, s2 = x^2)
V = 'kwargs[self.argname]'
N = f"(1 if is_({V}, 'VNum') else n_({V}.a))"
S1 = f"({V}.x if is_({V}, 'VNum') else s1_({V}.a))"
S2 = f"({V}.x * {V}.x if is_({V}, 'VNum') else s2_({V}.a))"
POS = [f"implies(is_({V}, 'VArr'), n_({V}.a) >= 1)"]

avg_update = function(
  F + '::Average.update', params=[('self', Average), ('kwargs', Kwargs)],
  requires=POS + ['self.total != self.count'],
  raises={'TypeError': 'self.argname not in kwargs'},
  ensures=[f'self.total.value == old(self.total.value) + {S1}',
           f'self.count.value == old(self.count.value) + {N}'],
  modifies=['self.total.value', 'self.count.value'],
  bindings=B, props=('C17',))
avg_update.locals = {'values': Values}

avg_compute = function(
  F + '::Average.compute', params=[('self', Average)], returns=REAL,
  requires=['self.count.value != 0'],
  ensures=['result == self.total.value / self.count.value'],
  bindings=B, props=('C17',))

avg_reset = function(
  F + '::Average.reset', params=[('self', Average)],
  requires=['self.total != self.count'],
  ensures=['self.total.value == 0 and self.count.value == 0'],
  modifies=['self.total.value', 'self.count.value'],
  bindings=B, props=('C17',))

# Welford: the state (count, mean, m2) represents the totals  N = count, S1 = mean*N,
# S2 = m2 + S1^2/N  of everything seen since reset; update adds the batch moments to the totals.
DIST = ['self.count != self.mean and self.count != self.m2 and self.mean != self.m2']
OC, OM, OQ = 'old(self.count.value)', 'old(self.mean.value)', 'old(self.m2.value)'
DELTA = f'({S1} / {N} - {OM})'
wf_update = function(
  F + '::Welford.update', params=[('self', Welford), ('kwargs', Kwargs)],
  requires=POS + DIST + ['self.count.value >= 0'],
  raises={'TypeError': 'self.argname not in kwargs'},
  ensures=[
    # Chan et al. pairwise merge of (count, mean, m2) with the batch moments (n, s1, s2)
    f'self.count.value == {OC} + {N}',
    f'self.mean.value == {OM} + {DELTA} * {N} / ({OC} + {N})',
    f'self.m2.value == {OQ} + ({S2} / {N} - ({S1} / {N}) * ({S1} / {N})) * {N} + {DELTA} * {DELTA} * {N} * {OC} / ({OC} + {N})',
  ],
  modifies=['self.count.value', 'self.mean.value', 'self.m2.value'],
  bindings=B, props=('C17',))
wf_update.locals = {'values': Values}

wf_reset = function(
  F + '::Welford.reset', params=[('self', Welford)],
  requires=DIST,
  ensures=['self.count.value == 0 and self.mean.value == 0 and self.m2.value == 0'],
  modifies=['self.count.value', 'self.mean.value', 'self.m2.value'],
  bindings=B, props=('C17',))


# The merge formulas above keep the representation invariant: with totals N, S1 = mean*N,
# S2 = m2 + S1^2/N of everything seen so far, one update ADDS the batch moments to the totals --
# so the state after any sequence of updates depends only on the multiset of values, not on
# how it was split into update calls (reals).
lemma(
  'welford_merge_adds_moments',
  params=[('N0', REAL), ('M0', REAL), ('Q0', REAL), ('n', REAL), ('s1', REAL), ('s2', REAL)],
  requires=['N0 > 0', 'n >= 1'],
  ensures=[
    '(M0 + (s1 / n - M0) * n / (N0 + n)) * (N0 + n) == M0 * N0 + s1',
    '(Q0 + (s2 / n - (s1 / n) * (s1 / n)) * n + (s1 / n - M0) * (s1 / n - M0) * n * N0 / (N0 + n))'
    ' + ((M0 + (s1 / n - M0) * n / (N0 + n)) * (N0 + n)) * ((M0 + (s1 / n - M0) * n / (N0 + n)) * (N0 + n)) / (N0 + n)'
    ' == Q0 + (M0 * N0) * (M0 * N0) / N0 + s2',
  ],
  body='pass', props=('C17',))
lemma(
  'welford_first_batch',
  params=[('n', REAL), ('s1', REAL), ('s2', REAL)],
  requires=['n >= 1'],
  ensures=[
    # from the reset state (0, 0, 0): mean = s1/n and m2 = s2 - s1^2/n
    '(0 + (s1 / n - 0) * n / (0 + n)) == s1 / n',
    '(0 + (s2 / n - (s1 / n) * (s1 / n)) * n + (s1 / n - 0) * (s1 / n - 0) * n * 0 / (0 + n)) == s2 - s1 * s1 / n',
  ],
  body='pass', props=('C17',))

# ---- MultiMetric: reset / update / compute reach EVERY underlying metric, once, update with the very same keyword arguments ----
import z3 as _z3
MName = opaque('MetricName', universe=['loss', 'accuracy'])
MRef = opaque('UnderlyingMetric', is_str=False)
MNames = SeqOf(MName)
MM = ObjSort('MultiMetricObj', dict(_metric_names=MNames))
metric_of = UFn('metric_named', [MM, MName], MRef, 'getattr(self, metric_name)')
computed = UFn('metric_compute', [MRef], REAL, 'metric.compute()')
MM.getattr_dyn = lambda ex, v, name: ex.call_value(metric_of, [v, ex.coerce(name, MName)], {})
UpdKw = opaque('UpdateKwargs', is_str=False)


def _touch(setname):
  def call(ex, v, a, kw):
    cur = ex.store['$' + setname]
    ex.store['$' + setname] = SV(cur.sort, _z3.Store(cur.t, v.t, True))
    if setname == '_updated':
      # update(**updates): the keyword arguments are handed on unchanged, nothing else is passed
      same = ex.coerce(kw['**'], UpdKw).t == ex.deref(ex._cur_env.lookup('updates')).t if set(kw) == {'**'} and not a else _z3.BoolVal(False)
      ex.oblige(same, 'pre:update-forwards-kwargs')
    return NONEV
  return call


MRef.methods = {'reset': _touch('_reset'), 'update': _touch('_updated'), 'compute': lambda ex, v, a, kw: ex.call_value(computed, [v], {})}
ALL_TOUCHED = lambda s: [f"forall(Int, lambda i: implies(0 <= i and i < len(self._metric_names), metric_named(self, self._metric_names[i]) in {s}))",
                         f"forall(UnderlyingMetric, lambda m: implies(m in {s}, exists(Int, lambda i: 0 <= i and i < len(self._metric_names) and m == metric_named(self, self._metric_names[i]))))"]
TOUCH_INV = lambda s: [f"forall(Int, lambda i: implies(0 <= i and i < _k, metric_named(self, self._metric_names[i]) in {s}))",
                       f"forall(UnderlyingMetric, lambda m: implies(m in {s}, exists(Int, lambda i: 0 <= i and i < _k and m == metric_named(self, self._metric_names[i]))))"]
mm_reset = function(
  F + '::MultiMetric.reset', params=[('self', MM)], ensures=ALL_TOUCHED('_reset'), invariants={0: TOUCH_INV('_reset')}, modifies=[], props=('C17',))
mm_reset.ghost_state = {'_reset': (SetOf(MRef), None)}


def _init_updates(ex):
  return SV(SetOf(MRef), SetOf(MRef).empty())


mm_update = function(
  F + '::MultiMetric.update', params=[('self', MM), ('updates', UpdKw)], ensures=ALL_TOUCHED('_updated'), invariants={0: TOUCH_INV('_updated')}, modifies=[], props=('C17',))
mm_update.kwarg = 'updates'
mm_update.ghost_state = {'_updated': (SetOf(MRef), None)}
mm_compute = function(
  F + '::MultiMetric.compute', params=[('self', MM)], returns=MapOf(MName, REAL),
  ensures=["forall(Int, lambda i: implies(0 <= i and i < len(self._metric_names), self._metric_names[i] in result and "
           "result[self._metric_names[i]] == metric_compute(metric_named(self, self._metric_names[i]))))",
           "forall(MetricName, lambda n: implies(n in result, exists(Int, lambda i: 0 <= i and i < len(self._metric_names) and self._metric_names[i] == n)))"],
  modifies=[], props=('C17',))
mm_compute.dict_hint = MapOf(MName, REAL)
