"""Sidecar contracts: flax/core/spmd.py - logical axis rules (property C19): `from_sharding_rules` replaces every logical
name that a rule knows by the mesh axes of the LAST rule for that name and leaves every other entry alone;
`composite_rules` is not under contract (see the note at the end)."""
from pyvc.vc import *  # noqa

F = 'flax/core/spmd.py'
Entry = opaque('ShardingEntry', universe=['embed', 'mlp', 'model'], nullable=True)
Rule = Union('ShardingRule', [Ctor('ShardingRule', [('alias', Entry), ('on_mesh', Entry)], pytypes=('tuple',), tuple_like=True)])
Rules = SeqOf(Rule)
Sharding = SeqOf(Entry)
RuleMap = MapOf(Entry, Entry)

KNOWN = "exists(Int, lambda j: 0 <= j and j < len(sharding_rules) and sharding_rules[j].alias == sharding[i])"
LAST = ("exists(Int, lambda j: 0 <= j and j < len(sharding_rules) and sharding_rules[j].alias == sharding[i] and result[i] == sharding_rules[j].on_mesh and "
        "forall(Int, lambda q: implies(j < q and q < len(sharding_rules), sharding_rules[q].alias != sharding[i])))")
from_sharding_rules = function(
  F + '::from_sharding_rules', params=[('sharding', Sharding), ('sharding_rules', Rules)], returns=Sharding,
  requires=['forall(Int, lambda j: implies(0 <= j and j < len(sharding_rules), sharding_rules[j].alias is not None))'],
  ensures=[
    'len(result) == len(sharding)',
    # an entry that is None, or that no rule mentions, stays as it is
    f"forall(Int, lambda i: implies(0 <= i and i < len(sharding) and (sharding[i] is None or not {KNOWN}), result[i] == sharding[i]))",
    # a logical name known to the rules becomes the mesh axes of the last rule for it
    f"forall(Int, lambda i: implies(0 <= i and i < len(sharding) and sharding[i] is not None and {KNOWN}, {LAST}))",
  ],
  bindings={'str': Handler('str', lambda ex, a, kw: a[0], 'str(s) of an axis name that is a string: the name itself')},
  props=('C19',))
from_sharding_rules.dict_hint = RuleMap
from_sharding_rules.locals = {'rules': RuleMap}

# composite_rules: a contract was tried (merged map, one entry per alias, nothing invented); two of its obligations needed the
# fallback solvers or stayed unknown (quantifier alternation over the items() sequence), so it is NOT registered - an unstable
# obligation would make the check flaky on the unchanged tree. The bounded stand-in c19_partition exercises it (5 rule sets).
