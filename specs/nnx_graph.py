"""Sidecar contracts: flax/nnx/graph.py RefMap (property C03, identity-keyed map kernel).
The split/merge round trip itself is covered by the bounded stand-in bounded/c03_graph.py."""
import z3
from pyvc.vc import *  # noqa
from pyvc.heap import ObjSort

F = 'flax/nnx/graph.py'
Obj = opaque('PyObject', is_str=False)
Val = opaque('MappedValue', is_str=False)
Entry = Union('RefMapEntry', [Ctor('RefMapEntry', [('key', Obj), ('value', Val)], pytypes=('tuple',), tuple_like=True)])
Inner = MapOf(INT, Entry)
RefMap = ObjSort('RefMap', dict(_mapping=Inner))
id_of = UFn('id', [Obj], INT, 'id(obj): injective on live objects (the map keeps its keys alive: it stores (key, value))')
B = {'id': id_of}
INJ = 'forall(PyObject, PyObject, lambda a, b: implies(id(a) == id(b), a == b))'
# representation invariant: the entry stored under id(k) holds k itself (so the key stays alive)
REP = 'forall(Int, lambda i: implies(i in self._mapping, id(self._mapping[i].key) == i))'

setitem = function(
  F + '::RefMap.__setitem__', params=[('self', RefMap), ('key', Obj), ('value', Val)],
  requires=[INJ, REP],
  ensures=[
    'id(key) in self._mapping and self._mapping[id(key)].key == key and self._mapping[id(key)].value == value',
    'forall(Int, lambda i: implies(i != id(key), (i in self._mapping) == (i in old(self._mapping)) and implies(i in self._mapping, self._mapping[i] == old(self._mapping)[i])))',
    REP,
  ],
  modifies=['self._mapping'], bindings=B, props=('C03',))
getitem = function(
  F + '::RefMap.__getitem__', params=[('self', RefMap), ('key', Obj)], returns=Val,
  requires=[INJ, REP, 'id(key) in self._mapping'],
  ensures=['result == self._mapping[id(key)].value', 'self._mapping[id(key)].key == key'],   # keyed by IDENTITY of the key object
  modifies=[], bindings=B, props=('C03',))
contains = function(
  F + '::RefMap.__contains__', params=[('self', RefMap), ('key', Obj)], returns=BOOL,
  requires=[INJ, REP],
  ensures=['result == (id(key) in self._mapping)'],
  modifies=[], bindings=B, props=('C03',))
delitem = function(
  F + '::RefMap.__delitem__', params=[('self', RefMap), ('key', Obj)],
  requires=[INJ, REP, 'id(key) in self._mapping'],
  ensures=['not (id(key) in self._mapping)',
           'forall(Int, lambda i: implies(i != id(key), (i in self._mapping) == (i in old(self._mapping)) and implies(i in self._mapping, self._mapping[i] == old(self._mapping)[i])))'],
  modifies=['self._mapping'], bindings=B, props=('C03',))
length = function(
  F + '::RefMap.__len__', params=[('self', RefMap)], returns=INT,
  ensures=['result == len(self._mapping)'], modifies=[], bindings=B, props=('C03',))
SB = dict(B, **{'RefMap.__setitem__': setitem, 'RefMap.__getitem__': getitem, 'RefMap.__contains__': contains})
