"""Sidecar contracts: flax/nnx/graph.py RefMap (property C03, identity-keyed map kernel).
The split/merge round trip itself is covered by the bounded stand-in bounded/c03_graph.py."""
import z3
from pyvc.vc import *  # noqa
from pyvc.heap import ObjSort

F = 'flax/nnx/graph.py'
Obj = opaque('PyObject', is_str=False)
Val = opaque('MappedValue', is_str=False)
Entry = Union('RefMapEntry', [Ctor('RefMapEntry', [('key', Obj), ('value', Val)], pytypes=('tuple',), tuple_like=True)])
Inner = MapOf(INT, Entry)
RefMap = ObjSort('RefMap', dict(_mapping=Inner))
id_of = UFn('id', [Obj], INT, 'id(obj): injective on live objects (the map keeps its keys alive: it stores (key, value))')
B = {'id': id_of}
INJ = 'forall(PyObject, PyObject, lambda a, b: implies(id(a) == id(b), a == b))'
# representation invariant: the entry stored under id(k) holds k itself (so the key stays alive)
REP = 'forall(Int, lambda i: implies(i in self._mapping, id(self._mapping[i].key) == i))'

setitem = function(
  F + '::RefMap.__setitem__', params=[('self', RefMap), ('key', Obj), ('value', Val)],
  requires=[INJ, REP],
  ensures=[
    'id(key) in self._mapping and self._mapping[id(key)].key == key and self._mapping[id(key)].value == value',
    'forall(Int, lambda i: implies(i != id(key), (i in self._mapping) == (i in old(self._mapping)) and implies(i in self._mapping, self._mapping[i] == old(self._mapping)[i])))',
    REP,
  ],
  modifies=['self._mapping'], bindings=B, props=('C03',))
getitem = function(
  F + '::RefMap.__getitem__', params=[('self', RefMap), ('key', Obj)], returns=Val,
  requires=[INJ, REP, 'id(key) in self._mapping'],
  ensures=['result == self._mapping[id(key)].value', 'self._mapping[id(key)].key == key'],   # keyed by IDENTITY of the key object
  modifies=[], bindings=B, props=('C03',))
contains = function(
  F + '::RefMap.__contains__', params=[('self', RefMap), ('key', Obj)], returns=BOOL,
  requires=[INJ, REP],
  ensures=['result == (id(key) in self._mapping)'],
  modifies=[], bindings=B, props=('C03',))
delitem = function(
  F + '::RefMap.__delitem__', params=[('self', RefMap), ('key', Obj)],
  requires=[INJ, REP, 'id(key) in self._mapping'],
  ensures=['not (id(key) in self._mapping)',
           'forall(Int, lambda i: implies(i != id(key), (i in self._mapping) == (i in old(self._mapping)) and implies(i in self._mapping, self._mapping[i] == old(self._mapping)[i])))'],
  modifies=['self._mapping'], bindings=B, props=('C03',))
length = function(
  F + '::RefMap.__len__', params=[('self', RefMap)], returns=INT,
  ensures=['result == len(self._mapping)'], modifies=[], bindings=B, props=('C03',))
SB = dict(B, **{'RefMap.__setitem__': setitem, 'RefMap.__getitem__': getitem, 'RefMap.__contains__': contains})

# ---- what counts as a graph node: is_node / is_pytree_node / get_node_impl must agree -------------------------------
# update / pop / iter_graph ask is_node, split / merge / clone / state ask get_node_impl: a value that one side
# treats as a container and the other as a leaf is flattened by one operation and skipped by the other.
TypeObj = opaque('TypeObject', is_str=False)
Impl = opaque('NodeImpl', is_str=False, nullable=True)
AnyObj = opaque('AnyObject', is_str=False)
type_of = UFn('type_of', [AnyObj], TypeObj, 'type(x)')
is_variable = UFn('is_variable_instance', [AnyObj], BOOL, 'isinstance(x, Variable)')
is_tuple_type = UFn('is_tuple_subclass', [TypeObj], BOOL, 'issubclass(t, tuple)')
AnyObj.type_hook = lambda ex, v: ex.call_value(type_of, [v], {})


def _any_isinstance(ex, v, names):
  hits = []
  if 'Variable' in names:
    hits.append(ex.call_value(is_variable, [v], {}).t)
  if 'tuple' in names:
    # isinstance(x, tuple) is issubclass(type(x), tuple)
    hits.append(ex.call_value(is_tuple_type, [ex.call_value(type_of, [v], {})], {}).t)
  if not hits:
    raise OutsideSubset(f'isinstance of an arbitrary object against {sorted(names)}')
  return z3.Or(*hits)


AnyObj.isinstance_hook = _any_isinstance
TypeObj.issubclass_hook = lambda ex, v, names: ex.call_value(is_tuple_type, [v], {}).t if names == {'tuple'} else (_ for _ in ()).throw(OutsideSubset('issubclass against ' + repr(names)))
ImplMap = MapOf(TypeObj, Impl)
TypeSet = SetOf(TypeObj)
PYTREE_IMPL = GlobalVar('PYTREE_NODE_IMPL', Impl)
NB = {'Variable': TypeTag('Variable'), 'tuple': TypeTag('tuple'), 'PYTREE_NODE_IMPL': PYTREE_IMPL}
REGS = [('GRAPH_REGISTRY', ImplMap), ('PYTREE_REGISTRY', ImplMap), ('JAX_PYTREE_REGISTRY', TypeSet)]
NONNULL = ['forall(TypeObject, lambda t: implies(t in GRAPH_REGISTRY, GRAPH_REGISTRY[t] is not None))',
           'forall(TypeObject, lambda t: implies(t in PYTREE_REGISTRY, PYTREE_REGISTRY[t] is not None))',
           'PYTREE_NODE_IMPL is not None']
PYTREE_NODE = '(type_of(x) in JAX_PYTREE_REGISTRY or is_tuple_subclass(type_of(x)))'

is_pytree_node = function(
  F + '::is_pytree_node', params=[('x', AnyObj)], free=REGS[2:], returns=BOOL,
  # registered jax pytrees and every tuple subclass (named tuples are not in jax's registry)
  ensures=[f'result == {PYTREE_NODE}'],
  bindings=NB, props=('C03',))
is_node = function(
  F + '::is_node', params=[('x', AnyObj)], free=[REGS[0], REGS[2]], returns=BOOL,
  ensures=[f'result == (type_of(x) in GRAPH_REGISTRY or {PYTREE_NODE})'],
  bindings=dict(NB, is_pytree_node=is_pytree_node), props=('C03',))
get_node_impl = function(
  F + '::get_node_impl', params=[('x', AnyObj)], free=REGS, returns=Impl,
  requires=NONNULL,
  ensures=[
    'implies(is_variable_instance(x), result is None)',      # Variables are leaves
    f'implies(not is_variable_instance(x), (result is not None) == (type_of(x) in GRAPH_REGISTRY or type_of(x) in PYTREE_REGISTRY or {PYTREE_NODE}))',
    'implies(not is_variable_instance(x) and type_of(x) in GRAPH_REGISTRY, result == GRAPH_REGISTRY[type_of(x)])',
  ],
  bindings=NB, props=('C03',))
lemma(
  'is_node_agrees_with_get_node_impl', params=[('x', AnyObj)], free=REGS, returns=BOOL,
  requires=NONNULL + ['not is_variable_instance(x)',
                      # types registered only through register_pytree_node_type are outside this lemma (is_node does not consult PYTREE_REGISTRY)
                      'implies(type_of(x) in PYTREE_REGISTRY, type_of(x) in JAX_PYTREE_REGISTRY)'],
  ensures=['result'],
  body='''
a = is_node(x)
b = get_node_impl(x)
return a == (b is not None)
''', bindings={'is_node': is_node, 'get_node_impl': get_node_impl, 'PYTREE_NODE_IMPL': PYTREE_IMPL}, props=('C03',))

# ---- Variable.to_state: the state leaf carries the STORED value and all metadata -----------------------------------------
VL = 'flax/nnx/variablelib.py'
StoredVal = opaque('StoredValue', is_str=False)
MetaKey = opaque('MetadataKey')
MetaVal = opaque('MetadataValue', is_str=False)
MetaMap = MapOf(MetaKey, MetaVal)
VarObj = opaque('VariableObject', is_str=False)
VarObj.attrs['raw_value'] = (StoredVal, None)      # what the Variable stores
VarObj.attrs['value'] = (StoredVal, None)          # what on_get_value hooks make of it (another value in general)
VarObj.attrs['_var_metadata'] = (MetaMap, None)
var_type = UFn('variable_class', [VarObj], TypeObj, 'type(variable)')
VarObj.type_hook = lambda ex, v: ex.call_value(var_type, [v], {})
VState = Union('VariableStateRec', [Ctor('VState', [('type', TypeObj), ('value', StoredVal), ('metadata', MetaMap)], pytypes=('VariableState',))])


def _mk_vstate(ex, a, kw):
  md = ex.coerce(kw['**'], MetaMap) if '**' in kw else ex.empty_map(MetaMap)
  return SV(VState, VState.mk('VState', ex.coerce(a[0], TypeObj).t, ex.coerce(a[1], StoredVal).t, md.t))


to_state = function(
  VL + '::Variable.to_state', params=[('self', VarObj)], returns=VState,
  # merge(split(g)) keeps Variable values: the leaf must hold the stored value (not the value seen through get-value hooks)
  ensures=['result.type == variable_class(self)', 'result.value == self.raw_value', 'result.metadata == self._var_metadata'],
  bindings={'VariableState': Handler('VariableState', _mk_vstate, 'VariableState(type, value, **metadata): a record')}, props=('C03',))
