"""Sidecar contracts: Linen collection filters, flax/core/scope.py (property C14; also used by
C01 and C05)."""
from pyvc import vc
from pyvc.vc import *  # noqa
from pyvc.native import NativeHarness as NH

F = 'flax/core/scope.py'

# --- type models --------------------------------------------------------------------------
Name = opaque('Name', universe=['a', 'ab', '__flax_internal_stub__', 'b'])    # 'a' / 'b' are substrings of 'ab' (a string filter is equality, not containment)


class _DenyListView:
  pass


def _abs_filter(py):
  from flax.core.scope import DenyList
  if isinstance(py, bool):
    return ADTVal('FBool', b=py)
  if isinstance(py, str):
    return ADTVal('FStr', s=py)
  if isinstance(py, DenyList):
    return ADTVal('FDeny', deny=_abs_filter(py.deny))
  return ADTVal('FColl', set=frozenset(py))


def _conc_filter(sp):
  from flax.core.scope import DenyList
  if sp.ctor == 'FBool':
    return sp.b
  if sp.ctor == 'FStr':
    return sp.s
  if sp.ctor == 'FColl':
    return set(sp.set)
  return DenyList(_conc_filter(sp.deny))


def _enum_filter(bound, names=('a', 'ab')):     # 'a' is a substring of 'ab': a string filter means equality
  """All filters of DenyList-nesting depth <= bound over `names` (sets, lists, tuples are all
  FColl; the concrete container type is varied by the native harness)."""
  import itertools
  base = [ADTVal('FBool', b=False), ADTVal('FBool', b=True)]
  base += [ADTVal('FStr', s=n) for n in names]
  for r in range(0, len(names) + 1):
    for c in itertools.combinations(names, r):
      base.append(ADTVal('FColl', set=frozenset(c)))
  out = list(base)
  level = list(base)
  for _ in range(bound):
    level = [ADTVal('FDeny', deny=x) for x in level]
    out += level
  return out


Filter = Union('Filter', [
  Ctor('FBool', [('b', BOOL)], pytypes=('bool', 'int'), payload='b'),
  Ctor('FStr', [('s', Name)], pytypes=('str', 'typing.Collection', 'Collection'), payload='s'),
  Ctor('FColl', [('set', SetOf(Name))], pytypes=('typing.Collection', 'Collection'), payload='set'),
  Ctor('FDeny', [('deny', 'SELF')], pytypes=('DenyList',)),
], abstract=_abs_filter, concretise=_conc_filter, enumerate=_enum_filter)


# --- spec functions -----------------------------------------------------------------------
@spec(Filter, Name, ret=BOOL)
def mem(f, c):
  """filter f selects collection name c"""
  return (f.b if is_(f, 'FBool') else
          (c == f.s) if is_(f, 'FStr') else
          (c in f.set) if is_(f, 'FColl') else
          (not mem(f.deny, c)))


@spec(Filter, ret=INT, axioms=['depth(f) >= 0'])
def depth(f):
  """DenyList nesting depth (recursion measure)"""
  return (1 + depth(f.deny)) if is_(f, 'FDeny') else 0


# --- bindings shared by all functions of the file -----------------------------------------
B = {
  'typing.Collection': TypeTag('typing.Collection'),
  'DenyList': CtorFn(Filter, 'FDeny'),
  'errors.InvalidFilterError': TypeTag('InvalidFilterError', (TypeTag('Exception'),)),
}

in_filter = function(
  F + '::in_filter', native=NH('flax.core.scope', 'in_filter'), params=[('filter_like', Filter), ('col', Name)], returns=BOOL,
  ensures=['result == mem(filter_like, col)'],
  decreases='depth(filter_like)', group='in_filter',
  bindings=B, props=('C14', 'C01'))
B['in_filter'] = in_filter

filter_to_set = function(
  F + '::filter_to_set', native=NH('flax.core.scope', 'filter_to_set'), params=[('x', Filter)], returns=SetOf(Name),
  requires=["not (is_(x, 'FBool') and x.b)", "not is_(x, 'FDeny')"],
  ensures=['forall(Name, lambda c: (c in result) == mem(x, c))'],
  bindings=B, props=('C14',))
B['filter_to_set'] = filter_to_set

_algebra = dict(params=[('a', Filter), ('b', Filter)], returns=Filter,
                decreases='depth(a) + depth(b)', group='filter_algebra', bindings=B, props=('C14', 'C05'))


def _alg(name):
  return dict(_algebra, native=NH('flax.core.scope', name))

union_filters = function(
  F + '::union_filters',
  ensures=['forall(Name, lambda c: mem(result, c) == (mem(a, c) or mem(b, c)))'], **_alg('union_filters'))
subtract_filters = function(
  F + '::subtract_filters',
  ensures=['forall(Name, lambda c: mem(result, c) == (mem(a, c) and not mem(b, c)))'], **_alg('subtract_filters'))
intersect_filters = function(
  F + '::intersect_filters',
  ensures=['forall(Name, lambda c: mem(result, c) == (mem(a, c) and mem(b, c)))'], **_alg('intersect_filters'))
B.update(union_filters=union_filters, subtract_filters=subtract_filters, intersect_filters=intersect_filters)

is_filter_empty = function(
  F + '::is_filter_empty', native=NH('flax.core.scope', 'is_filter_empty'), params=[('filter_like', Filter)], returns=BOOL,
  ensures=['result == forall(Name, lambda c: not mem(filter_like, c))'],
  decreases='depth(filter_like)', group='is_filter_empty',
  # witnesses for "some name matches": the name itself, a name outside a finite set, any name
  hints=['mem(filter_like, filter_like.s)', 'mem(filter_like, fresh(filter_like.set))',
         'mem(filter_like, other(filter_like.s))',
         'mem(filter_like, other(filter_like.deny.s))', 'mem(filter_like, fresh(filter_like.deny.set))'],
  bindings=B, props=('C14',))
B['is_filter_empty'] = is_filter_empty

# ---- group_collections: first-match partition of the collections by a list of filters ------------------
CollTree = opaque('CollectionTree', is_str=False, universe=['tree0', 'tree1'])
XS = MapOf(Name, CollTree)
Filters = SeqOf(Filter)
Groups = SeqOf(XS)
tree_copy = UFn('tree_map_identity', [CollTree], CollTree, 'jax.tree_util.tree_map(lambda x: x, t): structurally equal copy', native=lambda t: t)


def _first(g, c='c', fs='col_filters'):
  return f"(mem({fs}[{g}], {c}) and forall(Int, lambda jj: implies(0 <= jj and jj < {g}, not mem({fs}[jj], {c}))))"


GC_B = dict(B)
GC_B['jax.tree_util.tree_map'] = Handler('jax.tree_util.tree_map', lambda ex, a, kw: ex.call_value(tree_copy, [a[1]], {}), 'tree_map(lambda x: x, t) is a copy of t')
UNMATCHED = "forall(Int, lambda jj: implies(0 <= jj and jj < %s, not mem(col_filters[jj], %s)))"
group_collections = function(
  F + '::group_collections', params=[('xs', XS), ('col_filters', Filters)], returns=Groups,
  ensures=[
    'len(result) == len(col_filters)',
    # every collection lands in the group of the FIRST filter that matches it, and in no other
    f"forall(Int, Name, lambda g, c: implies(0 <= g and g < len(col_filters), (c in result[g]) == (c in xs and {_first('g')})))",
    "forall(Int, Name, lambda g, c: implies(0 <= g and g < len(col_filters) and c in result[g], result[g][c] == tree_map_identity(xs[c])))",
  ],
  invariants={
    0: [  # for col_filter in col_filters
      'len(groups) == _k',
      f"forall(Int, Name, lambda g, c: implies(0 <= g and g < _k, (c in groups[g]) == (c in xs and {_first('g')})))",
      "forall(Int, Name, lambda g, c: implies(0 <= g and g < _k and c in groups[g], groups[g][c] == tree_map_identity(xs[c])))",
      # `cols`: exactly the collections matched by none of the filters processed so far
      f"forall(Int, lambda i: implies(0 <= i and i < len(cols), cols[i] in xs and {UNMATCHED % ('_k', 'cols[i]')}))",
      f"forall(Name, lambda c: implies(c in xs and {UNMATCHED % ('_k', 'c')}, exists(Int, lambda i: 0 <= i and i < len(cols) and cols[i] == c)))",
    ],
    1: [  # for col in cols
      f"forall(Name, lambda c: (c in group) == exists(Int, lambda i: 0 <= i and i < _k and _at(i) == c and mem(col_filter, c)))",
      "forall(Name, lambda c: implies(c in group, group[c] == tree_map_identity(xs[c])))",
      "forall(Int, lambda i: implies(0 <= i and i < len(remaining_cols), exists(Int, lambda q: 0 <= q and q < _k and _at(q) == remaining_cols[i] and not mem(col_filter, remaining_cols[i]))))",
      "forall(Int, lambda q: implies(0 <= q and q < _k and not mem(col_filter, _at(q)), exists(Int, lambda i: 0 <= i and i < len(remaining_cols) and remaining_cols[i] == _at(q))))",
    ]},
  bindings=GC_B, props=('C14', 'C05'),
  native=NH('flax.core.scope', 'group_collections', bound=3,
            extra=[dict(xs={'a': 'tree0', 'ab': 'tree1'}, col_filters=fs) for fs in (
              (ADTVal('FStr', s='a'), ADTVal('FStr', s='ab'), ADTVal('FBool', b=True)),
              (ADTVal('FBool', b=True), ADTVal('FStr', s='ab'), ADTVal('FBool', b=True)),
              (ADTVal('FColl', set=frozenset(['a'])), ADTVal('FBool', b=False), ADTVal('FColl', set=frozenset(['a', 'ab'])), ADTVal('FBool', b=True)))],
            call=lambda fn, c: fn(c['xs'], [Filter.concretise(f) for f in c['col_filters']]) if False else fn(c['xs'], list(c['col_filters']))))
group_collections.locals = {'groups': Groups, 'remaining_cols': SeqOf(Name), 'group': XS, 'cols': SeqOf(Name)}
Groups.abstract = lambda py: tuple(dict(g) for g in py)
B['group_collections'] = group_collections
