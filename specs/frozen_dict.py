"""Sidecar contracts: flax/core/frozen_dict.py (property C15), pytree and mutation-gate kernels.
The ownership argument (no mutable nested dict is shared) is covered by the bounded stand-in
bounded/c15_frozen.py; see DESIGN.md C15 for the part that is not mechanised."""
import z3
from pyvc.vc import *  # noqa
from pyvc.heap import ObjSort

F = 'flax/core/frozen_dict.py'
K = opaque('DictKeyName', universe=['a', 'b', 'c'])
V = opaque('DictValue', is_str=False, universe=['v0', 'v1'])
Inner = MapOf(K, V)
FD = ObjSort('FrozenDict', dict(_dict=Inner))
Keys = SeqOf(K)
DictKeyT = opaque('JaxDictKey', is_str=False)
dict_key = UFn('jax_DictKey', [K], DictKeyT, 'jax.tree_util.DictKey(k)')
Child = Union('KeyedChild', [Ctor('KeyedChild', [('key', DictKeyT), ('value', V)], pytypes=('tuple',), tuple_like=True)])
Children = SeqOf(Child)
FlatRes = TupleOf(Children, Keys)

setitem = function(
  F + '::FrozenDict.__setitem__', params=[('self', FD), ('key', K), ('value', V)],
  raises={'ValueError': 'True'},     # no API mutates a FrozenDict
  modifies=[], props=('C15',))

flatten = function(
  F + '::FrozenDict.tree_flatten_with_keys', params=[('self', FD)], returns=FlatRes,
  ensures=[
    # the keys travel in the (static) aux data in SORTED order, independent of insertion order ...
    'len(result[1]) == len(self._dict) and len(result[0]) == len(result[1])',
    'forall(Int, Int, lambda i, j: implies(0 <= i and i < j and j < len(result[1]), not lt_DictKeyName(result[1][j], result[1][i])))',
    'forall(DictKeyName, lambda k: implies(k in self._dict, exists(Int, lambda i: 0 <= i and i < len(result[1]) and result[1][i] == k)))',
    # ... and child i is exactly the value stored under key i
    'forall(Int, lambda i: implies(0 <= i and i < len(result[1]), result[1][i] in self._dict and result[0][i].value == self._dict[result[1][i]] '
    'and result[0][i].key == jax_DictKey(result[1][i])))',
  ],
  bindings={'jax.tree_util.DictKey': dict_key}, modifies=[], props=('C15',))
flatten.locals = {'sorted_keys': Keys}
flatten.comp_elem_hint = Child
lt_DictKeyName = UFn('lt!DictKeyName', [K, K], BOOL, 'the order used by sorted() on the keys')

Values = SeqOf(V)
unflatten = function(
  F + '::FrozenDict.tree_unflatten', params=[('cls', NONE), ('keys', Keys), ('values', Values)], returns=FD,
  requires=['len(keys) == len(values)',
            'forall(Int, Int, lambda i, j: implies(0 <= i and i < j and j < len(keys), keys[i] != keys[j]))'],
  ensures=[
    'forall(DictKeyName, lambda k: (k in result._dict) == exists(Int, lambda i: 0 <= i and i < len(keys) and keys[i] == k))',
    'forall(Int, lambda i: implies(0 <= i and i < len(keys), result._dict[keys[i]] == values[i]))',
  ],
  props=('C15',))


def _cls(ex, a, kw):
  """cls(mapping, __unsafe_skip_copy__=True): a FrozenDict holding exactly that mapping"""
  m = ex.coerce(a[0], Inner)
  obj = ex.alloc(FD, 'fd')
  ex.heap[('FrozenDict', '_dict')] = z3.Store(ex.heap_arr(FD, '_dict'), obj.t, m.t)
  ex.heap_written.add(('FrozenDict', '_dict'))
  ex.ghost['constructed'] = obj
  return obj


unflatten.bindings['cls'] = Handler('cls', _cls, 'FrozenDict(mapping, __unsafe_skip_copy__=True)')
unflatten.frame_except = {'FrozenDict._dict': "r == ghost('constructed')"}
unflatten.dict_hint = Inner


# ---- pickling: the pickle carries the class and a plain deep copy of the contents, nothing else -------------------------
PyClass = opaque('PickledClass', is_str=False)
Plain = opaque('PlainDict', is_str=False)
CLS_FD = GlobalVar('FrozenDict', PyClass)
unfrozen = UFn('unfrozen', [Inner], Plain, 'the nested plain-dict deep copy of the contents (FrozenDict.unfreeze)')
_unfreeze = Handler('FrozenDict.unfreeze', lambda ex, a, kw: ex.call_value(unfrozen, [ex.deref(ex.getattr_(a[0], '_dict'))], {}),
                    'assumed: unfreeze() is a function of the contents only (its copy semantics are checked by the bounded stand-in)')
reduce_ = function(
  F + '::FrozenDict.__reduce__', params=[('self', FD)], returns=TupleOf(PyClass, TupleOf(Plain)),
  ensures=[
    # what is pickled is (FrozenDict, (unfreeze(self),)): the class and a plain copy of the CONTENTS -- no cached state
    # (such as the per-process hash) travels with it, so the reading side rebuilds the value through FrozenDict.__init__
    'result[0] == CLS_FD',
    'result[1][0] == unfrozen(self._dict)',
  ],
  bindings={'FrozenDict': CLS_FD, 'FrozenDict.unfreeze': _unfreeze}, modifies=[], props=('C15',))

# ---- FrozenDict.pop: a NEW FrozenDict without the key, the removed value, and the receiver untouched ----------------------
wrap_value = UFn('frozen_view_of', [V], V, 'what __getitem__ hands out for a stored value: FrozenDict(v) for a nested dict, v itself otherwise')


def _fd_getitem(ex, a, kw):
  """self[key]: KeyError for a missing key, otherwise the (frozen view of the) stored value"""
  from pyvc.symexec import RaiseEx, ExcVal
  fd, key = ex.deref(a[0]), ex.coerce(a[1], K)
  d = ex.deref(ex.getattr_(fd, '_dict'))
  if not ex.decide(Inner.has(d.t, key.t), 'key-present'):
    raise RaiseEx(ExcVal(TypeTag('KeyError', (TypeTag('Exception'),)), []))
  return ex.call_value(wrap_value, [SV(V, Inner.get(d.t, key.t))], {})


def _type_of_fd(ex, a, kw):
  return Handler('FrozenDict', lambda ex2, a2, kw2: _cls(ex2, a2, kw2), 'type(self) is FrozenDict: FrozenDict(mapping) holds exactly that mapping (values are opaque: _prepare_freeze acts inside them)')


FD.getitem = lambda ex, base, idx: _fd_getitem(ex, [base, idx], {})
PopRes = TupleOf(FD, V)
fd_pop = function(
  F + '::FrozenDict.pop', params=[('self', FD), ('key', K)], returns=PopRes,
  raises={'KeyError': 'not (key in self._dict)'},
  ensures=[
    'result[1] == frozen_view_of(old(self._dict)[key])',
    'forall(DictKeyName, lambda k: (k in result[0]._dict) == (k in old(self._dict) and k != key))',
    'forall(DictKeyName, lambda k: implies(k in result[0]._dict, result[0]._dict[k] == old(self._dict)[k]))',
    'result[0] != self and self._dict == old(self._dict)',        # value semantics: the receiver is not changed
  ],
  bindings={'FrozenDict.__getitem__': Handler('FrozenDict.__getitem__', _fd_getitem, 'contract of __getitem__'),
            'type': Handler('type', _type_of_fd, 'type(self)')},
  props=('C15',))
fd_pop.frame_except = {'FrozenDict._dict': "r == ghost('constructed')"}
fd_pop.dict_hint = Inner
fd_pop.locals = {'new_dict': Inner}

# ---- FrozenDict.__getitem__: a nested dict is handed out frozen (never the mutable dict itself), anything else as stored ----
v_is_dict = UFn('value_is_dict', [V], BOOL, 'isinstance(v, dict)')
frozen_of = UFn('frozen_copy_of', [V], V, 'FrozenDict(v)')
V.isinstance_hook = lambda ex, v, names: ex.call_value(v_is_dict, [v], {}).t if names == {'dict'} else (_ for _ in ()).throw(OutsideSubset('isinstance ' + repr(names)))
fd_getitem = function(
  F + '::FrozenDict.__getitem__', params=[('self', FD), ('key', K)], returns=V,
  requires=['key in self._dict'],      # a missing key is python's own KeyError of the inner dict (not modelled as a raise by the engine)
  ensures=['result == (frozen_copy_of(self._dict[key]) if value_is_dict(self._dict[key]) else self._dict[key])'],
  bindings={'FrozenDict': frozen_of, 'dict': TypeTag('dict')}, modifies=[], props=('C15',))
