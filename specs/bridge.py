"""Sidecar contracts: Linen<->NNX bridge naming/metadata kernels (property C18):
flax/nnx/variablelib.py registry, Partitioned / LogicallyPartitioned to/from_nnx_metadata."""
import z3
from pyvc.vc import *  # noqa
from pyvc.heap import ObjSort
from pyvc.sorts import fresh_name, qforall
from pyvc.values import Box

M = 'flax/core/meta.py'
SP = 'flax/linen/spmd.py'
V = 'flax/nnx/variablelib.py'

Attr = opaque('AttrName', universe=['value', 'names', 'mesh', 'sharding', 'rules', 'sharding_rules', 'other'])
AVal = opaque('AttrValue', is_str=False, universe=['v0', 'v1', 'v2'])
AttrMap = MapOf(Attr, AVal)

Boxed = ObjSort('Partitioned', {'__dict__': AttrMap}, pytypes=('Partitioned',))
Boxed.vars_hook = lambda ex, v: Box(('field', Boxed, '__dict__', v.t))   # vars(x) IS the instance dict (alias)

to_nnx = function(
  M + '::Partitioned.to_nnx_metadata', params=[('self', Boxed)], returns=AttrMap,
  requires=["'names' in self.__dict__", "not ('sharding' in self.__dict__)"],
  ensures=[
    # values, names (as `sharding`) and every other metadata entry are preserved
    "'sharding' in result and result['sharding'] == old(self.__dict__['names'])",
    "not ('names' in result)",
    "forall(AttrName, lambda k: implies(k != 'names' and k != 'sharding', (k in result) == (k in old(self.__dict__)) and implies(k in result, result[k] == old(self.__dict__)[k])))",
  ],
  modifies=[],   # a frozen struct.dataclass instance: the method must not write to self
  props=('C18', 'C15'))
to_nnx.locals = {'metadata': AttrMap}

lp_to_nnx = function(
  SP + '::LogicallyPartitioned.to_nnx_metadata', params=[('self', Boxed)], returns=AttrMap,
  requires=["'names' in self.__dict__", "'rules' in self.__dict__", "not ('sharding' in self.__dict__)", "not ('sharding_rules' in self.__dict__)"],
  ensures=[
    "'sharding' in result and result['sharding'] == old(self.__dict__['names'])",
    "'sharding_rules' in result and result['sharding_rules'] == old(self.__dict__['rules'])",
    "not ('names' in result) and not ('rules' in result)",
    "forall(AttrName, lambda k: implies(k != 'names' and k != 'sharding' and k != 'rules' and k != 'sharding_rules', (k in result) == (k in old(self.__dict__)) and implies(k in result, result[k] == old(self.__dict__)[k])))",
  ],
  modifies=[], props=('C18', 'C15'))
lp_to_nnx.locals = {'metadata': AttrMap}

# ---- from_nnx_metadata ----------------------------------------------------------------------------------------
FieldRec = Union('DataclassField', [Ctor('DataclassField', [('name', Attr)], pytypes=('Field',))])
fields_of = UFn('dataclass_fields', [opaque('ClassObj', is_str=False)], SeqOf(FieldRec), 'dataclasses.fields(cls)')
ClassObj = fields_of.argsorts[0]


def _construct(ex, a, kw):
  """cls(**kwargs): a new instance whose attributes are exactly the keyword arguments (defaults for
  omitted fields are not modelled: the contract requires every field to be given)"""
  m = ex.coerce(kw['**'], AttrMap)
  obj = ex.alloc(Boxed, 'inst')
  ex.heap[('Partitioned', '__dict__')] = z3.Store(ex.heap_arr(Boxed, '__dict__'), obj.t, m.t)
  ex.heap_written.add(('Partitioned', '__dict__'))
  ex.ghost['constructed'] = obj
  return obj


ClassObj.pytypes = ('type',)
ClassObj.call_hook = lambda ex, f, a, kw: _construct(ex, a, kw)
FB = {'dataclasses.fields': fields_of}

from_nnx = function(
  M + '::Partitioned.from_nnx_metadata', params=[('cls', ClassObj), ('metadata', AttrMap)], returns=Boxed,
  assigns=('metadata',),
  requires=["'sharding' in metadata"],
  ensures=[
    # the rebuilt box carries the saved value, the sharding as `names`, and every other dataclass field unchanged
    "forall(AttrName, lambda k: (k in result.__dict__) == (exists(Int, lambda i: 0 <= i and i < len(dataclass_fields(cls)) and dataclass_fields(cls)[i].name == k) and "
    "((k in old(metadata) and k != 'sharding') or k == 'names')))",
    "implies('names' in result.__dict__, result.__dict__['names'] == old(metadata)['sharding'])",
    "forall(AttrName, lambda k: implies(k in result.__dict__ and k != 'names', result.__dict__[k] == old(metadata)[k]))",
  ],
  bindings=FB, props=('C18',))
from_nnx.frame_except = {'Partitioned.__dict__': "r == ghost('constructed')"}
from_nnx.locals = {'fields': SetOf(Attr)}
from_nnx.dict_hint = AttrMap

# ---- variable type <-> collection name registry --------------------------------------------------------------------
CName = opaque('CollectionName', universe=['params', 'batch_stats', 'cache', 'custom'])
VType = opaque('VariableType', is_str=False, universe=['Param', 'BatchStat', 'Cache', 'Custom'])
Registry = MapOf(CName, VType)
type_name = UFn('type___name__', [VType], CName, 'typ.__name__')
VType.attrs['__name__'] = (CName, None)


def _new_type(ex, a, kw):
  """type(name, (base,), {}): a brand-new class, different from every registered one"""
  t = ex.fresh(VType, 'newtype')
  reg = ex.deref(ex._cur_env.lookup('VariableTypeCache'))
  k = z3.Const(fresh_name('k'), CName.z3())
  ex.assume(z3.ForAll([k], z3.Implies(Registry.has(reg.t, k), Registry.get(reg.t, k) != t.t)))
  return t


RB = {'type': Handler('type', _new_type, 'type(name, bases, ns): a fresh class'), 'Variable': NONEV,
      'register_variable_name': Effect('register_variable_name', [CName, VType])}
INJ = 'forall(CollectionName, CollectionName, lambda a, b: implies(a in VariableTypeCache and b in VariableTypeCache and VariableTypeCache[a] == VariableTypeCache[b], a == b))'

type_from_name = function(
  V + '::variable_type_from_name', params=[('name', CName), ('base', NONE), ('allow_register', BOOL)], free=[('VariableTypeCache', Registry)],
  assigns=('VariableTypeCache',), returns=VType,
  requires=[INJ],
  raises={'ValueError': 'not (name in VariableTypeCache) and not allow_register'},
  ensures=[
    'name in VariableTypeCache and result == VariableTypeCache[name]',
    # a registered name maps to its registered type and nothing changes; an unregistered one gets a NEW type
    'implies(name in old(VariableTypeCache), result == old(VariableTypeCache)[name])',
    'forall(CollectionName, lambda k: implies(k != name, (k in VariableTypeCache) == (k in old(VariableTypeCache)) and implies(k in VariableTypeCache, VariableTypeCache[k] == old(VariableTypeCache)[k])))',
    INJ,   # the registry stays one-to-one
  ],
  bindings=RB, props=('C18',))
type_from_name.defaults = {'base': NONEV, 'allow_register': False}

name_from_type = function(
  V + '::variable_name_from_type', params=[('typ', VType), ('allow_register', BOOL)], free=[('VariableTypeCache', Registry)],
  assigns=('VariableTypeCache',), returns=CName,
  requires=[INJ, 'exists(CollectionName, lambda k: k in VariableTypeCache and VariableTypeCache[k] == typ)'],  # registered types (the unregistered branch is not specified)
  ensures=[
    # the collection is named after the type: the exact inverse of variable_type_from_name
    'result in VariableTypeCache and VariableTypeCache[result] == typ',
    'forall(CollectionName, lambda k: (k in VariableTypeCache) == (k in old(VariableTypeCache)) and implies(k in VariableTypeCache, VariableTypeCache[k] == old(VariableTypeCache)[k]))',
  ],
  invariants={0: ['forall(Int, lambda i: implies(0 <= i and i < _k, _at(i)[0] in VariableTypeCache and VariableTypeCache[_at(i)[0]] != typ))']},
  raises_any=('ValueError',),
  bindings=RB, props=('C18',))


# ---- native reading of the boxed objects (replay / bounded search) --------------------------------------------------
from pyvc.native import NativeHarness as NH  # noqa: E402


class _Obj:
  """abstract view of an instance: its attribute dict"""
  def __init__(self, d):
    self.__dict__.update(d)
    self.__dict__['__dict__'] = dict(d)

  def __eq__(self, o):
    return isinstance(o, _Obj) and vars(self)['__dict__'] == vars(o)['__dict__']

  def __repr__(self):
    return f"_Obj({vars(self)['__dict__']!r})"


def _abs_boxed(py):
  return _Obj(dict(vars(py)))


def _conc_boxed(sp, cls='Partitioned'):
  from flax.core import meta
  from flax.linen import spmd
  d = vars(sp)['__dict__']
  if 'rules' in d:
    return spmd.LogicallyPartitioned(d['value'], names=d['names'], mesh=d.get('mesh'), rules=d['rules'])
  return meta.Partitioned(d['value'], names=d['names'], mesh=d.get('mesh'))


Boxed.abstract = _abs_boxed
Boxed.concretise = _conc_boxed
Boxed.enumerate = lambda bound: [_Obj(dict(value='v0', names=('x', 'y'), mesh=None)), _Obj(dict(value='v1', names=(), mesh='v2'))]
AVal.universe = ['v0', 'v1', 'v2', ('x', 'y'), (), None]
to_nnx.native = NH('flax.core.meta', 'Partitioned.to_nnx_metadata')
_LP = lambda bound: [_Obj(dict(value='v0', names=('x',), mesh=None, rules=None))]


# ---- lazy_init: initializing mode is on exactly while the function runs - also when it raises -------------------------
import z3 as _z3
from pyvc.values import SV as _SV, TypeTag as _TT
from pyvc.symexec import RaiseEx as _RaiseEx, ExcVal as _ExcVal
W = 'flax/nnx/bridge/wrappers.py'
PyObj = opaque('PyObject', is_str=False)
ArgsT = opaque('PositionalArgs', is_str=False)
KwT = opaque('KeywordArgs', is_str=False)
is_module = UFn('is_nnx_module', [PyObj], BOOL, 'isinstance(x, nnx.Module)')
has_self = UFn('has_self', [PyObj], BOOL, "hasattr(x, '__self__') (bound method)")
user_fn_raises = UFn('user_fn_raises', [], BOOL, 'the user function raises')
PyObj.isinstance_hook = lambda ex, v, names: ex.call_value(is_module, [v], {}).t if names == {'Module'} else (_ for _ in ()).throw(OutsideSubset('isinstance ' + repr(names)))
PyObj.hasattr_hook = lambda ex, v, name: ex.call_value(has_self, [v], {}) if name == '__self__' else (_ for _ in ()).throw(OutsideSubset('hasattr ' + name))
PyObj.attrs['__self__'] = (PyObj, None)


def _call_user_fn(ex, f, a, kw):
  """fn(*args, **kwargs): arbitrary user code. It runs with the module in initializing mode (obligation) and may raise."""
  f = ex.deref(f)
  expected = _z3.If(ex.call_value(is_module, [f], {}).t, f.t, ex.getattr_(f, '__self__').t)
  mode, mod = ex.ghost.get('init_mode'), ex.ghost.get('init_module')
  ex.oblige(_z3.And(mode.t, mod.t == expected) if mode is not None else _z3.BoolVal(False), 'pre:fn-runs-in-initializing-mode')
  ex.ghost['fn_called'] = _SV(BOOL, _z3.BoolVal(True))
  if ex.decide(ex.call_value(user_fn_raises, [], {}).t, 'user-fn-raises'):
    raise _RaiseEx(_ExcVal(_TT('UserError', (_TT('Exception'),)), []))
  return ex.fresh(PyObj, 'fn_result')


PyObj.call_hook = _call_user_fn


def _set_init(ex, a, kw):
  bound, ok = bind_call(['module', 'initializing'], a, kw)
  if not ok or 'module' not in bound or 'initializing' not in bound:
    raise OutsideSubset('_set_initializing(module, initializing) expected')
  ex.ghost['init_module'] = ex.deref(bound['module'])
  ex.ghost['init_mode'] = ex.coerce(bound['initializing'], BOOL)
  return NONEV


MODULE_OF = '(fn if is_nnx_module(fn) else fn.__self__)'
OFF = [f"ghost('init_module') == {MODULE_OF}", "not ghost('init_mode')", "ghost('fn_called')"]
lazy_init = function(
  W + '::lazy_init', params=[('fn', PyObj), ('args', ArgsT), ('kwargs', KwT)], returns=PyObj,
  raises={'ValueError': 'not is_nnx_module(fn) and not (has_self(fn) and is_nnx_module(fn.__self__))',
          'UserError': 'user_fn_raises()'},
  # the function ran (in initializing mode: obligation at the call), and on the way out the mode is switched off again
  ensures=['result == fn'] + OFF,
  bindings={'Module': TypeTag('Module'), '_set_initializing': Handler('_set_initializing', _set_init, 'sets the mode of every object under the module: recorded in ghost state'),
            'callable': Handler('callable', lambda ex, a, kw: True, 'assert callable(fn): modules passed to lazy_init are callable (assumed)')},
  modifies=[], props=('C18',))
lazy_init.ensures_on_raise = {'UserError': OFF}     # an exception of the user function leaves NO object in initializing mode
