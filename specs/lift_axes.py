"""Sidecar contracts: flax/core/lift.py vmap / scan glue (properties C06, C19): which axis list goes where.

lift.vmap.inner hands jax.vmap the IN axes on the way in and the OUT axes on the way out, removes the metadata
axis of every mapped input group with ITS in-axis and re-adds it to every output group with ITS out-axis, and
splits exactly the rng groups declared split. jax.vmap itself, scope_fn / repack_fn and the tree utilities are
uninterpreted; what is proved is the pairing."""
import z3
from pyvc.vc import *  # noqa
from pyvc.sorts import fresh_name

F = 'flax/core/lift.py'
Ax = opaque('LiftAxis', is_str=False, nullable=True)          # an axis index, or None (broadcast)
AxSeq = SeqOf(Ax)
Grp = opaque('VariableGroup', is_str=False)
Grps = SeqOf(Grp)
Rng = opaque('RngGroup', is_str=False)
Rngs = SeqOf(Rng)
Opt = opaque('LiftOption', is_str=False, nullable=True)
MP = opaque('MetadataParams', is_str=False)
Fn = opaque('LiftedFn', is_str=False)
ArgsPack = opaque('LiftArgs', is_str=False)
Out = opaque('MappedOutput', is_str=False)
rm_axis = UFn('meta_remove_axis', [Grp, Ax, MP], Grp, 'meta.remove_axis(group, axis, metadata_params)')
add_axis = UFn('meta_add_axis', [Grp, Ax, MP], Grp, 'meta.add_axis(group, axis, metadata_params)')
split_rng = UFn('split_rng_group', [Rng], Rng, 'tree_map_rngs(split_fn, rng_group): one key per index')
raw_out = UFn('mapped_vars_out', [Grps, Rngs, ArgsPack], Grps, 'variable groups returned by the mapped function (repack_fn of the inner scope)')


def _partial(ex, a, kw):
  """functools.partial(jax.vmap | axes_scan.scan, **options) used as a decorator: records the options; the decorated
  function, when called, returns (y, variable groups) with one output group per declared out-axis"""
  rec = dict(kw)

  def deco(ex2, aa, kk):
    def mapped(ex3, a3, k3):
      for k, v in rec.items():
        ex3.ghost['opt:' + k] = v
      ex3.ghost['n_transform_calls'] = ex3.ghost.get('n_transform_calls', 0) + 1
      g, r, p = ex3.coerce(a3[0], Grps), ex3.coerce(a3[1], Rngs), ex3.coerce(a3[2], ArgsPack)
      ex3.ghost['call:groups'], ex3.ghost['call:rngs'], ex3.ghost['call:args'] = g, r, p
      vo = ex3.call_value(raw_out, [g, r, p], {})
      out_axes = ex3.deref(ex3._cur_env.lookup('variable_out_axes'))
      ex3.assume(Grps.len(vo.t) == AxSeq.len(out_axes.t))      # repack_fn returns one group per out filter (pack)
      return PyTuple((ex3.fresh(Out, 'y'), vo))
    return Handler('mapped', mapped, 'the transformed function')
  return Handler('partial(transform, ...)', deco, 'decorator')


class _HasClone:
  pass


RandomNS = opaque('RandomModule', is_str=False)
RandomNS.hasattr_hook = lambda ex, v, name: SV(BOOL, z3.Bool('random_has_' + name))
VB = {
  'meta.remove_axis': rm_axis, 'meta.add_axis': add_axis,
  'functools.partial': Handler('functools.partial', _partial, 'partial(jax.vmap, ...) as a decorator; options recorded'),
  'jax.vmap': TypeTag('jax.vmap'),
  'jax.tree_util.tree_map': Handler('jax.tree_util.tree_map', lambda ex, a, kw: ex.fresh(Opt, 'axis_sizes_tree'), 'tree of axis sizes (opaque)'),
  'jax.tree_util.tree_leaves': Handler('jax.tree_util.tree_leaves', lambda ex, a, kw: ex.fresh(SeqOf(INT), 'axis_sizes'), 'leaves: some list of sizes'),
  'set': Handler('set', lambda ex, a, kw: ex.fresh(SeqOf(INT), 'distinct_sizes'), 'set(sizes): the distinct sizes, as a duplicate-free list (order irrelevant)'),
  'random': GlobalVar('jax.random', RandomNS),
  'tree_map_rngs': Handler('tree_map_rngs', lambda ex, a, kw: ex.call_value(split_rng, [a[1]], {}), 'tree_map_rngs(split_fn, group) = split(group)'),
}
PAIR_IN = "(meta_remove_axis(variable_groups[i], variable_in_axes[i], metadata_params) if variable_in_axes[i] is not None else variable_groups[i])"
vmap_inner = function(
  F + '::vmap.<locals>.inner',
  params=[('scope_fn', Fn), ('repack_fn', Fn), ('variable_groups', Grps), ('rng_groups', Rngs), ('args', ArgsPack)],
  free=[('variable_in_axes', AxSeq), ('variable_out_axes', AxSeq), ('rng_axes', Opt), ('rng_splits', SeqOf(BOOL)), ('in_axes', Opt), ('out_axes', Opt),
        ('axis_size', INT), ('axis_name', Opt), ('spmd_axis_name', Opt), ('metadata_params', MP), ('fn', Fn)],
  returns=ANY,
  requires=['len(variable_groups) == len(variable_in_axes)', 'len(rng_groups) == len(rng_splits)'],
  raises_any=('ValueError',),          # inconsistent / unknown batch sizes are refused (not specified here)
  ensures=[
    "ghost('n_transform_calls') == 1",
    # jax.vmap gets the IN axes for what goes in and the OUT axes for what comes out
    "ghost('opt:in_axes')[0] == variable_in_axes and ghost('opt:in_axes')[1] == rng_axes and ghost('opt:in_axes')[2] == in_axes",
    "ghost('opt:out_axes')[0] == out_axes and ghost('opt:out_axes')[1] == variable_out_axes",
    "ghost('opt:axis_name') == axis_name and ghost('opt:spmd_axis_name') == spmd_axis_name",
    # every mapped input group loses its metadata axis at ITS in-axis; broadcast groups pass through
    "len(ghost('call:groups')) == len(variable_groups)",
    f"forall(Int, lambda i: implies(0 <= i and i < len(variable_groups), ghost('call:groups')[i] == {PAIR_IN}))",
    # exactly the rng groups declared split are split
    "len(ghost('call:rngs')) == len(rng_groups)",
    "forall(Int, lambda i: implies(0 <= i and i < len(rng_groups), ghost('call:rngs')[i] == (split_rng_group(rng_groups[i]) if rng_splits[i] else rng_groups[i])))",
    "ghost('call:args') == args",
    # every output group gets the metadata axis back at ITS out-axis
    "len(result[1]) == len(variable_out_axes)",
    "forall(Int, lambda i: implies(0 <= i and i < len(variable_out_axes), result[1][i] == (meta_add_axis(mapped_vars_out(ghost('call:groups'), ghost('call:rngs'), args)[i], variable_out_axes[i], metadata_params) "
    "if variable_out_axes[i] is not None else mapped_vars_out(ghost('call:groups'), ghost('call:rngs'), args)[i])))",
  ],
  invariants={
    0: ['len(new_variable_groups) == _k', f"forall(Int, lambda i: implies(0 <= i and i < _k, new_variable_groups[i] == {PAIR_IN}))"],
    1: ['len(new_vars_out) == _k',
        "forall(Int, lambda i: implies(0 <= i and i < _k, new_vars_out[i] == (meta_add_axis(_at(i)[0], _at(i)[1], metadata_params) if _at(i)[1] is not None else _at(i)[0])))"],
  },
  bindings=VB, props=('C06', 'C19'))
vmap_inner.vararg = 'args'
vmap_inner.locals = {'new_variable_groups': Grps, 'new_vars_out': Grps}

# ---- lift.scan.inner ---------------------------------------------------------------------------------------------
Carry = opaque('ScanCarry', is_str=False)
scanned_out = UFn('scanned_vars_out', [Grp, Grp, Grps, Rngs, ArgsPack], Grps, 'scan-axis variable groups returned by the scanned body (one per declared out-axis)')
scanned_bc = UFn('scanned_broadcast_out', [Grp, Grp, Grps, Rngs, ArgsPack], Grp, 'broadcast group after the scan')
scanned_cv = UFn('scanned_carry_out', [Grp, Grp, Grps, Rngs, ArgsPack], Grp, 'carry group after the scan')


def _partial_scan(ex, a, kw):
  rec = dict(kw)

  def deco(ex2, aa, kk):
    def scanned(ex3, a3, k3):
      for k, v in rec.items():
        ex3.ghost['opt:' + k] = v
      ex3.ghost['n_transform_calls'] = ex3.ghost.get('n_transform_calls', 0) + 1
      bc = ex3.coerce(a3[0], Grp)
      carry = ex3.deref(a3[1])
      cv, init = ex3.coerce(carry[0], Grp), carry[1]
      sg, r, p = ex3.coerce(a3[2], Grps), ex3.coerce(a3[3], Rngs), ex3.coerce(a3[4], ArgsPack)
      ex3.ghost['call:broadcast'], ex3.ghost['call:carry'], ex3.ghost['call:init'] = bc, cv, init
      ex3.ghost['call:groups'], ex3.ghost['call:rngs'], ex3.ghost['call:args'] = sg, r, p
      argv = [bc, cv, sg, r, p]
      vo = ex3.call_value(scanned_out, argv, {})
      out_axes = ex3.deref(ex3._cur_env.lookup('variable_out_axes'))
      ex3.assume(Grps.len(vo.t) == AxSeq.len(out_axes.t))
      return PyTuple((ex3.call_value(scanned_bc, argv, {}), PyTuple((ex3.call_value(scanned_cv, argv, {}), ex3.fresh(Carry, 'c_final'))), PyTuple((ex3.fresh(Out, 'ys'), vo))))
    return Handler('scanned', scanned, 'the scanned body')
  return Handler('partial(axes_scan.scan, ...)', deco, 'decorator')


SB = dict(VB)
SB.update({'functools.partial': Handler('functools.partial', _partial_scan, 'partial(axes_scan.scan, ...) as a decorator; options recorded'),
           'axes_scan.scan': TypeTag('axes_scan.scan')})
SC = "ghost('call:broadcast'), ghost('call:carry'), ghost('call:groups'), ghost('call:rngs'), args"
scan_inner = function(
  F + '::scan.<locals>.inner',
  params=[('scope_fn', Fn), ('repack_fn', Fn), ('variable_groups', Grps), ('rng_groups', Rngs), ('init', Carry), ('args', ArgsPack)],
  free=[('variable_in_axes', AxSeq), ('variable_out_axes', AxSeq), ('rng_axes', Opt), ('rng_splits', SeqOf(BOOL)), ('in_axes', Opt), ('out_axes', Opt),
        ('length', INT), ('reverse', Opt), ('unroll', Opt), ('_split_transpose', Opt), ('check_constancy_invariants', Opt), ('metadata_params', MP), ('fn', Fn), ('data_transform', Opt)],
  returns=ANY,
  requires=['len(variable_groups) == len(variable_in_axes) + 2', 'len(rng_groups) == len(rng_splits)'],
  raises_any=('ValueError',),
  ensures=[
    "ghost('n_transform_calls') == 1",
    "ghost('opt:in_axes')[0] == variable_in_axes and ghost('opt:in_axes')[1] == rng_axes and ghost('opt:in_axes')[2] == in_axes",
    "ghost('opt:out_axes')[0] == out_axes and ghost('opt:out_axes')[1] == variable_out_axes",
    # direction, unroll factor and length reach the scan unchanged
    "ghost('opt:reverse') == reverse and ghost('opt:unroll') == unroll and ghost('opt:length') == length",
    "ghost('call:broadcast') == variable_groups[0] and ghost('call:carry') == variable_groups[1] and ghost('call:init') == init and ghost('call:args') == args",
    "len(ghost('call:groups')) == len(variable_in_axes)",
    # scan-axis group i loses its metadata axis at in-axis i
    "forall(Int, lambda i: implies(0 <= i and i < len(variable_in_axes), ghost('call:groups')[i] == meta_remove_axis(variable_groups[i + 2], variable_in_axes[i], metadata_params)))",
    "forall(Int, lambda i: implies(0 <= i and i < len(rng_groups), ghost('call:rngs')[i] == (split_rng_group(rng_groups[i]) if rng_splits[i] else rng_groups[i])))",
    # on the way out: broadcast, carry, then scan-axis group i with the metadata axis re-added at OUT-axis i
    "len(result[1]) == len(variable_out_axes) + 2",
    f"result[1][0] == scanned_broadcast_out({SC}) and result[1][1] == scanned_carry_out({SC})",
    f"forall(Int, lambda i: implies(0 <= i and i < len(variable_out_axes), result[1][i + 2] == meta_add_axis(scanned_vars_out({SC})[i], variable_out_axes[i], metadata_params)))",
  ],
  invariants={
    # (loops 0 and 1 are inside the nested function `scanned`, which is not executed here)
    2: ['len(new_scan_vars) == _k', "forall(Int, lambda i: implies(0 <= i and i < _k, new_scan_vars[i] == meta_remove_axis(variable_groups[i + 2], variable_in_axes[i], metadata_params)))"],
    3: ['len(new_scan_vars) == _k', "forall(Int, lambda i: implies(0 <= i and i < _k, new_scan_vars[i] == meta_add_axis(_at(i)[0], _at(i)[1], metadata_params)))"],
  },
  bindings=SB, props=('C06', 'C19'))
scan_inner.vararg = 'args'
scan_inner.locals = {'new_scan_vars': Grps, 'scan_vars': Grps, 'out_vars': Grps}

# ---- lift.checkpoint.inner: options reach jax.remat; the two leading arguments (variables, rngs) shift static_argnums by 2 ----
shift2 = UFn('static_argnums_plus_2', [Opt], Opt, 'jax.tree_util.tree_map(lambda x: x + 2, static_argnums)')


def _partial_remat(ex, a, kw):
  rec = dict(kw)

  def deco(ex2, aa, kk):
    def rematted(ex3, a3, k3):
      for k, v in rec.items():
        ex3.ghost['opt:' + k] = v
      ex3.ghost['n_transform_calls'] = ex3.ghost.get('n_transform_calls', 0) + 1
      ex3.ghost['call:groups'], ex3.ghost['call:rngs'] = a3[0], a3[1]
      return ex3.fresh(Out, 'remat_result')
    return Handler('rematted', rematted, 'the rematerialised function')
  return Handler('partial(jax.remat, ...)', deco, 'decorator')


remat_inner = function(
  F + '::checkpoint.<locals>.inner',
  params=[('scope_fn', Fn), ('repack_fn', Fn), ('variable_groups', Grps), ('rng_groups', Rngs), ('args', ArgsPack), ('kwargs', ArgsPack)],
  free=[('concrete', Opt), ('static_argnums', Opt), ('prevent_cse', Opt), ('policy', Opt), ('fn', Fn)],
  returns=ANY,
  ensures=[
    "ghost('n_transform_calls') == 1",
    "ghost('opt:concrete') == concrete and ghost('opt:prevent_cse') == prevent_cse and ghost('opt:policy') == policy",
    "ghost('opt:static_argnums') == static_argnums_plus_2(static_argnums)",
    "ghost('call:groups') == variable_groups and ghost('call:rngs') == rng_groups",
  ],
  bindings={'functools.partial': Handler('functools.partial', _partial_remat, 'partial(jax.remat, ...) as a decorator; options recorded'),
            'jax.remat': TypeTag('jax.remat'),
            'jax.tree_util.tree_map': Handler('jax.tree_util.tree_map', lambda ex, a, kw: ex.call_value(shift2, [a[1]], {}), 'tree_map(lambda x: x + 2, static_argnums)')},
  props=('C05',))
remat_inner.vararg = 'args'
remat_inner.kwarg = 'kwargs'

# ---- _split_in_out_axes: In(axis) only on the way in, Out(axis) only on the way out, a plain axis both ways -----------------
CollKey = opaque('CollectionFilterKey', is_str=False)
AxisDecl = Union('AxisDecl', [Ctor('DIn', [('axis', Ax)], pytypes=('In',)), Ctor('DOut', [('axis', Ax)], pytypes=('Out',)), Ctor('DPlain', [('a', Ax)], pytypes=('int', 'NoneType'), payload='a')])
DeclMap = MapOf(CollKey, AxisDecl)
AxMap = MapOf(CollKey, Ax)
UNPACK = "(xs[k].a if is_(xs[k], 'DPlain') else xs[k].axis)"
split_in_out = function(
  F + '::_split_in_out_axes', params=[('xs', DeclMap)], returns=TupleOf(AxMap, AxMap),
  ensures=[
    "forall(CollectionFilterKey, lambda k: (k in result[0]) == (k in xs and not is_(xs[k], 'DOut')))",
    "forall(CollectionFilterKey, lambda k: (k in result[1]) == (k in xs and not is_(xs[k], 'DIn')))",
    f"forall(CollectionFilterKey, lambda k: implies(k in result[0], result[0][k] == {UNPACK}))",
    f"forall(CollectionFilterKey, lambda k: implies(k in result[1], result[1][k] == {UNPACK}))",
  ],
  bindings={'In': TypeTag('In'), 'Out': TypeTag('Out')}, props=('C06',))
split_in_out.dict_hint = AxMap
