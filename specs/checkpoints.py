"""Sidecar contracts: flax/training/checkpoints.py legacy back-end (property C11).

The file system is ghost state: the directory listing is a finite sequence of names, removals
are collected in the ghost set `_removed`. `natural_sort` is an assumed summary: the permutation
of its input ordered by an uninterpreted strict total order (numeric step order; cross-checked
natively by the bounded grid). Steps are reals (floats treated as mathematical)."""
import z3
from pyvc.vc import *  # noqa
from pyvc.values import FString
from pyvc.sorts import fresh_name, qforall

F = 'flax/training/checkpoints.py'

CkPath = opaque('CkPath', universe=['d/ckpt_0', 'd/ckpt_1', 'd/ckpt_2', 'd/ckpt_3', 'd/ckpt_tmp'])
FName = opaque('FileName', universe=['ckpt_0', 'ckpt_1', 'ckpt_2', 'ckpt_3', 'ckpt_tmp'])
Dir = opaque('DirPath', universe=['d'])
Prefix = opaque('Prefix', universe=['ckpt_'])
Paths = SeqOf(CkPath)
Names = SeqOf(FName)

StepOpt = Union('StepOpt', [
  Ctor('SNone', [], pytypes=('NoneType',), is_const=None),
  Ctor('SVal', [('r', REAL)], pytypes=('float',), payload='r'),
])
NOpt = Union('KeepEveryOpt', [
  Ctor('NNone', [], pytypes=('NoneType',), is_const=None),
  Ctor('NVal', [('n', INT)], pytypes=('int',), payload='n'),
])

step_of = UFn('step_of', [CkPath], StepOpt, '_checkpoint_path_step(path): the last signed float in the path, or None')
join = UFn('path_join', [Dir, FName], CkPath, 'os.path.join(dir, name): injective')
gda_of = UFn('gda_path', [CkPath], CkPath, 'path + MP_ARRAY_POSTFIX')
has_prefix = UFn('matches_prefix', [FName, Prefix], BOOL, "PurePath(c).match(f'{prefix}*')")
is_gda = UFn('is_gda_name', [FName], BOOL, "PurePath(c).match(f'*{MP_ARRAY_POSTFIX}')")
is_tmp_name = UFn('is_tmp_name', [FName, Prefix], BOOL, "PurePath(c).match(f'{prefix}tmp')")
is_orbax_tmp = UFn('is_orbax_tmp_name', [FName], BOOL, "PurePath(c).match(f'*{ocp.utils.TMP_DIR_SUFFIX}*')")
io_exists = UFn('io_exists', [CkPath], BOOL, 'io.exists(path)')
listdir = UFn('listdir', [Dir], Names, '_allowempty_listdir(dir): the names in the directory, each once')
neg_inf = UFn('neg_inf', [], REAL, "-float('inf'), as a real smaller than every step minus every keep_every_n_steps")
split_dir = UFn('split_dir', [CkPath], Dir, 'os.path.split(base_path)[0]')
split_prefix = UFn('split_prefix', [CkPath], Prefix, 'os.path.split(base_path)[1]')


def _match(ex, v, a, kw):
  p = a[0]
  if isinstance(p, FString) and len(p.parts) == 2 and p.parts[1] == '*' and isinstance(p.parts[0], SV):
    return ex.call_value(has_prefix, [v, p.parts[0]], {})
  if isinstance(p, FString) and len(p.parts) == 2 and p.parts[0] == '*':
    return ex.call_value(is_gda, [v], {})
  if isinstance(p, FString) and len(p.parts) == 2 and p.parts[1] == 'tmp' and isinstance(p.parts[0], SV):
    return ex.call_value(is_tmp_name, [v, p.parts[0]], {})
  if isinstance(p, FString) and len(p.parts) == 3 and p.parts[0] == '*' and p.parts[2] == '*':
    return ex.call_value(is_orbax_tmp, [v], {})
  raise OutsideSubset('PurePath.match with another pattern')


FName.methods = {'match': _match}
CkPath.binop_hook = None


def _natural_sort(ex, a, kw):
  """assumed summary of natural_sort: the permutation of the input ordered by the uninterpreted
  strict total order lt!CkPath; recorded as ghost('listing')"""
  from pyvc.methods import b_sorted
  r = b_sorted(ex, [a[0]], {})
  ex.ghost['listing'] = ex.deref(r)
  return r


def _path_concat(ex, a, kw):
  return ex.call_value(gda_of, [a[0]], {})


def _safe_remove(ex, a, kw):

  cur = ex.store['$_removed']
  ex.store['$_removed'] = SV(cur.sort, z3.Store(cur.t, ex.coerce(a[0], CkPath).t, True))
  return NONEV


def _infinity(ex):
  """float('inf'): modelled as -neg_inf(); neg_inf is below every (step - n) that can occur"""
  return SV(REAL, -neg_inf.decl()())


B = {
  'os.path.split': Handler('os.path.split', lambda ex, a, kw: PyTuple((ex.call_value(split_dir, [a[0]], {}), ex.call_value(split_prefix, [a[0]], {}))), 'os.path.split'),
  'os.path.join': join,
  'pathlib.PurePath': Handler('pathlib.PurePath', lambda ex, a, kw: a[0], 'PurePath(name): the name'),
  '_allowempty_listdir': listdir,
  'natural_sort': Handler('natural_sort', _natural_sort, 'assumed: sorted by numeric step order (uninterpreted strict total order)'),
  '_checkpoint_path_step': step_of,
  'MP_ARRAY_POSTFIX': Lit('_gda'),
  'io.exists': io_exists,
  'io.rmtree': Effect('io.rmtree', [CkPath]),
  '_safe_remove': Handler('_safe_remove', _safe_remove, 'removes the file: recorded in the ghost set _removed'),
  'logging.info': Skip('logging.info'), 'logging.debug': Skip('logging.debug'),
  'errors.InvalidCheckpointError': TypeTag('InvalidCheckpointError', (TypeTag('Exception'),)),
}

# path + MP_ARRAY_POSTFIX
CkPath.add_hook = lambda ex, a, b: ex.call_value(gda_of, [a], {})

L = "ghost('listing')"
IND = f"(index_of({L}, ckpt_path) + 1 if (overwrite and ckpt_path in {L}) else len({L}))"
N = "keep_every_n_steps"
NPOS = f"(is_({N}, 'NVal') and {N}.n != 0)"


# --- the retention policy as a fold, oldest first (spec) ----------------------------------------
@spec(Paths, INT, INT, ret=REAL)
def lk_spec(old, n, k):
  """value of `last_kept` after the first k old checkpoints: a checkpoint is retained iff its
  step is defined and at least n steps after the previously retained one"""
  return (neg_inf() if k <= 0 else
          (step_of(old[k - 1]).r
           if (is_(step_of(old[k - 1]), 'SVal') and step_of(old[k - 1]).r - lk_spec(old, n, k - 1) >= n)
           else lk_spec(old, n, k - 1)))


RETAIN = "(is_(step_of(old_ckpts[j]), 'SVal') and step_of(old_ckpts[j]).r - lk_spec(old_ckpts, keep_every_n_steps.n, j) >= keep_every_n_steps.n)"

remove_invalid = function(
  F + '::_remove_invalid_ckpts',
  params=[('ckpt_path', CkPath), ('base_path', CkPath), ('keep', INT), ('overwrite', BOOL), ('keep_every_n_steps', NOpt), ('has_mpa', BOOL)],
  requires=[
    'keep >= 1',   # keep == 0: checkpoint_files[:-0] is empty, everything is kept (not claimed)
    'not has_mpa',
    # the directory lists each name once
    'forall(Int, Int, lambda i, j: implies(0 <= i and i < j and j < len(listdir(split_dir(base_path))), listdir(split_dir(base_path))[i] != listdir(split_dir(base_path))[j]))',
    f"implies(is_({N}, 'NVal'), {N}.n >= 0)",
    # infinity is large enough for every step in play
    f"forall(CkPath, lambda p: implies(is_(step_of(p), 'SVal') and is_({N}, 'NVal'), step_of(p).r - neg_inf() >= {N}.n))",
  ],
  ensures=[
    # (a) with overwrite, everything newer than this save is removed
    f"forall(Int, lambda i: implies({IND} <= i and i < len({L}), {L}[i] in _removed))",
    # old_ckpts is the sorted listing minus the newer ones and minus the `keep` newest of the rest
    f"implies({IND} > keep, len(old_ckpts) == {IND} - keep and forall(Int, lambda j: implies(0 <= j and j < len(old_ckpts), old_ckpts[j] == {L}[j])))",
    # (c) an old checkpoint that the keep_every_n_steps fold does not retain is removed
    f"implies({IND} > keep, forall(Int, lambda j: implies(0 <= j and j < len(old_ckpts) and not ({NPOS} and {RETAIN}), old_ckpts[j] in _removed)))",
    # (b)+(d) nothing else is removed: every removed path is a newer one or a non-retained old one --
    # never one of the `keep` newest, never a retained one, never a file outside the listing
    f"forall(CkPath, lambda p: implies(p in _removed, exists(Int, lambda i: {IND} <= i and i < len({L}) and {L}[i] == p) or "
    f"({IND} > keep and exists(Int, lambda j: 0 <= j and j < len(old_ckpts) and old_ckpts[j] == p and not ({NPOS} and {RETAIN})))))",
  ],
  invariants={
    0: [  # for path in newer_ckpts
      "forall(Int, lambda i: implies(0 <= i and i < _k, newer_ckpts[i] in _removed))",
      "forall(CkPath, lambda p: implies(p in _removed, exists(Int, lambda i: 0 <= i and i < _k and newer_ckpts[i] == p)))",
    ],
    1: [  # for path in old_ckpts
      f"implies({NPOS}, last_kept == lk_spec(old_ckpts, {N}.n, _k))",
      f"implies(not {NPOS}, last_kept == neg_inf())",
      f"forall(Int, lambda j: implies(0 <= j and j < _k and not ({NPOS} and {RETAIN}), old_ckpts[j] in _removed))",
      "forall(CkPath, lambda p: implies(p in _pre_removed, p in _removed))",
      f"forall(CkPath, lambda p: implies(p in _removed, (p in _pre_removed) or exists(Int, lambda j: 0 <= j and j < _k and old_ckpts[j] == p and not ({NPOS} and {RETAIN}))))",
    ]},
  bindings=B, props=('C11',))
remove_invalid.locals = {'newer_ckpts': Paths, 'old_ckpts': Paths, 'last_kept': REAL, 'step_number': StepOpt}
remove_invalid.ghost_state = {'_removed': (SetOf(CkPath), None)}
remove_invalid.ghost_writers = {'_safe_remove': '_removed'}
remove_invalid.infinity = _infinity

# ---- _check_overwrite_error: a checkpoint of the same or a later step raises, nothing changes --------
FILES = "checkpoint_files_listing"
lt = UFn('lt!CkPath', [CkPath, CkPath], BOOL, 'the natural (numeric step) order used by natural_sort')
LISTED = "exists(Int, lambda i: 0 <= i and i < len(listdir(split_dir(base_path))) and matches_prefix(listdir(split_dir(base_path))[i], split_prefix(base_path)) " \
         "and not is_gda_name(listdir(split_dir(base_path))[i]) and path_join(split_dir(base_path), listdir(split_dir(base_path))[i]) == %s)"


def _lt(a, b):
  return f"lt_ckpath({a}, {b})"


lt_ckpath = lt
check_overwrite = function(
  F + '::_check_overwrite_error',
  params=[('ckpt_tmp_path', CkPath), ('ckpt_path', CkPath), ('base_path', CkPath), ('step', INT)],
  requires=['ckpt_tmp_path != ckpt_path'],
  # a save at an existing step raises ...
  raises_when={'InvalidCheckpointError': LISTED % 'ckpt_path'},
  ensures=[
    # ... and a normal return means: the step is new and no listed checkpoint (other than a leftover tmp file) is ordered after it
    f"not ({LISTED % 'ckpt_path'})",
    f"forall(CkPath, lambda p: implies(({LISTED % 'p'}) and p != ckpt_tmp_path, lt_ckpath(p, ckpt_path)))",
    "ncalls('io.rmtree') == 0",   # no file-system effect is bound besides reads: nothing changes
  ],
  bindings=B, props=('C11',))
check_overwrite.locals = {}

# ---- the commit protocol: write tmp, rename atomically, only then clean up --------------------------------
Bytes = opaque('Bytes', is_str=False)
FileH = opaque('FileHandle', is_str=False)
FileH.context_hook = lambda ex, cm: (cm, lambda: None)
FileH.methods = {'write': lambda ex, v, a, kw: ex.call_value(_WRITE, [v, a[0]], {})}
_WRITE = Effect('file.write', [FileH, Bytes])
TimeT = opaque('Time', is_str=False)
Mgr = opaque('AsyncManager', is_str=False, nullable=True)
_RENAME = Effect('io.rename', [CkPath, CkPath, BOOL])
CB = dict(B)
CB.update({
  'io.rename': Handler('io.rename', lambda ex, a, kw: ex.call_value(_RENAME, list(a) + [kw.get('overwrite', False)], {}), 'flax.io.rename (atomic: see specs/io_fs.py)'),
  'io.makedirs': Effect('io.makedirs', [Dir]),
  'io.GFile': Effect('io.GFile', [CkPath, opaque('OpenMode')], ret=FileH),
  'os.path.dirname': split_dir,
  '_remove_invalid_ckpts': Effect('_remove_invalid_ckpts', [CkPath, CkPath, INT, BOOL, NOpt, BOOL]),
  'ocp.utils.record_saved_duration': Skip('ocp.utils.record_saved_duration'),
  'jax.monitoring.record_event_duration_secs': Skip('jax.monitoring.record_event_duration_secs'),
  'time.time': Handler('time.time', lambda ex, a, kw: ex.fresh(TimeT, 'now'), 'clock'),
})

save_commit = function(
  F + '::_save_commit',
  params=[('ckpt_tmp_path', CkPath), ('ckpt_path', CkPath), ('base_path', CkPath), ('keep', INT), ('overwrite', BOOL),
          ('keep_every_n_steps', NOpt), ('ckpt_start_time', TimeT), ('has_mpa', BOOL), ('write_commit_success', BOOL), ('async_manager', Mgr)],
  requires=['not has_mpa', 'async_manager is None'],
  ensures=[
    # the checkpoint becomes visible by ONE rename of the complete tmp file onto the final name ...
    "ncalls('io.rename') == 1 and call_args('io.rename')[0] == ckpt_tmp_path and call_args('io.rename')[1] == ckpt_path and call_args('io.rename')[2] == overwrite",
    # ... and clean-up runs only after that commit point, with the caller's retention parameters
    "ncalls('_remove_invalid_ckpts') == 1 and call_order('io.rename') < call_order('_remove_invalid_ckpts')",
    "call_args('_remove_invalid_ckpts')[0] == ckpt_path and call_args('_remove_invalid_ckpts')[1] == base_path and call_args('_remove_invalid_ckpts')[2] == keep"
    " and call_args('_remove_invalid_ckpts')[3] == overwrite and call_args('_remove_invalid_ckpts')[4] == keep_every_n_steps",
  ],
  bindings=CB, props=('C11',))
save_commit.defaults = {'async_manager': NONEV}

CB2 = dict(CB)
CB2['_save_commit'] = Effect('_save_commit', [CkPath, CkPath, CkPath, INT, BOOL, NOpt, TimeT, BOOL, BOOL])


def _save_commit_call(ex, a, kw):
  order = ['ckpt_tmp_path', 'ckpt_path', 'base_path', 'keep', 'overwrite', 'keep_every_n_steps', 'ckpt_start_time', 'has_mpa', 'write_commit_success']
  vals = list(a) + [kw[k] for k in order[len(a):]]
  return ex.call_value(CB2['_save_commit'], vals, {})


CB3 = dict(CB)
CB3['_save_commit'] = Handler('_save_commit', _save_commit_call, 'see the _save_commit contract')
save_main = function(
  F + '::_save_main_ckpt_file',
  params=[('target', Bytes), ('has_mpa', BOOL), ('paths', TupleOf(CkPath, CkPath)), ('base_path', CkPath), ('step', INT), ('keep', INT),
          ('overwrite', BOOL), ('keep_every_n_steps', NOpt), ('ckpt_start_time', TimeT)],
  ensures=[
    # the only file ever opened for writing is the temporary one (a torn write can only hit <prefix>tmp) ...
    "ncalls('io.GFile') == 1 and call_args('io.GFile')[0] == paths[0] and paths[0] == paths[0]",
    "ncalls('file.write') == 1 and call_args('file.write')[1] == target",
    # ... and the commit starts only after the write finished
    "implies(not has_mpa, ncalls('_save_commit') == 1 and call_order('file.write') < call_order('_save_commit')"
    " and call_args('_save_commit')[0] == paths[0] and call_args('_save_commit')[1] == paths[1] and call_args('_save_commit')[4] == overwrite)",
    "implies(has_mpa, ncalls('_save_commit') == 0)",
  ],
  bindings=CB3, props=('C11',))

# ---- latest_checkpoint: the LAST element of the (naturally sorted) checkpoint listing, None for an empty directory -----------
DirT, PrefixT = Dir, Prefix
all_ckpts = UFn('all_checkpoints', [DirT, PrefixT], Paths, '_all_checkpoints(ckpt_dir, prefix): sorted by numeric step, temporary files excluded')
PathOpt = Union('CheckpointPathOrNone', [Ctor('NoCkpt', [], pytypes=('NoneType',), is_const=None), Ctor('SomeCkpt', [('path', CkPath)], pytypes=('str',), payload='path')])
latest = function(
  F + '::latest_checkpoint', params=[('ckpt_dir', DirT), ('prefix', PrefixT)], returns=PathOpt,
  ensures=["implies(len(all_checkpoints(ckpt_dir, prefix)) == 0, result is None)",
           "implies(len(all_checkpoints(ckpt_dir, prefix)) > 0, is_(result, 'SomeCkpt') and result.path == all_checkpoints(ckpt_dir, prefix)[len(all_checkpoints(ckpt_dir, prefix)) - 1])"],
  bindings={'_all_checkpoints': all_ckpts}, modifies=[], props=('C11',))
latest.defaults = {'prefix': 'checkpoint_'}

# ---- _all_checkpoints: exactly the committed checkpoints of this prefix (no tmp file, no _gda directory, no orbax tmp dir),
# ---- in numeric step order ------------------------------------------------------------------------------------------------
KEPT = "(matches_prefix(c, prefix) and not is_tmp_name(c, prefix) and not is_gda_name(c) and not is_orbax_tmp_name(c))"
all_checkpoints = function(
  F + '::_all_checkpoints', params=[('ckpt_dir', Dir), ('prefix', Prefix)], returns=Paths,
  requires=['forall(Int, Int, lambda i, j: implies(0 <= i and i < j and j < len(listdir(ckpt_dir)), listdir(ckpt_dir)[i] != listdir(ckpt_dir)[j]))'],
  ensures=[
    # every returned path is a directory entry that passes the four filters ...
    f"forall(Int, lambda r: implies(0 <= r and r < len(result), exists(Int, lambda i: 0 <= i and i < len(listdir(ckpt_dir)) and result[r] == path_join(ckpt_dir, listdir(ckpt_dir)[i]) and "
    f"{KEPT.replace('(c', '(listdir(ckpt_dir)[i]')})))",
    # ... every such entry is returned ...
    f"forall(Int, lambda i: implies(0 <= i and i < len(listdir(ckpt_dir)) and {KEPT.replace('(c', '(listdir(ckpt_dir)[i]')}, "
    "exists(Int, lambda r: 0 <= r and r < len(result) and result[r] == path_join(ckpt_dir, listdir(ckpt_dir)[i]))))",
    # ... in the natural (numeric step) order
    "forall(Int, Int, lambda r, q: implies(0 <= r and r < q and q < len(result), not lt(result[q], result[r])))",
  ],
  bindings=dict(B, **{'os.fspath': Handler('os.fspath', lambda ex, a, kw: a[0], 'Pathlib -> str: identity on strings'),
                      'ocp.utils.TMP_DIR_SUFFIX': Lit('.orbax-checkpoint-tmp-')}), props=('C11',))
all_checkpoints.defaults = {'prefix': 'checkpoint_'}

# ---- _safe_remove: ANY directory is removed as a tree (also a half-deleted checkpoint directory), anything else as a file ----------
is_dir = UFn('io_isdir', [CkPath], BOOL, 'io.isdir(path)')
_RMTREE = Effect('io.rmtree', [CkPath])
_REMOVE = Effect('io.remove', [CkPath])
safe_remove = function(
  F + '::_safe_remove', params=[('path', CkPath)],
  ensures=["ncalls('io.rmtree') == (1 if io_isdir(path) else 0) and ncalls('io.remove') == (0 if io_isdir(path) else 1)",
           "implies(ncalls('io.rmtree') > 0, call_args('io.rmtree')[0] == path)",
           "implies(ncalls('io.remove') > 0, call_args('io.remove')[0] == path)"],
  bindings={'io.isdir': is_dir, 'io.rmtree': _RMTREE, 'io.remove': _REMOVE,
            '_is_orbax_checkpoint': UFn('is_orbax_checkpoint', [CkPath], BOOL, '_is_orbax_checkpoint(path): marker files present (NOT the same as being a directory)')},
  modifies=[], props=('C11',))
