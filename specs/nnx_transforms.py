"""Sidecar contracts: NNX transform helpers (property C08): StateAxes.map_prefix (first match),
extract.check_consistent_aliasing (inconsistent aliasing is rejected), _check_out_axes."""
import z3
from pyvc.vc import *  # noqa
from specs.nnx_filters import *  # noqa: F401,F403  (sorts and spec functions of the filter model)
from specs.nnx_filters import FilterV, Pred, PathP, Val, holds, denotes, to_predicate, CONV_AX, TB

I = 'flax/nnx/transforms/iteration.py'
X = 'flax/nnx/extract.py'
AxisV = opaque('AxisSpec', is_str=False, nullable=True, universe=[0, 1, 'Carry'])
Filters = SeqOf(FilterV)
Axes = SeqOf(AxisV)
StateAxes = Union('StateAxes', [Ctor('StateAxes', [('_filters', Filters), ('_axes', Axes)], pytypes=('StateAxes', 'PrefixMapping'))])
StateAxes.attr_hooks = {
  'filters': lambda ex, v: SV(Filters, StateAxes.acc('StateAxes', '_filters', v.t)),
  'axes': lambda ex, v: SV(Axes, StateAxes.acc('StateAxes', '_axes', v.t)),
}
MB = dict(TB)
MB['filterlib.to_predicate'] = to_predicate
NOINV = "forall(Int, lambda i: implies(0 <= i and i < len(self._filters), not is_(self._filters[i], 'LInvalid')))"
MATCH = "holds(denotes(self._filters[%s]), path, variable)"
map_prefix = function(
  I + '::StateAxes.map_prefix', params=[('self', StateAxes), ('path', PathP), ('variable', Val)], returns=AxisV,
  requires=[NOINV, 'len(self._filters) == len(self._axes)'],
  raises={'ValueError': f"not exists(Int, lambda i: 0 <= i and i < len(self._filters) and {MATCH % 'i'})"},
  ensures=[
    # the axis of the FIRST filter that matches
    f"exists(Int, lambda i: 0 <= i and i < len(self._filters) and {MATCH % 'i'} and result == self._axes[i] and "
    f"forall(Int, lambda j: implies(0 <= j and j < i, not {MATCH % 'j'})))",
  ],
  invariants={0: [f"forall(Int, lambda j: implies(0 <= j and j < _k, not {MATCH % 'j'}))"]},
  bindings=MB, props=('C08',))
map_prefix.assume_axioms = CONV_AX

# ---- extract.check_consistent_aliasing -----------------------------------------------------------------------------
VarRef = opaque('VariableObject', is_str=False)
Other = opaque('OtherGraphValue', is_str=False)
GVal = Union('GraphValue', [
  Ctor('GVar', [('v', VarRef)], pytypes=('Variable', 'graph.Variable'), payload='v'),
  Ctor('GNode', [('o', Other)], pytypes=('GraphNode', 'Object'), payload='o'),
  Ctor('GLeaf', [('o', Other)], pytypes=('object',), payload='o'),
])
GItem = Union('IterGraphItem', [Ctor('IterGraphItem', [('path', PathP), ('value', GVal)], pytypes=('tuple',), tuple_like=True)])
GItems = SeqOf(GItem)
PP = Union('PathPrefix', [Ctor('PathPrefix', [('path', PathP), ('prefix', AxisV)], pytypes=('tuple',), tuple_like=True)])
PPs = SeqOf(PP)
NodePrefixes = MapOf(VarRef, PPs)
PrefixArg = Union('PrefixArgument', [
  Ctor('PMap', [('m', StateAxes)], pytypes=('PrefixMapping', 'StateAxes'), payload='m'),
  Ctor('PConst', [('p', AxisV)], pytypes=('int', 'NoneType', 'object'), payload='p'),
])
var_as_val = UFn('variable_as_value', [VarRef], Val, 'the Variable seen as the value handed to predicates')
map_prefix_of = UFn('map_prefix_result', [StateAxes, PathP, VarRef], AxisV, 'prefix.map_prefix(path, variable) (see StateAxes.map_prefix)')
is_graph_node = UFn('is_graph_node', [GVal], BOOL, 'graph.is_graph_node(value)')
trace_valid = UFn('trace_state_is_valid', [VarRef], BOOL, 'value._trace_state.is_valid()')
Msg = opaque('Message', is_str=True)
Msgs = SeqOf(Msg)
VarRef.attrs['_trace_state'] = (opaque('TraceState', is_str=False), None)
VarRef.attrs['_trace_state'][0].methods = {'is_valid': lambda ex, v, a, kw: SV(BOOL, z3.BoolVal(True))}


def _map_prefix_call(ex, a, kw):
  return ex.call_value(map_prefix_of, [a[0], a[1], a[2]], {})


CB = {
  'graph.iter_graph': Handler('graph.iter_graph', lambda ex, a, kw: a[0], 'the finite sequence of (path, value) pairs visited'),
  'graph.is_graph_node': is_graph_node,
  'graph.Variable': TypeTag('Variable'), 'Object': TypeTag('Object'), 'PrefixMapping': TypeTag('PrefixMapping'),
  'StateAxes.map_prefix': Handler('StateAxes.map_prefix', _map_prefix_call, 'prefix.map_prefix(path, value): uninterpreted here (its contract is StateAxes.map_prefix)'),
  'Other._check_valid_context': Skip('Object._check_valid_context'),
  'type': Handler('type', lambda ex, a, kw: Lit('<type>'), 'type(node) in a message'),
}
Other.methods = {'_check_valid_context': lambda ex, v, a, kw: NONEV}
PFX = "(map_prefix_result(prefix.m, node[%s].path, node[%s].value.v) if is_(prefix, 'PMap') else prefix.p)"
ISVAR = "is_(node[%s].value, 'GVar')"
INCONSISTENT = (f"exists(Int, Int, lambda i, j: 0 <= i and i < j and j < len(node) and {ISVAR % 'i'} and {ISVAR % 'j'} and "
                f"node[i].value.v == node[j].value.v and {PFX % ('i', 'i')} != {PFX % ('j', 'j')})")


def _inv1(upto):
  return [
    # every recorded (path, prefix) pair of a Variable carries the prefix computed for that path
    "forall(VariableObject, Int, lambda v, q: implies(v in node_prefixes and 0 <= q and q < len(node_prefixes[v]), "
    "node_prefixes[v][q].prefix == (map_prefix_result(prefix.m, node_prefixes[v][q].path, v) if is_(prefix, 'PMap') else prefix.p)))",
    # every visited Variable occurrence is recorded under that Variable
    f"forall(Int, lambda i: implies(0 <= i and i < {upto} and {ISVAR % 'i'}, node[i].value.v in node_prefixes and "
    f"exists(Int, lambda q: 0 <= q and q < len(node_prefixes[node[i].value.v]) and node_prefixes[node[i].value.v][q].path == node[i].path and "
    f"node_prefixes[node[i].value.v][q].prefix == {PFX % ('i', 'i')})))",
  ]


check_aliasing = function(
  X + '::check_consistent_aliasing', params=[('node', GItems), ('prefix', PrefixArg), ('node_prefixes', NodePrefixes)],
  assigns=('node_prefixes',),
  requires=['len(node_prefixes) == 0',
            "forall(Int, lambda i: implies(0 <= i and i < len(node) and is_(node[i].value, 'GLeaf'), not is_graph_node(node[i].value)))"],
  # a Variable reachable at two places whose prefixes (axis specifications) differ MUST be rejected
  raises_when={'ValueError': INCONSISTENT},
  ensures=[],
  invariants={
    0: _inv1('_k'),
    1: [c.replace('node[', 'old(node)[').replace('len(node)', 'len(old(node))') for c in _inv1('len(node)')] + [
      # a message is produced for every processed Variable with more than one distinct prefix
      "forall(Int, lambda t: implies(0 <= t and t < _k and exists(Int, Int, lambda a, b: 0 <= a and a < len(_at(t)[1]) and 0 <= b and b < len(_at(t)[1]) and "
      "_at(t)[1][a].prefix != _at(t)[1][b].prefix), len(node_msgs) > 0))",
    ]},
  bindings=CB, props=('C08',))
check_aliasing.locals = {'node_msgs': Msgs, 'unique_prefixes': SetOf(AxisV), 'paths_prefixes': PPs}
check_aliasing.comp_elem_hint = PP

# ---- autodiff._grad_general: which positions are differentiated, in which order, with which filter -----------------------
AD = 'flax/nnx/transforms/autodiff.py'
GFilter = opaque('GradFilter', is_str=False)
ArgItem = Union('ArgnumItem', [Ctor('IInt', [('n', INT)], pytypes=('int',), payload='n'),
                               Ctor('IDiff', [('argnum', INT), ('filter', GFilter)], pytypes=('DiffState',))])
ArgItems = SeqOf(ArgItem)
Argnums = Union('Argnums', [Ctor('AInt', [('n', INT)], pytypes=('int',), payload='n'),
                            Ctor('ADiff', [('argnum', INT), ('filter', GFilter)], pytypes=('DiffState',)),
                            Ctor('ASeq', [('items', ArgItems)], pytypes=('tuple', 'list', 'Sequence'), payload='items')])
ArgItem.coerce_from = {'Argnums': lambda ex, v: SV(ArgItem, z3.If(Argnums.is_('AInt', v.t), ArgItem.mk('IInt', Argnums.acc('AInt', 'n', v.t)),
                                                                    ArgItem.mk('IDiff', Argnums.acc('ADiff', 'argnum', v.t), Argnums.acc('ADiff', 'filter', v.t))))}
DiffRec = Union('DiffStateRec', [Ctor('DiffStateRec', [('argnum', INT), ('filter', GFilter)], pytypes=('DiffState',))])
IndexFilter = MapOf(INT, DiffRec)
JaxArgnums = Union('JaxArgnums', [Ctor('JInt', [('n', INT)], pytypes=('int',), payload='n'), Ctor('JTuple', [('items', SeqOf(INT))], pytypes=('tuple',), payload='items')])
PARAM_FILTER = GlobalVar('variablelib.Param', GFilter)
AnyFn = opaque('UserFunction', is_str=False)


def _replace(ex, a, kw):
  """dataclasses.replace(diff_state, argnum=-1)"""
  v = ex.deref(a[0])
  U = v.sort
  ctor = 'IDiff' if U.name == 'ArgnumItem' else 'ADiff'
  return SV(DiffRec, DiffRec.mk('DiffStateRec', ex.coerce(kw['argnum'], INT).t, U.acc(ctor, 'filter', v.t)))


def _diffstate(ex, a, kw):
  return SV(DiffRec, DiffRec.mk('DiffStateRec', ex.coerce(a[0], INT).t, ex.coerce(a[1], GFilter).t))


def _update_context(ex, a, kw):
  """graph.update_context('grad') applied to grad_wrapper: at this point the closure captures jax_argnums and
  index_filter; record what it captures"""
  def deco(ex2, aa, kk):
    env = ex2._cur_env
    ja = ex2.deref(env.lookup('jax_argnums'))
    if isinstance(ja, SV) and isinstance(ja.sort, SeqOf) and ja.sort.elem.name == 'ArgnumItem':
      # a tuple of plain ints represented as int-items: read the ints (an element that is not an int-item reads as an arbitrary int)
      from pyvc.sorts import fresh_name, qforall
      IS = SeqOf(INT)
      r = IS.const('argnums_as_ints')
      i = z3.Int(fresh_name('i'))
      ex2.assume(IS.len(r) == ja.sort.len(ja.t))
      ex2.assume(qforall([i], z3.Implies(z3.And(i >= 0, i < IS.len(r), ArgItem.is_('IInt', ja.sort.get(ja.t, i))), IS.get(r, i) == ArgItem.acc('IInt', 'n', ja.sort.get(ja.t, i))), patterns=[IS.get(r, i)]))
      ja = SV(JaxArgnums, JaxArgnums.mk('JTuple', r))
    ex2.ghost['jax_argnums'] = ex2.coerce(ja, JaxArgnums)
    ex2.ghost['index_filter'] = ex2.deref(env.lookup('index_filter'))
    return aa[0]
  return Handler('update_context(tag)', deco, 'decorator: identity on the function; records the captured locals')


GB = {
  'jax.value_and_grad': TypeTag('jax.value_and_grad'), 'jax.grad': TypeTag('jax.grad'),
  'DiffState': Handler('DiffState', _diffstate, 'DiffState(argnum, filter): a record'),
  'dataclasses.replace': Handler('dataclasses.replace', _replace, 'replace(diff_state, argnum=...)'),
  'variablelib.Param': PARAM_FILTER,
  'graph.update_context': Handler('graph.update_context', _update_context, 'decorator factory'),
}
GB['DiffState'].tagname = 'DiffState'
ITEM_ARGNUM = lambda e: f"({e}.n if is_({e}, 'IInt') else {e}.argnum)"
ITEM_FILTER = lambda e: f"(variablelib.Param if is_({e}, 'IInt') else {e}.filter)"
IT = 'argnums.items'
grad_general = function(
  AD + '::_grad_general',
  params=[('f', AnyFn), ('argnums', Argnums), ('has_aux', BOOL), ('holomorphic', BOOL), ('allow_int', BOOL), ('return_value', BOOL)],
  returns=ANY,
  raises={'ValueError': f"is_(argnums, 'ASeq') and exists(Int, Int, lambda i, j: 0 <= i and i < j and j < len({IT}) and {ITEM_ARGNUM(IT + '[i]')} == {ITEM_ARGNUM(IT + '[j]')})"},
  ensures=[
    # a single argnum is differentiated as given
    "implies(is_(argnums, 'AInt'), is_(ghost('jax_argnums'), 'JInt') and ghost('jax_argnums').n == argnums.n)",
    "implies(is_(argnums, 'ADiff'), is_(ghost('jax_argnums'), 'JInt') and ghost('jax_argnums').n == argnums.argnum)",
    # a sequence: the i-th differentiated position is the i-th requested one (so the i-th gradient belongs to the i-th request)
    f"implies(is_(argnums, 'ASeq'), is_(ghost('jax_argnums'), 'JTuple') and len(ghost('jax_argnums').items) == len({IT}) and "
    f"forall(Int, lambda i: implies(0 <= i and i < len({IT}), ghost('jax_argnums').items[i] == {ITEM_ARGNUM(IT + '[i]')})))",
    # every requested position has the filter it was requested with (Param for a bare int), and no other position has one
    f"implies(is_(argnums, 'ASeq'), forall(Int, lambda i: implies(0 <= i and i < len({IT}), {ITEM_ARGNUM(IT + '[i]')} in ghost('index_filter') and "
    f"ghost('index_filter')[{ITEM_ARGNUM(IT + '[i]')}].filter == {ITEM_FILTER(IT + '[i]')} and ghost('index_filter')[{ITEM_ARGNUM(IT + '[i]')}].argnum == -1)))",
    f"implies(is_(argnums, 'ASeq'), forall(Int, lambda k: implies(k in ghost('index_filter'), exists(Int, lambda i: 0 <= i and i < len({IT}) and {ITEM_ARGNUM(IT + '[i]')} == k))))",
    "implies(is_(argnums, 'AInt'), forall(Int, lambda k: (k in ghost('index_filter')) == (k == argnums.n)) and ghost('index_filter')[argnums.n].filter == variablelib.Param)",
    "implies(is_(argnums, 'ADiff'), forall(Int, lambda k: (k in ghost('index_filter')) == (k == argnums.argnum)) and ghost('index_filter')[argnums.argnum].filter == argnums.filter)",
  ],
  invariants={0: [
    f"forall(Int, lambda i: implies(0 <= i and i < _k, {ITEM_ARGNUM('_at(i)')} in index_filter and index_filter[{ITEM_ARGNUM('_at(i)')}].filter == {ITEM_FILTER('_at(i)')} and index_filter[{ITEM_ARGNUM('_at(i)')}].argnum == -1))",
    f"forall(Int, lambda k: implies(k in index_filter, exists(Int, lambda i: 0 <= i and i < _k and {ITEM_ARGNUM('_at(i)')} == k)))",
    f"forall(Int, Int, lambda i, j: implies(0 <= i and i < j and j < _k, {ITEM_ARGNUM('_at(i)')} != {ITEM_ARGNUM('_at(j)')}))",
  ]},
  bindings=GB, props=('C08',))
grad_general.locals = {'index_filter': IndexFilter, '_argnums': ArgItems}
grad_general.dict_hint = IndexFilter

# ---- scan: a carry that is not an array must be the SAME object after the body (reference semantics of the carry) ----------
import z3 as _z3
IT = 'flax/nnx/transforms/iteration.py'
CarryLeaf = opaque('CarryLeaf', is_str=False)
is_arr = UFn('is_jax_array', [CarryLeaf], BOOL, 'isinstance(x, jax.Array)')
CarryLeaf.isinstance_hook = lambda ex, v, names: ex.call_value(is_arr, [v], {}).t if names == {'jax.Array'} else (_ for _ in ()).throw(OutsideSubset('isinstance ' + repr(names)))
KeyPathT = opaque('KeyPath', is_str=False)
check_carry_refs = function(
  IT + '::_check_carry_same_references.<locals>.check_carry_same_references',
  params=[('key_path', KeyPathT), ('arg', CarryLeaf), ('out', CarryLeaf)],
  raises={'ValueError': '(not is_jax_array(arg) or not is_jax_array(out)) and arg != out'},
  bindings={'jax.Array': TypeTag('jax.Array'), 'id': Handler('id', lambda ex, a, kw: 0, 'id() only feeds the error message'),
            'jax.tree_util.keystr': Handler('keystr', lambda ex, a, kw: Lit(''), 'only feeds the error message')},
  modifies=[], props=('C08',))

# ---- _check_out_axes: an output can neither be broadcast (None) nor carried (StateAxes Carry) ------------------------------
OutTree = opaque('OutAxesTree', is_str=False)
KeyedLeaf = Union('KeyedOutAxis', [Ctor('KeyedOutAxis', [('key', KeyPathT), ('x', PrefixArg)], pytypes=('tuple',), tuple_like=True)])
KeyedLeaves = SeqOf(KeyedLeaf)
leaves_with_path = UFn('tree_leaves_with_path', [OutTree], KeyedLeaves, 'jax.tree_util.tree_leaves_with_path(out_axes, is_leaf=lambda x: x is None)')
CARRY = GlobalVar('Carry', AxisV)
LEAF = 'tree_leaves_with_path(out_axes)[i].x'
BAD_MAP = "exists(Int, lambda j: 0 <= j and j < len(%s.m._axes) and j < len(%s.m._filters) and (%s.m._axes[j] is None or %s.m._axes[j] == Carry))"
BAD_LEAF = f"(({LEAF}.p is None) if is_({LEAF}, 'PConst') else ({BAD_MAP % (LEAF, LEAF, LEAF, LEAF)}))"
check_out_axes = function(
  I + '::_check_out_axes', params=[('out_axes', OutTree)], free=[('Carry', AxisV)],
  requires=['Carry is not None'],
  raises={'ValueError': f"exists(Int, lambda i: 0 <= i and i < len(tree_leaves_with_path(out_axes)) and {BAD_LEAF})"},
  invariants={
    0: [f"forall(Int, lambda i: implies(0 <= i and i < _k, not {BAD_LEAF}))"],
    1: ["forall(Int, lambda j: implies(0 <= j and j < _k, not (x.m._axes[j] is None or x.m._axes[j] == Carry)))"],
  },
  bindings={'jax.tree_util.tree_leaves_with_path': Handler('tree_leaves_with_path', lambda ex, a, kw: ex.call_value(leaves_with_path, [a[0]], {}), 'the (key path, leaf) pairs of the out_axes prefix tree, None counted as a leaf'),
            'jax.tree_util.keystr': Handler('keystr', lambda ex, a, kw: Lit(''), 'only feeds the error message'),
            'StateAxes': TypeTag('StateAxes'), 'Carry': CARRY,
            'StateAxes.items': Handler('StateAxes.items', lambda ex, a, kw: ex.call_value(__import__('pyvc.methods', fromlist=['x']).GLOBAL_BINDINGS['zip'], [ex.getattr_(a[0], 'filters'), ex.getattr_(a[0], 'axes')], {}), 'zip(self.filters, self.axes) (source of StateAxes.items)')},
  modifies=[], props=('C08',))
