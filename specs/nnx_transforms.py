"""Sidecar contracts: NNX transform helpers (property C08): StateAxes.map_prefix (first match),
extract.check_consistent_aliasing (inconsistent aliasing is rejected), _check_out_axes."""
import z3
from pyvc.vc import *  # noqa
from specs.nnx_filters import *  # noqa: F401,F403  (sorts and spec functions of the filter model)
from specs.nnx_filters import FilterV, Pred, PathP, Val, holds, denotes, to_predicate, CONV_AX, TB

I = 'flax/nnx/transforms/iteration.py'
X = 'flax/nnx/extract.py'
AxisV = opaque('AxisSpec', is_str=False, nullable=True, universe=[0, 1, 'Carry'])
Filters = SeqOf(FilterV)
Axes = SeqOf(AxisV)
StateAxes = Union('StateAxes', [Ctor('StateAxes', [('_filters', Filters), ('_axes', Axes)], pytypes=('StateAxes', 'PrefixMapping'))])
StateAxes.attr_hooks = {
  'filters': lambda ex, v: SV(Filters, StateAxes.acc('StateAxes', '_filters', v.t)),
  'axes': lambda ex, v: SV(Axes, StateAxes.acc('StateAxes', '_axes', v.t)),
}
MB = dict(TB)
MB['filterlib.to_predicate'] = to_predicate
NOINV = "forall(Int, lambda i: implies(0 <= i and i < len(self._filters), not is_(self._filters[i], 'LInvalid')))"
MATCH = "holds(denotes(self._filters[%s]), path, variable)"
map_prefix = function(
  I + '::StateAxes.map_prefix', params=[('self', StateAxes), ('path', PathP), ('variable', Val)], returns=AxisV,
  requires=[NOINV, 'len(self._filters) == len(self._axes)'],
  raises={'ValueError': f"not exists(Int, lambda i: 0 <= i and i < len(self._filters) and {MATCH % 'i'})"},
  ensures=[
    # the axis of the FIRST filter that matches
    f"exists(Int, lambda i: 0 <= i and i < len(self._filters) and {MATCH % 'i'} and result == self._axes[i] and "
    f"forall(Int, lambda j: implies(0 <= j and j < i, not {MATCH % 'j'})))",
  ],
  invariants={0: [f"forall(Int, lambda j: implies(0 <= j and j < _k, not {MATCH % 'j'}))"]},
  bindings=MB, props=('C08',))
map_prefix.assume_axioms = CONV_AX

# ---- extract.check_consistent_aliasing -----------------------------------------------------------------------------
VarRef = opaque('VariableObject', is_str=False)
Other = opaque('OtherGraphValue', is_str=False)
GVal = Union('GraphValue', [
  Ctor('GVar', [('v', VarRef)], pytypes=('Variable', 'graph.Variable'), payload='v'),
  Ctor('GNode', [('o', Other)], pytypes=('GraphNode', 'Object'), payload='o'),
  Ctor('GLeaf', [('o', Other)], pytypes=('object',), payload='o'),
])
GItem = Union('IterGraphItem', [Ctor('IterGraphItem', [('path', PathP), ('value', GVal)], pytypes=('tuple',), tuple_like=True)])
GItems = SeqOf(GItem)
PP = Union('PathPrefix', [Ctor('PathPrefix', [('path', PathP), ('prefix', AxisV)], pytypes=('tuple',), tuple_like=True)])
PPs = SeqOf(PP)
NodePrefixes = MapOf(VarRef, PPs)
PrefixArg = Union('PrefixArgument', [
  Ctor('PMap', [('m', StateAxes)], pytypes=('PrefixMapping', 'StateAxes'), payload='m'),
  Ctor('PConst', [('p', AxisV)], pytypes=('int', 'NoneType', 'object'), payload='p'),
])
var_as_val = UFn('variable_as_value', [VarRef], Val, 'the Variable seen as the value handed to predicates')
map_prefix_of = UFn('map_prefix_result', [StateAxes, PathP, VarRef], AxisV, 'prefix.map_prefix(path, variable) (see StateAxes.map_prefix)')
is_graph_node = UFn('is_graph_node', [GVal], BOOL, 'graph.is_graph_node(value)')
trace_valid = UFn('trace_state_is_valid', [VarRef], BOOL, 'value._trace_state.is_valid()')
Msg = opaque('Message', is_str=True)
Msgs = SeqOf(Msg)
VarRef.attrs['_trace_state'] = (opaque('TraceState', is_str=False), None)
VarRef.attrs['_trace_state'][0].methods = {'is_valid': lambda ex, v, a, kw: SV(BOOL, z3.BoolVal(True))}


def _map_prefix_call(ex, a, kw):
  return ex.call_value(map_prefix_of, [a[0], a[1], a[2]], {})


CB = {
  'graph.iter_graph': Handler('graph.iter_graph', lambda ex, a, kw: a[0], 'the finite sequence of (path, value) pairs visited'),
  'graph.is_graph_node': is_graph_node,
  'graph.Variable': TypeTag('Variable'), 'Object': TypeTag('Object'), 'PrefixMapping': TypeTag('PrefixMapping'),
  'StateAxes.map_prefix': Handler('StateAxes.map_prefix', _map_prefix_call, 'prefix.map_prefix(path, value): uninterpreted here (its contract is StateAxes.map_prefix)'),
  'Other._check_valid_context': Skip('Object._check_valid_context'),
  'type': Handler('type', lambda ex, a, kw: Lit('<type>'), 'type(node) in a message'),
}
Other.methods = {'_check_valid_context': lambda ex, v, a, kw: NONEV}
PFX = "(map_prefix_result(prefix.m, node[%s].path, node[%s].value.v) if is_(prefix, 'PMap') else prefix.p)"
ISVAR = "is_(node[%s].value, 'GVar')"
INCONSISTENT = (f"exists(Int, Int, lambda i, j: 0 <= i and i < j and j < len(node) and {ISVAR % 'i'} and {ISVAR % 'j'} and "
                f"node[i].value.v == node[j].value.v and {PFX % ('i', 'i')} != {PFX % ('j', 'j')})")


def _inv1(upto):
  return [
    # every recorded (path, prefix) pair of a Variable carries the prefix computed for that path
    "forall(VariableObject, Int, lambda v, q: implies(v in node_prefixes and 0 <= q and q < len(node_prefixes[v]), "
    "node_prefixes[v][q].prefix == (map_prefix_result(prefix.m, node_prefixes[v][q].path, v) if is_(prefix, 'PMap') else prefix.p)))",
    # every visited Variable occurrence is recorded under that Variable
    f"forall(Int, lambda i: implies(0 <= i and i < {upto} and {ISVAR % 'i'}, node[i].value.v in node_prefixes and "
    f"exists(Int, lambda q: 0 <= q and q < len(node_prefixes[node[i].value.v]) and node_prefixes[node[i].value.v][q].path == node[i].path and "
    f"node_prefixes[node[i].value.v][q].prefix == {PFX % ('i', 'i')})))",
  ]


check_aliasing = function(
  X + '::check_consistent_aliasing', params=[('node', GItems), ('prefix', PrefixArg), ('node_prefixes', NodePrefixes)],
  assigns=('node_prefixes',),
  requires=['len(node_prefixes) == 0',
            "forall(Int, lambda i: implies(0 <= i and i < len(node) and is_(node[i].value, 'GLeaf'), not is_graph_node(node[i].value)))"],
  # a Variable reachable at two places whose prefixes (axis specifications) differ MUST be rejected
  raises_when={'ValueError': INCONSISTENT},
  ensures=[],
  invariants={
    0: _inv1('_k'),
    1: [c.replace('node[', 'old(node)[').replace('len(node)', 'len(old(node))') for c in _inv1('len(node)')] + [
      # a message is produced for every processed Variable with more than one distinct prefix
      "forall(Int, lambda t: implies(0 <= t and t < _k and exists(Int, Int, lambda a, b: 0 <= a and a < len(_at(t)[1]) and 0 <= b and b < len(_at(t)[1]) and "
      "_at(t)[1][a].prefix != _at(t)[1][b].prefix), len(node_msgs) > 0))",
    ]},
  bindings=CB, props=('C08',))
check_aliasing.locals = {'node_msgs': Msgs, 'unique_prefixes': SetOf(AxisV), 'paths_prefixes': PPs}
check_aliasing.comp_elem_hint = PP
