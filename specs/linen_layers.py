"""Sidecar contracts: pure-Python helpers of flax/linen/linear.py (property C12, structural part)."""
import z3
from pyvc.vc import *  # noqa
from pyvc.native import NativeHarness as NH

F = 'flax/linen/linear.py'
PadName = opaque('PaddingName', universe=['SAME', 'VALID'])
Pair = Union('PadPair', [Ctor('PadPair', [('lo', INT), ('hi', INT)], pytypes=('tuple', 'Sequence'), tuple_like=True)])
Other = opaque('OtherPadding', is_str=False, universe=[None])
PadElem = Union('PadElem', [
  Ctor('EInt', [('i', INT)], pytypes=('int',), payload='i'),
  Ctor('EPair', [('p', Pair)], pytypes=('tuple', 'Sequence'), payload='p'),
  Ctor('EOther', [('o', Other)], pytypes=('object',), payload='o'),
], abstract=lambda py: ADTVal('EInt', i=py) if isinstance(py, int) else ADTVal('EPair', p=ADTVal('PadPair', lo=py[0], hi=py[1])) if (isinstance(py, tuple) and len(py) == 2) else ADTVal('EOther', o=None),
   concretise=lambda sp: sp.i if sp.ctor == 'EInt' else (sp.p.lo, sp.p.hi) if sp.ctor == 'EPair' else None,
   enumerate=lambda b: [ADTVal('EInt', i=0), ADTVal('EInt', i=2), ADTVal('EPair', p=ADTVal('PadPair', lo=1, hi=3)), ADTVal('EOther', o=None)])
Elems = SeqOf(PadElem)
Pairs = SeqOf(Pair)
Pair.abstract = lambda py: ADTVal('PadPair', lo=py[0], hi=py[1])
Pair.concretise = lambda sp: (sp.lo, sp.hi)
Pair.enumerate = lambda b: [ADTVal('PadPair', lo=1, hi=3)]
PadArg = Union('PaddingLike', [
  Ctor('PStr', [('s', PadName)], pytypes=('str',), payload='s'),
  Ctor('PInt', [('i', INT)], pytypes=('int',), payload='i'),
  Ctor('PSeq', [('items', Elems)], pytypes=('tuple', 'list', 'Sequence'), payload='items'),
  Ctor('POther', [('o', Other)], pytypes=('object',), payload='o'),
], abstract=lambda py: ADTVal('PStr', s=py) if isinstance(py, str) else ADTVal('PInt', i=py) if isinstance(py, int) else ADTVal('PSeq', items=tuple(PadElem.abstract(x) for x in py)) if isinstance(py, (tuple, list)) else ADTVal('POther', o=None),
   concretise=lambda sp: sp.s if sp.ctor == 'PStr' else sp.i if sp.ctor == 'PInt' else [PadElem.concretise(x) for x in sp.items] if sp.ctor == 'PSeq' else None,
   enumerate=lambda b: [ADTVal('PStr', s='SAME'), ADTVal('PInt', i=2), ADTVal('POther', o=None)] + [ADTVal('PSeq', items=t) for t in Elems.enumerate(b)])
PadRes = Union('LaxPadding', [
  Ctor('RStr', [('s', PadName)], pytypes=('str',), payload='s'),
  Ctor('RPairs', [('pairs', Pairs)], pytypes=('list',), payload='pairs'),
], abstract=lambda py: ADTVal('RStr', s=py) if isinstance(py, str) else ADTVal('RPairs', pairs=tuple(Pair.abstract(x) for x in py)),
   concretise=None, enumerate=None)

VALID_ELEM = "(is_(padding.items[i], 'EInt') or is_(padding.items[i], 'EPair'))"
OKSEQ = f"(is_(padding, 'PSeq') and len(padding.items) == rank and forall(Int, lambda i: implies(0 <= i and i < rank, {VALID_ELEM})))"
canonicalize_padding = function(
  F + '::canonicalize_padding', params=[('padding', PadArg), ('rank', INT)], returns=PadRes,
  requires=['rank >= 0'],
  raises={'ValueError': f"not (is_(padding, 'PStr') or is_(padding, 'PInt') or {OKSEQ})"},
  ensures=[
    "implies(is_(padding, 'PStr'), is_(result, 'RStr') and result.s == padding.s)",
    # an int p means (p, p) on every spatial dimension
    "implies(is_(padding, 'PInt'), is_(result, 'RPairs') and len(result.pairs) == rank and "
    "forall(Int, lambda i: implies(0 <= i and i < rank, result.pairs[i].lo == padding.i and result.pairs[i].hi == padding.i)))",
    # a sequence: one (low, high) pair per dimension, in order
    "implies(is_(padding, 'PSeq'), is_(result, 'RPairs') and len(result.pairs) == rank and forall(Int, lambda i: implies(0 <= i and i < rank, "
    "(implies(is_(padding.items[i], 'EInt'), result.pairs[i].lo == padding.items[i].i and result.pairs[i].hi == padding.items[i].i)) and "
    "(implies(is_(padding.items[i], 'EPair'), result.pairs[i] == padding.items[i].p)))))",
  ],
  invariants={0: [
    'len(new_pad) == _k',
    "forall(Int, lambda i: implies(0 <= i and i < _k, (is_(padding.items[i], 'EInt') or is_(padding.items[i], 'EPair'))))",
    "forall(Int, lambda i: implies(0 <= i and i < _k and is_(padding.items[i], 'EInt'), new_pad[i].lo == padding.items[i].i and new_pad[i].hi == padding.items[i].i))",
    "forall(Int, lambda i: implies(0 <= i and i < _k and is_(padding.items[i], 'EPair'), new_pad[i] == padding.items[i].p))",
  ]},
  bindings={'Sequence': TypeTag('Sequence')}, props=('C12',), enum_bound=2,
  native=NH('flax.linen.linear', 'canonicalize_padding'))
canonicalize_padding.locals = {'new_pad': Pairs}
canonicalize_padding.comp_elem_hint = Pair

# ---- Dropout.__call__ (Linen): identity / zero / key-determined mask independent of the data -----------------------
S = 'flax/linen/stochastic.py'
Arr = opaque('InputArray', is_str=False)
Arr.attrs['shape'] = (SeqOf(INT), lambda t: [])
Mask = opaque('MaskArray', is_str=False)
RKey = opaque('DropoutKey', is_str=False, nullable=True)
CollName = opaque('RngCollection', universe=['dropout'])
OptB = Union('OptionalBool', [Ctor('BNone', [], pytypes=('NoneType',), is_const=None), Ctor('BVal', [('b', BOOL)], pytypes=('bool',), payload='b')])
DropoutM = Union('DropoutModule', [Ctor('DropoutModule', [('rate', REAL), ('broadcast_dims', SeqOf(INT)), ('deterministic', OptB), ('rng_collection', CollName)], pytypes=('Dropout',))])
merged = UFn('merge_param_deterministic', [OptB, OptB], BOOL, "merge_param('deterministic', self.deterministic, deterministic)")
zeros_like = UFn('zeros_like', [Arr], Arr, 'jnp.zeros_like(inputs)')
arr_div = UFn('array_div', [Arr, REAL], Arr, 'inputs / keep_prob')
make_rng = UFn('module_make_rng', [DropoutM, CollName], RKey, 'self.make_rng(self.rng_collection)')
Arr.div_hook = lambda ex, a, b: SV(Arr, arr_div.decl()(a.t, ex.coerce(b, REAL).t))


def _bernoulli(ex, a, kw):
  ex.ghost['bern_rng'] = ex.coerce(a[0], RKey)
  ex.ghost['bern_p'] = ex.coerce(kw['p'], REAL)
  ex.ghost['bern_shape'] = ex.coerce(kw['shape'], SeqOf(INT))
  return ex.fresh(Mask, 'mask')


def _broadcast_to(ex, a, kw):
  ex.ghost['broadcast_of'] = a[0]
  ex.ghost['broadcast_shape'] = ex.coerce(a[1], SeqOf(INT))
  return ex.fresh(Mask, 'mask_b')


def _select(ex, a, kw):
  ex.ghost['select_mask'], ex.ghost['select_true'], ex.ghost['select_false'] = a[0], ex.coerce(a[1], Arr), ex.coerce(a[2], Arr)
  return ex.fresh(Arr, 'selected')


DB = {
  'merge_param': Handler('merge_param', lambda ex, a, kw: ex.call_value(merged, [a[1], a[2]], {}), 'merge_param'),
  'jnp.zeros_like': zeros_like,
  'random.bernoulli': Handler('random.bernoulli', _bernoulli, 'uninterpreted; its arguments are recorded'),
  'jnp.broadcast_to': Handler('jnp.broadcast_to', _broadcast_to, 'uninterpreted; recorded'),
  'lax.select': Handler('lax.select', _select, 'uninterpreted; recorded'),
  'Dropout.make_rng': make_rng,
}
DET = 'merge_param_deterministic(self.deterministic, deterministic)'
NB = 'len(self.broadcast_dims)'
NORM = '(self.broadcast_dims[j] + len(inputs.shape) if self.broadcast_dims[j] < 0 else self.broadcast_dims[j])'
dropout_call = function(
  S + '::Dropout.__call__', params=[('self', DropoutM), ('inputs', Arr), ('deterministic', OptB), ('rng', RKey)], returns=Arr,
  requires=[f'forall(Int, lambda j: implies(0 <= j and j < {NB}, -len(inputs.shape) <= self.broadcast_dims[j] and self.broadcast_dims[j] < len(inputs.shape)))'],
  ensures=[
    # identity when deterministic or at rate 0; zero at rate 1
    f'implies(self.rate == 0.0 or {DET}, result == inputs)',
    f'implies(not (self.rate == 0.0 or {DET}) and self.rate == 1.0, result == zeros_like(inputs))',
    # otherwise: select(broadcast(bernoulli(key, 1 - rate, shape')), inputs / (1 - rate), zeros): the mask is
    # drawn from the key, the keep probability and a shape that depends on `inputs` only through inputs.shape
    f"implies(not (self.rate == 0.0 or {DET}) and self.rate != 1.0, ghost('bern_p') == 1.0 - self.rate and "
    "ghost('bern_rng') == (rng if rng is not None else module_make_rng(self, self.rng_collection)) and "
    "ghost('select_true') == array_div(inputs, 1.0 - self.rate) and ghost('select_false') == zeros_like(inputs) and "
    "seq_eq(ghost('broadcast_shape'), inputs.shape) and len(ghost('bern_shape')) == len(inputs.shape))",
    f"implies(not (self.rate == 0.0 or {DET}) and self.rate != 1.0, forall(Int, lambda i: implies(0 <= i and i < len(inputs.shape), "
    f"ghost('bern_shape')[i] == (1 if exists(Int, lambda j: 0 <= j and j < {NB} and {NORM} == i) else inputs.shape[i]))))",
  ],
  invariants={0: [
    'len(broadcast_shape) == len(inputs.shape)',
    f'forall(Int, lambda i: implies(0 <= i and i < len(inputs.shape), broadcast_shape[i] == (1 if exists(Int, lambda j: 0 <= j and j < _k and {NORM} == i) else inputs.shape[i])))',
  ]},
  bindings=DB, props=('C12',))
dropout_call.locals = {'broadcast_shape': SeqOf(INT)}
dropout_call.defaults = {'deterministic': NONEV, 'rng': NONEV}

# ---- _normalize_axes (linen and nnx twins): contraction / batch axes are resolved to non-negative positions and ORDERED ----
# DenseGeneral / LinearGeneral pair kernel dimension j with the j-th SMALLEST contracted axis, whatever order the user listed them in
IntSeq = SeqOf(INT)
NORMED = '(axes[i] if axes[i] >= 0 else ndim + axes[i])'
NORM_ENS = [
  'len(result) == len(axes)',
  'forall(Int, Int, lambda i, j: implies(0 <= i and i < j and j < len(result), result[i] <= result[j]))',      # ascending
  f'forall(Int, lambda i: implies(0 <= i and i < len(axes), exists(Int, lambda j: 0 <= j and j < len(result) and result[j] == {NORMED})))',
  'forall(Int, lambda j: implies(0 <= j and j < len(result), exists(Int, lambda i: 0 <= i and i < len(axes) and result[j] == (axes[i] if axes[i] >= 0 else ndim + axes[i]))))',
]
for _file in ('flax/linen/linear.py', 'flax/nnx/nn/linear.py'):
  function(_file + '::_normalize_axes', params=[('axes', IntSeq), ('ndim', INT)], returns=IntSeq, ensures=NORM_ENS, props=('C12',),
           native=NH(_file[:-3].replace('/', '.'), '_normalize_axes', bound=3))

# ---- nnx.Dropout.__call__: the same three cases as the Linen layer (the twin must not drift) -----------------------------------
NS = 'flax/nnx/nn/stochastic.py'
RngsObj = opaque('RngsObject', is_str=False, nullable=True)
NDropout = Union('NNXDropoutModule', [Ctor('NNXDropoutModule', [('rate', REAL), ('broadcast_dims', SeqOf(INT)), ('deterministic', OptB), ('rng_collection', CollName), ('rngs', RngsObj)], pytypes=('Dropout',))])
first_det = UFn('first_from_deterministic', [OptB, OptB], BOOL, 'first_from(deterministic, self.deterministic): the call argument wins over the attribute')
first_rngs = UFn('first_from_rngs', [RngsObj, RngsObj], RngsObj, 'first_from(rngs, self.rngs)')
stream_key = UFn('rngs_stream_key', [RngsObj, CollName], RKey, 'rngs[self.rng_collection]()')


def _first_from(ex, a, kw):
  x = ex.deref(a[0])
  if isinstance(x, SV) and x.sort.name == OptB.name or a[0] is NONEV and ex.deref(a[1]).sort.name == OptB.name:
    return ex.call_value(first_det, [a[0], a[1]], {})
  return ex.call_value(first_rngs, [a[0], a[1]], {})


RngsObj.getitem = lambda ex, base, idx: Handler('stream', lambda ex2, a2, kw2: ex2.call_value(stream_key, [base, ex2.coerce(idx, CollName)], {}), 'rngs[name]: the stream; calling it draws the next key')
NDET = 'first_from_deterministic(deterministic, self.deterministic)'
NNORM = '(self.broadcast_dims[j] + len(inputs.shape) if self.broadcast_dims[j] < 0 else self.broadcast_dims[j])'
NDB = dict(DB)
NDB['first_from'] = Handler('first_from', _first_from, 'first_from(*args): the first argument that is not None')
nnx_dropout_call = function(
  NS + '::Dropout.__call__', params=[('self', NDropout), ('inputs', Arr), ('deterministic', OptB), ('rngs', RngsObj)], returns=Arr,
  requires=[f'forall(Int, lambda j: implies(0 <= j and j < len(self.broadcast_dims), -len(inputs.shape) <= self.broadcast_dims[j] and self.broadcast_dims[j] < len(inputs.shape)))'],
  ensures=[
    f'implies(self.rate == 0.0 or {NDET}, result == inputs)',
    f'implies(not (self.rate == 0.0 or {NDET}) and self.rate == 1.0, result == zeros_like(inputs))',
    f"implies(not (self.rate == 0.0 or {NDET}) and self.rate != 1.0, ghost('bern_p') == 1.0 - self.rate and "
    "ghost('bern_rng') == rngs_stream_key(first_from_rngs(rngs, self.rngs), self.rng_collection) and "
    "ghost('select_true') == array_div(inputs, 1.0 - self.rate) and ghost('select_false') == zeros_like(inputs) and "
    "seq_eq(ghost('broadcast_shape'), inputs.shape) and len(ghost('bern_shape')) == len(inputs.shape))",
    f"implies(not (self.rate == 0.0 or {NDET}) and self.rate != 1.0, forall(Int, lambda i: implies(0 <= i and i < len(inputs.shape), "
    f"ghost('bern_shape')[i] == (1 if exists(Int, lambda j: 0 <= j and j < len(self.broadcast_dims) and {NNORM} == i) else inputs.shape[i]))))",
  ],
  invariants={0: [
    'len(broadcast_shape) == len(inputs.shape)',
    f'forall(Int, lambda i: implies(0 <= i and i < len(inputs.shape), broadcast_shape[i] == (1 if exists(Int, lambda j: 0 <= j and j < _k and {NNORM} == i) else inputs.shape[i])))',
  ]},
  bindings=NDB, props=('C12',))
nnx_dropout_call.locals = {'broadcast_shape': SeqOf(INT)}
nnx_dropout_call.defaults = {'deterministic': NONEV, 'rngs': NONEV}

# ---- _conv_dimension_numbers (linen and nnx twins): batch first / features last for the input and output, (out, in, spatial...)
# ---- positions for the kernel -----------------------------------------------------------------------------------------------
DimSpec = SeqOf(INT)
DimNumbers = Union('ConvDimensionNumbers', [Ctor('ConvDimensionNumbers', [('lhs_spec', DimSpec), ('rhs_spec', DimSpec), ('out_spec', DimSpec)], pytypes=('ConvDimensionNumbers',))])


def _mk_dn(ex, a, kw):
  bound, ok = bind_call(['lhs_spec', 'rhs_spec', 'out_spec'], a, kw)
  if not ok or len(bound) != 3:
    raise OutsideSubset('ConvDimensionNumbers(lhs_spec, rhs_spec, out_spec) expected')
  return SV(DimNumbers, DimNumbers.mk('ConvDimensionNumbers', *[ex.coerce(bound[k], DimSpec).t for k in ('lhs_spec', 'rhs_spec', 'out_spec')]))


N_ = 'len(input_shape)'
DN_ENS = [
  f'len(result.lhs_spec) == {N_} and len(result.rhs_spec) == {N_} and len(result.out_spec) == {N_}',
  f'result.lhs_spec[0] == 0 and result.lhs_spec[1] == {N_} - 1',                                   # (batch, features, spatial...) of an N...C input
  f'forall(Int, lambda i: implies(2 <= i and i < {N_}, result.lhs_spec[i] == i - 1))',
  f'result.rhs_spec[0] == {N_} - 1 and result.rhs_spec[1] == {N_} - 2',                           # (out, in, spatial...) of a ...IO kernel
  f'forall(Int, lambda i: implies(2 <= i and i < {N_}, result.rhs_spec[i] == i - 2))',
  f'forall(Int, lambda i: implies(0 <= i and i < {N_}, result.out_spec[i] == result.lhs_spec[i]))',
]
for _file in ('flax/linen/linear.py', 'flax/nnx/nn/linear.py'):
  function(_file + '::_conv_dimension_numbers', params=[('input_shape', SeqOf(INT))], returns=DimNumbers, requires=[f'{N_} >= 2'], ensures=DN_ENS,
           bindings={'lax.ConvDimensionNumbers': Handler('lax.ConvDimensionNumbers', _mk_dn, 'a record of the three specs')}, props=('C12',))

# ---- _canonicalize_axes (linen and nnx twins): the set of non-negative axis positions, each once --------------------------------
AxesArg = Union('AxesArgument', [Ctor('AxInt', [('i', INT)], pytypes=('int',), payload='i'), Ctor('AxSeq', [('items', SeqOf(INT))], pytypes=('tuple', 'list', 'Iterable'), payload='items')])
ITEMS = "(axes.items if is_(axes, 'AxSeq') else single_axis(axes.i))"
single_axis = UFn('single_axis', [INT], SeqOf(INT), '(axis,)')
CAN_ENS = [
  'forall(Int, Int, lambda i, j: implies(0 <= i and i < j and j < len(result), result[i] != result[j]))',
  f"implies(is_(axes, 'AxSeq'), forall(Int, lambda i: implies(0 <= i and i < len(axes.items), exists(Int, lambda j: 0 <= j and j < len(result) and result[j] == (rank + axes.items[i] if axes.items[i] < 0 else axes.items[i])))))",
  f"implies(is_(axes, 'AxSeq'), forall(Int, lambda j: implies(0 <= j and j < len(result), exists(Int, lambda i: 0 <= i and i < len(axes.items) and result[j] == (rank + axes.items[i] if axes.items[i] < 0 else axes.items[i])))))",
  # a single int: the result holds that one position and nothing else (with the line above: exactly once)
  "implies(is_(axes, 'AxInt'), forall(Int, lambda j: implies(0 <= j and j < len(result), result[j] == (rank + axes.i if axes.i < 0 else axes.i))) and "
  "exists(Int, lambda j: 0 <= j and j < len(result) and result[j] == (rank + axes.i if axes.i < 0 else axes.i)))",
]
for _file in ('flax/linen/normalization.py', 'flax/nnx/nn/normalization.py'):
  function(_file + '::_canonicalize_axes', params=[('rank', INT), ('axes', AxesArg)], returns=SeqOf(INT), ensures=CAN_ENS,
           bindings={'Iterable': TypeTag('Iterable'), 'tp.Iterable': TypeTag('Iterable')}, props=('C12',))
