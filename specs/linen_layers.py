"""Sidecar contracts: pure-Python helpers of flax/linen/linear.py (property C12, structural part)."""
import z3
from pyvc.vc import *  # noqa
from pyvc.native import NativeHarness as NH

F = 'flax/linen/linear.py'
PadName = opaque('PaddingName', universe=['SAME', 'VALID'])
Pair = Union('PadPair', [Ctor('PadPair', [('lo', INT), ('hi', INT)], pytypes=('tuple', 'Sequence'), tuple_like=True)])
Other = opaque('OtherPadding', is_str=False, universe=[None])
PadElem = Union('PadElem', [
  Ctor('EInt', [('i', INT)], pytypes=('int',), payload='i'),
  Ctor('EPair', [('p', Pair)], pytypes=('tuple', 'Sequence'), payload='p'),
  Ctor('EOther', [('o', Other)], pytypes=('object',), payload='o'),
], abstract=lambda py: ADTVal('EInt', i=py) if isinstance(py, int) else ADTVal('EPair', p=ADTVal('PadPair', lo=py[0], hi=py[1])) if (isinstance(py, tuple) and len(py) == 2) else ADTVal('EOther', o=None),
   concretise=lambda sp: sp.i if sp.ctor == 'EInt' else (sp.p.lo, sp.p.hi) if sp.ctor == 'EPair' else None,
   enumerate=lambda b: [ADTVal('EInt', i=0), ADTVal('EInt', i=2), ADTVal('EPair', p=ADTVal('PadPair', lo=1, hi=3)), ADTVal('EOther', o=None)])
Elems = SeqOf(PadElem)
Pairs = SeqOf(Pair)
Pair.abstract = lambda py: ADTVal('PadPair', lo=py[0], hi=py[1])
Pair.concretise = lambda sp: (sp.lo, sp.hi)
Pair.enumerate = lambda b: [ADTVal('PadPair', lo=1, hi=3)]
PadArg = Union('PaddingLike', [
  Ctor('PStr', [('s', PadName)], pytypes=('str',), payload='s'),
  Ctor('PInt', [('i', INT)], pytypes=('int',), payload='i'),
  Ctor('PSeq', [('items', Elems)], pytypes=('tuple', 'list', 'Sequence'), payload='items'),
  Ctor('POther', [('o', Other)], pytypes=('object',), payload='o'),
], abstract=lambda py: ADTVal('PStr', s=py) if isinstance(py, str) else ADTVal('PInt', i=py) if isinstance(py, int) else ADTVal('PSeq', items=tuple(PadElem.abstract(x) for x in py)) if isinstance(py, (tuple, list)) else ADTVal('POther', o=None),
   concretise=lambda sp: sp.s if sp.ctor == 'PStr' else sp.i if sp.ctor == 'PInt' else [PadElem.concretise(x) for x in sp.items] if sp.ctor == 'PSeq' else None,
   enumerate=lambda b: [ADTVal('PStr', s='SAME'), ADTVal('PInt', i=2), ADTVal('POther', o=None)] + [ADTVal('PSeq', items=t) for t in Elems.enumerate(b)])
PadRes = Union('LaxPadding', [
  Ctor('RStr', [('s', PadName)], pytypes=('str',), payload='s'),
  Ctor('RPairs', [('pairs', Pairs)], pytypes=('list',), payload='pairs'),
], abstract=lambda py: ADTVal('RStr', s=py) if isinstance(py, str) else ADTVal('RPairs', pairs=tuple(Pair.abstract(x) for x in py)),
   concretise=None, enumerate=None)

VALID_ELEM = "(is_(padding.items[i], 'EInt') or is_(padding.items[i], 'EPair'))"
OKSEQ = f"(is_(padding, 'PSeq') and len(padding.items) == rank and forall(Int, lambda i: implies(0 <= i and i < rank, {VALID_ELEM})))"
canonicalize_padding = function(
  F + '::canonicalize_padding', params=[('padding', PadArg), ('rank', INT)], returns=PadRes,
  requires=['rank >= 0'],
  raises={'ValueError': f"not (is_(padding, 'PStr') or is_(padding, 'PInt') or {OKSEQ})"},
  ensures=[
    "implies(is_(padding, 'PStr'), is_(result, 'RStr') and result.s == padding.s)",
    # an int p means (p, p) on every spatial dimension
    "implies(is_(padding, 'PInt'), is_(result, 'RPairs') and len(result.pairs) == rank and "
    "forall(Int, lambda i: implies(0 <= i and i < rank, result.pairs[i].lo == padding.i and result.pairs[i].hi == padding.i)))",
    # a sequence: one (low, high) pair per dimension, in order
    "implies(is_(padding, 'PSeq'), is_(result, 'RPairs') and len(result.pairs) == rank and forall(Int, lambda i: implies(0 <= i and i < rank, "
    "(implies(is_(padding.items[i], 'EInt'), result.pairs[i].lo == padding.items[i].i and result.pairs[i].hi == padding.items[i].i)) and "
    "(implies(is_(padding.items[i], 'EPair'), result.pairs[i] == padding.items[i].p)))))",
  ],
  invariants={0: [
    'len(new_pad) == _k',
    "forall(Int, lambda i: implies(0 <= i and i < _k, (is_(padding.items[i], 'EInt') or is_(padding.items[i], 'EPair'))))",
    "forall(Int, lambda i: implies(0 <= i and i < _k and is_(padding.items[i], 'EInt'), new_pad[i].lo == padding.items[i].i and new_pad[i].hi == padding.items[i].i))",
    "forall(Int, lambda i: implies(0 <= i and i < _k and is_(padding.items[i], 'EPair'), new_pad[i] == padding.items[i].p))",
  ]},
  bindings={'Sequence': TypeTag('Sequence')}, props=('C12',), enum_bound=2,
  native=NH('flax.linen.linear', 'canonicalize_padding'))
canonicalize_padding.locals = {'new_pad': Pairs}
canonicalize_padding.comp_elem_hint = Pair

# ---- Dropout.__call__ (Linen): identity / zero / key-determined mask independent of the data -----------------------
S = 'flax/linen/stochastic.py'
Arr = opaque('InputArray', is_str=False)
Arr.attrs['shape'] = (SeqOf(INT), lambda t: [])
Mask = opaque('MaskArray', is_str=False)
RKey = opaque('DropoutKey', is_str=False, nullable=True)
CollName = opaque('RngCollection', universe=['dropout'])
OptB = Union('OptionalBool', [Ctor('BNone', [], pytypes=('NoneType',), is_const=None), Ctor('BVal', [('b', BOOL)], pytypes=('bool',), payload='b')])
DropoutM = Union('DropoutModule', [Ctor('DropoutModule', [('rate', REAL), ('broadcast_dims', SeqOf(INT)), ('deterministic', OptB), ('rng_collection', CollName)], pytypes=('Dropout',))])
merged = UFn('merge_param_deterministic', [OptB, OptB], BOOL, "merge_param('deterministic', self.deterministic, deterministic)")
zeros_like = UFn('zeros_like', [Arr], Arr, 'jnp.zeros_like(inputs)')
arr_div = UFn('array_div', [Arr, REAL], Arr, 'inputs / keep_prob')
make_rng = UFn('module_make_rng', [DropoutM, CollName], RKey, 'self.make_rng(self.rng_collection)')
Arr.div_hook = lambda ex, a, b: SV(Arr, arr_div.decl()(a.t, ex.coerce(b, REAL).t))


def _bernoulli(ex, a, kw):
  ex.ghost['bern_rng'] = ex.coerce(a[0], RKey)
  ex.ghost['bern_p'] = ex.coerce(kw['p'], REAL)
  ex.ghost['bern_shape'] = ex.coerce(kw['shape'], SeqOf(INT))
  return ex.fresh(Mask, 'mask')


def _broadcast_to(ex, a, kw):
  ex.ghost['broadcast_of'] = a[0]
  ex.ghost['broadcast_shape'] = ex.coerce(a[1], SeqOf(INT))
  return ex.fresh(Mask, 'mask_b')


def _select(ex, a, kw):
  ex.ghost['select_mask'], ex.ghost['select_true'], ex.ghost['select_false'] = a[0], ex.coerce(a[1], Arr), ex.coerce(a[2], Arr)
  return ex.fresh(Arr, 'selected')


DB = {
  'merge_param': Handler('merge_param', lambda ex, a, kw: ex.call_value(merged, [a[1], a[2]], {}), 'merge_param'),
  'jnp.zeros_like': zeros_like,
  'random.bernoulli': Handler('random.bernoulli', _bernoulli, 'uninterpreted; its arguments are recorded'),
  'jnp.broadcast_to': Handler('jnp.broadcast_to', _broadcast_to, 'uninterpreted; recorded'),
  'lax.select': Handler('lax.select', _select, 'uninterpreted; recorded'),
  'Dropout.make_rng': make_rng,
}
DET = 'merge_param_deterministic(self.deterministic, deterministic)'
NB = 'len(self.broadcast_dims)'
NORM = '(self.broadcast_dims[j] + len(inputs.shape) if self.broadcast_dims[j] < 0 else self.broadcast_dims[j])'
dropout_call = function(
  S + '::Dropout.__call__', params=[('self', DropoutM), ('inputs', Arr), ('deterministic', OptB), ('rng', RKey)], returns=Arr,
  requires=[f'forall(Int, lambda j: implies(0 <= j and j < {NB}, -len(inputs.shape) <= self.broadcast_dims[j] and self.broadcast_dims[j] < len(inputs.shape)))'],
  ensures=[
    # identity when deterministic or at rate 0; zero at rate 1
    f'implies(self.rate == 0.0 or {DET}, result == inputs)',
    f'implies(not (self.rate == 0.0 or {DET}) and self.rate == 1.0, result == zeros_like(inputs))',
    # otherwise: select(broadcast(bernoulli(key, 1 - rate, shape')), inputs / (1 - rate), zeros): the mask is
    # drawn from the key, the keep probability and a shape that depends on `inputs` only through inputs.shape
    f"implies(not (self.rate == 0.0 or {DET}) and self.rate != 1.0, ghost('bern_p') == 1.0 - self.rate and "
    "ghost('bern_rng') == (rng if rng is not None else module_make_rng(self, self.rng_collection)) and "
    "ghost('select_true') == array_div(inputs, 1.0 - self.rate) and ghost('select_false') == zeros_like(inputs) and "
    "seq_eq(ghost('broadcast_shape'), inputs.shape) and len(ghost('bern_shape')) == len(inputs.shape))",
    f"implies(not (self.rate == 0.0 or {DET}) and self.rate != 1.0, forall(Int, lambda i: implies(0 <= i and i < len(inputs.shape), "
    f"ghost('bern_shape')[i] == (1 if exists(Int, lambda j: 0 <= j and j < {NB} and {NORM} == i) else inputs.shape[i]))))",
  ],
  invariants={0: [
    'len(broadcast_shape) == len(inputs.shape)',
    f'forall(Int, lambda i: implies(0 <= i and i < len(inputs.shape), broadcast_shape[i] == (1 if exists(Int, lambda j: 0 <= j and j < _k and {NORM} == i) else inputs.shape[i])))',
  ]},
  bindings=DB, props=('C12',))
dropout_call.locals = {'broadcast_shape': SeqOf(INT)}
dropout_call.defaults = {'deterministic': NONEV, 'rng': NONEV}

# ---- _normalize_axes (linen and nnx twins): contraction / batch axes are resolved to non-negative positions and ORDERED ----
# DenseGeneral / LinearGeneral pair kernel dimension j with the j-th SMALLEST contracted axis, whatever order the user listed them in
IntSeq = SeqOf(INT)
NORMED = '(axes[i] if axes[i] >= 0 else ndim + axes[i])'
NORM_ENS = [
  'len(result) == len(axes)',
  'forall(Int, Int, lambda i, j: implies(0 <= i and i < j and j < len(result), result[i] <= result[j]))',      # ascending
  f'forall(Int, lambda i: implies(0 <= i and i < len(axes), exists(Int, lambda j: 0 <= j and j < len(result) and result[j] == {NORMED})))',
  'forall(Int, lambda j: implies(0 <= j and j < len(result), exists(Int, lambda i: 0 <= i and i < len(axes) and result[j] == (axes[i] if axes[i] >= 0 else ndim + axes[i]))))',
]
for _file in ('flax/linen/linear.py', 'flax/nnx/nn/linear.py'):
  function(_file + '::_normalize_axes', params=[('axes', IntSeq), ('ndim', INT)], returns=IntSeq, ensures=NORM_ENS, props=('C12',),
           native=NH(_file[:-3].replace('/', '.'), '_normalize_axes', bound=3))
