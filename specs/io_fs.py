"""Sidecar contracts: flax/io.py file-system shims (property C11: atomicity of the commit step)."""
from pyvc.vc import *  # noqa

F = 'flax/io.py'
Path = opaque('FsPath', universe=['ckpt_tmp', 'ckpt_1', 'ckpt_2'])
Mode = opaque('BackendMode', universe=['DEFAULT', 'TF'], is_str=False)
exists_ = UFn('os_path_exists', [Path], BOOL, 'os.path.exists(path) in the file system at call time')

B = {
  'BackendMode.DEFAULT': Lit('DEFAULT'), 'BackendMode.TF': Lit('TF'),
  'os.path.exists': exists_,
  'os.rename': Effect('os.rename', [Path, Path], note='POSIX rename: atomically replaces the destination'),
  'os.remove': Effect('os.remove', [Path]),
  'os.replace': Effect('os.replace', [Path, Path]),
  'shutil.move': Effect('shutil.move', [Path, Path]),
  'shutil.copy': Effect('shutil.copy', [Path, Path]),
  'os.unlink': Effect('os.unlink', [Path]),
  'gfile.rename': Handler('gfile.rename', lambda ex, a, kw: ex.call_value(_GF, list(a) + [kw.get('overwrite', False)], {}), 'tf.io.gfile.rename(src, dst, overwrite)'),
  'gfile.remove': Effect('gfile.remove', [Path]),
  'errors.AlreadyExistsError': TypeTag('AlreadyExistsError', (TypeTag('Exception'),)),
}
_GF = Effect('gfile.rename', [Path, Path, BOOL])

rename = function(
  F + '::rename', params=[('src', Path), ('dst', Path), ('overwrite', BOOL)], free=[('io_mode', Mode)],
  raises={'AlreadyExistsError': "io_mode == 'DEFAULT' and os_path_exists(dst) and not overwrite",
          'ValueError': "io_mode != 'DEFAULT' and io_mode != 'TF'"},
  ensures=[
    # the destination is (re)placed by ONE atomic file-system operation and nothing is deleted first:
    # a crash can only leave the old destination or the new one
    "implies(io_mode == 'DEFAULT', ncalls('os.rename') == 1 and ncalls('os.remove') == 0 and ncalls('os.unlink') == 0"
    " and ncalls('shutil.move') == 0 and ncalls('shutil.copy') == 0 and ncalls('os.replace') == 0)",
    "implies(io_mode == 'DEFAULT', call_args('os.rename')[0] == src and call_args('os.rename')[1] == dst)",
    "implies(io_mode == 'TF', ncalls('gfile.rename') == 1 and ncalls('gfile.remove') == 0 and ncalls('os.rename') == 0)",
    "implies(io_mode == 'TF', call_args('gfile.rename')[0] == src and call_args('gfile.rename')[1] == dst and call_args('gfile.rename')[2] == overwrite)",
  ],
  bindings=B, props=('C11',))
rename.defaults = {'overwrite': False}
