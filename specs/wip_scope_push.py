"""WORK IN PROGRESS, not registered in pyvc/propcfg.py and not part of any check: a contract for Scope.push (rng part).
The obligations over the nested counter objects (map-valued heap fields) are not discharged by z3 / cvc5 within the budget;
the behaviour is covered by the bounded stand-in bounded/c09_rngs.py (one module instance called several times)."""
from specs.linen_rng import *  # noqa
from specs.linen_rng import Counters, Rngs, Stream, SName, SB, RngLike, F
import z3

# ---- Scope.push: a child scope continues the key counts of any earlier child of the same name ---------------------------------
CountMap = MapOf(Stream, INT)


def _dict_to_counters(ex, v):
  """a fresh dict of per-stream counts used as a child's counter object: a NEW object (no children yet)"""
  obj = ex.alloc(Counters, 'child_counters')
  ex.heap[('RngCounters', 'count')] = z3.Store(ex.heap_arr(Counters, 'count'), obj.t, v.t)
  ex.heap[('RngCounters', 'children')] = z3.Store(ex.heap_arr(Counters, 'children'), obj.t, ex.empty_map(Counters.fields['children']).t)
  ex.heap_written.update({('RngCounters', 'count'), ('RngCounters', 'children')})
  ex.ghost['new_counters'] = obj
  return obj


Counters.coerce_from = {CountMap.name: _dict_to_counters}
ScopeP = ObjSort('Scope', dict(rngs=Rngs, rng_counters=Counters, name=SName, _invalid=BOOL, reservations=SetOf(SName)))
Anyv = opaque('ScopeFieldValue', is_str=False, nullable=True)
ScopeP.attr_hooks = {'path': lambda ex, v: PyTuple(()), 'debug_path': lambda ex, v: PyTuple(())}   # only handed on to the constructor summary
for _f in ('mutable', 'flags', 'parent'):
  ScopeP.attr_hooks = dict(getattr(ScopeP, 'attr_hooks', None) or {})
  ScopeP.attr_hooks[_f] = (lambda f: (lambda ex, v: ex.call_value(UFn('scope_' + f, [ScopeP], Anyv, 'Scope.' + f), [v], {})))(_f)
Anyv.add_hook = lambda ex, a, b: ex.fresh(Anyv, 'path_plus_name')


def _scope_ctor(ex, a, kw):
  """Scope(variables, name=, rngs=, parent=, ...): a NEW scope object with these fields; it starts with its own fresh
  counter object (overwritten by the caller) and a clean reservation set"""
  obj = ex.alloc(ScopeP, 'child_scope')
  fresh_cnt = ex.fresh(Counters, 'ctor_counters')      # replaced by the caller before anything reads it
  for fld, val in (('rngs', ex.coerce(kw['rngs'], Rngs).t), ('name', ex.coerce(kw['name'], SName).t), ('rng_counters', fresh_cnt.t),
                   ('_invalid', z3.BoolVal(False)), ('reservations', SetOf(SName).empty())):
    ex.heap[('Scope', fld)] = z3.Store(ex.heap_arr(ScopeP, fld), obj.t, val)
    ex.heap_written.add(('Scope', fld))
  ex.ghost['child'] = obj
  return obj


PB = dict(SB)
PB.update({
  'Scope': Handler('Scope', _scope_ctor, 'constructor summary: a new object with the given rngs / name'),
  'Scope.reserve': Skip('Scope.reserve (name reservation: proved under C02)'),
  'Scope.default_name': Handler('Scope.default_name', lambda ex, a, kw: ex.fresh(SName, 'auto_name'), 'auto-generated name (C02)'),
  'child_rng_token': Lit('<child_rng_token>'),
})
OLDCH = 'old(self.rng_counters.children)'
push = function(
  F + '::Scope.push', params=[('self', ScopeP), ('name', SName), ('prefix', SName), ('reuse', BOOL)], returns=ScopeP,
  requires=['name is not None', 'not self._invalid',
            'forall(RngStreamName, lambda s: implies(s in self.rngs, is_(self.rngs[s], "RLazy")))'],
  ensures=[
    "result == ghost('child') and result.name == name",
    # every stream is passed down with the child's name appended to its path
    'forall(RngStreamName, lambda s: (s in result.rngs) == (s in self.rngs))',
    "forall(RngStreamName, lambda s: implies(s in self.rngs, is_(result.rngs[s], 'RLazy') and result.rngs[s].rng == self.rngs[s].rng and "
    "len(result.rngs[s].suffix) == len(self.rngs[s].suffix) + 1 and is_(result.rngs[s].suffix[len(self.rngs[s].suffix)], 'FoldStr') and "
    "result.rngs[s].suffix[len(self.rngs[s].suffix)].s == name and "
    "forall(Int, lambda i: implies(0 <= i and i < len(self.rngs[s].suffix), result.rngs[s].suffix[i] == self.rngs[s].suffix[i]))))",
    # the child counts in the counter object the parent keeps under its name: the SAME object as an earlier child of that
    # name used (entered again after rewound(), or shared module instance), so its counts continue - whatever `reuse` says
    'name in self.rng_counters.children and result.rng_counters == self.rng_counters.children[name]',
    f'implies(name in {OLDCH}, result.rng_counters == {OLDCH}[name] and result.rng_counters.count == old(result.rng_counters.count))',
    # a first child of that name starts every stream at 0
    f"implies(not (name in {OLDCH}), result.rng_counters == ghost('new_counters') and "
    "forall(RngStreamName, lambda s: (s in result.rng_counters.count) == (s in self.rngs) and implies(s in self.rngs, result.rng_counters.count[s] == 0)))",
    f'forall(ScopeName, lambda n: implies(n != name, (n in self.rng_counters.children) == (n in {OLDCH}) and implies(n in {OLDCH}, self.rng_counters.children[n] == {OLDCH}[n])))',
    'self.rng_counters.count == old(self.rng_counters.count)',
  ],
  modifies=['self.rng_counters.children'],
  bindings=PB, props=('C09', 'C02'))
push.defaults = {'name': NONEV, 'prefix': Lit(''), 'reuse': False}
push.frame_except = {'Scope.rngs': "r == ghost('child')", 'Scope.name': "r == ghost('child')", 'Scope.rng_counters': "r == ghost('child')", 'Scope._invalid': "r == ghost('child')",
                     'Scope.reservations': "r == ghost('child')", 'RngCounters.count': "r == ghost('new_counters')", 'RngCounters.children': "r == ghost('new_counters') or r == self.rng_counters"}
push.locals = {'rngs': Rngs, 'rng_counters': Counters}
push.dict_hint = CountMap
