"""Sidecar contracts: flax/jax_utils.py and flax/core/axes_scan.py permutation arithmetic
(properties C20, C06)."""
import z3
from pyvc.vc import *  # noqa
from pyvc.native import NativeHarness as NH
from pyvc.symexec import RaiseEx
from pyvc.values import ExcVal

F = 'flax/jax_utils.py'
A = 'flax/core/axes_scan.py'

Arr = opaque('NDArray', is_str=False)
Arr.attrs['ndim'] = (INT, lambda t: [t >= 0])
IntSeq = SeqOf(INT)


def NORM(e, n):
  return f'({e} + {n} if {e} < 0 else {e})'


# ---- _invert_perm ---------------------------------------------------------------------------
# perm is a permutation of 0..n-1 whose entries may be written with python negative indices
# (scan_in_dim does not canonicalise `axis`); the loop relies on list index wrap-around.
N = 'len(perm)'
invert_perm = function(
  F + '::_invert_perm', params=[('perm', IntSeq)], returns=IntSeq,
  requires=[
    f'forall(Int, lambda i: implies(0 <= i and i < {N}, -{N} <= perm[i] and perm[i] < {N}))',
    f'forall(Int, Int, lambda i, j: implies(0 <= i and i < j and j < {N}, {NORM("perm[i]", N)} != {NORM("perm[j]", N)}))',
  ],
  ensures=[
    f'len(result) == {N}',
    f'forall(Int, lambda i: implies(0 <= i and i < {N}, result[{NORM("perm[i]", N)}] == i))',
  ],
  invariants={0: [
    f'len(perm_inv) == {N}',
    f'forall(Int, lambda i: implies(0 <= i and i < _k, perm_inv[{NORM("perm[i]", N)}] == i))',
  ]},
  props=('C20', 'C06'), enum_bound=3,
  native=NH('flax.jax_utils', '_invert_perm'))
invert_perm.locals = {'perm_inv': IntSeq}


# ---- numpy summaries --------------------------------------------------------------------------
def _np_delete(ex, a, kw):
  """np.delete(seq, idx) for a scalar idx: seq without position idx (python negative index
  allowed). For a sequence of indices: only used on seq == 0..n-1 (identity range, checked), the
  result is then the ascending complement of the removed positions."""
  seq = ex.coerce(a[0], IntSeq)
  n = IntSeq.len(seq.t)
  r = IntSeq.const('deleted')
  i, j, v = z3.Int(fresh('i')), z3.Int(fresh('j')), z3.Int(fresh('v'))
  idx = ex.deref(a[1])
  if not (isinstance(idx, SV) and isinstance(idx.sort, SeqOf)):
    e = ex.coerce(idx, INT).t
    ex.oblige(z3.And(e >= -n, e < n), 'safety:index')
    ex.assume(z3.And(e >= -n, e < n))
    ne = z3.If(e < 0, e + n, e)
    ex.assume(IntSeq.len(r) == n - 1)
    ex.assume(z3.ForAll([i], z3.Implies(z3.And(i >= 0, i < n - 1),
                                        IntSeq.get(r, i) == z3.If(i < ne, IntSeq.get(seq.t, i), IntSeq.get(seq.t, i + 1))),
                        patterns=[IntSeq.get(r, i)]))
    return SV(IntSeq, r)
  # precondition of this part of the summary: seq is the identity 0..n-1
  ex.oblige(z3.ForAll([i], z3.Implies(z3.And(i >= 0, i < n), IntSeq.get(seq.t, i) == i)), 'pre:np.delete[identity-range]')
  m = IntSeq.len(idx.t)
  norm = lambda e: z3.If(e < 0, e + n, e)
  ex.oblige(z3.ForAll([j], z3.Implies(z3.And(j >= 0, j < m), z3.And(IntSeq.get(idx.t, j) >= -n, IntSeq.get(idx.t, j) < n))), 'safety:index')
  k1, k2 = z3.Int(fresh('a')), z3.Int(fresh('b'))
  distinct = z3.ForAll([k1, k2], z3.Implies(z3.And(k1 >= 0, k1 < k2, k2 < m), norm(IntSeq.get(idx.t, k1)) != norm(IntSeq.get(idx.t, k2))))
  ex.assume(z3.Implies(distinct, IntSeq.len(r) == n - m))
  ex.assume(IntSeq.len(r) >= 0)
  ex.assume(IntSeq.len(r) <= n)
  # in range, never a removed value, strictly ascending
  ex.assume(z3.ForAll([i], z3.Implies(z3.And(i >= 0, i < IntSeq.len(r)), z3.And(IntSeq.get(r, i) >= 0, IntSeq.get(r, i) < n)),
                      patterns=[IntSeq.get(r, i)]))
  ex.assume(z3.ForAll([i, j], z3.Implies(z3.And(i >= 0, i < IntSeq.len(r), j >= 0, j < m), IntSeq.get(r, i) != norm(IntSeq.get(idx.t, j))),
                      patterns=[z3.MultiPattern(IntSeq.get(r, i), IntSeq.get(idx.t, j))]))
  ex.assume(z3.ForAll([i, j], z3.Implies(z3.And(i >= 0, i < j, j < IntSeq.len(r)), IntSeq.get(r, i) < IntSeq.get(r, j)),
                      patterns=[z3.MultiPattern(IntSeq.get(r, i), IntSeq.get(r, j))]))
  return SV(IntSeq, r)


def fresh(h):
  from pyvc.sorts import fresh_name
  return fresh_name(h)


def _transpose(ex, a, kw):
  """jnp.transpose(x, perm) / x.transpose(perm): uninterpreted; the permutation handed over is
  recorded as ghost('perm')."""
  x, perm = a[0], ex.coerce(a[1], IntSeq)
  ex.ghost['perm'] = perm
  ex.ghost['transposed'] = x
  return ex.fresh(Arr, 'transposed')


def _np_arange(ex, a, kw):
  n = ex.coerce(a[0], INT).t
  r = IntSeq.const('arange')
  i = z3.Int(fresh('i'))
  ex.assume(IntSeq.len(r) == z3.If(n > 0, n, 0))
  ex.assume(z3.ForAll([i], z3.Implies(z3.And(i >= 0, i < n), IntSeq.get(r, i) == i), patterns=[IntSeq.get(r, i)]))
  return SV(IntSeq, r)


NPB = {
  'np.delete': Handler('np.delete', _np_delete, 'np.delete on an identity range: ascending complement of the removed positions'),
  'np.arange': Handler('np.arange', _np_arange, 'np.arange(n) = 0..n-1'),
  'jnp.transpose': Handler('jnp.transpose', _transpose, 'uninterpreted; records the permutation'),
}
Arr.methods = {'transpose': lambda ex, v, a, kw: _transpose(ex, [v] + list(a), kw)}

# ---- axes_scan: transpose_to_front / transpose_from_front -------------------------------------
ND = 'x.ndim'
PAX = NORM('ax', ND)
to_front = function(
  A + '::scan.<locals>.transpose_to_front.<locals>.trans', params=[('x', Arr)], free=[('ax', INT)], returns=Arr,
  requires=[f'-{ND} <= ax and ax < {ND}', 'ax != 0'],
  ensures=[
    f"len(ghost('perm')) == {ND}",
    "ghost('perm')[0] == ax",
    # the remaining axes keep their relative order
    f"forall(Int, lambda i: implies(1 <= i and i < {ND}, ghost('perm')[i] == (i - 1 if i - 1 < {PAX} else i)))",
  ],
  bindings=NPB, props=('C06',))
to_front.locals = {'perm': IntSeq}

from_front = function(
  A + '::scan.<locals>.transpose_from_front.<locals>.trans', params=[('x', Arr)], free=[('ax', INT)], returns=Arr,
  requires=[f'-{ND} <= ax and ax < {ND}', 'ax != 0'],
  ensures=[
    f"len(ghost('perm')) == {ND}",
    # inverse of the permutation used by transpose_to_front: from_front[to_front[i]] == i
    f"ghost('perm')[{PAX}] == 0",
    f"forall(Int, lambda i: implies(1 <= i and i < {ND}, ghost('perm')[(i - 1 if i - 1 < {PAX} else i)] == i))",
  ],
  bindings=NPB, props=('C06',))
from_front.locals = {'perm': IntSeq}

# ---- scan_in_dim: transpose_in / transpose_out are mutually inverse ------------------------------
AXREQ = [
  f'len(axis) <= {ND}',
  f'forall(Int, lambda j: implies(0 <= j and j < len(axis), -{ND} <= axis[j] and axis[j] < {ND}))',
  f'forall(Int, Int, lambda i, j: implies(0 <= i and i < j and j < len(axis), {NORM("axis[i]", ND)} != {NORM("axis[j]", ND)}))',
]
transpose_in = function(
  F + '::scan_in_dim.<locals>.transpose_in', params=[('x', Arr)], free=[('axis', IntSeq)], returns=Arr,
  requires=AXREQ,
  ensures=[
    f"len(ghost('perm')) == {ND}",
    "forall(Int, lambda j: implies(0 <= j and j < len(axis), ghost('perm')[j] == axis[j]))",
    # the other axes follow in increasing order
    f"forall(Int, Int, lambda i, j: implies(len(axis) <= i and i < j and j < {ND}, 0 <= ghost('perm')[i] and ghost('perm')[i] < ghost('perm')[j] and ghost('perm')[j] < {ND}))",
  ],
  bindings=NPB, props=('C20',))
transpose_in.locals = {'perm': IntSeq}

transpose_out = function(
  F + '::scan_in_dim.<locals>.transpose_out', params=[('x', Arr)], free=[('axis', IntSeq)], returns=Arr,
  requires=AXREQ,
  ensures=[
    f"len(ghost('perm')) == {ND}",
    # ghost('perm') is the inverse of transpose_in's permutation: inv[norm(axis[j])] == j
    f"forall(Int, lambda j: implies(0 <= j and j < len(axis), ghost('perm')[{NORM('axis[j]', ND)}] == j))",
  ],
  bindings=dict(NPB, _invert_perm=invert_perm), props=('C20',))
transpose_out.locals = {'perm': IntSeq}

# ---- prefetch_to_device: each source item once, in order, then stop ------------------------------
Item = opaque('Item', is_str=False, universe=['i0', 'i1', 'i2', 'i3'])
DevItem = opaque('DevItem', is_str=False)
Devices = opaque('Devices', is_str=False, nullable=True)
put = UFn('put', [Item], DevItem, 'jax.tree_util.tree_map(_prefetch, data): per-item device transfer, uninterpreted')

# a source iterator: items src[pos:]; when asked for item number `fail` (if fail <= len(src)) it raises instead
# (fail == len(src): it raises where it would have stopped; fail > len(src): it never raises)
IterSrc = Union('IterSrc', [Ctor('IterSrc', [('src', SeqOf(Item)), ('pos', INT), ('fail', INT)], pytypes=('Iterator',))])
SourceErr = opaque('SourceError', is_str=False, nullable=True)
SourceErr.exc_tag = 'SourceError'


def _islice(ex, a, kw):
  """itertools.islice(it, n) fully consumed by the enclosing for-loop: takes the next
  min(n, remaining) items of the source and advances it."""
  box = a[0]
  cur = ex.deref(box)
  n = ex.coerce(a[1], INT).t
  U = cur.sort
  src, pos, fail = U.acc('IterSrc', 'src', cur.t), U.acc('IterSrc', 'pos', cur.t), U.acc('IterSrc', 'fail', cur.t)
  S = SeqOf(Item)
  stop = z3.If(fail <= S.len(src), fail, S.len(src))
  rem = stop - pos
  ex.oblige(n >= 0, 'safety:islice-nonneg')
  m = z3.If(n < rem, n, rem)
  ex.mutate(box, SV(U, U.mk('IterSrc', src, pos + m, fail)))

  def on_exhaust(ex2):
    # islice asks the source for one more item unless it already has n: at the failing position the source raises
    if ex2.decide(z3.And(m < n, fail <= S.len(src)), 'source-raises'):
      raise RaiseEx(ExcVal(TypeTag('SourceError', (TypeTag('Exception'),)), []))
  return IterView(m, lambda k: SV(Item, S.get(src, pos + k)), Item, on_exhaust=on_exhaust)


PFB = {
  'collections.deque': Handler('collections.deque', lambda ex, a, kw: ex.new_box(ex.seq_from_items([], DevItem)), 'deque() as an empty list; popleft = pop(0)'),
  '_pmap_device_order': Handler('_pmap_device_order', lambda ex, a, kw: ex.fresh(Devices, 'devs'), 'opaque'),
  'itertools.islice': Handler('itertools.islice', _islice, 'islice consumed by a for loop'),
  'jax.tree_util.tree_map': Handler('jax.tree_util.tree_map', lambda ex, a, kw: ex.call_value(put, [a[1]], {}), 'tree_map(_prefetch, data) == put(data)'),
}

STOP = '(old(iterator.fail) if old(iterator.fail) <= len(iterator.src) else len(iterator.src))'
DELIVERED = [
  # exactly the source items before the failing position (all remaining ones if the source never fails), in order, each once
  f'len(_out) == {STOP} - old(iterator.pos)',
  'forall(Int, lambda i: implies(0 <= i and i < len(_out), _out[i] == put(iterator.src[old(iterator.pos) + i])))',
]
prefetch = function(
  F + '::prefetch_to_device', params=[('iterator', IterSrc), ('size', INT), ('devices', Devices)],
  assigns=('iterator',),
  requires=['size >= 1', '0 <= iterator.pos and iterator.pos <= len(iterator.src)', 'iterator.pos <= iterator.fail'],
  # an exception of the source reaches the consumer - AFTER the items that preceded it
  raises={'SourceError': 'iterator.fail <= len(iterator.src)'},
  ensures=['iterator.pos == len(iterator.src)'] + DELIVERED,
  invariants={
    0: [  # for data in islice(...): queue grows by the transferred items, in order
      'len(queue) == len(_pre_queue) + _k',
      'forall(Int, lambda i: implies(0 <= i and i < len(_pre_queue), queue[i] == _pre_queue[i]))',
      'forall(Int, lambda i: implies(0 <= i and i < _k, queue[len(_pre_queue) + i] == put(_at(i))))',
    ],
    1: [  # while queue: yielded ++ queue == put(src[pos0:pos]); a held-back error means the source is at its failing position
      'iterator.src == old(iterator.src) and iterator.fail == old(iterator.fail)',
      f'old(iterator.pos) <= iterator.pos and iterator.pos <= {STOP}',
      'len(_out) + len(queue) == iterator.pos - old(iterator.pos)',
      'forall(Int, lambda i: implies(0 <= i and i < len(_out), _out[i] == put(iterator.src[old(iterator.pos) + i])))',
      'forall(Int, lambda i: implies(0 <= i and i < len(queue), queue[i] == put(iterator.src[old(iterator.pos) + len(_out) + i])))',
      'len(queue) <= size',
      f'implies(error is not None, iterator.pos == {STOP} and old(iterator.fail) <= len(iterator.src))',
      f'implies(error is None, len(queue) == size or (iterator.pos == {STOP} and old(iterator.fail) > len(iterator.src)))',
    ]},
  bindings=dict(PFB, Exception=TypeTag('Exception')), props=('C20',))
prefetch.ensures_on_raise = {'SourceError': DELIVERED}
prefetch.locals = {'error': SourceErr, 'e': SourceErr}
prefetch.yields = DevItem
prefetch.locals['queue'] = SeqOf(DevItem)

# ---- axes_scan: transpose_to_front / transpose_from_front applied to a whole (sub)tree ----------------------------------
# every leaf of xs is transposed with ITS OWN rank: a negative axis is resolved per leaf
AxisSpec = Union('ScanAxis', [Ctor('ABroadcast', [], pytypes=('_Broadcast',)), Ctor('AInt', [('i', INT)], pytypes=('int',), payload='i')])
TreeT = opaque('PyTreeOfArrays', is_str=False)
leaves_of = UFn('tree_leaves_arrays', [TreeT], SeqOf(Arr), 'jax.tree_util.tree_leaves(xs)')


def _tree_map_generic(ex, a, kw):
  """jax.tree_util.tree_map(f, xs): f is applied to every leaf; modelled by applying it to ONE arbitrary leaf
  (recorded as ghost('leaf')), so whatever the contract says about that application holds for every leaf"""
  leaf = ex.fresh(Arr, 'any_leaf')
  ex.ghost['leaf'] = leaf
  ex.call_value(a[0], [leaf], {})
  return ex.fresh(TreeT, 'mapped_tree')


def _moveaxis(ex, a, kw):
  """jnp.moveaxis(x, src, 0): the transpose with permutation (src, the other axes in order); recorded like transpose"""
  x = a[0]
  src = ex.coerce(a[1], INT).t
  dst = ex.coerce(a[2], INT).t
  n = z3.Function('attr!NDArray.ndim', Arr.z3(), z3.IntSort())(ex.deref(x).t)
  ex.oblige(dst == 0, 'safety:modelled-moveaxis-to-front')
  ex.oblige(z3.And(src >= -n, src < n), 'safety:axis-in-range')
  ps = z3.If(src < 0, src + n, src)
  r = IntSeq.const('moveaxis_perm')
  i = z3.Int(fresh('i'))
  ex.assume(IntSeq.len(r) == n)
  ex.assume(IntSeq.get(r, 0) == src)
  ex.assume(z3.ForAll([i], z3.Implies(z3.And(i >= 1, i < n), IntSeq.get(r, i) == z3.If(i - 1 < ps, i - 1, i))))
  ex.ghost['perm'] = SV(IntSeq, r)
  ex.ghost['transposed'] = x
  return ex.fresh(Arr, 'moved')


TB2 = dict(NPB)
TB2.update({
  'broadcast': SV(AxisSpec, AxisSpec.mk('ABroadcast')),
  'jax.tree_util.tree_map': Handler('jax.tree_util.tree_map', _tree_map_generic, 'tree_map(f, xs): f applied to an arbitrary leaf'),
  'jax.tree_util.tree_leaves': leaves_of,
  'jnp.moveaxis': Handler('jnp.moveaxis', _moveaxis, 'moveaxis(x, src, 0) as the corresponding transpose'),
})
LND = "ghost('leaf').ndim"
LPAX = NORM('ax.i', LND)
LEAF_RANGE = "forall(NDArray, lambda x: -x.ndim <= ax.i and ax.i < x.ndim)"
to_front_tree = function(
  A + '::scan.<locals>.transpose_to_front', params=[('ax', AxisSpec), ('xs', TreeT)], returns=ANY,
  requires=[f"implies(is_(ax, 'AInt'), {LEAF_RANGE})"],
  ensures=[
    # for EVERY leaf: the axis moved to the front is `ax` resolved against that leaf's own rank
    f"implies(is_(ax, 'AInt') and ax.i != 0, len(ghost('perm')) == {LND} and "
    f"(ghost('perm')[0] + {LND} if ghost('perm')[0] < 0 else ghost('perm')[0]) == {LPAX} and "
    f"forall(Int, lambda i: implies(1 <= i and i < {LND}, ghost('perm')[i] == (i - 1 if i - 1 < {LPAX} else i))))",
  ],
  bindings=TB2, props=('C06',))
to_front_tree.locals = {'perm': IntSeq}

from_front_tree = function(
  A + '::scan.<locals>.transpose_from_front', params=[('ax', AxisSpec), ('xs', TreeT)], returns=ANY,
  requires=[f"implies(is_(ax, 'AInt'), {LEAF_RANGE})"],
  ensures=[
    f"implies(is_(ax, 'AInt') and ax.i != 0, len(ghost('perm')) == {LND} and ghost('perm')[{LPAX}] == 0 and "
    f"forall(Int, lambda i: implies(1 <= i and i < {LND}, ghost('perm')[(i - 1 if i - 1 < {LPAX} else i)] == i)))",
  ],
  bindings=TB2, props=('C06',))
from_front_tree.locals = {'perm': IntSeq}
