"""Sidecar contracts: flax/core/scope.py Scope name reservation (property C02) and the
mutability gate (property C01)."""
import z3
from pyvc.vc import *  # noqa
from pyvc.heap import ObjSort
from pyvc.native import NativeHarness as NH, AbsObj
from specs.linen_filters import Filter, Name, mem, B as FB, in_filter

F = 'flax/core/scope.py'

SName = opaque('ScopeOrVarName', universe=['dense', 'Dense_0', 'Dense_1', 'kernel'])
ColOpt = opaque('CollectionOrNone', universe=['params', 'stats'], nullable=True)
Prefix = opaque('NamePrefix', universe=['Dense_'])
Reservations = MapOf(SName, SetOf(ColOpt))
Reservations.default_factory = lambda: SetOf(ColOpt).empty()   # collections.defaultdict(set)

Scope = ObjSort('Scope', dict(reservations=Reservations, mutable=Filter, _invalid=BOOL, name=SName), pytypes=('Scope',))


def _abs_scope(py):
  return AbsObj(reservations={k: frozenset(v) for k, v in py.reservations.items()})


def _conc_scope(sp):
  import bounded._env  # noqa: F401
  import collections
  from flax.core import scope as sc
  s = sc.Scope({}, mutable=True)
  s.reservations = collections.defaultdict(set, {k: set(v) for k, v in sp.reservations.items()})
  return s


def _enum_scope(bound):
  out = []
  for r in Reservations.enumerate(bound):
    out.append(AbsObj(reservations=r))
  return out


Scope.abstract, Scope.concretise, Scope.enumerate = _abs_scope, _conc_scope, _enum_scope
RSET = "(self.reservations[name] if name in self.reservations else empty_set(CollectionOrNone))"
RESERVED = f"(name in self.reservations and ((None in self.reservations[name]) or col is None or (col in self.reservations[name])))"

name_reserved = function(
  F + '::Scope.name_reserved', params=[('self', Scope), ('name', SName), ('col', ColOpt)], returns=BOOL,
  # a name clashes with: a child scope of that name (None recorded), any earlier use when it is
  # requested for a child scope (col is None), or a variable of the same collection
  ensures=[f'result == {RESERVED}'],
  props=('C02',), native=NH('flax.core.scope', 'Scope.name_reserved'))
name_reserved.defaults = {'col': NONEV}

SB = {'Scope.name_reserved': name_reserved}
reserve = function(
  F + '::Scope.reserve', params=[('self', Scope), ('name', SName), ('col', ColOpt)],
  raises={'ValueError': RESERVED},            # a clash raises instead of silently sharing state
  ensures=[
    'name in self.reservations',
    f'forall(CollectionOrNone, lambda c: (c in self.reservations[name]) == (c == col or (name in old(self.reservations) and c in old(self.reservations)[name])))',
    'forall(ScopeOrVarName, lambda n: implies(n != name, (n in self.reservations) == (n in old(self.reservations)) and '
    'implies(n in self.reservations, self.reservations[n] == old(self.reservations)[n])))',
  ],
  modifies=['self.reservations'],
  bindings=SB, props=('C02',), native=NH('flax.core.scope', 'Scope.reserve'))
reserve.defaults = {'col': NONEV}
SB['Scope.reserve'] = reserve

fmt = UFn('prefix_index_name', [Prefix, INT], SName, "f'{prefix}{i}': injective in i")
default_name = function(
  F + '::Scope.default_name', params=[('self', Scope), ('prefix', Prefix)], returns=SName,
  requires=['forall(Int, Int, lambda a, b: implies(a != b, prefix_index_name(prefix, a) != prefix_index_name(prefix, b)))'],
  ensures=[
    # the first unreserved name of the shape <prefix><i>: deterministic auto-naming
    'not (result in self.reservations)',
    'exists(Int, lambda i: i >= 0 and result == prefix_index_name(prefix, i) and '
    'forall(Int, lambda j: implies(0 <= j and j < i, prefix_index_name(prefix, j) in self.reservations)))',
  ],
  invariants={0: ['i >= 0', 'forall(Int, lambda j: implies(0 <= j and j < i, prefix_index_name(prefix, j) in self.reservations))']},
  props=('C02',))
default_name.fstring_hook = lambda ex, parts: ex.call_value(fmt, [parts[0], parts[1]], {}) if len(parts) == 2 else None
default_name.locals = {'name': SName}

# =====================================================================================================
# C01: the mutability contract (write gate, copy on bind, returned set, observation features)
# =====================================================================================================
CollVal = opaque('CollectionValue', is_str=False, universe=['c0', 'c1'], nullable=False)
VarVal = opaque('VariableValue', is_str=False, universe=['x0', 'x1'])
Vars = MapOf(Name, CollVal)
VarDictRef = opaque('VariableDict', is_str=False)
Scope.fields['_variables'] = Vars

is_mutable_collection = function(
  F + '::Scope.is_mutable_collection', params=[('self', Scope), ('col', Name)], returns=BOOL,
  ensures=['result == mem(self.mutable, col)'],
  bindings=FB, props=('C01',))

_mutable_collection = function(
  F + '::Scope._mutable_collection', params=[('self', Scope), ('col', Name)], returns=VarDictRef,
  requires=['mem(self.mutable, col)'], trusted=True,
  notes='assumed: returns the dict of collection `col` for this scope, creating empty dicts along the path; writes only variable dicts',
  props=())
_mutable_collection.frame_except = {'Scope._variables': 'True'}

EB = dict(FB)
EB.update({
  'Scope._check_valid': Inline(F + '::Scope._check_valid'),
  'Scope._validate_trace_level': Skip('Scope._validate_trace_level'),
  'Scope.is_mutable_collection': is_mutable_collection,
  'Scope._mutable_collection': _mutable_collection,
  'errors.InvalidScopeError': TypeTag('InvalidScopeError', (TypeTag('Exception'),)),
  'errors.ModifyScopeVariableError': TypeTag('ModifyScopeVariableError', (TypeTag('Exception'),)),
  'Mapping': TypeTag('Mapping'),
})
Scope.attr_hooks = {'path_text': lambda ex, b: Lit('<path>')}

_put = function('<nested>::put', params=[('target', VarDictRef), ('key', SName), ('val', VarVal)], trusted=True,
                notes='nested helper of put_variable: writes `val` under `key` into the dict it is given (recursing into sub-dicts); assumed to touch only variable dicts')
put_variable = function(
  F + '::Scope.put_variable', params=[('self', Scope), ('col', Name), ('name', SName), ('value', VarVal)],
  # a write to a collection that `mutable` does not select raises INSTEAD of taking effect:
  # the raise happens before anything is written (frame-on-raise obligation: heap unchanged)
  raises={'InvalidScopeError': 'self._invalid',
          'ModifyScopeVariableError': 'not self._invalid and not mem(self.mutable, col)'},
  ensures=['mem(self.mutable, col)', 'self.mutable == old(self.mutable) and self._invalid == old(self._invalid)'],
  bindings=EB, nested={'put': _put}, props=('C01',))
put_variable.frame_except = {'Scope._variables': 'True'}

unfreeze_copy = UFn('unfreeze_copy', [CollVal], CollVal, 'flax.core.unfreeze(value): a deep copy with a fresh dict spine (see C15)')
unfreeze_variables = function(
  F + '::_unfreeze_variables', params=[('variables', Vars), ('mutable', Filter)], returns=Vars,
  ensures=[
    'dom(result) == dom(variables)',
    # exactly the collections selected by `mutable` are copied; the others are passed through as they are
    'forall(Name, lambda k: implies(k in variables and mem(mutable, k), result[k] == unfreeze_copy(variables[k])))',
    'forall(Name, lambda k: implies(k in variables and not mem(mutable, k), result[k] == variables[k]))',
  ],
  invariants={0: [
    'forall(Name, lambda k: (k in new_variables) == exists(Int, lambda i: 0 <= i and i < _k and _at(i)[0] == k))',
    'forall(Name, lambda k: implies(k in new_variables, new_variables[k] == (unfreeze_copy(variables[k]) if mem(mutable, k) else variables[k])))',
  ]},
  bindings=dict(FB, unfreeze=unfreeze_copy), props=('C01',))
unfreeze_variables.locals = {'new_variables': Vars}

freeze_ = UFn('freeze_value', [Vars], Vars, 'flax.core.freeze(xs) (immutable view of the same mapping; see C15)')
RETURN_FROZEN = GlobalVar('config.flax_return_frozendict', BOOL)
mutable_variables = function(
  F + '::Scope.mutable_variables', params=[('self', Scope)], returns=Vars,
  ensures=[
    # every existing collection matching `mutable` and no other
    'implies(not RETURN_FROZEN, forall(Name, lambda k: (k in result) == (k in self._variables and mem(self.mutable, k))))',
    'implies(not RETURN_FROZEN, forall(Name, lambda k: implies(k in result, result[k] == self._variables[k])))',
  ],
  bindings=dict(FB, **{'Scope._populate_collections': Skip('Scope._populate_collections (materialises sub-collections of parents; assumed not to change which collections exist)'),
                        'freeze': freeze_, 'config.flax_return_frozendict': RETURN_FROZEN}),
  props=('C01',))
mutable_variables.locals = {'xs': Vars}

# ---- core.apply wrapper: binds the caller's variables, invalidates the root, returns (y, mutable_variables) -----
RngsArg = Union('RngsArgument', [
  Ctor('RNone', [], pytypes=('NoneType',), is_const=None),
  Ctor('RKey', [('k', opaque('ApplyPRNGKey', is_str=False))], pytypes=('Array',), payload='k'),
  Ctor('RDict', [('d', opaque('RngDict', is_str=False))], pytypes=('dict', 'FrozenDict'), payload='d'),
])
wrap_params = UFn('rngs_params_dict', [RngsArg.field_sort('RKey', 'k')], RngsArg.field_sort('RDict', 'd'), "{'params': rngs}")
RngsArg.from_dict_literal = lambda ex, kvs: SV(RngsArg, RngsArg.mk('RDict', wrap_params.decl()(ex.coerce(kvs[0][1], RngsArg.field_sort('RKey', 'k')).t)))
ArgsT = opaque('PositionalArgs', is_str=False)
ArgsT.star_opaque = True
KwT = opaque('KeywordArgs', is_str=False)
Y = opaque('FnOutput', is_str=False)
MV = opaque('MutableVariablesResult', is_str=False)
Flags = opaque('Flags', is_str=False, nullable=True)
valid_rng = UFn('_is_valid_rng', [RngsArg], BOOL, '_is_valid_rng(rngs)')
valid_rngs = UFn('_is_valid_rngs', [RngsArg], BOOL, '_is_valid_rngs(rngs)')
coll_is_dict = UFn('collection_is_dictlike', [CollVal], BOOL, 'isinstance(variables[col], (dict, FrozenDict))')
coll_has = UFn('collection_has_key', [CollVal, Name], BOOL, 'name in variables[col]')
mv_of = UFn('mutable_variables_of', [Scope], MV, 'root.mutable_variables() (see its own contract)')
Ret = Union('ApplyResult', [Ctor('RetPair', [('y', Y), ('mv', MV)], pytypes=('tuple',), tuple_like=True),
                           Ctor('RetY', [('y', Y)], pytypes=('object',), payload='y')])
CollVal.contains_hook = lambda ex, c, x: coll_has.decl()(c.t, ex.coerce(x, Name).t)
_BIND = Effect('bind', [Vars, RngsArg, Filter, Flags], ret=Scope)
_FN = Effect('fn', [Scope, ArgsT, KwT], ret=Y)
_INVALIDATE = Effect('invalidate', [Scope])


def _bind(ex, a, kw):
  return ex.call_value(_BIND, [a[0], kw['rngs'], kw['mutable'], kw['flags']], {})


def _fn(ex, a, kw):
  star = [x[1] for x in a[1:] if isinstance(x, tuple) and x and x[0] == '*']
  return ex.call_value(_FN, [a[0], star[0], kw['**']], {})


def _temporary(ex, a, kw):
  root = a[0]
  return (root, lambda: ex.call_value(_INVALIDATE, [root], {}))


def _isinstance_apply(ex, a, kw):
  v = ex.deref(a[0])
  if isinstance(v, SV) and v.sort.name == CollVal.name:
    return ex.call_value(coll_is_dict, [v], {})
  from pyvc.symexec import GLOBAL_BINDINGS
  return GLOBAL_BINDINGS['isinstance'].fn(ex, a, kw)


AB = dict(FB)
AB.update({
  '_is_valid_rng': valid_rng, '_is_valid_rngs': valid_rngs,
  'FrozenDict': TypeTag('FrozenDict'),
  'isinstance': Handler('isinstance', _isinstance_apply, 'isinstance(variables[col], (dict, FrozenDict)) as an observer'),
  'bind': Handler('bind', _bind, 'core.bind(variables, rngs=, mutable=, flags=): recorded; returns the root Scope'),
  'Scope.temporary': Handler('Scope.temporary', _temporary, 'context manager: yields the scope, invalidates it on exit'),
  'Scope.mutable_variables': mv_of,
  'fn': Handler('fn', _fn, 'the user function, called once on the root scope'),
  'errors.ApplyScopeInvalidVariablesStructureError': TypeTag('ApplyScopeInvalidVariablesStructureError', (TypeTag('Exception'),)),
})
STRUCT_ERR = "('params' in variables and collection_is_dictlike(variables['params']) and collection_has_key(variables['params'], 'params'))"
BADRNG = "(not is_(rngs, 'RNone') and not _is_valid_rng(rngs) and not _is_valid_rngs(rngs))"
apply_wrapper = function(
  F + '::apply.<locals>.wrapper', params=[('variables', Vars), ('args', ArgsT), ('rngs', RngsArg), ('kwargs', KwT)],
  free=[('mutable', Filter), ('flags', Flags)], returns=Ret,
  raises={'ValueError': BADRNG, 'ApplyScopeInvalidVariablesStructureError': f'not {BADRNG} and {STRUCT_ERR}'},
  ensures=[
    # the root scope is bound to the caller's own `variables` (bind copies exactly the mutable collections) ...
    "ncalls('bind') == 1 and call_args('bind')[0] == variables and call_args('bind')[2] == mutable and call_args('bind')[3] == flags",
    # ... the function runs once on it and the root is invalidated afterwards (a leaked scope cannot be used again)
    "ncalls('fn') == 1 and call_args('fn')[1] == args and call_args('fn')[2] == kwargs",
    "ncalls('invalidate') == 1 and call_args('invalidate')[0] == call_args('fn')[0] and call_order('fn') < call_order('invalidate')",
    # the mutable collections are RETURNED (iff mutable is not False), never written back into `variables`
    "implies(not (is_(mutable, 'FBool') and not mutable.b), is_(result, 'RetPair') and result.mv == mutable_variables_of(call_args('fn')[0]))",
    "implies(is_(mutable, 'FBool') and not mutable.b, is_(result, 'RetY'))",
  ],
  bindings=AB, props=('C01',))
apply_wrapper.locals = {'rngs': RngsArg}

# ---- Module.sow: an observation feature; a no-op (returns False, writes nothing) on an immutable collection --------
LM = 'flax/linen/module.py'
ScopeN = ObjSort('Scope', dict(Scope.fields), pytypes=('Scope',), nullable=True)
ModState = ObjSort('_ModuleInternalState', dict(children=MapOf(SName, Name)))
Module = ObjSort('Module', dict(scope=ScopeN, _state=ModState))
has_var = UFn('scope_has_variable', [ScopeN, Name, SName], BOOL, 'scope.has_variable(col, name)')
get_var = UFn('scope_get_variable', [ScopeN, Name, SName], VarVal, 'scope.get_variable(col, name)')
init_val = UFn('init_fn_result', [], VarVal, 'init_fn()')
reduce_val = UFn('reduce_fn_result', [VarVal, VarVal], VarVal, 'reduce_fn(xs, value)')
MB = dict(FB)
MB.update({
  'Scope.is_mutable_collection': is_mutable_collection,
  'Scope.has_variable': has_var, 'Scope.get_variable': get_var,
  'Scope.reserve': Effect('Scope.reserve', [ScopeN, SName, Name]),
  'Scope.put_variable': Effect('Scope.put_variable', [ScopeN, Name, SName, VarVal]),
  'init_fn': Handler('init_fn', lambda ex, a, kw: ex.call_value(init_val, [], {}), 'init_fn()'),
  'reduce_fn': reduce_val,
})
sow = function(
  LM + '::Module.sow', params=[('self', Module), ('col', Name), ('name', SName), ('value', VarVal), ('reduce_fn', NONE), ('init_fn', NONE)],
  returns=BOOL,
  raises={'ValueError': 'self.scope is None'},
  ensures=[
    'result == mem(self.scope.mutable, col)',
    # immutable collection: nothing is reserved, nothing is written
    "implies(not mem(self.scope.mutable, col), ncalls('Scope.put_variable') == 0 and ncalls('Scope.reserve') == 0)",
    # mutable collection: exactly one write, of reduce_fn(existing-or-init, value), into (col, name)
    "implies(mem(self.scope.mutable, col), ncalls('Scope.put_variable') == 1 and call_args('Scope.put_variable')[1] == col and call_args('Scope.put_variable')[2] == name"
    " and call_args('Scope.put_variable')[3] == reduce_fn_result(scope_get_variable(self.scope, col, name) if scope_has_variable(self.scope, col, name) else init_fn_result(), value))",
  ],
  bindings=MB, props=('C01',))
sow.frame_except = {'_ModuleInternalState.children': 'mem(self.scope.mutable, col)'}

# ---- Scope.param: an existing parameter is returned (never re-initialised), shapes are checked ---------------------
InitFn = opaque('InitFn', is_str=False)
Key0 = opaque('ParamPRNGKey', is_str=False)
AbsTree = opaque('AbstractValue', is_str=False)
LeafV = opaque('TreeLeaf', is_str=False)
ShapeT = opaque('ArrayShape', is_str=False)
LeafSeq = SeqOf(LeafV)
get_param = UFn('scope_get_param', [Scope, SName], VarVal, "self.get_variable('params', name)")
has_param = UFn('scope_has_param', [Scope, SName], BOOL, "self.has_variable('params', name)")
coll_empty = UFn('scope_params_collection_empty', [Scope], BOOL, "self.is_collection_empty('params')")
unbox_ = UFn('meta_unbox', [VarVal], VarVal, 'meta.unbox(value)')
eval_shape = UFn('eval_shape_of_init', [InitFn, ArgsT, KwT], AbsTree, 'jax.eval_shape(lambda: init_fn(random.key(0), *init_args, **init_kwargs)): shapes only, no value is created')
leaves_v = UFn('tree_leaves_value', [VarVal], LeafSeq, 'jax.tree_util.tree_leaves(value)')
leaves_a = UFn('tree_leaves_abstract', [AbsTree], LeafSeq, 'jax.tree_util.tree_leaves(abs_value)')
shape_of = UFn('np_shape', [LeafV], ShapeT, 'np.shape(x)')
init_call = UFn('init_fn_value', [InitFn, Key0, ArgsT, KwT], VarVal, 'init_fn(rng, *init_args, **init_kwargs)')


def _tree_leaves(ex, a, kw):
  v = ex.deref(a[0])
  return ex.call_value(leaves_a if v.sort.name == AbsTree.name else leaves_v, [v], {})


def _init_fn(ex, a, kw):
  star = [x[1] for x in a[1:] if isinstance(x, tuple) and x and x[0] == '*']
  return ex.call_value(init_call, [ex._cur_env.lookup('init_fn'), a[0], star[0], kw['**']], {})


PB = dict(FB)
PB.update({
  'Scope.reserve': Effect('Scope.reserve', [Scope, SName, Name]),
  'Scope.has_variable': Handler('Scope.has_variable', lambda ex, a, kw: ex.call_value(has_param, [a[0], a[2]], {}), "has_variable('params', name)"),
  'Scope.get_variable': Handler('Scope.get_variable', lambda ex, a, kw: ex.call_value(get_param, [a[0], a[2]], {}), "get_variable('params', name)"),
  'Scope.is_mutable_collection': is_mutable_collection,
  'Scope.is_collection_empty': Handler('Scope.is_collection_empty', lambda ex, a, kw: ex.call_value(coll_empty, [a[0]], {}), "is_collection_empty('params')"),
  'Scope.make_rng': Effect('Scope.make_rng', [Scope, Name], ret=Key0),
  'Scope.put_variable': Effect('Scope.put_variable', [Scope, Name, SName, VarVal]),
  'meta.unbox': unbox_,
  'jax.eval_shape': Handler('jax.eval_shape', lambda ex, a, kw: ex.call_value(eval_shape, [ex._cur_env.lookup('init_fn'), ex._cur_env.lookup('init_args'), ex._cur_env.lookup('init_kwargs')], {}), 'shapes of what init_fn would produce; init_fn is not run for a value'),
  'jax.tree_util.tree_leaves': Handler('jax.tree_util.tree_leaves', _tree_leaves, 'tree_leaves'),
  'np.shape': shape_of,
  'errors.ScopeParamShapeError': TypeTag('ScopeParamShapeError', (TypeTag('Exception'),)),
  'errors.ScopeCollectionNotFound': TypeTag('ScopeCollectionNotFound', (TypeTag('Exception'),)),
  'errors.ScopeParamNotFoundError': TypeTag('ScopeParamNotFoundError', (TypeTag('Exception'),)),
})
Scope.call_hooks = {}
InitFn.pytypes = ('function',)
InitFn.call_hook = lambda ex, f, a, kw: _init_fn(ex, a, kw)
EXISTS = 'scope_has_param(self, name)'
VAL = '(meta_unbox(scope_get_param(self, name)) if unbox else scope_get_param(self, name))'
LA = 'tree_leaves_abstract(eval_shape_of_init(init_fn, init_args, init_kwargs))'
LV = f'tree_leaves_value({VAL})'
MISMATCH = (f'exists(Int, lambda i: 0 <= i and i < len({LV}) and i < len({LA}) and np_shape({LV}[i]) != np_shape({LA}[i]))')
MUT = "mem(self.mutable, 'params')"
param = function(
  F + '::Scope.param', params=[('self', Scope), ('name', SName), ('init_fn', InitFn), ('init_args', ArgsT), ('unbox', BOOL), ('init_kwargs', KwT)],
  returns=VarVal,
  raises={
    # a wrongly-shaped existing parameter raises instead of being accepted or re-initialised
    'ScopeParamShapeError': f'{EXISTS} and {MISMATCH}',
    # a missing parameter in an immutable collection raises instead of being initialised
    'ScopeCollectionNotFound': f'not {EXISTS} and not {MUT} and scope_params_collection_empty(self)',
    'ScopeParamNotFoundError': f'not {EXISTS} and not {MUT} and not scope_params_collection_empty(self)',
  },
  ensures=[
    "ncalls('Scope.reserve') == 1 and call_args('Scope.reserve')[1] == name and call_args('Scope.reserve')[2] == 'params'",
    # existing parameter: returned as stored; init_fn is never run for a value, no rng is drawn, nothing is written
    f"implies({EXISTS}, result == {VAL} and ncalls('Scope.put_variable') == 0 and ncalls('Scope.make_rng') == 0)",
    # absent and mutable: one rng draw from 'params', one write of init_fn's value
    f"implies(not {EXISTS}, ncalls('Scope.make_rng') == 1 and call_args('Scope.make_rng')[1] == 'params' and ncalls('Scope.put_variable') == 1 "
    "and call_args('Scope.put_variable')[1] == 'params' and call_args('Scope.put_variable')[2] == name)",
  ],
  invariants={0: [f'forall(Int, lambda i: implies(0 <= i and i < _k, np_shape({LV}[i]) == np_shape({LA}[i])))']},
  bindings=PB, props=('C02',))
param.vararg = 'init_args'
param.defaults = {'unbox': True}

# ---- Scope.variable: an existing variable is never re-initialised; a missing one is created only in a mutable collection ----
InitFnV = opaque('VariableInitFn', is_str=False, nullable=True)
InitFnV.pytypes = ('function',)
has_var = UFn('scope_has_variable', [Scope, Name, SName], BOOL, 'self.has_variable(col, name)')
col_empty = UFn('scope_collection_empty', [Scope, Name], BOOL, 'self.is_collection_empty(col)')
var_init_value = UFn('variable_init_value', [InitFnV, ArgsT, KwT], VarVal, 'init_fn(*init_args, **init_kwargs)')
VarHandle = Union('VariableHandle', [Ctor('VariableHandle', [('scope', Scope), ('collection', Name), ('name', SName), ('unbox', BOOL)], pytypes=('Variable',))])


def _var_init_call(ex, f, a, kw):
  star = [x[1] for x in a if isinstance(x, tuple) and x and x[0] == '*']
  return ex.call_value(var_init_value, [f, star[0], kw['**']], {})


InitFnV.call_hook = _var_init_call
VB = dict(FB)
VB.update({
  'Scope.reserve': Effect('Scope.reserve', [Scope, SName, Name]),
  'Scope.has_variable': has_var,
  'Scope.is_mutable_collection': is_mutable_collection,
  'Scope.is_collection_empty': col_empty,
  'Scope.put_variable': Effect('Scope.put_variable', [Scope, Name, SName, VarVal]),
  'Variable': Handler('Variable', lambda ex, a, kw: SV(VarHandle, VarHandle.mk('VariableHandle', ex.coerce(a[0], Scope).t, ex.coerce(a[1], Name).t, ex.coerce(a[2], SName).t, ex.coerce(kw['unbox'], BOOL).t)), 'Variable(scope, col, name, unbox=): a handle'),
  'cast': Handler('cast', lambda ex, a, kw: a[1], 'typing.cast: identity'),
  'Union': NONEV, 'T': NONEV,
  'errors.ScopeCollectionNotFound': TypeTag('ScopeCollectionNotFound', (TypeTag('Exception'),)),
  'errors.ScopeVariableNotFoundError': TypeTag('ScopeVariableNotFoundError', (TypeTag('Exception'),)),
})
VEXISTS = 'scope_has_variable(self, col, name)'
CANNOT = '(not mem(self.mutable, col) or init_fn is None)'
variable = function(
  F + '::Scope.variable', params=[('self', Scope), ('col', Name), ('name', SName), ('init_fn', InitFnV), ('init_args', ArgsT), ('unbox', BOOL), ('init_kwargs', KwT)],
  returns=VarHandle,
  raises={
    'ScopeCollectionNotFound': f'not {VEXISTS} and {CANNOT} and scope_collection_empty(self, col)',
    'ScopeVariableNotFoundError': f'not {VEXISTS} and {CANNOT} and not scope_collection_empty(self, col)',
  },
  ensures=[
    # the name is reserved for this collection (name clashes with sub-scopes / other collections are detected there)
    "ncalls('Scope.reserve') == 1 and call_args('Scope.reserve')[1] == name and call_args('Scope.reserve')[2] == col",
    # an existing variable is handed out as it is: init_fn is not run, nothing is written
    f"implies({VEXISTS}, ncalls('Scope.put_variable') == 0)",
    # a missing variable of a mutable collection is created from init_fn(*init_args, **init_kwargs), once, under (col, name)
    f"implies(not {VEXISTS}, ncalls('Scope.put_variable') == 1 and call_args('Scope.put_variable')[1] == col and call_args('Scope.put_variable')[2] == name "
    "and call_args('Scope.put_variable')[3] == variable_init_value(init_fn, init_args, init_kwargs))",
    # the handle addresses exactly this scope / collection / name
    'result.scope == self and result.collection == col and result.name == name and result.unbox == unbox',
  ],
  bindings=VB, props=('C02',))
variable.vararg = 'init_args'
variable.kwarg = 'init_kwargs'
variable.defaults = {'unbox': True, 'init_fn': None}
