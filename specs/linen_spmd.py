"""Sidecar contracts: flax/linen/spmd.py logical -> mesh axis assignment (property C19)."""
import z3
from pyvc.vc import *  # noqa
from pyvc.sorts import fresh_name, qforall

F = 'flax/linen/spmd.py'
LName = opaque('LogicalAxisName', universe=['batch', 'embed', 'heads'], nullable=True)
MeshName = opaque('MeshAxisName', universe=['X', 'Y', 'Z'])
MeshAxes = opaque('MeshAxesSpec', is_str=False, nullable=True)     # a mesh axis name, a tuple of names, or None
leaves = UFn('mesh_axis_leaves', [MeshAxes], SetOf(MeshName), 'set(jax.tree_util.tree_leaves(mesh_axes)): str -> {itself}, tuple -> its members, None -> {}')
R = Union('AssignedAxis', [Ctor('RUnassigned', [], pytypes=('_UnassignedAxis',)), Ctor('RVal', [('v', MeshAxes)], pytypes=('str', 'tuple', 'NoneType'), payload='v')])
# a dimension whose logical name is None starts out as None (= not sharded); only reached under `name is None`
R.coerce_from = {LName.name: lambda ex, v: SV(R, R.mk('RVal', MeshAxes.literal(None)))}
Names = SeqOf(LName)
Rule = Union('LogicalRule', [Ctor('LogicalRule', [('name', LName), ('mesh', MeshAxes)], pytypes=('tuple',), tuple_like=True)])
Rules = SeqOf(Rule)
Result = SeqOf(R)
DimNames = Union('ArrayDimNames', [Ctor('DNone', [], pytypes=('NoneType',), is_const=None), Ctor('DSeq', [('names', Names)], pytypes=('tuple', 'list', 'Sequence'), payload='names')])
ResOpt = Union('MeshAxesResult', [Ctor('ResNone', [], pytypes=('NoneType',), is_const=None), Ctor('ResList', [('items', Result)], pytypes=('list',), payload='items')])
used = UFn('used_mesh_axes', [Result], SetOf(MeshName), 'set(jax.tree_util.tree_leaves(result)): every mesh axis already used by some dimension')
USED_AX = ["forall(AssignedAxisSeq, MeshAxisName, lambda s, m: (m in used_mesh_axes(s)) == exists(Int, lambda i: 0 <= i and i < len(s) and is_(s[i], 'RVal') and m in mesh_axis_leaves(s[i].v)))",
           "forall(MeshAxisName, lambda m: not (m in mesh_axis_leaves(None)))"]
AssignedAxisSeq = Result


def _tree_leaves(ex, a, kw):
  v = ex.deref(a[0])
  if isinstance(v, SV) and v.sort.name == MeshAxes.name:
    return ex.call_value(leaves, [v], {})
  return ex.call_value(used, [v], {})


free_fn = function(
  F + '::_mesh_assignment_free', params=[('new_assignment', MeshAxes), ('existing_assignments', Result)], returns=BOOL,
  ensures=['result == forall(MeshAxisName, lambda m: not (m in mesh_axis_leaves(new_assignment) and m in used_mesh_axes(existing_assignments)))'],
  bindings={'jax.tree_util.tree_leaves': Handler('jax.tree_util.tree_leaves', _tree_leaves, 'tree_leaves of a mesh-axes spec / of the result list, as sets')},
  props=('C19',))
free_fn.locals = {'new': SetOf(MeshName), 'existing': SetOf(MeshName)}
free_fn.assume_axioms = USED_AX


def _counter(ex, a, kw):
  """collections.Counter(names): multiplicities; count > 1 iff the name occurs at two positions"""
  names = ex.coerce(a[0], Names)
  C = MapOf(LName, INT)
  c = C.const('counter')
  k = z3.Const(fresh_name('k'), LName.z3())
  i, j = z3.Int(fresh_name('i')), z3.Int(fresh_name('j'))
  n = Names.len(names.t)
  w1 = z3.Function(fresh_name('occ1'), LName.z3(), z3.IntSort())
  w2 = z3.Function(fresh_name('occ2'), LName.z3(), z3.IntSort())
  inr = lambda e: z3.And(e >= 0, e < n)
  ex.assume(qforall([i], z3.Implies(inr(i), z3.And(C.has(c, Names.get(names.t, i)), C.get(c, Names.get(names.t, i)) >= 1)), patterns=[Names.get(names.t, i)]))
  ex.assume(qforall([k], z3.Implies(C.has(c, k), z3.And(inr(w1(k)), Names.get(names.t, w1(k)) == k)), patterns=[C.has(c, k)]))
  ex.assume(qforall([k], z3.Implies(z3.And(C.has(c, k), C.get(c, k) > 1), z3.And(inr(w1(k)), inr(w2(k)), w1(k) < w2(k), Names.get(names.t, w1(k)) == k, Names.get(names.t, w2(k)) == k)), patterns=[C.get(c, k)]))
  ex.assume(qforall([i, j], z3.Implies(z3.And(inr(i), inr(j), i < j, Names.get(names.t, i) == Names.get(names.t, j)), C.get(c, Names.get(names.t, i)) > 1),
                    patterns=[z3.MultiPattern(Names.get(names.t, i), Names.get(names.t, j))]))
  for f in C.keys_wf(c):
    ex.assume(f)
  return SV(C, c)


LB = {
  'collections.Counter': Handler('collections.Counter', _counter, 'Counter(names): multiplicities'),
  'get_logical_axis_rules': Handler('get_logical_axis_rules', lambda ex, a, kw: ex.fresh(Rules, 'ctx_rules'), 'rules from the dynamic context'),
  '_unassigned_axis': SV(R, R.mk('RUnassigned')),
  '_mesh_assignment_free': free_fn,
}
N = 'array_dim_names.names'
DUP = f"(is_(array_dim_names, 'DSeq') and exists(Int, Int, lambda i, j: 0 <= i and i < j and j < len({N}) and {N}[i] == {N}[j] and {N}[i] is not None))"


def _inv(res, upto):
  return [
    f'len({res}) == len({N})',
    # a dimension without a logical name stays None
    f"forall(Int, lambda p: implies(0 <= p and p < len({N}) and {N}[p] is None, is_({res}[p], 'RVal') and {res}[p].v is None))",
    # never one mesh axis for two dimensions of the same array
    f"forall(Int, Int, MeshAxisName, lambda p, q, m: implies(0 <= p and p < q and q < len({N}) and is_({res}[p], 'RVal') and is_({res}[q], 'RVal'), "
    f"not (m in mesh_axis_leaves({res}[p].v) and m in mesh_axis_leaves({res}[q].v))))",
    # an assigned dimension got the mesh axes of one of the processed rules for its name
    f"forall(Int, lambda p: implies(0 <= p and p < len({N}) and {N}[p] is not None and is_({res}[p], 'RVal'), "
    f"exists(Int, lambda j: 0 <= j and j < {upto} and rules[j].name == {N}[p] and rules[j].mesh == {res}[p].v)))",
    # rule priority: a dimension is still unassigned only if every processed rule for its name asked for a mesh axis that is taken
    f"forall(Int, Int, lambda p, j: implies(0 <= p and p < len({N}) and {N}[p] is not None and is_({res}[p], 'RUnassigned') and 0 <= j and j < {upto} and rules[j].name == {N}[p], "
    f"exists(MeshAxisName, lambda m: m in mesh_axis_leaves(rules[j].mesh) and m in used_mesh_axes({res}))))",
  ]


logical_to_mesh = function(
  F + '::_logical_to_mesh_axes', params=[('array_dim_names', DimNames), ('rules', Rules)], returns=ResOpt,
  raises={'ValueError': DUP},
  ensures=["is_(result, 'ResNone') == is_(array_dim_names, 'DNone')"] +
          [f"implies(is_(array_dim_names, 'DSeq'), {c})" for c in _inv('result.items', 'len(rules)')],
  invariants={0: _inv('result', '_k')},
  bindings=LB, props=('C19',))
logical_to_mesh.locals = {'result': Result, 'dups': Names}
logical_to_mesh.assume_axioms = USED_AX

# ---- logical_to_mesh_axes (public wrapper): None stays None; otherwise one PartitionSpec entry per dimension, an unassigned
# ---- dimension becoming None (= not sharded) and every assigned one keeping exactly its mesh axes ------------------------------
PSpecL = Union('PartitionSpecOrNone', [Ctor('PSNone', [], pytypes=('NoneType',), is_const=None), Ctor('PSpec', [('entries', Result)], pytypes=('PartitionSpec',))])
inner_l2m = UFn('inner_logical_to_mesh_axes', [DimNames, Rules], ResOpt, '_logical_to_mesh_axes(array_dim_names, rules) (contract above)')
RulesOpt = Union('RulesOrNone', [Ctor('RNone', [], pytypes=('NoneType',), is_const=None), Ctor('RSome', [('rules', Rules)], pytypes=('tuple', 'list', 'Sequence'), payload='rules')])
inner_l2m_opt = UFn('inner_logical_to_mesh_axes_opt', [DimNames, RulesOpt], ResOpt, '_logical_to_mesh_axes(array_dim_names, rules) with rules possibly None')
UNASSIGNED = GlobalVar('_unassigned_axis', R)


def _pspec_of(ex, a, kw):
  star = [x[1] for x in a if isinstance(x, tuple) and not isinstance(x, PyTuple) and len(x) == 2 and x[0] == '*']
  if len(star) != 1 or len(a) != 1:
    raise OutsideSubset('PartitionSpec(*entries) expected')
  es = ex.coerce(star[0], Result)
  return SV(PSpecL, PSpecL.mk('PSpec', es.t))


INNER = 'inner_logical_to_mesh_axes_opt(array_dim_names, rules)'
l2m_public = function(
  F + '::logical_to_mesh_axes', params=[('array_dim_names', DimNames), ('rules', RulesOpt)], free=[('_unassigned_axis', R)], returns=PSpecL,
  requires=["is_(_unassigned_axis, 'RUnassigned')"],
  ensures=[
    f"implies(is_({INNER}, 'ResNone'), result is None)",
    f"implies(is_({INNER}, 'ResList'), is_(result, 'PSpec') and len(result.entries) == len({INNER}.items))",
    f"implies(is_({INNER}, 'ResList'), forall(Int, lambda i: implies(0 <= i and i < len({INNER}.items), "
    f"(is_(result.entries[i], 'RVal') and result.entries[i].v is None) if is_({INNER}.items[i], 'RUnassigned') else result.entries[i] == {INNER}.items[i])))",
  ],
  bindings={'_logical_to_mesh_axes': inner_l2m_opt, 'jax.sharding.PartitionSpec': Handler('jax.sharding.PartitionSpec', _pspec_of, 'PartitionSpec(*entries): an injective constructor of the entries')},
  props=('C19',))
l2m_public.comp_elem_hint = R
l2m_public.defaults = {'rules': None}
