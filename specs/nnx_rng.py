"""Sidecar contracts: flax/nnx/rnglib.py (property C09, NNX part).

A key handed to user code is fold_in(key, count); what is proved is that the pre-image
(key, count) is the deterministic, never-repeated object the property describes. That distinct
pre-images give distinct keys is the cryptographic idealisation of jax.random (assumed).
Counter arrays are modelled by their (common) integer value; shapes are not modelled."""
import z3
from pyvc.vc import *  # noqa
from pyvc.heap import ObjSort

F = 'flax/nnx/rnglib.py'

Key = opaque('PRNGKey', is_str=False)
Tag = opaque('StreamTag', universe=['params', 'dropout', 'default'])
Shape = opaque('Shape', is_str=False)
Splits = opaque('Splits', is_str=False)
Splits.pytypes = ('int',)   # int or tuple of ints; only used to build the (unmodelled) counter shape
Shape.star_opaque = True
Key.attrs['shape'] = (Shape, None)
Key.getitem = lambda ex, base, idx: SV(Key, z3.Function('key_index', Key.z3(), z3.IntSort(), Key.z3())(base.t, ex.coerce(idx, INT).t))

fold_in = UFn('fold_in', [Key, INT], Key, 'jax.random.fold_in(key, count)')
split = UFn('random_split', [Key, Splits], Key, 'jax.random.split(key, splits)')
key_of_int = UFn('key_of_int', [INT], Key, 'jax.random.key(seed)')
key_index = UFn('key_index', [Key, INT], Key, 'key[i]')

RngKeyVar = ObjSort('RngKey', dict(value=Key, tag=Tag))
RngCountVar = ObjSort('RngCount', dict(value=INT, tag=Tag))
shape_of = UFn('key_shape', [Key], SeqOf(INT), 'key.shape')
RngKeyVar.attr_hooks = {'shape': lambda ex, b: ex.call_value(shape_of, [ex.getattr_(b, 'value')], {})}
RngStream = ObjSort('RngStream', dict(key=RngKeyVar, count=RngCountVar))

B = {
  'jax.random.fold_in': fold_in,
  'jax.random.split': split,
  'jax.random.key': key_of_int,
  'RngStream._check_valid_context': Skip('Object._check_valid_context (trace-level check)'),
}

stream_call = function(
  F + '::RngStream.__call__', params=[('self', RngStream)], returns=Key,
  ensures=[
    # the key handed out is fold_in(key, count) of the state BEFORE the call; the count advances by one
    'result == fold_in(old(self.key.value), old(self.count.value))',
    'self.count.value == old(self.count.value) + 1',
    'self.key.value == old(self.key.value)',
  ],
  modifies=['self.count.value'],
  bindings=B, props=('C09',))
B['RngStream.__call__'] = stream_call

# two draws from one stream never use the same count: a lemma over the contract
lemma(
  'two_draws_use_different_counts', params=[('s', RngStream)], returns=BOOL,
  ensures=['result'],
  body='''
c0 = s.count.value
k0 = s.key.value
a = s()
c1 = s.count.value
b = s()
return c1 == c0 + 1 and s.count.value == c0 + 2 and a == fold_in(k0, c0) and b == fold_in(k0, c1) and c0 != c1
''', bindings=B, props=('C09',), modifies=['s.count.value'])

# ---- Rngs._get_stream: missing stream falls back to 'default' ---------------------------------------
Streams = MapOf(Tag, RngStream)
Rngs = Union('Rngs', [Ctor('Rngs', [('streams', Streams)], pytypes=('Rngs',))])
Rngs.vars_hook = lambda ex, v: SV(Streams, Rngs.acc('Rngs', 'streams', v.t))

get_stream = function(
  F + '::Rngs._get_stream', params=[('self', Rngs), ('name', Tag), ('error_type', NONE)], returns=RngStream,
  raises={'error_type': "name not in self.streams and 'default' not in self.streams"},
  ensures=["result == (self.streams[name] if name in self.streams else self.streams['default'])"],
  bindings={'error_type': TypeTag('error_type', (TypeTag('Exception'),))}, props=('C09',))
get_stream.locals = {'rngs_vars': Streams}

# ---- split_rngs / restore_rngs ---------------------------------------------------------------------------
Path = opaque('Path', is_str=False)
Path.star_opaque = True
Other = opaque('OtherNode', is_str=False)
Node = Union('GraphNodeVal', [
  Ctor('NStream', [('s', RngStream)], pytypes=('RngStream',), payload='s'),
  Ctor('NOther', [('o', Other)], pytypes=('object',), payload='o'),
])
GItem = Union('GraphItem', [Ctor('GraphItem', [('path', Path), ('node', Node)], pytypes=('tuple',), tuple_like=True)])
Items = SeqOf(GItem)
Backup = Union('StreamBackup', [
  Ctor('B3', [('stream', RngStream), ('key', Key), ('count', INT)], pytypes=('tuple',), tuple_like=True),
])
Backups = SeqOf(Backup)
PredV = opaque('Predicate', is_str=False)
sel_key = UFn('pred_selects_key', [PredV, Path, RngKeyVar], BOOL, "predicate((*path, 'key'), stream.key)")
sel_count = UFn('pred_selects_count', [PredV, Path, RngCountVar], BOOL, "predicate((*path, 'count'), stream.count)")


def _pred_call(ex, f, args, kwargs):
  from pyvc.values import StarOf
  tup, var = args
  star = [x for x in tup if isinstance(x, StarOf)]
  lits = [x for x in tup if isinstance(x, Lit)]
  if len(star) != 1 or len(lits) != 1:
    raise OutsideSubset("predicate((*path, 'key'|'count'), variable) expected")
  var = ex.deref(var)
  if lits[0].py == 'key':
    return SV(BOOL, sel_key.decl()(f.t, star[0].v.t, ex.coerce(var, RngKeyVar).t))
  if lits[0].py == 'count':
    return SV(BOOL, sel_count.decl()(f.t, star[0].v.t, ex.coerce(var, RngCountVar).t))
  raise OutsideSubset('predicate on another attribute')


PredV.pytypes = ('Predicate',)
PredV.call_hook = _pred_call
RngCountVar.fields['shape'] = Shape

SB = dict(B)
SB.update({
  'Missing': TypeTag('Missing'),
  'filterlib.to_predicate': UFn('to_predicate', [opaque('FilterArg', is_str=False)], PredV, 'filterlib.to_predicate(only) (see C14)'),
  'graph.iter_graph': Handler('graph.iter_graph', lambda ex, a, kw: a[0], 'graph.iter_graph(node): the finite sequence of (path, node) pairs, each object once'),
  'jnp.zeros': Handler('jnp.zeros', lambda ex, a, kw: 0, 'jnp.zeros(shape, uint32): counters restart at 0 (shape not modelled)'),
  'jnp.uint32': NONEV,
  'jnp.array': Handler('jnp.array', lambda ex, a, kw: a[0], 'jnp.array(x, dtype) is x'),
  'SplitBackups': Handler('SplitBackups', lambda ex, a, kw: a[0], 'SplitBackups(backups) wraps the list'),
  'RngStream': TypeTag('RngStream'),
})
to_predicate = SB['filterlib.to_predicate']
FilterArg = to_predicate.argsorts[0]

IT = 'node[i]'
STREAM = f'{IT}.node.s'
SELECTED = (f"(is_({IT}.node, 'NStream') and pred_selects_key(to_predicate(only), {IT}.path, {STREAM}.key)"
            f" and pred_selects_count(to_predicate(only), {IT}.path, {STREAM}.count))")
DISTINCT = [
  # graph iteration visits every object once: the streams (and their Variables) are pairwise distinct objects
  "forall(Int, Int, lambda i, j: implies(0 <= i and i < j and j < len(node) and is_(node[i].node, 'NStream') and is_(node[j].node, 'NStream'),"
  " node[i].node.s != node[j].node.s and node[i].node.s.key != node[j].node.s.key and node[i].node.s.count != node[j].node.s.count))",
]
NEWKEY = f"random_split(fold_in(old({STREAM}.key.value), old({STREAM}.count.value)), splits)"


def _split_inv(upto):
  return [
    # processed, selected streams: the split uses the key of the draw just consumed; counters restart
    f"forall(Int, lambda i: implies(0 <= i and i < {upto} and {SELECTED}, "
    f"{STREAM}.key.value == (key_index({NEWKEY}, 0) if squeeze else {NEWKEY}) and {STREAM}.count.value == 0))",
    # everything else is untouched
    f"forall(Int, lambda i: implies(0 <= i and i < len(node) and is_({IT}.node, 'NStream') and not (i < {upto} and {SELECTED}), "
    f"{STREAM}.key.value == old({STREAM}.key.value) and {STREAM}.count.value == old({STREAM}.count.value)))",
  ]


split_rngs = function(
  F + '::split_rngs', params=[('node', Items), ('splits', Splits), ('only', FilterArg), ('squeeze', BOOL)], returns=Backups,
  requires=DISTINCT + ['not squeeze'],  # squeeze=True additionally requires splits == 1 (ValueError otherwise): not specified
  ensures=_split_inv('len(node)') + [
    "forall(Int, Int, lambda a, b: implies(0 <= a and a < b and b < len(result), result[a].stream != result[b].stream and result[a].stream.key != result[b].stream.key and result[a].stream.count != result[b].stream.count))",
    # every backup resumes the ORIGINAL stream just after the consumed draw: (stream, old key, old count + 1)
    "forall(Int, lambda b: implies(0 <= b and b < len(result), exists(Int, lambda i: 0 <= i and i < len(node) and "
    f"{SELECTED} and result[b].stream == {STREAM} and result[b].key == old({STREAM}.key.value) and result[b].count == old({STREAM}.count.value) + 1)))",
    f"forall(Int, lambda i: implies(0 <= i and i < len(node) and {SELECTED}, exists(Int, lambda b: 0 <= b and b < len(result) and result[b].stream == {STREAM})))",
  ],
  invariants={0: _split_inv('_k') + [
    "forall(Int, Int, lambda a, b: implies(0 <= a and a < b and b < len(backups), backups[a].stream != backups[b].stream and backups[a].stream.key != backups[b].stream.key and backups[a].stream.count != backups[b].stream.count))",
    "forall(Int, lambda b: implies(0 <= b and b < len(backups), exists(Int, lambda i: 0 <= i and i < _k and "
    f"{SELECTED} and backups[b].stream == {STREAM} and backups[b].key == old({STREAM}.key.value) and backups[b].count == old({STREAM}.count.value) + 1)))",
    f"forall(Int, lambda i: implies(0 <= i and i < _k and {SELECTED}, exists(Int, lambda b: 0 <= b and b < len(backups) and backups[b].stream == {STREAM})))",
  ]},
  bindings=SB, props=('C09',))
split_rngs.locals = {'backups': Backups, 'predicate': PredV, 'key': Key}
split_rngs.inv_hints = {0: ['backups[len(backups) - 1].stream', 'len(backups) - 1']}
IN_NODE = "exists(Int, lambda i: 0 <= i and i < len(node) and is_(node[i].node, 'NStream') and r == node[i].node.s.%s)"
split_rngs.frame_except = {'RngKey.value': IN_NODE % 'key', 'RngCount.value': IN_NODE % 'count'}

IN_BK = "exists(Int, lambda b: 0 <= b and b < len(backups) and r == backups[b].stream.%s)"
restore_rngs = function(
  F + '::restore_rngs', params=[('backups', Backups)],
  requires=["forall(Int, Int, lambda a, b: implies(0 <= a and a < b and b < len(backups), backups[a].stream != backups[b].stream"
            " and backups[a].stream.key != backups[b].stream.key and backups[a].stream.count != backups[b].stream.count))"],
  ensures=["forall(Int, lambda b: implies(0 <= b and b < len(backups), backups[b].stream.key.value == backups[b].key"
           " and backups[b].stream.count.value == backups[b].count))"],
  invariants={0: ["forall(Int, lambda b: implies(0 <= b and b < _k, backups[b].stream.key.value == backups[b].key"
                  " and backups[b].stream.count.value == backups[b].count))"]},
  bindings=SB, props=('C09',))
restore_rngs.frame_except = {'RngKey.value': IN_BK % 'key', 'RngCount.value': IN_BK % 'count'}

# split ; restore resumes the original stream one draw later: no key is replayed
lemma(
  'split_then_restore_resumes', params=[('node', Items), ('splits', Splits), ('only', FilterArg), ('squeeze', BOOL)], returns=BOOL,
  requires=DISTINCT + ['not squeeze'],
  ensures=[
    f"forall(Int, lambda i: implies(0 <= i and i < len(node) and {SELECTED}, "
    f"{STREAM}.key.value == old({STREAM}.key.value) and {STREAM}.count.value == old({STREAM}.count.value) + 1))",
    f"forall(Int, lambda i: implies(0 <= i and i < len(node) and is_({IT}.node, 'NStream') and not {SELECTED}, "
    f"{STREAM}.key.value == old({STREAM}.key.value) and {STREAM}.count.value == old({STREAM}.count.value)))",
  ],
  body='''
b = split_rngs(node, splits, only, squeeze)
restore_rngs(b)
return True
''', bindings={'split_rngs': split_rngs, 'restore_rngs': restore_rngs}, props=('C09',))
LEMMAS['split_then_restore_resumes'].frame_except = split_rngs.frame_except

# ---- reseed -------------------------------------------------------------------------------------------------
RngValue = Union('RngValue', [Ctor('VInt', [('i', INT)], pytypes=('int',), payload='i'),
                              Ctor('VKey', [('k', Key)], pytypes=('Array',), payload='k')])
StreamKeys = MapOf(Tag, RngValue)
NEWK = f"(key_of_int(stream_keys[{STREAM}.key.tag].i) if is_(stream_keys[{STREAM}.key.tag], 'VInt') else stream_keys[{STREAM}.key.tag].k)"
HIT = f"(is_({IT}.node, 'NStream') and {STREAM}.key.tag in stream_keys)"


def _reseed_inv(upto):
  return [
    f"forall(Int, lambda i: implies(0 <= i and i < {upto} and {HIT}, {STREAM}.key.value == {NEWK} and {STREAM}.count.value == 0))",
    f"forall(Int, lambda i: implies(0 <= i and i < len(node) and is_({IT}.node, 'NStream') and not (i < {upto} and {HIT}), "
    f"{STREAM}.key.value == old({STREAM}.key.value) and {STREAM}.count.value == old({STREAM}.count.value)))",
    f"forall(Int, lambda i: implies(0 <= i and i < len(node) and is_({IT}.node, 'NStream'), {STREAM}.key.tag == old({STREAM}.key.tag)))",
  ]


reseed = function(
  F + '::reseed', params=[('node', Items), ('stream_keys', StreamKeys)],
  requires=DISTINCT,
  # a selected stream whose key is not a scalar cannot be reseeded
  raises_any=('ValueError',),
  ensures=_reseed_inv('len(node)'),
  invariants={0: _reseed_inv('_k')},
  bindings=SB, props=('C09',))
reseed.locals = {}
reseed.frame_except = {'RngKey.value': IN_NODE % 'key', 'RngCount.value': IN_NODE % 'count'}
