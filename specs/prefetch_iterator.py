"""Sidecar contracts: flax/training/prefetch_iterator.py (property C20, thread part).

PrefetchIterator is a monitor: `_buffer`, `_active`, `_error` are only touched while holding
`self._cond`. Each critical section is verified against the state at its last (re)acquisition
(`acq(...)`), with every protected field havocked at each acquisition: that covers every
interleaving, PROVIDED every access to the protected fields is inside the monitor -- which is
the separate lock-discipline obligation below."""
import ast
import z3
from pyvc.vc import *  # noqa
from pyvc.heap import ObjSort, MonitorSort
from pyvc import extract

F = 'flax/training/prefetch_iterator.py'

Item = opaque('PItem', is_str=False)
Exc = opaque('Exc', is_str=False, nullable=True)
Exc.exc_tag = 'StoredError'
Thread = opaque('Thread', is_str=False)

DataIter = ObjSort('DataIter', dict(src=SeqOf(Item), pos=INT, fail_at=INT))
PI = ObjSort('PrefetchIterator', dict(
  _data_iter=DataIter, buffer_size=INT, _cond=MonitorSort(), _buffer=SeqOf(Item), _active=BOOL,
  _error=Exc, _thread=Thread), protected=('_buffer', '_active', '_error'),
  # an error (or the source's StopIteration) is only ever stored together with clearing _active
  monitor_inv=['implies(self._error is not None, not self._active)'])


def _next(ex, a, kw):
  """next(it) on the ghost source: item src[pos] (pos advances), or the source's exception at
  position fail_at, or StopIteration at the end."""
  it = ex.deref(a[0])
  H = lambda f: z3.Select(ex.heap_arr(DataIter, f), it.t)
  S = SeqOf(Item)
  pos, src, fail = H('pos'), H('src'), H('fail_at')
  which = ex.choose([('item', z3.And(pos != fail, pos >= 0, pos < S.len(src))), ('srcerr', pos == fail),
                     ('stop', z3.And(pos != fail, pos >= S.len(src)))], 'next')
  if which == 'item':
    ex.heap[('DataIter', 'pos')] = z3.Store(ex.heap_arr(DataIter, 'pos'), it.t, pos + 1)
    ex.heap_written.add(('DataIter', 'pos'))
    return SV(Item, S.get(src, pos))
  from pyvc.symexec import RaiseEx
  from pyvc.values import ExcVal
  if which == 'srcerr':
    raise RaiseEx(ExcVal(TypeTag('SourceError', (TypeTag('Exception'),))))
  raise RaiseEx(ExcVal(TypeTag('StopIteration', (TypeTag('Exception'),))))


B = {'next': Handler('next', _next, 'next() on a ghost source sequence with an optional failing position')}

pi_next = function(
  F + '::PrefetchIterator.__next__', params=[('self', PI)], returns=Item,
  # FIFO: whenever an item is buffered it is the HEAD that is delivered, and it is removed;
  # the stored error / end of iteration is only reported once the buffer is empty
  ensures=['len(acq(self._buffer)) > 0',
           'result == acq(self._buffer)[0]',
           'len(self._buffer) == len(acq(self._buffer)) - 1',
           'forall(Int, lambda i: implies(0 <= i and i < len(self._buffer), self._buffer[i] == acq(self._buffer)[i + 1]))',
           'self._active == acq(self._active) and self._error == acq(self._error)'],
  raises={'StoredError': 'len(acq(self._buffer)) == 0 and acq(self._error) is not None',
          'StopIteration': 'len(acq(self._buffer)) == 0 and acq(self._error) is None'},
  modifies=['self._buffer', 'self._active', 'self._error'],
  bindings=B, props=('C20',))

pi_close = function(
  F + '::PrefetchIterator.close', params=[('self', PI)],
  ensures=['not self._active', 'seq_eq(self._buffer, acq(self._buffer))', 'self._error == acq(self._error)'],
  modifies=['self._buffer', 'self._active', 'self._error'],
  bindings=B, props=('C20',))

pi_loop = function(
  F + '::PrefetchIterator._prefetch_loop', params=[('self', PI)],
  invariants={0: []},
  modifies=['self._buffer', 'self._active', 'self._error', 'self._data_iter.pos'],
  bindings=B, props=('C20',))
pi_loop.locals = {'e': Exc, 'item': Item}
# what a critical section of the producer may do to the protected state:
#  (a) nothing, (b) append exactly the item just taken from the source at the TAIL,
#  (c) store the caught exception and clear _active, leaving the buffer alone
pi_loop.monitor_trans = [
  '(seq_eq(self._buffer, acq(self._buffer)) and self._active == acq(self._active) and self._error == acq(self._error))'
  ' or (len(self._buffer) == len(acq(self._buffer)) + 1 and self._buffer[len(self._buffer) - 1] == item'
  '     and forall(Int, lambda i: implies(0 <= i and i < len(acq(self._buffer)), self._buffer[i] == acq(self._buffer)[i]))'
  '     and self._active == acq(self._active) and self._error == acq(self._error))'
  ' or (seq_eq(self._buffer, acq(self._buffer)) and not self._active and self._error is not None)',
]


# ---- lock discipline (structural obligation over the real class body) ----------------------------
def _lock_discipline():
  src, tree = extract.parse_file(F)
  cls = [n for n in tree.body if isinstance(n, ast.ClassDef) and n.name == 'PrefetchIterator'][0]
  prot = set(PI.protected)
  out = []

  def is_cond(e):
    return isinstance(e, ast.Attribute) and e.attr == '_cond' and isinstance(e.value, ast.Name) and e.value.id == 'self'

  for m in [n for n in cls.body if isinstance(n, ast.FunctionDef)]:
    # nested functions / lambdas that are only ever handed to self._cond.wait_for run under the lock
    nested = {n.name for n in ast.walk(m) if isinstance(n, ast.FunctionDef) and n is not m}
    under_lock = set()
    for n in ast.walk(m):
      if isinstance(n, ast.Call) and isinstance(n.func, ast.Attribute) and n.func.attr == 'wait_for' and is_cond(n.func.value):
        for a in n.args:
          if isinstance(a, ast.Name):
            under_lock.add(a.id)
    other_uses = {n.id for n in ast.walk(m) if isinstance(n, ast.Name) and n.id in nested and isinstance(n.ctx, ast.Load)} - under_lock
    bad = []
    published = [m.name != '__init__']

    def visit(node, locked):
      if isinstance(node, ast.With) and any(is_cond(i.context_expr) for i in node.items):
        for ch in node.body:
          visit(ch, True)
        return
      if isinstance(node, ast.FunctionDef) and node is not m:
        if node.name in under_lock and node.name not in other_uses:
          return
      if isinstance(node, ast.Call) and isinstance(node.func, ast.Attribute) and node.func.attr == 'wait_for' and is_cond(node.func.value):
        return  # predicate evaluated by wait_for while holding the lock
      if isinstance(node, ast.Attribute) and node.attr in prot and isinstance(node.value, ast.Name) and node.value.id == 'self':
        if not locked and published[0]:
          bad.append((node.attr, node.lineno))
      for ch in ast.iter_child_nodes(node):
        visit(ch, locked)
      # publication point: the object becomes visible to the producer thread at Thread.start()
      if isinstance(node, ast.Expr) and isinstance(node.value, ast.Call) and isinstance(node.value.func, ast.Attribute) and node.value.func.attr == 'start':
        published[0] = True
    for st in m.body:
      visit(st, False)
    out.append((f'lock-discipline[{m.name}]', not bad,
                'every access to _buffer/_active/_error is inside `with self._cond` (or before Thread.start())' if not bad
                else 'unprotected access to ' + ', '.join(f'self.{a} at line {ln}' for a, ln in bad)))
  return out


def _replay_init_race():
  """forced schedule: the source fails on its first next(); the constructor is delayed right
  after Thread.start() so that the producer stores the error first"""
  import threading
  import time
  import warnings
  import importlib
  mod = importlib.import_module('flax.training.prefetch_iterator')

  class Boom(Exception):
    pass

  def src():
    raise Boom('source failed at position 0')
    yield  # pragma: no cover
  real_start = threading.Thread.start

  def slow_start(self):
    real_start(self)
    time.sleep(0.3)
  threading.Thread.start = slow_start
  try:
    with warnings.catch_warnings():
      warnings.simplefilter('ignore')
      it = mod.PrefetchIterator(src())
  finally:
    threading.Thread.start = real_start
  try:
    next(it)
    return True, 'next() returned an item although the source failed'
  except Boom:
    return False, 'the source exception reached the consumer'
  except StopIteration:
    return True, 'schedule: producer stores the source error before the constructor finishes -> constructor overwrites _error with None -> consumer gets StopIteration; the source exception is lost'


custom(F + '::PrefetchIterator', _lock_discipline, props=('C20',), replay=_replay_init_race)
