"""Sidecar contracts: flax/serialization.py state-dict handlers (property C10).

Trees are opaque (`Tree`); the recursive entry points to_state_dict / from_state_dict are
uninterpreted functions sd(t) / fsd(t, s) inside the handlers (the handlers' contracts are what
the induction over the tree would use at each node; the induction itself is not mechanised).
"""
import z3
from pyvc.vc import *  # noqa
from pyvc.native import NativeHarness as NH

F = 'flax/serialization.py'

StrKey = Key = opaque('StrKey', universe=['a', 'b', '0', '1', 'c', '2', 'name', 'fields', 'values'])
Tree = opaque('Tree', is_str=False, universe=['t0', 't1', 't2'])
SD = opaque('SD', is_str=False, universe=['s0', 's1', 's2'])
TreeSeq = SeqOf(Tree)
SDMap = MapOf(Key, SD)
TreeMap = MapOf(Key, Tree)

sd = UFn('sd', [Tree], SD, 'to_state_dict on a sub-tree (recursive entry point, uninterpreted)')
fsd = UFn('fsd', [Tree, SD, Key], Tree, 'from_state_dict(target, state, name=path_component) on a sub-tree (uninterpreted); the name is what an error below it reports as this level of the path')


def _from_state_dict(ex, a, kw):
  bound, ok = bind_call(['target', 'state', 'name'], a, kw, defaults={'name': Lit('.')})
  if not ok:
    raise OutsideSubset('from_state_dict(target, state, name=...) expected')
  return ex.call_value(fsd, [bound['target'], bound['state'], bound['name']], {})   # name: the path component used in error messages


B = {
  'to_state_dict': sd,
  'from_state_dict': Handler('from_state_dict', _from_state_dict, 'recursive entry point, uninterpreted; name= is the path component that error messages report'),
  'current_path': Handler('current_path', lambda ex, a, kw: Lit('<path>'), 'error-message text'),
}

STR = "str_of_int"  # builtin str() on ints: injective uninterpreted function into StrKey

# ---- _tuple_to_dict / _dict_to_tuple (used for shapes and chunk lists) ---------------------------
Elem = opaque('TElem', is_str=False, universe=['e0', 'e1', 'e2'])
ElemSeq = SeqOf(Elem)
ElemMap = MapOf(Key, Elem)

tuple_to_dict = function(
  F + '::_tuple_to_dict', params=[('tpl', ElemSeq)], returns=ElemMap,
  ensures=[
    'len(result) == len(tpl)',
    'forall(Int, lambda i: implies(0 <= i and i < len(tpl), str(i) in result and result[str(i)] == tpl[i]))',
    'forall(StrKey, lambda k: implies(k in result, exists(Int, lambda i: 0 <= i and i < len(tpl) and k == str(i))))',
  ],
  props=('C10',), native=NH('flax.serialization', '_tuple_to_dict'))
tuple_to_dict.str_sort = Key
tuple_to_dict.locals = {}

dict_to_tuple = function(
  F + '::_dict_to_tuple', params=[('dct', ElemMap)], returns=ElemSeq,
  ensures=[
    'len(result) == len(dct)',
    # entries are read BY KEY str(i), never by position / iteration order
    'forall(Int, lambda i: implies(0 <= i and i < len(dct), result[i] == dct[str(i)]))',
  ],
  props=('C10',),
  native=NH('flax.serialization', '_dict_to_tuple', bound=4, pre_filter=lambda a: all(str(i) in a['dct'] for i in range(len(a['dct']))),
            extra=[dict(dct={str(i): 'e%d' % (i % 3) for i in range(12)})]))
dict_to_tuple.str_sort = Key

lemma(
  'tuple_dict_roundtrip', params=[('t', ElemSeq)], returns=ElemSeq,
  ensures=['seq_eq(result, t)'],
  body='''
d = _tuple_to_dict(t)
return _dict_to_tuple(d)
''', bindings={'_tuple_to_dict': tuple_to_dict, '_dict_to_tuple': dict_to_tuple}, props=('C10',))
LEMMAS['tuple_dict_roundtrip'].str_sort = Key

# ---- list / tuple handlers -------------------------------------------------------------------------
list_state_dict = function(
  F + '::_list_state_dict', params=[('xs', TreeSeq)], returns=SDMap,
  ensures=[
    'len(result) == len(xs)',
    'forall(Int, lambda i: implies(0 <= i and i < len(xs), str(i) in result and result[str(i)] == sd(xs[i])))',
    'forall(StrKey, lambda k: implies(k in result, exists(Int, lambda i: 0 <= i and i < len(xs) and k == str(i))))',
  ],
  bindings=B, props=('C10',))
list_state_dict.str_sort = Key

restore_list = function(
  F + '::_restore_list', params=[('xs', TreeSeq), ('state_dict', SDMap)], returns=TreeSeq,
  requires=['forall(Int, lambda i: implies(0 <= i and i < len(xs), str(i) in state_dict))'],
  # a list / tuple of different length raises
  raises={'ValueError': 'len(state_dict) != len(xs)'},
  ensures=[
    'len(result) == len(xs)',
    # entry i is restored from the entry stored under key str(i)
    'forall(Int, lambda i: implies(0 <= i and i < len(xs), result[i] == fsd(xs[i], state_dict[str(i)], str(i))))',
  ],
  invariants={0: [
    'len(ys) == _k',
    'forall(Int, lambda i: implies(0 <= i and i < _k, ys[i] == fsd(xs[i], state_dict[str(i)], str(i))))',
  ]},
  bindings=B, props=('C10',))
restore_list.str_sort = Key
restore_list.locals = {'ys': TreeSeq}

# ---- dict handler ------------------------------------------------------------------------------------
dict_state_dict = function(
  F + '::_dict_state_dict', params=[('xs', TreeMap)], returns=SDMap,
  raises_any=('ValueError',),  # "keys do not have a unique string representation": impossible for str keys; not specified
  ensures=[
    'dom(result) == dom(xs)',
    'forall(StrKey, lambda k: implies(k in xs, result[k] == sd(xs[k])))',
  ],
  bindings=B, props=('C10',))
dict_state_dict.str_sort = Key
dict_state_dict.locals = {'str_keys': SetOf(Key)}

restore_dict = function(
  F + '::_restore_dict', params=[('xs', TreeMap), ('states', SDMap)], returns=TreeMap,
  # a target entry missing from the saved state raises; surplus saved keys are ignored
  raises={'ValueError': 'exists(StrKey, lambda k: k in xs and not (k in states))'},
  ensures=[
    'dom(result) == dom(xs)',
    'forall(StrKey, lambda k: implies(k in xs, result[k] == fsd(xs[k], states[k], k)))',
  ],
  bindings=B, props=('C10',))
restore_dict.str_sort = Key
restore_dict.locals = {'diff': SetOf(Key)}

# native readings of the uninterpreted recursive entry points on *leaf* trees (python strings
# are unregistered leaves: to_state_dict(t) is t, from_state_dict(t, s) is s)
sd.native = lambda t: t
fsd.native = lambda t, s, name: s
SD.universe = Tree.universe = ['t0', 't1', 't2']
for _f, _n in ((list_state_dict, '_list_state_dict'), (restore_list, '_restore_list'),
               (dict_state_dict, '_dict_state_dict'), (restore_dict, '_restore_dict')):
  _f.native = NH('flax.serialization', _n)


def _list_args(fn, c):
  return fn(*[list(v) if isinstance(v, tuple) else v for v in c.values()])


list_state_dict.native.call = _list_args
restore_list.native.call = _list_args
restore_list.native.pre_filter = lambda a: True
SDMap.abstract = lambda py: dict(py)
TreeSeq.abstract = lambda py: tuple(py)

# ---- namedtuple handler ---------------------------------------------------------------------------------
KeySeq = SeqOf(Key)


def _abs_nt(py):
  return ADTVal('NT', fields=tuple(py._fields), vals={k: getattr(py, k) for k in py._fields})


def _conc_nt(sp):
  import collections
  return collections.namedtuple('NT', list(sp.fields))(*[sp.vals[k] for k in sp.fields])


def _enum_nt(bound):
  import itertools
  out = []
  names = ['a', 'b', 'c'][: bound + 1]  # overlaps the key universe used for the saved state
  for n in range(0, bound + 1):
    for fs in itertools.permutations(names, n):
      for vs in itertools.product(Tree.universe[:2], repeat=n):
        out.append(ADTVal('NT', fields=tuple(fs), vals=dict(zip(fs, vs))))
  return out


NT = Union('NT', [Ctor('NT', [('fields', KeySeq), ('vals', TreeMap)], pytypes=('tuple', 'NamedTuple'))],
           abstract=_abs_nt, concretise=_conc_nt, enumerate=_enum_nt)
# observers of a namedtuple instance
NT.attr_hooks = {'_fields': lambda ex, v: SV(KeySeq, NT.acc('NT', 'fields', v.t))}
NT.getattr_dyn = lambda ex, v, name: SV(Tree, TreeMap.get(NT.acc('NT', 'vals', v.t), ex.coerce(name, Key).t))


def _nt_construct(ex, v, args, kwargs):
  """type(xs)(**fields): a namedtuple of the same class; the keyword names must be exactly the
  class's field names (TypeError otherwise)."""
  if args or set(kwargs) != {'**'}:
    raise OutsideSubset('namedtuple construction form')
  m = ex.coerce(kwargs['**'], TreeMap)
  fields = NT.acc('NT', 'fields', v.t)
  fset = ex.set_from_seq(SV(KeySeq, fields))
  ex.oblige(TreeMap.dom(m.t) == fset.t, 'safety:namedtuple-kwargs')
  return SV(NT, NT.mk('NT', fields, m.t))


NT.construct_like = _nt_construct
NTWF = ['forall(Int, Int, lambda i, j: implies(0 <= i and i < j and j < len(nt.fields), nt.fields[i] != nt.fields[j]))',
        'forall(StrKey, lambda k: (k in nt.vals) == exists(Int, lambda i: 0 <= i and i < len(nt.fields) and nt.fields[i] == k))']

namedtuple_state_dict = function(
  F + '::_namedtuple_state_dict', params=[('nt', NT)], returns=SDMap,
  requires=NTWF,
  ensures=['dom(result) == dom(nt.vals)',
           'forall(StrKey, lambda k: implies(k in nt.vals, result[k] == sd(nt.vals[k])))'],
  bindings=B, props=('C10',), native=NH('flax.serialization', '_namedtuple_state_dict'))

restore_namedtuple = function(
  F + '::_restore_namedtuple', params=[('xs', NT), ('state_dict', SDMap)], returns=NT,
  requires=[c.replace('nt.', 'xs.') for c in NTWF] + [
    # the legacy {'name','fields','values'} encoding (pre-2022 checkpoints) is not specified
    "not (('name' in state_dict) and ('fields' in state_dict) and ('values' in state_dict))"],
  # differing field names raise: the saved keys must be EXACTLY the field names
  raises={'ValueError': 'dom(state_dict) != dom(xs.vals)'},
  ensures=['seq_eq(result.fields, xs.fields)',
           'dom(result.vals) == dom(xs.vals)',
           'forall(StrKey, lambda k: implies(k in xs.vals, result.vals[k] == fsd(xs.vals[k], state_dict[k], k)))'],
  bindings=B, props=('C10',), native=NH('flax.serialization', '_restore_namedtuple'))
restore_namedtuple.locals = {'fields': TreeMap, 'sd_keys': SetOf(Key), 'nt_keys': SetOf(Key)}

# ---- struct.dataclass handlers: the state dict holds exactly the data fields ---------------------------------------------
ST = 'flax/struct.py'
DCObj = opaque('DataclassInstance', is_str=False)
dc_field = UFn('dataclass_field_value', [DCObj, Key], Tree, 'getattr(x, name) of a dataclass instance')
dc_replace = UFn('dataclass_replace', [DCObj, TreeMap], DCObj, 'x.replace(**updates)')
DCObj.getattr_dyn = lambda ex, v, name: ex.call_value(dc_field, [v, ex.coerce(name, Key)], {})


def _dc_replace(ex, v, a, kw):
  upd = ex.coerce(kw['**'], TreeMap)
  ex.ghost['updates'] = upd
  return ex.call_value(dc_replace, [v, upd], {})


DCObj.methods = {'replace': _dc_replace}
KeySeq = SeqOf(Key)
DISTINCT = 'forall(Int, Int, lambda i, j: implies(0 <= i and i < j and j < len(data_fields), data_fields[i] != data_fields[j]))'
IN_FIELDS = lambda k: f'exists(Int, lambda i: 0 <= i and i < len(data_fields) and data_fields[i] == {k})'

dc_to_state_dict = function(
  ST + '::dataclass.<locals>.to_state_dict', params=[('x', DCObj)], free=[('data_fields', KeySeq)], returns=SDMap,
  requires=[DISTINCT],
  ensures=[
    f'forall(StrKey, lambda k: (k in result) == {IN_FIELDS("k")})',
    'forall(Int, lambda i: implies(0 <= i and i < len(data_fields), result[data_fields[i]] == sd(dataclass_field_value(x, data_fields[i]))))',
  ],
  bindings={'serialization.to_state_dict': sd}, props=('C10',))
dc_to_state_dict.dict_hint = SDMap
dc_to_state_dict.str_sort = Key

dc_from_state_dict = function(
  ST + '::dataclass.<locals>.from_state_dict', params=[('x', DCObj), ('state', SDMap)], free=[('data_fields', KeySeq)], returns=DCObj,
  requires=[DISTINCT],
  # a data field missing from the saved state raises, and so does ANY saved name that is not a data field
  # (static fields are not part of the state: a saved entry named after one is an unknown field too)
  raises={'ValueError': f'exists(Int, lambda i: 0 <= i and i < len(data_fields) and not (data_fields[i] in state)) or '
                        f'exists(StrKey, lambda k: k in state and not {IN_FIELDS("k")})'},
  ensures=[
    "result == dataclass_replace(x, ghost('updates'))",
    f"forall(StrKey, lambda k: (k in ghost('updates')) == {IN_FIELDS('k')})",
    "forall(Int, lambda i: implies(0 <= i and i < len(data_fields), ghost('updates')[data_fields[i]] == fsd(dataclass_field_value(x, data_fields[i]), state[data_fields[i]], data_fields[i])))",
  ],
  invariants={0: [
    'forall(StrKey, lambda k: (k in updates) == exists(Int, lambda i: 0 <= i and i < _k and data_fields[i] == k))',
    'forall(Int, lambda i: implies(0 <= i and i < _k, updates[data_fields[i]] == fsd(dataclass_field_value(x, data_fields[i]), old(state)[data_fields[i]], data_fields[i])))',
    'forall(StrKey, lambda k: (k in state) == (k in old(state) and not exists(Int, lambda i: 0 <= i and i < _k and data_fields[i] == k)))',
    'forall(StrKey, lambda k: implies(k in state, state[k] == old(state)[k]))',
    'forall(Int, lambda i: implies(0 <= i and i < _k, data_fields[i] in old(state)))',
  ]},
  bindings=dict(B, **{'serialization.from_state_dict': B['from_state_dict'], 'serialization.current_path': B['current_path']}), props=('C10',))
dc_from_state_dict.locals = {'updates': TreeMap}
dc_from_state_dict.dict_hint = TreeMap
dc_from_state_dict.str_sort = Key

# ---- FrozenDict handlers (flax/core/frozen_dict.py): same laws as the dict handlers ------------------------------------
FZ = 'flax/core/frozen_dict.py'
FB = {
  'serialization.to_state_dict': sd,
  'serialization.from_state_dict': B['from_state_dict'],
  'serialization.current_path': B['current_path'],
  'FrozenDict': Handler('FrozenDict', lambda ex, a, kw: a[0], 'FrozenDict(mapping): seen through its mapping view (same keys, same values)'),
}
frozen_state_dict = function(
  FZ + '::_frozen_dict_state_dict', params=[('xs', TreeMap)], returns=SDMap,
  ensures=['dom(result) == dom(xs)', 'forall(StrKey, lambda k: implies(k in xs, result[k] == sd(xs[k])))'],
  bindings=FB, props=('C10',))
frozen_state_dict.str_sort = Key
restore_frozen = function(
  FZ + '::_restore_frozen_dict', params=[('xs', TreeMap), ('states', SDMap)], returns=TreeMap,
  raises={'ValueError': 'exists(StrKey, lambda k: k in xs and not (k in states))'},
  ensures=['dom(result) == dom(xs)', 'forall(StrKey, lambda k: implies(k in xs, result[k] == fsd(xs[k], states[k], k)))'],
  bindings=FB, props=('C10',))
restore_frozen.str_sort = Key
restore_frozen.locals = {'diff': SetOf(Key)}

# ---- to_state_dict / from_state_dict: the registry dispatch (the recursion itself is the uninterpreted sd / fsd above) ----------
AnyT = opaque('AnyTarget', is_str=False)
TyObj = opaque('TypeKey', is_str=False)
AnyT.type_hook = lambda ex, v: ex.call_value(type_key, [v], {})
ToFn = opaque('ToStateDictFn', is_str=False)
FromFn = opaque('FromStateDictFn', is_str=False)
HPair = Union('HandlerPair', [Ctor('HandlerPair', [('to', ToFn), ('frm', FromFn)], pytypes=('tuple',), tuple_like=True)])
Registry = MapOf(TyObj, HPair)
type_key = UFn('type_of_target', [AnyT], TyObj, 'type(target)')
is_nt = UFn('is_namedtuple', [AnyT], BOOL, '_is_namedtuple(target)')
apply_to = UFn('apply_to_state_dict_fn', [ToFn, AnyT], AnyT, 'ty_to_state_dict(target)')
apply_from = UFn('apply_from_state_dict_fn', [FromFn, AnyT, AnyT], AnyT, 'ty_from_state_dict(target, state)')
ToFn.call_hook = lambda ex, f, a, kw: ex.call_value(apply_to, [f, a[0]], {})
FromFn.call_hook = lambda ex, f, a, kw: ex.call_value(apply_from, [f, a[0], a[1]], {})
NT_MARK = GlobalVar('_NamedTuple', TyObj)
REGKEY = '(_NamedTuple if is_namedtuple(target) else type_of_target(target))'
# a state dict seen as an arbitrary value: its keys (if it is a dict) are strings by the handlers' contracts above
AnyT.isinstance_hook = lambda ex, v, names: z3.Bool('state_is_dict') if names == {'dict'} else (_ for _ in ()).throw(OutsideSubset('isinstance ' + repr(names)))
AnyT.methods = {'keys': lambda ex, v, a, kw: ex.fresh(SeqOf(Key), 'state_keys')}
DISPATCH_B = {'_is_namedtuple': is_nt, '_NamedTuple': NT_MARK, 'dict': TypeTag('dict'), 'str': TypeTag('str'),
              '_record_path': Handler('_record_path', lambda ex, a, kw: (NONEV, lambda: None), 'error-path bookkeeping only (push / pop of the name)')}
to_sd_dispatch = function(
  F + '::to_state_dict', params=[('target', AnyT)], free=[('_STATE_DICT_REGISTRY', Registry)], returns=AnyT,
  ensures=[f"implies(not ({REGKEY} in _STATE_DICT_REGISTRY), result == target)",          # unregistered types are leaves: returned as they are
           f"implies({REGKEY} in _STATE_DICT_REGISTRY, result == apply_to_state_dict_fn(_STATE_DICT_REGISTRY[{REGKEY}].to, target))"],
  invariants={0: []},      # the loop only asserts that the keys of a dict-shaped state are strings
  bindings=DISPATCH_B, modifies=[], props=('C10',))
from_sd_dispatch = function(
  F + '::from_state_dict', params=[('target', AnyT), ('state', AnyT), ('name', Key)], free=[('_STATE_DICT_REGISTRY', Registry)], returns=AnyT,
  ensures=[f"implies(not ({REGKEY} in _STATE_DICT_REGISTRY), result == state)",           # a leaf is replaced by the stored value
           f"implies({REGKEY} in _STATE_DICT_REGISTRY, result == apply_from_state_dict_fn(_STATE_DICT_REGISTRY[{REGKEY}].frm, target, state))"],
  bindings=DISPATCH_B, modifies=[], props=('C10',))
from_sd_dispatch.defaults = {'name': '.'}

register_state = function(
  F + '::register_serialization_state', params=[('ty', TyObj), ('ty_to_state_dict', ToFn), ('ty_from_state_dict', FromFn), ('override', BOOL)],
  free=[('_STATE_DICT_REGISTRY', Registry)], assigns=('_STATE_DICT_REGISTRY',),
  raises={'ValueError': 'ty in _STATE_DICT_REGISTRY and not override'},      # a second registration does not silently replace the first
  ensures=['ty in _STATE_DICT_REGISTRY and _STATE_DICT_REGISTRY[ty].to == ty_to_state_dict and _STATE_DICT_REGISTRY[ty].frm == ty_from_state_dict',
           'forall(TypeKey, lambda t: implies(t != ty, (t in _STATE_DICT_REGISTRY) == (t in old(_STATE_DICT_REGISTRY)) and '
           'implies(t in _STATE_DICT_REGISTRY, _STATE_DICT_REGISTRY[t] == old(_STATE_DICT_REGISTRY)[t])))'],
  bindings={}, props=('C10',))
register_state.defaults = {'override': False}
TyObj.attrs['__name__'] = (Key, None)
