"""Sidecar contracts: optimizer wrappers (property C17), optax uninterpreted.

U0/U1 are the two components of `tx.update(grads, opt_state, params)`, A is
`optax.apply_updates`; the contracts are term equalities: the wrappers call optax exactly like
the property says and change nothing else."""
import z3
from pyvc.vc import *  # noqa

F = 'flax/training/train_state.py'
H = 'flax/nnx/helpers.py'

PTree = opaque('PTree', is_str=False)       # parameter / gradient / update pytrees
OptSt = opaque('OptState', is_str=False)
Tx = opaque('Tx', is_str=False)
Fn = opaque('ApplyFn', is_str=False)
KW = opaque('Kwargs', is_str=False)
TKey = opaque('TreeKey', universe=['params', 'overwrite_with_gradient'])
StepT = INT

U0 = UFn('tx_update_updates', [Tx, PTree, OptSt, PTree], PTree, 'first component of tx.update(grads, opt_state, params)')
U1 = UFn('tx_update_state', [Tx, PTree, OptSt, PTree], OptSt, 'second component of tx.update(grads, opt_state, params)')
A = UFn('apply_updates', [PTree, PTree], PTree, 'optax.apply_updates(params, updates)')
tx_init = UFn('tx_init', [Tx, PTree], OptSt, 'tx.init(params)')
has_key = UFn('tree_has_key', [PTree, TKey], BOOL, '`key in tree` for dict-like pytrees')
item = UFn('tree_item', [PTree, TKey], PTree, 'tree[key]')
owg_dict = UFn('owg_dict', [PTree, PTree], PTree, "{'params': a, OVERWRITE_WITH_GRADIENT: b}")
merge_kw = UFn('merge_kwargs', [KW, KW], KW, 'dataclass fields replaced by **kwargs')

PTree.contains_hook = lambda ex, c, x: has_key.decl()(c.t, ex.coerce(x, TKey).t)
PTree.getitem = lambda ex, base, idx: SV(PTree, item.decl()(base.t, ex.coerce(idx, TKey).t))


def _owg_literal(ex, kvs):
  d = {k.py: v for k, v in kvs}
  if set(d) != {'params', 'overwrite_with_gradient'}:
    raise OutsideSubset('dict literal with other keys than params / OVERWRITE_WITH_GRADIENT')
  return SV(PTree, owg_dict.decl()(ex.coerce(d['params'], PTree).t, ex.coerce(d['overwrite_with_gradient'], PTree).t))


PTree.from_dict_literal = _owg_literal


def _tx_update(ex, v, a, kw):
  if len(a) != 3 or kw:
    raise OutsideSubset('tx.update must be called as update(grads, opt_state, params)')
  g, s, p = ex.coerce(a[0], PTree), ex.coerce(a[1], OptSt), ex.coerce(a[2], PTree)
  return PyTuple((SV(PTree, U0.decl()(v.t, g.t, s.t, p.t)), SV(OptSt, U1.decl()(v.t, g.t, s.t, p.t))))


Tx.methods = {'update': _tx_update,
              'init': lambda ex, v, a, kw: SV(OptSt, tx_init.decl()(v.t, ex.coerce(a[0], PTree).t))}

TS = Union('TrainState', [Ctor('TrainState', [('step', StepT), ('apply_fn', Fn), ('params', PTree), ('tx', Tx),
                                            ('opt_state', OptSt), ('extra', KW)], pytypes=('TrainState',))])


def _replace(ex, a, kw, rec=None):
  """struct.dataclass replace(**changes): new instance, named fields changed, **kwargs land in
  the remaining dataclass fields (`extra`), everything else equal."""
  rec = a[0]
  kw = dict(a[1]) if len(a) > 1 else kw
  c = TS.ctors['TrainState']
  ts = []
  for fn, _ in c.fields:
    cur = TS.acc('TrainState', fn, rec.t)
    if fn == 'extra' and '**' in kw:
      ts.append(merge_kw.decl()(cur, ex.coerce(kw['**'], KW).t))
    elif fn in kw:
      ts.append(ex.coerce(kw[fn], TS.field_sort('TrainState', fn)).t)
    else:
      ts.append(cur)
  bad = set(kw) - {fn for fn, _ in c.fields} - {'**'}
  if bad:
    raise OutsideSubset(f'replace() of unknown fields {bad}')
  return SV(TS, TS.mk('TrainState', *ts))


def _havoc_tree(ex, a, kw):
  """jax.tree_util.tree_map / jax.tree.map with an arbitrary function: result unconstrained"""
  return ex.fresh(PTree, 'tree_map_result')


B = {
  'OVERWRITE_WITH_GRADIENT': Lit('overwrite_with_gradient'),
  'optax.apply_updates': A,
  'TrainState.replace': Handler('TrainState.replace', lambda ex, a, kw: _replace(ex, a, kw), 'dataclass replace'),
  'jax.tree_util.tree_map': Handler('jax.tree_util.tree_map', _havoc_tree, 'arbitrary function: result unconstrained'),
  'jax.tree.map': Handler('jax.tree.map', _havoc_tree, 'arbitrary function: result unconstrained'),
}

NOOWG = "not ('overwrite_with_gradient' in grads)"
P1 = "self.params['params']"
G1 = "grads['params']"
apply_gradients = function(
  F + '::TrainState.apply_gradients', params=[('self', TS), ('grads', PTree), ('kwargs', KW)], returns=TS,
  ensures=[
    # exactly tx.update followed by apply_updates, by hand
    f'implies({NOOWG}, result.params == apply_updates(self.params, tx_update_updates(self.tx, grads, self.opt_state, self.params)))',
    f'implies({NOOWG}, result.opt_state == tx_update_state(self.tx, grads, self.opt_state, self.params))',
    # OVERWRITE_WITH_GRADIENT: the update is applied to the 'params' sub-tree, the OWG entry is the gradient itself
    f"implies(not ({NOOWG}), result.params == owg_dict(apply_updates({P1}, tx_update_updates(self.tx, {G1}, self.opt_state, {P1})), grads['overwrite_with_gradient']))",
    f'implies(not ({NOOWG}), result.opt_state == tx_update_state(self.tx, {G1}, self.opt_state, {P1}))',
    'result.step == self.step + 1',
    'result.apply_fn == self.apply_fn and result.tx == self.tx',
    'result.extra == merge_kwargs(self.extra, kwargs)',
  ],
  bindings=B, props=('C17',))
apply_gradients.locals = {'new_params': PTree}


def _cls_call(ex, a, kw):
  kw = dict(kw)
  extra = kw.pop('**', None)
  c = TS.ctors['TrainState']
  ts = []
  for fn, _ in c.fields:
    if fn == 'extra':
      ts.append(ex.coerce(extra, KW).t)
    else:
      ts.append(ex.coerce(kw.pop(fn), TS.field_sort('TrainState', fn)).t)
  if kw:
    raise OutsideSubset(f'cls(...) with unknown fields {set(kw)}')
  return SV(TS, TS.mk('TrainState', *ts))


create = function(
  F + '::TrainState.create', params=[('cls', NONE), ('apply_fn', Fn), ('params', PTree), ('tx', Tx), ('kwargs', KW)], returns=TS,
  ensures=[
    'result.step == 0',
    "result.opt_state == tx_init(tx, params['params'] if 'overwrite_with_gradient' in params else params)",
    'result.params == params and result.tx == tx and result.apply_fn == apply_fn and result.extra == kwargs',
  ],
  bindings=dict(B, cls=Handler('cls', _cls_call, 'dataclass constructor')), props=('C17',))
create.locals = {}

# ---- flax/nnx/helpers.py TrainState -----------------------------------------------------------------
GraphDef = opaque('GraphDef', is_str=False)
NTS = Union('NNXTrainState', [Ctor('NNXTrainState', [('graphdef', GraphDef), ('params', PTree), ('opt_state', OptSt), ('step', StepT),
                                                     ('tx', Tx), ('extra', KW)], pytypes=('TrainState',))])


def _nts_replace(ex, a, kw):
  rec = a[0]
  c = NTS.ctors['NNXTrainState']
  ts = []
  for fn, _ in c.fields:
    cur = NTS.acc('NNXTrainState', fn, rec.t)
    if fn == 'extra' and '**' in kw:
      ts.append(merge_kw.decl()(cur, ex.coerce(kw['**'], KW).t))
    elif fn in kw:
      ts.append(ex.coerce(kw[fn], NTS.field_sort('NNXTrainState', fn)).t)
    else:
      ts.append(cur)
  if set(kw) - {fn for fn, _ in c.fields} - {'**'}:
    raise OutsideSubset('replace() of unknown fields')
  return SV(NTS, NTS.mk('NNXTrainState', *ts))


NB = dict(B)
NB['TrainState.replace'] = Handler('TrainState.replace', _nts_replace, 'dataclass replace')

nnx_apply_gradients = function(
  H + '::TrainState.apply_gradients', params=[('self', NTS), ('grads', PTree), ('kwargs', KW)], returns=NTS,
  ensures=[
    'result.params == apply_updates(self.params, tx_update_updates(self.tx, grads, self.opt_state, self.params))',
    'result.opt_state == tx_update_state(self.tx, grads, self.opt_state, self.params)',
    'result.step == self.step + 1',
    'result.graphdef == self.graphdef and result.tx == self.tx',
    'result.extra == merge_kwargs(self.extra, kwargs)',
  ],
  bindings=NB, props=('C17',))


def _nts_cls(ex, a, kw):
  kw = dict(kw)
  extra = kw.pop('**', None)
  ts = []
  for fn, _ in NTS.ctors['NNXTrainState'].fields:
    ts.append(ex.coerce(extra if fn == 'extra' else kw.pop(fn), NTS.field_sort('NNXTrainState', fn)).t)
  if kw:
    raise OutsideSubset('cls(...) with unknown fields')
  return SV(NTS, NTS.mk('NNXTrainState', *ts))


nnx_create = function(
  H + '::TrainState.create', params=[('cls', NONE), ('graphdef', GraphDef), ('params', PTree), ('tx', Tx), ('step', INT), ('kwargs', KW)],
  returns=NTS,
  ensures=['result.step == step', 'result.opt_state == tx_init(tx, params)',
           'result.params == params and result.tx == tx and result.graphdef == graphdef and result.extra == kwargs'],
  bindings=dict(NB, cls=Handler('cls', _nts_cls, 'dataclass constructor'),
                **{'jnp.asarray': Handler('jnp.asarray', lambda ex, a, kw: a[0], 'jnp.asarray(step) is step')}),
  props=('C17',))

# ---- flax/nnx/training/optimizer.py Optimizer.update ---------------------------------------------------
from pyvc.heap import ObjSort  # noqa: E402
O = 'flax/nnx/training/optimizer.py'
Model = opaque('Model', is_str=False)
Wrt = opaque('WrtFilter', is_str=False)
OptVars = opaque('OptStateVariables', is_str=False)
StepVar = ObjSort('OptStateVar', dict(value=INT))
Optimizer = ObjSort('Optimizer', dict(step=StepVar, model=Model, tx=Tx, opt_state=OptVars, wrt=Wrt))

nnx_state = UFn('nnx_state', [Model, Wrt], PTree, 'nnx.state(model, wrt): the Variables selected by wrt')
to_state = UFn('opt_vars_to_state', [OptVars], OptSt, '_opt_state_variables_to_state')
U0k = UFn('tx_update_updates_kw', [Tx, PTree, OptSt, PTree, KW], PTree, 'tx.update(grads, opt_state, params, **kwargs)[0]')
U1k = UFn('tx_update_state_kw', [Tx, PTree, OptSt, PTree, KW], OptSt, 'tx.update(grads, opt_state, params, **kwargs)[1]')


def _tx_update_kw(ex, v, a, kw):
  if len(a) != 3 or set(kw) - {'**'}:
    raise OutsideSubset('tx.update must be called as update(grads, opt_state, params, **kwargs)')
  g, s, p = ex.coerce(a[0], PTree), ex.coerce(a[1], OptSt), ex.coerce(a[2], PTree)
  if '**' not in kw:
    return _tx_update(ex, v, a, kw)
  k = ex.coerce(kw['**'], KW)
  return PyTuple((SV(PTree, U0k.decl()(v.t, g.t, s.t, p.t, k.t)), SV(OptSt, U1k.decl()(v.t, g.t, s.t, p.t, k.t))))


Tx.methods['update'] = _tx_update_kw
OB = {
  'nnx.state': nnx_state,
  '_opt_state_variables_to_state': to_state,
  'optax.apply_updates': A,
  'nnx.update': Effect('nnx.update', [Model, PTree], note='writes the new values into the model Variables in place'),
  '_update_opt_state': Effect('_update_opt_state', [OptVars, OptSt], note='writes the new optimizer state into the OptState Variables'),
  'nnx.State': TypeTag('State'),
  'isinstance': Handler('isinstance', lambda ex, a, kw: True, 'assert isinstance(new_params, nnx.State): assumed (optax returns the tree type it was given)'),
}
PAR = 'nnx_state(self.model, self.wrt)'
opt_update = function(
  O + '::Optimizer.update', params=[('self', Optimizer), ('grads', PTree), ('kwargs', KW)],
  ensures=[
    # one optax update on exactly the Variables selected by wrt, one apply_updates, written back once
    "ncalls('nnx.update') == 1 and ncalls('_update_opt_state') == 1",
    f"call_args('nnx.update')[0] == self.model",
    f"call_args('nnx.update')[1] == apply_updates({PAR}, tx_update_updates_kw(self.tx, grads, opt_vars_to_state(self.opt_state), {PAR}, kwargs))",
    "call_args('_update_opt_state')[0] == self.opt_state",
    f"call_args('_update_opt_state')[1] == tx_update_state_kw(self.tx, grads, opt_vars_to_state(self.opt_state), {PAR}, kwargs)",
    'self.step.value == old(self.step.value) + 1',
  ],
  modifies=['self.step.value'],
  bindings=OB, props=('C17',))

# ---- _update_opt_state: the new optimizer state is stored RAW - no Variable hook (on_set_value) runs on it --------------
import z3 as _z3
ArrLike = opaque('OptStateValue', is_str=False)
ArrLike.attrs['value'] = (ArrLike, None)
is_vs = UFn('is_variable_state', [ArrLike], BOOL, 'isinstance(update, VariableState)')
ArrLike.isinstance_hook = lambda ex, v, names: ex.call_value(is_vs, [v], {}).t if names == {'VariableState'} else (_ for _ in ()).throw(OutsideSubset('isinstance ' + repr(names)))
# `value` stands for the hook-mediated property of nnx.Variable (the setter runs on_set_value), `raw_value` for the stored array
OptLeaf = ObjSort('OptStateLeaf', dict(raw_value=ArrLike, value=ArrLike))
is_optvar = UFn('is_opt_variable', [OptLeaf], BOOL, 'isinstance(x, OptVariable)')
is_optarr = UFn('is_opt_array', [OptLeaf], BOOL, 'isinstance(x, OptArray)')


def _leaf_isinstance(ex, v, names):
  if names == {'OptVariable'}:
    return ex.call_value(is_optvar, [v], {}).t
  if names == {'OptArray'}:
    return ex.call_value(is_optarr, [v], {}).t
  raise OutsideSubset('isinstance ' + repr(names))


OptLeaf.isinstance_hook = _leaf_isinstance
update_leaf = function(
  O + '::_update_opt_state.<locals>.optimizer_update_variables', params=[('x', OptLeaf), ('update', ArrLike)],
  raises={'TypeError': '(is_opt_variable(x) and not is_variable_state(update)) or (not is_opt_variable(x) and is_opt_array(x) and is_variable_state(update)) '
                       'or (not is_opt_variable(x) and not is_opt_array(x))'},
  ensures=['implies(is_opt_variable(x), x.raw_value == update.value)',
           'implies(not is_opt_variable(x), x.raw_value == update)'],
  modifies=['x.raw_value'],      # frame: nothing goes through the hook-mediated `value` setter
  bindings={'OptVariable': TypeTag('OptVariable'), 'OptArray': TypeTag('OptArray'), 'VariableState': TypeTag('VariableState')},
  props=('C17',))
