"""Sidecar contracts: decorator-factory form of the NNX transforms (properties C08 / C04-side glue, claimed under C08).

`nnx.scan(reverse=True, ...)(f)` must be `nnx.scan(f, reverse=True, ...)`: when the function is missing, every
option of the signature is handed to functools.partial(<the transform itself>, ...) unchanged. The contracts are
generated from the real signatures (read from /repo on every run), so an option added to a signature has to be
forwarded too. Only the `f is Missing` path is specified here."""
import ast
from pyvc.vc import *  # noqa
from pyvc.extract import find_function

Opt = opaque('TransformOption', is_str=False, nullable=True)
FnOrMissing = Union('FnOrMissing', [Ctor('Missing', [], pytypes=('Missing', 'type')), Ctor('UserFn', [('fn', opaque('UserCallable', is_str=False))], pytypes=('function',), payload='fn')])
MISSING_V = SV(FnOrMissing, FnOrMissing.mk('Missing'))

TARGETS = [
  # (file, function, name of the function parameter, options consumed before the branch, properties)
  ('flax/nnx/transforms/iteration.py', 'vmap', 'f', (), ('C08',)),
  ('flax/nnx/transforms/iteration.py', 'pmap', 'f', (), ('C08',)),
  ('flax/nnx/transforms/iteration.py', 'scan', 'f', (), ('C08',)),
  ('flax/nnx/transforms/autodiff.py', 'grad', 'f', ('reduce_axes',), ('C08',)),
  ('flax/nnx/transforms/autodiff.py', 'value_and_grad', 'f', ('reduce_axes',), ('C08',)),
  ('flax/nnx/transforms/autodiff.py', 'remat', 'f', (), ('C08',)),
  ('flax/nnx/transforms/autodiff.py', 'custom_vjp', 'fun', (), ('C08',)),
  ('flax/nnx/transforms/compilation.py', 'jit', 'fun', (), ('C08',)),
  ('flax/nnx/transforms/compilation.py', 'shard_map', 'f', (), ('C08',)),
]


def _make(file, name, fparam, consumed, props):
  fnode, _, _ = find_function(file, name)
  a = fnode.args
  opts = [x.arg for x in a.posonlyargs + a.args + a.kwonlyargs if x.arg != fparam]
  rec = {}

  def partial(ex, args, kw):
    ex.ghost['partial:n'] = ex.ghost.get('partial:n', 0) + 1
    ex.ghost['partial:self'] = bool(args) and args[0] is me and len(args) == 1     # partial of the transform itself, nothing positional
    ex.ghost['partial:extra_positional'] = len(args) - 1
    for k in opts:
      ex.ghost['partial:' + k] = ex.coerce(kw[k], Opt) if k in kw else SV(Opt, Opt.literal('<not forwarded: the default applies>'))
    ex.ghost['partial:unknown'] = sorted(k for k in kw if k not in opts)
    return ex.fresh(Opt, 'partial_object')
  me = TypeTag('transform:' + name)
  src = ast.unparse(fnode)
  missing = TypeTag('Missing') if f'isinstance({fparam}, Missing)' in src else MISSING_V
  sp = function(
    f'{file}::{name}', params=[(fparam, FnOrMissing)] + [(o, Opt) for o in opts], returns=ANY,
    requires=[f"is_({fparam}, 'Missing')"],
    raises_any=('NotImplementedError',) if consumed else (),
    ensures=["ghost('partial:n') == 1", "ghost('partial:self')"] + [f"ghost('partial:{o}') == {o}" for o in opts if o not in consumed],
    bindings={'functools.partial': Handler('functools.partial', partial, 'records target and options'), name: me,
              'Missing': missing, 'MISSING': MISSING_V},
    props=props)
  sp.forward_target = me
  return sp


SPECS = [_make(*t) for t in TARGETS]
