"""Sidecar contracts: flax/linen/module.py argument forwarding of the initialisation entry points
(property C02: shape-only initialisation agrees with concrete init; property C01: the mutable filter the
caller gives is the one the core sees). lazy_init -> init -> init_with_output: every option must reach the
next layer unchanged; the positional and keyword arguments are passed through as they are."""
from pyvc.vc import *  # noqa

F = 'flax/linen/module.py'
ModuleObj = opaque('ModuleObject', is_str=False)
Opt = opaque('OptionValue', is_str=False, nullable=True)       # rngs / method / mutable / capture_intermediates: opaque values
ArgPack = opaque('PositionalArgs', is_str=False)                # *args as one value
KwPack = opaque('KeywordArgs', is_str=False)                    # **kwargs as one value
Vars = opaque('VariableDict', is_str=False)
OutPair = Union('InitOutput', [Ctor('InitOutput', [('out', Opt), ('variables', Vars)], pytypes=('tuple',), tuple_like=True)])


def _recorder(tag, ret):
  """bound method of the module: records what it is called with"""
  def call(ex, a, kw):
    stars = [x[1] for x in a if isinstance(x, tuple) and not isinstance(x, PyTuple) and x and x[0] == '*']
    plain = [x for x in a if not (isinstance(x, tuple) and not isinstance(x, PyTuple) and x and x[0] == '*')]
    if len(stars) != 1 or len(plain) != 1:
      raise OutsideSubset(f'{tag}: expected (rngs, *args, ...)')
    n = ex.ghost.get(tag + ':n', 0)
    ex.ghost[tag + ':n'] = n + 1
    ex.ghost[tag + ':rngs'] = ex.coerce(plain[0], Opt)
    ex.ghost[tag + ':args'] = ex.coerce(stars[0], ArgPack)
    ex.ghost[tag + ':kwargs'] = ex.coerce(kw['**'], KwPack) if '**' in kw else SV(KwPack, KwPack.literal('<no **kwargs>'))
    for k in ('method', 'mutable', 'capture_intermediates'):
      ex.ghost[f'{tag}:{k}'] = ex.coerce(kw[k], Opt) if k in kw else SV(Opt, Opt.literal('<not given: the callee default applies>'))
    ex.ghost[tag + ':given'] = sorted(k for k in kw if k != '**')
    return ex.fresh(ret, 'r_' + tag)
  return call


ModuleObj.methods = {
  'init_with_output': lambda ex, v, a, kw: _recorder('iwo', OutPair)(ex, a, kw),
  'init': lambda ex, v, a, kw: _recorder('init', Vars)(ex, a, kw),
}
MB = {'Module._module_checks': Skip('Module._module_checks (dataclass sanity checks)')}
FORWARDED = lambda tag, opts: [f"ghost('{tag}:n') == 1", f"ghost('{tag}:rngs') == rngs", f"ghost('{tag}:args') == args", f"ghost('{tag}:kwargs') == kwargs"] + \
  [f"ghost('{tag}:{o}') == {o}" for o in opts]

init = function(
  F + '::Module.init', params=[('self', ModuleObj), ('rngs', Opt), ('args', ArgPack), ('method', Opt), ('mutable', Opt), ('capture_intermediates', Opt), ('kwargs', KwPack)],
  returns=Vars,
  # init is init_with_output with the very same arguments, keeping only the variables
  ensures=FORWARDED('iwo', ['method', 'mutable', 'capture_intermediates']),
  bindings=MB, props=('C02', 'C01'))
init.vararg = 'args'
init.kwarg = 'kwargs'

lazy_wrapper = function(
  F + '::Module.lazy_init.<locals>.lazy_wrapper', params=[('rngs', Opt), ('args', ArgPack), ('kwargs', KwPack)],
  free=[('self', ModuleObj), ('method', Opt), ('mutable', Opt)], returns=Vars,
  # the function that is evaluated abstractly IS init with the caller's method and mutable filter
  ensures=FORWARDED('init', ['method', 'mutable']),
  bindings=MB, props=('C02',))
lazy_wrapper.vararg = 'args'
lazy_wrapper.kwarg = 'kwargs'

# ---- Module.clone.<locals>.clone_fn: one clone per module object (a submodule shared between two parents stays shared) --------
FlaxId = opaque('FlaxId', is_str=False)
Mod = opaque('ModuleInstance', is_str=False)
Mod.attrs['_id'] = (FlaxId, None)
has_id = UFn('has_flax_id', [Mod], BOOL, "hasattr(m, '_id') (mock objects have none)")
clone_of = UFn('module_clone_result', [Mod, BOOL], Mod, 'm.clone(_deep_clone=cache, [_reset_names=..., name=None]): the recursive deep clone (uninterpreted)')
Mod.hasattr_hook = lambda ex, v, name: ex.call_value(has_id, [v], {}) if name == '_id' else (_ for _ in ()).throw(OutsideSubset('hasattr ' + name))


def _clone_method(ex, v, a, kw):
  """m.clone(_deep_clone=cache, ...): the recursive deep clone. It may add entries for the submodules it meets
  to the cache it is given, and never removes or changes an entry."""
  import z3
  from pyvc.sorts import fresh_name, qforall
  reset = kw.get('_reset_names', False)
  box = kw.get('_deep_clone')
  old = ex.deref(box)
  new = Cache.const('cache_after_clone')
  k = z3.Const(fresh_name('k'), FlaxId.z3())
  ex.assume(qforall([k], z3.Implies(Cache.has(old.t, k), z3.And(Cache.has(new, k), Cache.get(new, k) == Cache.get(old.t, k))), patterns=[Cache.has(new, k)]))
  ex.assume(qforall([k], z3.Implies(Cache.has(old.t, k), z3.And(Cache.has(new, k), Cache.get(new, k) == Cache.get(old.t, k))), patterns=[Cache.has(old.t, k)]))
  for f in Cache.keys_wf(new):
    ex.assume(f)
  ex.mutate(box, SV(Cache, new))
  return ex.call_value(clone_of, [v, reset], {})


Mod.methods = {'clone': _clone_method}
Cache = MapOf(FlaxId, Mod)
clone_fn = function(
  F + '::Module.clone.<locals>.clone_fn', params=[('m', Mod)], free=[('cache', Cache), ('_reset_names', BOOL)], returns=Mod,
  assigns=('cache',),
  ensures=[
    'implies(not has_flax_id(m), result == m)',
    # a module that was cloned before maps to that same clone; a new one is cloned once and REMEMBERED, whatever the mode
    'implies(has_flax_id(m) and m._id in old(cache), result == old(cache)[m._id] and cache == old(cache))',
    'implies(has_flax_id(m) and not (m._id in old(cache)), result == module_clone_result(m, _reset_names) and m._id in cache and cache[m._id] == result)',
    # entries are only ever added
    'forall(FlaxId, lambda k: implies(k in old(cache), k in cache and cache[k] == old(cache)[k]))',
  ],
  props=('C02',))
