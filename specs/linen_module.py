"""Sidecar contracts: flax/linen/module.py argument forwarding of the initialisation entry points
(property C02: shape-only initialisation agrees with concrete init; property C01: the mutable filter the
caller gives is the one the core sees). lazy_init -> init -> init_with_output: every option must reach the
next layer unchanged; the positional and keyword arguments are passed through as they are."""
from pyvc.vc import *  # noqa
import z3

F = 'flax/linen/module.py'
ModuleObj = opaque('ModuleObject', is_str=False)
Opt = opaque('OptionValue', is_str=False, nullable=True)       # rngs / method / mutable / capture_intermediates: opaque values
ArgPack = opaque('PositionalArgs', is_str=False)                # *args as one value
KwPack = opaque('KeywordArgs', is_str=False)                    # **kwargs as one value
Vars = opaque('VariableDict', is_str=False)
OutPair = Union('InitOutput', [Ctor('InitOutput', [('out', Opt), ('variables', Vars)], pytypes=('tuple',), tuple_like=True)])


def _recorder(tag, ret):
  """bound method of the module: records what it is called with"""
  def call(ex, a, kw):
    stars = [x[1] for x in a if isinstance(x, tuple) and not isinstance(x, PyTuple) and x and x[0] == '*']
    plain = [x for x in a if not (isinstance(x, tuple) and not isinstance(x, PyTuple) and x and x[0] == '*')]
    if len(stars) != 1 or len(plain) != 1:
      raise OutsideSubset(f'{tag}: expected (rngs, *args, ...)')
    n = ex.ghost.get(tag + ':n', 0)
    ex.ghost[tag + ':n'] = n + 1
    ex.ghost[tag + ':rngs'] = ex.coerce(plain[0], Opt)
    ex.ghost[tag + ':args'] = ex.coerce(stars[0], ArgPack)
    ex.ghost[tag + ':kwargs'] = ex.coerce(kw['**'], KwPack) if '**' in kw else SV(KwPack, KwPack.literal('<no **kwargs>'))
    for k in ('method', 'mutable', 'capture_intermediates'):
      ex.ghost[f'{tag}:{k}'] = ex.coerce(kw[k], Opt) if k in kw else SV(Opt, Opt.literal('<not given: the callee default applies>'))
    ex.ghost[tag + ':given'] = sorted(k for k in kw if k != '**')
    return ex.fresh(ret, 'r_' + tag)
  return call


ModuleObj.methods = {
  'init_with_output': lambda ex, v, a, kw: _recorder('iwo', OutPair)(ex, a, kw),
  'init': lambda ex, v, a, kw: _recorder('init', Vars)(ex, a, kw),
}
MB = {'Module._module_checks': Skip('Module._module_checks (dataclass sanity checks)')}
FORWARDED = lambda tag, opts: [f"ghost('{tag}:n') == 1", f"ghost('{tag}:rngs') == rngs", f"ghost('{tag}:args') == args", f"ghost('{tag}:kwargs') == kwargs"] + \
  [f"ghost('{tag}:{o}') == {o}" for o in opts]

init = function(
  F + '::Module.init', params=[('self', ModuleObj), ('rngs', Opt), ('args', ArgPack), ('method', Opt), ('mutable', Opt), ('capture_intermediates', Opt), ('kwargs', KwPack)],
  returns=Vars,
  # init is init_with_output with the very same arguments, keeping only the variables
  ensures=FORWARDED('iwo', ['method', 'mutable', 'capture_intermediates']),
  bindings=MB, props=('C02', 'C01'))
init.vararg = 'args'
init.kwarg = 'kwargs'

lazy_wrapper = function(
  F + '::Module.lazy_init.<locals>.lazy_wrapper', params=[('rngs', Opt), ('args', ArgPack), ('kwargs', KwPack)],
  free=[('self', ModuleObj), ('method', Opt), ('mutable', Opt)], returns=Vars,
  # the function that is evaluated abstractly IS init with the caller's method and mutable filter
  ensures=FORWARDED('init', ['method', 'mutable']),
  bindings=MB, props=('C02',))
lazy_wrapper.vararg = 'args'
lazy_wrapper.kwarg = 'kwargs'

# ---- Module.clone.<locals>.clone_fn: one clone per module object (a submodule shared between two parents stays shared) --------
FlaxId = opaque('FlaxId', is_str=False)
Mod = opaque('ModuleInstance', is_str=False)
Mod.attrs['_id'] = (FlaxId, None)
has_id = UFn('has_flax_id', [Mod], BOOL, "hasattr(m, '_id') (mock objects have none)")
clone_of = UFn('module_clone_result', [Mod, BOOL], Mod, 'm.clone(_deep_clone=cache, [_reset_names=..., name=None]): the recursive deep clone (uninterpreted)')
Mod.hasattr_hook = lambda ex, v, name: ex.call_value(has_id, [v], {}) if name == '_id' else (_ for _ in ()).throw(OutsideSubset('hasattr ' + name))


def _clone_method(ex, v, a, kw):
  """m.clone(_deep_clone=cache, ...): the recursive deep clone. It may add entries for the submodules it meets
  to the cache it is given, and never removes or changes an entry."""
  import z3
  from pyvc.sorts import fresh_name, qforall
  reset = kw.get('_reset_names', False)
  box = kw.get('_deep_clone')
  old = ex.deref(box)
  new = Cache.const('cache_after_clone')
  k = z3.Const(fresh_name('k'), FlaxId.z3())
  ex.assume(qforall([k], z3.Implies(Cache.has(old.t, k), z3.And(Cache.has(new, k), Cache.get(new, k) == Cache.get(old.t, k))), patterns=[Cache.has(new, k)]))
  ex.assume(qforall([k], z3.Implies(Cache.has(old.t, k), z3.And(Cache.has(new, k), Cache.get(new, k) == Cache.get(old.t, k))), patterns=[Cache.has(old.t, k)]))
  for f in Cache.keys_wf(new):
    ex.assume(f)
  ex.mutate(box, SV(Cache, new))
  return ex.call_value(clone_of, [v, reset], {})


Mod.methods = {'clone': _clone_method}
Cache = MapOf(FlaxId, Mod)
clone_fn = function(
  F + '::Module.clone.<locals>.clone_fn', params=[('m', Mod)], free=[('cache', Cache), ('_reset_names', BOOL)], returns=Mod,
  assigns=('cache',),
  ensures=[
    'implies(not has_flax_id(m), result == m)',
    # a module that was cloned before maps to that same clone; a new one is cloned once and REMEMBERED, whatever the mode
    'implies(has_flax_id(m) and m._id in old(cache), result == old(cache)[m._id] and cache == old(cache))',
    'implies(has_flax_id(m) and not (m._id in old(cache)), result == module_clone_result(m, _reset_names) and m._id in cache and cache[m._id] == result)',
    # entries are only ever added
    'forall(FlaxId, lambda k: implies(k in old(cache), k in cache and cache[k] == old(cache)[k]))',
  ],
  props=('C02',))

# ---- functional nn.apply / nn.init_with_output: the caller's mutable filter reaches the core, plus 'intermediates' exactly
# ---- when intermediates are captured --------------------------------------------------------------------------------
CapFn = opaque('CaptureFilterFunction', is_str=False)
CapFn.truthy = lambda t: z3.BoolVal(True)      # a function object is truthy
Capture = Union('CaptureIntermediates', [
  Ctor('CBool', [('b', BOOL)], pytypes=('bool',), payload='b'),
  Ctor('CFilter', [('f', CapFn)], pytypes=('function', 'object'), payload='f'),
])
union_f = UFn('union_filters', [Opt, Opt], Opt, 'flax.core.scope.union_filters (contract: specs/linen_filters.py)')


def _core_entry(tag):
  def call(ex, a, kw):
    ex.ghost[tag + ':n'] = ex.ghost.get(tag + ':n', 0) + 1
    ex.ghost[tag + ':mutable'] = ex.coerce(kw['mutable'], Opt) if 'mutable' in kw else (ex.coerce(a[1], Opt) if len(a) == 2 else SV(Opt, Opt.literal('<not given: the core default applies>')))
    ex.ghost[tag + ':shape'] = (len(a) == 1 and set(kw) <= {'mutable'}) or (len(a) == 0 and 'fn' in kw and set(kw) <= {'fn', 'mutable'}) or (len(a) == 2 and not kw)
    return ex.fresh(Opt, 'core_' + tag)
  return call


CAPTURES = "(is_(old(capture_intermediates), 'CFilter') or old(capture_intermediates).b)"
for _name, _core in (('apply', 'core.apply'), ('init_with_output', 'core.init')):
  function(
    F + '::' + _name, params=[('fn', Opt), ('module', ModuleObj), ('mutable', Opt), ('capture_intermediates', Capture)], returns=Opt,
    free=[('capture_call_intermediates', Capture)], requires=["is_(capture_call_intermediates, 'CFilter')"], assigns=('capture_intermediates', 'mutable'),
    ensures=[f"ghost('{_name}:n') == 1", f"ghost('{_name}:shape')",
             f"ghost('{_name}:mutable') == (union_filters(old(mutable), 'intermediates') if {CAPTURES} else old(mutable))"],
    bindings={_core: Handler(_core, _core_entry(_name), 'records the mutable filter handed to the core'), 'union_filters': union_f,
              'functools.wraps': Handler('functools.wraps', lambda ex, a, kw: Handler('wraps(fn)', lambda ex2, a2, kw2: a2[0], 'identity decorator'), 'functools.wraps(fn): metadata only'),
              },
    props=('C01',))


def _rec_iwo(ex, a, kw):
  ex.ghost['fiwo:n'] = ex.ghost.get('fiwo:n', 0) + 1
  names = ['fn', 'module', 'mutable', 'capture_intermediates']
  bound = dict(zip(names, a))
  bound.update(kw)
  ex.ghost['fiwo:shape'] = len(a) <= 4 and set(bound) <= set(names)
  for k in names:
    ex.ghost['fiwo:' + k] = bound.get(k, SV(Opt, Opt.literal('<not given: the callee default applies>')))
  return ex.fresh(Opt, 'init_fn')


function(
  F + '::init', params=[('fn', Opt), ('module', ModuleObj), ('mutable', Opt), ('capture_intermediates', Capture)], returns=ANY,
  # nn.init is nn.init_with_output with the very same four arguments (keeping only the variables)
  ensures=["ghost('fiwo:n') == 1", "ghost('fiwo:shape')", "ghost('fiwo:fn') == fn", "ghost('fiwo:module') == module", "ghost('fiwo:mutable') == mutable",
           "ghost('fiwo:capture_intermediates') == capture_intermediates"],
  bindings={'init_with_output': Handler('init_with_output', _rec_iwo, 'records the arguments (contract of init_with_output above)'),
            'functools.wraps': Handler('functools.wraps', lambda ex, a, kw: Handler('wraps(fn)', lambda ex2, a2, kw2: a2[0], 'identity decorator'), 'functools.wraps(fn): metadata only')},
  props=('C01',))

# ---- Module.variable / Module.param: checks first, then exactly one call of the scope method with the same arguments,
# ---- and the name is registered as belonging to that collection ---------------------------------------------------------
from pyvc.heap import ObjSort  # noqa: E402
NameS = opaque('VarOrCollectionName', universe=['params', 'w', 'stats'])
ScopeRef = opaque('ScopeRef', is_str=False, nullable=True)
ModState = ObjSort('ModuleInternalState', dict(children=MapOf(NameS, NameS)))
LModule = ObjSort('LinenModule', dict(_initialization_allowed=BOOL, scope=ScopeRef, _state=ModState))
name_taken = UFn('name_taken', [LModule, NameS, NameS], BOOL, 'self._name_taken(name, collection=col)')
LModule.attr_hooks = {'__class__': lambda ex, v: ex.fresh(Opt, 'cls')}
Opt.attrs['__name__'] = (Opt, None)


def _scope_method(tag, method):
  names = [n for n in _scope_params_all(method)]

  def call(ex, v, a, kw):
    bound, ok = bind_call(names, a, {k: x for k, x in kw.items() if k != 'unbox'})
    ex.ghost[tag + ':n'] = ex.ghost.get(tag + ':n', 0) + 1
    ex.ghost[tag + ':scope'] = v
    ex.ghost[tag + ':plain'] = PyTuple([bound[n] for n in names if n in bound])
    ex.ghost[tag + ':shape'] = ok and '*' in bound and '**' in bound and 'unbox' in kw and all(n in bound for n in names)
    ex.ghost[tag + ':args'] = ex.coerce(bound['*'], ArgPack) if '*' in bound else ex.fresh(ArgPack, 'none')
    ex.ghost[tag + ':unbox'] = kw.get('unbox', False)
    ex.ghost[tag + ':kwargs'] = ex.coerce(bound['**'], KwPack) if '**' in bound else ex.fresh(KwPack, 'none')
    r = ex.fresh(Opt, 'r_' + tag)
    ex.ghost[tag + ':result'] = r
    return r
  return call


def _scope_params_all(method):
  from pyvc.extract import find_function
  fnode, _, _ = find_function('flax/core/scope.py', 'Scope.' + method)
  a = fnode.args
  return [x.arg for x in a.posonlyargs + a.args][1:]


ScopeRef.methods = {'variable': _scope_method('sv', 'variable'), 'param': _scope_method('sp', 'param')}
LMB = {'Module._name_taken': Handler('Module._name_taken', lambda ex, a, kw: ex.call_value(name_taken, [a[0], a[1], kw['collection']], {}), '_name_taken(name, collection=)'),
       'LinenModule._name_taken': Handler('Module._name_taken', lambda ex, a, kw: ex.call_value(name_taken, [a[0], a[1], kw['collection']], {}), '_name_taken(name, collection=)'),
       'errors.NameInUseError': TypeTag('NameInUseError', (TypeTag('Exception'),))}
mod_variable = function(
  F + '::Module.variable', params=[('self', LModule), ('col', NameS), ('name', NameS), ('init_fn', Opt), ('init_args', ArgPack), ('unbox', BOOL), ('init_kwargs', KwPack)],
  returns=Opt,
  requires=['self.scope is not None'],
  raises={'ValueError': 'not self._initialization_allowed', 'NameInUseError': 'self._initialization_allowed and name_taken(self, name, col)'},
  ensures=["ghost('sv:n') == 1 and ghost('sv:scope') == self.scope and ghost('sv:shape')",
           "len(ghost('sv:plain')) == 3 and ghost('sv:plain')[0] == col and ghost('sv:plain')[1] == name and ghost('sv:plain')[2] == init_fn",
           "ghost('sv:args') == init_args and ghost('sv:unbox') == unbox and ghost('sv:kwargs') == init_kwargs",
           "result == ghost('sv:result')",
           # the module remembers that `name` is a variable of collection `col` - and changes no other entry
           "self._state.children == map_set(old(self._state.children), name, col)"],
  modifies=['self._state.children'], bindings=LMB, props=('C02',))
mod_variable.vararg = 'init_args'
mod_variable.kwarg = 'init_kwargs'
mod_param = function(
  F + '::Module.param', params=[('self', LModule), ('name', NameS), ('init_fn', Opt), ('init_args', ArgPack), ('unbox', BOOL), ('init_kwargs', KwPack)],
  returns=Opt,
  requires=['self.scope is not None'],
  raises={'ValueError': 'not self._initialization_allowed', 'NameInUseError': "self._initialization_allowed and name_taken(self, name, 'params')"},
  ensures=["ghost('sp:n') == 1 and ghost('sp:scope') == self.scope and ghost('sp:shape')",
           "len(ghost('sp:plain')) == 2 and ghost('sp:plain')[0] == name and ghost('sp:plain')[1] == init_fn",
           "ghost('sp:args') == init_args and ghost('sp:unbox') == unbox and ghost('sp:kwargs') == init_kwargs",
           "result == ghost('sp:result')",
           "self._state.children == map_set(old(self._state.children), name, 'params')"],
  modifies=['self._state.children'], bindings=LMB, props=('C02',))
mod_param.vararg = 'init_args'
mod_param.kwarg = 'init_kwargs'

# ---- Module.sow: an immutable collection is left alone (returns False); otherwise ONE write of reduce_fn(previous or init, value)
SVal = opaque('SownValue', is_str=False)
RedFn = opaque('ReduceFn', is_str=False)
IniFn = opaque('SowInitFn', is_str=False)
reduce_app = UFn('reduce_fn_value', [RedFn, SVal, SVal], SVal, 'reduce_fn(xs, value)')
init_app = UFn('sow_init_value', [IniFn], SVal, 'init_fn()')
RedFn.call_hook = lambda ex, f, a, kw: ex.call_value(reduce_app, [f, a[0], a[1]], {})
IniFn.call_hook = lambda ex, f, a, kw: ex.call_value(init_app, [f], {})
sc_mut = UFn('scope_is_mutable_collection', [ScopeRef, NameS], BOOL, 'scope.is_mutable_collection(col)')
sc_has = UFn('scope_has_variable', [ScopeRef, NameS, NameS], BOOL, 'scope.has_variable(col, name)')
sc_get = UFn('scope_get_variable', [ScopeRef, NameS, NameS], SVal, 'scope.get_variable(col, name)')
_PUT = Effect('scope.put_variable', [ScopeRef, NameS, NameS, SVal])
_RES = Effect('scope.reserve', [ScopeRef, NameS, NameS])
def _by_name(method, target, n):
  names = _scope_params_all(method)

  def call(ex, v, a, kw):
    bound, ok = bind_call(names, a, kw)
    if not ok or any(nm not in bound for nm in names[:n]):
      raise OutsideSubset(f'scope.{method} called in a form the recorder does not know')
    return ex.call_value(target, [v] + [bound[nm] for nm in names[:n]], {})
  return call


ScopeRef.methods.update({
  'is_mutable_collection': _by_name('is_mutable_collection', sc_mut, 1),
  'has_variable': _by_name('has_variable', sc_has, 2),
  'get_variable': _by_name('get_variable', sc_get, 2),
  'put_variable': _by_name('put_variable', _PUT, 3),
  'reserve': _by_name('reserve', _RES, 2),
})
MUTC = 'scope_is_mutable_collection(self.scope, col)'
HAS = 'scope_has_variable(self.scope, col, name)'
mod_sow = function(
  F + '::Module.sow', params=[('self', LModule), ('col', NameS), ('name', NameS), ('value', SVal), ('reduce_fn', RedFn), ('init_fn', IniFn)], returns=BOOL,
  raises={'ValueError': 'self.scope is None'},
  ensures=[
    f"result == {MUTC}",
    # immutable collection: nothing is written, reserved or registered
    f"implies(not {MUTC}, ncalls('scope.put_variable') == 0 and ncalls('scope.reserve') == 0 and self._state.children == old(self._state.children))",
    # mutable: exactly one write, of reduce_fn(what is stored, or init_fn() the first time, value) under (col, name)
    f"implies({MUTC}, ncalls('scope.put_variable') == 1 and call_args('scope.put_variable')[1] == col and call_args('scope.put_variable')[2] == name and "
    f"call_args('scope.put_variable')[3] == reduce_fn_value(reduce_fn, (scope_get_variable(self.scope, col, name) if {HAS} else sow_init_value(init_fn)), value))",
    # the first sow of a name reserves it in the scope and registers it with the module; later ones do neither
    f"implies({MUTC} and not {HAS}, ncalls('scope.reserve') == 1 and call_args('scope.reserve')[1] == name and call_args('scope.reserve')[2] == col and "
    "self._state.children == map_set(old(self._state.children), name, col))",
    f"implies({MUTC} and {HAS}, ncalls('scope.reserve') == 0 and self._state.children == old(self._state.children))",
  ],
  modifies=['self._state.children'], bindings=LMB, props=('C01',))

# ---- thin Module accessors: an unbound module raises; a bound one asks ITS OWN scope with the same arguments --------------
_ACCESSORS = [
  # method, parameters after self, scope method, properties
  ('has_variable', ['col', 'name'], 'has_variable', ('C02',)),
  ('get_variable', ['col', 'name', 'default'], 'get_variable', ('C01',)),
  ('put_variable', ['col', 'name', 'value'], 'put_variable', ('C01',)),
  ('is_mutable_collection', ['col'], 'is_mutable_collection', ('C01',)),
  ('make_rng', ['name'], 'make_rng', ('C09',)),
  ('has_rng', ['name'], 'has_rng', ('C09',)),
]
ScopeRef2 = opaque('BoundScope', is_str=False, nullable=True)
LModule2 = ObjSort('LinenModuleAcc', dict(scope=ScopeRef2))


def _scope_params(method):
  from pyvc.extract import find_function
  fnode, _, _ = find_function('flax/core/scope.py', 'Scope.' + method)
  a = fnode.args
  return [x.arg for x in a.posonlyargs + a.args][1:]


def _acc_method(tag):
  names = _scope_params(tag)

  def call(ex, v, a, kw):
    bound, ok = bind_call(names, a, kw)
    ex.ghost['acc:n'] = ex.ghost.get('acc:n', 0) + 1
    ex.ghost['acc:method'] = Lit(tag)
    ex.ghost['acc:scope'] = v
    ex.ghost['acc:ok'] = ok
    for i, nm in enumerate(names):
      ex.ghost['acc:arg%d' % i] = ex.coerce(bound[nm], Opt) if nm in bound else SV(Opt, Opt.literal('<not given: the default of the scope method applies>'))
    r = ex.fresh(Opt, 'r_' + tag)
    ex.ghost['acc:result'] = r
    return r
  return call


ScopeRef2.methods = {m: _acc_method(m) for m in {sm for _, _, sm, _ in _ACCESSORS}}
for _m, _ps, _sm, _props in _ACCESSORS:
  function(
    F + '::Module.' + _m, params=[('self', LModule2)] + [(p, Opt) for p in _ps], returns=Opt,
    raises={'ValueError': 'self.scope is None'},
    ensures=["ghost('acc:n') == 1 and ghost('acc:ok') and ghost('acc:scope') == self.scope", f"ghost('acc:method') == '{_sm}'"]
            + [f"ghost('acc:arg{i}') == {p}" for i, p in enumerate(_ps)] + (["result == ghost('acc:result')"] if _m != 'put_variable' else []),
    modifies=[], props=_props)
