"""Sidecar contracts: flax/nnx/bridge/variables.py - conversion of one variable between an NNX
VariableState and a Linen value / metadata box (property C18: "converting in either direction
preserves values, names and sharding metadata").

Model: a VariableState is (type, value, metadata map); an NNX Variable under construction is the
class it is built from plus the keyword arguments handed to it (`NVar`); a Linen variable is a raw
value, an NNXMeta record, or a metadata box object (attribute dict on the heap, class opaque).
`linen_type.from_nnx_metadata(md)` / `linen_type(value, **md)` / `x.to_nnx_metadata()` of
arbitrary box classes are uninterpreted (Partitioned's own are proved in specs/bridge.py)."""
import z3
from pyvc.vc import *  # noqa
from pyvc.values import Box
from specs.bridge import Attr, AVal, AttrMap, Boxed, VType, CName, Registry, type_from_name, INJ

F = 'flax/nnx/bridge/variables.py'

VS = opaque('VariableState', is_str=False)
VS.attrs['value'] = (AVal, None)
VS.attrs['type'] = (VType, None)
vs_md = UFn('vs_metadata', [VS], AttrMap, 'VariableState.get_metadata(): the metadata map')
VS.methods = {'get_metadata': lambda ex, v, a, kw: ex.call_value(vs_md, [v], {})}

is_hooks_key = UFn('endswith_hooks', [Attr], BOOL, "key.endswith('_hooks')")


def _endswith(ex, v, a, kw):
  lit = ex.deref(a[0])
  if not (isinstance(lit, Lit) and lit.py == '_hooks'):
    raise OutsideSubset('str.endswith with another suffix')
  return ex.call_value(is_hooks_key, [v], {})


Attr.methods = {'endswith': _endswith}

# ---- Linen-side variable ---------------------------------------------------------------------------
XVar = Union('LinenVar', [
  Ctor('XRaw', [('v', AVal)], pytypes=('Array', 'ndarray'), payload='v'),
  Ctor('XNNX', [('var_type', VType), ('value', AVal), ('metadata', AttrMap)], pytypes=('NNXMeta', 'meta.AxisMetadata', 'AxisMetadata')),
  Ctor('XBox', [('obj', Boxed)], pytypes=('meta.AxisMetadata', 'AxisMetadata', 'Partitioned'), payload='obj'),
])
from_nnx_md = UFn('cls_from_nnx_metadata', [AVal, AttrMap], Boxed, 'linen_type.from_nnx_metadata(md) of an arbitrary box class')
ctor_box = UFn('cls_construct', [AVal, AVal, AttrMap], Boxed, 'linen_type(value, **md) of an arbitrary box class')
has_from = UFn('cls_has_from_nnx_metadata', [AVal], BOOL, "hasattr(linen_type, 'from_nnx_metadata')")
AVal.hasattr_hook = lambda ex, v, name: ex.call_value(has_from, [v], {}) if name == 'from_nnx_metadata' else (_ for _ in ()).throw(OutsideSubset('hasattr ' + name))


def _from_md(ex, v, a, kw):
  md = ex.coerce(a[0], AttrMap)
  ex.ghost['from_md'] = md       # the metadata map handed to the box class
  return ex.call_value(from_nnx_md, [v, md], {})


AVal.methods = {'from_nnx_metadata': _from_md}


def _call_cls(ex, f, a, kw):
  md = ex.coerce(kw['**'], AttrMap) if '**' in kw else ex.empty_map(AttrMap)
  return ex.call_value(ctor_box, [f, ex.coerce(a[0], AVal), md], {})


AVal.call_hook = _call_cls

is_vanilla = function(
  F + '::is_vanilla_variable', params=[('vs', VS)], returns=BOOL,
  # blank metadata: only hook entries, each of them empty
  ensures=["result == forall(AttrName, lambda k: implies(k in vs_metadata(vs), endswith_hooks(k) and vs_metadata(vs)[k] == ()))"],
  invariants={0: ["forall(Int, lambda i: implies(0 <= i and i < _k, endswith_hooks(_at(i)[0]) and _at(i)[1] == ()))"]},
  props=('C18',))

NNXB = {
  'NNXMeta': Handler('NNXMeta', lambda ex, a, kw: SV(XVar, XVar.mk('XNNX', ex.coerce(a[0], VType).t, ex.coerce(a[1], AVal).t, ex.coerce(a[2], AttrMap).t)), 'NNXMeta(var_type, value, metadata): a record'),
  'is_vanilla_variable': is_vanilla,
}
MD = 'vs_metadata(vs)'
WITH_VALUE = f"map_set({MD}, 'value', vs.value)"

to_linen_var = function(
  F + '::to_linen_var', params=[('vs', VS)], returns=XVar,
  requires=[f"not ('value' in {MD})"],
  ensures=[
    # a variable that came from a Linen box goes back through that box class, with its value and ALL its metadata
    f"implies('linen_meta_type' in {MD} and cls_has_from_nnx_metadata({MD}['linen_meta_type']), is_(result, 'XBox') and result.obj == cls_from_nnx_metadata({MD}['linen_meta_type'], ghost('from_md')) and ghost('from_md') == {WITH_VALUE})",
    f"implies('linen_meta_type' in {MD} and not cls_has_from_nnx_metadata({MD}['linen_meta_type']), is_(result, 'XBox') and result.obj == cls_construct({MD}['linen_meta_type'], vs.value, {MD}))",
    # blank metadata: the raw value; anything else is kept in an NNXMeta box: type, value and metadata unchanged
    f"implies(not ('linen_meta_type' in {MD}) and forall(AttrName, lambda k: implies(k in {MD}, endswith_hooks(k) and {MD}[k] == ())), is_(result, 'XRaw') and result.v == vs.value)",
    f"implies(not ('linen_meta_type' in {MD}) and not forall(AttrName, lambda k: implies(k in {MD}, endswith_hooks(k) and {MD}[k] == ())), "
    f"is_(result, 'XNNX') and result.var_type == vs.type and result.value == vs.value and result.metadata == {MD})",
  ],
  bindings=NNXB, props=('C18',))
to_linen_var.dict_hint = AttrMap

# ---- NNX-side variable under construction ----------------------------------------------------------------
NVar = Union('NNXVariable', [Ctor('NVar', [('type', VType), ('kwargs', AttrMap)], pytypes=('Variable',))])


def _call_vtype(ex, f, a, kw):
  """vtype(value?, **kwargs): the Variable built from exactly these keyword arguments"""
  m = ex.coerce(kw['**'], AttrMap) if '**' in kw else ex.empty_map(AttrMap)
  if a:
    m = ex.map_set(m, ex.coerce(Lit('value'), Attr), ex.coerce(a[0], AVal))
  for k, v in kw.items():
    if k != '**':
      m = ex.map_set(m, ex.coerce(Lit(k), Attr), ex.coerce(v, AVal))
  return SV(NVar, NVar.mk('NVar', f.t, m.t))


VType.call_hook = _call_vtype
XNNXRec = XVar      # NNXMeta.to_nnx_variable is specified on the record view of the union

to_nnx_variable = function(
  F + '::NNXMeta.to_nnx_variable', params=[('self', XVar)], returns=NVar,
  requires=["is_(self, 'XNNX')", "not ('value' in self.metadata)"],
  ensures=["result.type == self.var_type", "result.kwargs == map_set(self.metadata, 'value', self.value)"],
  props=('C18',))

box_to_nnx = UFn('box_to_nnx_metadata', [Boxed], AttrMap, 'x.to_nnx_metadata() of an arbitrary box class (Partitioned / LogicallyPartitioned: specs/bridge.py)')
box_has_to = UFn('box_has_to_nnx_metadata', [Boxed], BOOL, "hasattr(x, 'to_nnx_metadata')")
box_class = UFn('box_class', [Boxed], AVal, 'type(x)')


def _box_hasattr(ex, v, name):
  if name == 'to_nnx_metadata':
    return ex.call_value(box_has_to, [v], {})
  if name == 'value':
    return SV(BOOL, AttrMap.has(ex.deref(ex.getattr_(v, '__dict__')).t, Attr.literal('value')))
  raise OutsideSubset('hasattr ' + name)


Boxed.hasattr_hook = _box_hasattr
Boxed.type_hook = lambda ex, v: ex.call_value(box_class, [v], {})

XMETA = "ite(box_has_to_nnx_metadata(x.obj), box_to_nnx_metadata(x.obj), x.obj.__dict__)"
to_nnx_var = function(
  F + '::to_nnx_var', params=[('col', CName), ('x', XVar)], returns=NVar, free=[('VariableTypeCache', Registry)],
  assigns=('VariableTypeCache',),
  requires=[INJ, "col in VariableTypeCache",   # registered collections (an unregistered name gets a brand-new type: variable_type_from_name)
            "implies(is_(x, 'XNNX'), not ('value' in x.metadata))",
            "implies(is_(x, 'XBox'), 'value' in x.obj.__dict__ and not ('linen_meta_type' in x.obj.__dict__) and not ('linen_meta_type' in box_to_nnx_metadata(x.obj)))"],
  # an NNXMeta box stored under the collection of another type is refused
  raises={'AssertionError': "is_(x, 'XNNX') and VariableTypeCache[col] != x.var_type"},
  ensures=[
    "col in VariableTypeCache",
    # the Variable type is the one registered for the collection name
    "result.type == VariableTypeCache[col]",
    "implies(col in old(VariableTypeCache), VariableTypeCache[col] == old(VariableTypeCache)[col])",
    "implies(is_(x, 'XRaw'), forall(AttrName, lambda k: (k in result.kwargs) == (k == 'value')) and result.kwargs['value'] == x.v)",
    "implies(is_(x, 'XNNX'), result.kwargs == map_set(x.metadata, 'value', x.value))",
    # a Linen box: every metadata entry it reports, plus the box class so that it can be rebuilt
    f"implies(is_(x, 'XBox'), result.kwargs == map_set({XMETA}, 'linen_meta_type', box_class(x.obj)))",
  ],
  bindings={'variablelib.variable_type_from_name': type_from_name, 'NNXMeta': TypeTag('NNXMeta'), 'meta.AxisMetadata': TypeTag('meta.AxisMetadata'),
            'Partitioned.to_nnx_metadata': box_to_nnx},
  modifies=[], props=('C18',))
XVar.attr_hooks = {'to_nnx_variable': lambda ex, v: Handler('NNXMeta.to_nnx_variable', lambda ex2, a, kw, v=v: ex2.call_value(to_nnx_variable, [v], {}), 'bound method: callee contract')}

# ---- round trip through an NNXMeta box -----------------------------------------------------------------------
lemma(
  'nnxmeta_roundtrip', params=[('vs', VS), ('col', CName)], returns=NVar, free=[('VariableTypeCache', Registry)], assigns=('VariableTypeCache',),
  requires=[INJ, f"not ('value' in {MD})", f"not ('linen_meta_type' in {MD})",
            f"not forall(AttrName, lambda k: implies(k in {MD}, endswith_hooks(k) and {MD}[k] == ()))",
            "col in VariableTypeCache and VariableTypeCache[col] == vs.type"],
  # NNX -> Linen -> NNX: same Variable type, same value, same metadata
  ensures=["result.type == vs.type", f"result.kwargs == {WITH_VALUE}"],
  body='''
x = to_linen_var(vs)
return to_nnx_var(col, x)
''', bindings={'to_linen_var': to_linen_var, 'to_nnx_var': to_nnx_var}, props=('C18',))

# ---- sort_variable_types: subclasses before their bases (first-match split must file a subclass under its own type) ----
VTypes = SeqOf(VType)
parents_count = UFn('variable_parents_count', [VType], INT, 'number of Variable classes in t.mro(): a strict subclass has a larger count than its base')
_pc_spec = function(
  '<callee>::sort_variable_types._variable_parents_count', params=[('t', VType)], returns=INT,
  ensures=['result == variable_parents_count(t)'], trusted=True,
  notes='t.mro() / issubclass counting is summarised by an uninterpreted function (Python class machinery)')
sort_types = function(
  F + '::sort_variable_types', params=[('types', VTypes)], returns=VTypes,
  ensures=[
    'len(result) == len(types)',
    'forall(Int, lambda i: implies(0 <= i and i < len(types), types[i] in result))',
    # more derived types come first: a subclass can never follow one of its bases
    'forall(Int, Int, lambda i, j: implies(0 <= i and i < j and j < len(result), variable_parents_count(result[i]) >= variable_parents_count(result[j])))',
  ],
  nested={'_variable_parents_count': _pc_spec},
  props=('C18',))
sort_types.dict_hint = MapOf(VType, INT)

# ---- NNXMeta.get_partition_spec: the spec is the one the NNX tooling derives for the re-created Variable ----------------
# (so logical names are resolved by the variable's own sharding_rules and by the global rules, exactly as on the NNX side)
VStateT = opaque('VariableStateView', is_str=False)
PSpecT = opaque('PartitionSpecValue', is_str=False)
var_to_state = UFn('variable_to_state', [NVar], VStateT, 'Variable.to_state()')
nnx_gps = UFn('nnx_get_partition_spec', [VStateT], VStateT, 'flax.nnx.spmd.get_partition_spec(state) (contract: specs/nnx_spmd.py)')
VStateT.attrs['value'] = (PSpecT, None)
def _record_var(ex, v):
  ex.ghost['var'] = ex.deref(v)
  return v


nnxmeta_gps = function(
  F + '::NNXMeta.get_partition_spec', params=[('self', XVar)], returns=PSpecT,
  requires=["is_(self, 'XNNX')", "not ('value' in self.metadata)"],
  # ghost('var') is the Variable whose state is taken - the one re-created by to_nnx_variable (its contract above): exactly this box's type, value and metadata
  ensures=["ghost('var').type == self.var_type and ghost('var').kwargs == map_set(self.metadata, 'value', self.value)",
           "result == nnx_get_partition_spec(variable_to_state(ghost('var'))).value"],
  bindings={'NNXMeta.to_nnx_variable': to_nnx_variable,
            'Variable.to_state': Handler('Variable.to_state', lambda ex, a, kw: ex.call_value(var_to_state, [_record_var(ex, a[0])], {}), 'Variable.to_state(); the receiver is recorded as ghost(var)'),
            'spmd.get_partition_spec': nnx_gps},
  props=('C18',))

# ---- nnx_attrs_to_linen_vars: every attribute leaf lands under (collection of its type, *its own path), nothing else -----
from pyvc.values import StarOf as _StarOf, PyTuple as _PyTuple
AttrsTree = opaque('NNXAttrsTree', is_str=False)
KPath = opaque('AttrKeyPath', is_str=False)
KPath.star_opaque = True
LPath = opaque('LinenKeyPath', is_str=False)
ColN = opaque('CollectionName', universe=['params', 'batch_stats', 'nnx'])
TypeO = opaque('VariableClass', is_str=False)
ALeaf = opaque('AttrLeaf', is_str=False)
LVal = opaque('LinenLeafValue', is_str=False)
VSt = opaque('VariableStateObj', is_str=False)
path_cons = UFn('path_cons', [ColN, KPath], LPath, '(col_name, *kp)')
flat_attrs = UFn('flatten_mapping', [AttrsTree], MapOf(KPath, ALeaf), 'traversals.flatten_mapping(nnx_attrs) (C16)')
unflat = UFn('unflatten_mapping', [MapOf(LPath, LVal)], LVal, 'traversals.unflatten_mapping(flat) (C16)')
is_var_l = UFn('leaf_is_variable', [ALeaf], BOOL, 'isinstance(v, Variable)')
is_vs_l = UFn('leaf_is_variable_state', [ALeaf], BOOL, 'isinstance(v, VariableState)')
is_nodedef = UFn('leaf_is_NodeDef', [ALeaf], BOOL, 'isinstance(v, graph.NodeDef)')
is_noderef = UFn('leaf_is_NodeRef', [ALeaf], BOOL, 'isinstance(v, graph.NodeRef)')
leaf_type = UFn('leaf_type', [ALeaf], TypeO, 'type(v) of a Variable / v.type of a VariableState')
leaf_state = UFn('leaf_state', [ALeaf], VSt, 'v.to_state() of a Variable / v itself for a VariableState')
name_of_type = UFn('variable_name_from_type', [TypeO], ColN, 'variablelib.variable_name_from_type (contract: specs/bridge.py)')
linen_of = UFn('to_linen_var', [VSt], LVal, 'to_linen_var(state) (contract above)')
leaf_as_val = UFn('graphdef_as_value', [ALeaf], LVal, 'a NodeDef / NodeRef stored as it is')


def _aleaf_isinstance(ex, v, names):
  if names <= {'variablelib.Variable', 'Variable'}:
    return ex.call_value(is_var_l, [v], {}).t
  if names <= {'variablelib.VariableState', 'VariableState'}:
    return ex.call_value(is_vs_l, [v], {}).t
  if names <= {'graph.NodeDef', 'graph.NodeRef', 'NodeDef', 'NodeRef'}:
    hits = []
    if names & {'graph.NodeDef', 'NodeDef'}:
      hits.append(ex.call_value(is_nodedef, [v], {}).t)
    if names & {'graph.NodeRef', 'NodeRef'}:
      hits.append(ex.call_value(is_noderef, [v], {}).t)
    return z3.Or(*hits)
  raise OutsideSubset('isinstance ' + repr(names))


ALeaf.isinstance_hook = _aleaf_isinstance
ALeaf.type_hook = lambda ex, v: ex.call_value(leaf_type, [v], {})
ALeaf.attrs['type'] = (TypeO, None)
ALeaf.methods = {'to_state': lambda ex, v, a, kw: ex.call_value(leaf_state, [v], {})}
LVal.coerce_from = {ALeaf.name: lambda ex, v: ex.call_value(leaf_as_val, [v], {})}
VSt.coerce_from = {ALeaf.name: lambda ex, v: ex.call_value(leaf_state, [v], {})}


def _lpath_from_tuple(ex, t):
  items = list(t)
  if len(items) == 2 and isinstance(items[1], _StarOf):
    return ex.call_value(path_cons, [ex.coerce(items[0], ColN), items[1].v], {})
  raise OutsideSubset('linen key path must be written (col_name, *kp)')


LPath.from_tuple = _lpath_from_tuple
IS_DEF = '(leaf_is_NodeDef(flatten_mapping(nnx_attrs)[kp]) or leaf_is_NodeRef(flatten_mapping(nnx_attrs)[kp]))'
LEAF_ = 'flatten_mapping(nnx_attrs)[kp]'
COL = (f"(variable_name_from_type(leaf_type({LEAF_})) if leaf_is_variable({LEAF_}) else "
       f"(variable_name_from_type({LEAF_}.type) if leaf_is_variable_state({LEAF_}) else 'nnx'))")
VALUE = (f"(to_linen_var(leaf_state({LEAF_})) if (leaf_is_variable({LEAF_}) or leaf_is_variable_state({LEAF_})) else graphdef_as_value({LEAF_}))")
KNOWN = f"(leaf_is_variable({LEAF_}) or leaf_is_variable_state({LEAF_}) or {IS_DEF})"
attrs_to_linen = function(
  F + '::nnx_attrs_to_linen_vars', params=[('nnx_attrs', AttrsTree)], returns=LVal,
  raises={'ValueError': f"exists(AttrKeyPath, lambda kp: kp in flatten_mapping(nnx_attrs) and not {KNOWN})"},
  ensures=[
    # the result is the unflattening of a map that holds, for every attribute leaf at path kp, its linen form under
    # (collection named after the leaf's Variable type - 'nnx' for graph definitions -, *kp) ...
    f"forall(AttrKeyPath, lambda kp: implies(kp in flatten_mapping(nnx_attrs), path_cons({COL}, kp) in ghost('structured') and ghost('structured')[path_cons({COL}, kp)] == {VALUE}))",
    # ... and nothing else
    f"forall(LinenKeyPath, lambda p: implies(p in ghost('structured'), exists(AttrKeyPath, lambda kp: kp in flatten_mapping(nnx_attrs) and p == path_cons({COL}, kp))))",
    "result == unflatten_mapping(ghost('structured'))",
  ],
  invariants={0: [
    "forall(Int, lambda i: implies(0 <= i and i < _k, _at(i)[0] in flatten_mapping(nnx_attrs) and %s and path_cons(%s, _at(i)[0]) in linen_structured and linen_structured[path_cons(%s, _at(i)[0])] == %s))" % tuple(x.replace('kp', '_at(i)[0]') for x in (KNOWN, COL, COL, VALUE)),
    "forall(LinenKeyPath, lambda p: implies(p in linen_structured, exists(Int, lambda i: 0 <= i and i < _k and p == path_cons(%s, _at(i)[0]))))" % COL.replace('kp', '_at(i)[0]'),
  ]},
  bindings={
    'traversals.flatten_mapping': flat_attrs,
    'traversals.unflatten_mapping': Handler('traversals.unflatten_mapping', lambda ex, a, kw: _unflat(ex, a), 'uninterpreted (C16); its argument is recorded as ghost(structured)'),
    'variablelib.variable_name_from_type': name_of_type, 'to_linen_var': linen_of,
    'variablelib.Variable': TypeTag('variablelib.Variable'), 'variablelib.VariableState': TypeTag('variablelib.VariableState'),
    'graph.NodeDef': TypeTag('graph.NodeDef'), 'graph.NodeRef': TypeTag('graph.NodeRef'),
  },
  props=('C18',))
attrs_to_linen.locals = {'linen_structured': MapOf(LPath, LVal)}
attrs_to_linen.dict_hint = MapOf(LPath, LVal)
# (col_name, *kp) is injective in both components
attrs_to_linen.assume_axioms = ["forall(CollectionName, CollectionName, AttrKeyPath, AttrKeyPath, lambda c1, c2, k1, k2: implies(path_cons(c1, k1) == path_cons(c2, k2), c1 == c2 and k1 == k2))"]


def _unflat(ex, a):
  m = ex.coerce(a[0], MapOf(LPath, LVal))
  ex.ghost['structured'] = m
  return ex.call_value(unflat, [m], {})
