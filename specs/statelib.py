"""Sidecar contracts: flax/nnx/statelib.py State set operations (properties C16, C14-NNX, C03).

A State is viewed through its flat form: a finite map path -> leaf (traversals.flatten_mapping /
to_flat_state / from_flat_state are the conversions, assumed mutually inverse here; their own
inverse laws are checked by the bounded stand-in bounded/c16_traverse.py)."""
import z3
from pyvc.vc import *  # noqa
from pyvc.native import NativeHarness as NH
from pyvc.sorts import fresh_name, qforall

F = 'flax/nnx/statelib.py'

Path = opaque('StatePath', is_str=False, universe=[('a',), ('b',), ('c', 'd')])
Leaf = opaque('StateLeaf', is_str=False, universe=[5, 1, 3])
StateMap = MapOf(Path, Leaf)
Paths = SeqOf(Path)
Leaves = SeqOf(Leaf)


def _abs_state(py):
  from flax.nnx import traversals
  return dict(traversals.flatten_mapping(py))


def _conc_state(sp):
  from flax.nnx import statelib, traversals
  return statelib.State(traversals.unflatten_mapping(dict(sp)))


StateMap.abstract = _abs_state
StateMap.concretise = _conc_state

# FlatState: the real class has exactly these attributes (closed model: anything else is an AttributeError)
FlatState = Union('FlatState', [Ctor('FlatState', [('_keys', Paths), ('_values', Leaves)], pytypes=('FlatState', 'Sequence'))])
FlatState.closed = True
FlatState.attr_hooks = {
  'paths': lambda ex, v: SV(Paths, FlatState.acc('FlatState', '_keys', v.t)),
  'leaves': lambda ex, v: SV(Leaves, FlatState.acc('FlatState', '_values', v.t)),
}


def _flat_iter(ex, v):
  ks, vs = FlatState.acc('FlatState', '_keys', v.t), FlatState.acc('FlatState', '_values', v.t)
  return IterView(Paths.len(ks), lambda k: PyTuple((SV(Path, Paths.get(ks, k)), SV(Leaf, Leaves.get(vs, k)))), None)


FlatState.iter_hook = _flat_iter


def _to_flat_state(ex, a, kw):
  """to_flat_state(state): the FlatState listing every path of the state once with its leaf"""
  m = ex.coerce(a[0], StateMap)
  fs = FlatState.const('flat')
  ks, vs = FlatState.acc('FlatState', '_keys', fs), FlatState.acc('FlatState', '_values', fs)
  i, j = z3.Int(fresh_name('i')), z3.Int(fresh_name('j'))
  p = z3.Const(fresh_name('p'), Path.z3())
  pos = z3.Function(fresh_name('pos'), Path.z3(), z3.IntSort())
  n = Paths.len(ks)
  inr = lambda e: z3.And(e >= 0, e < n)
  ex.assume(n >= 0)
  ex.assume(Leaves.len(vs) == n)
  ex.assume(qforall([i], z3.Implies(inr(i), z3.And(StateMap.has(m.t, Paths.get(ks, i)), Leaves.get(vs, i) == StateMap.get(m.t, Paths.get(ks, i)),
                                                    pos(Paths.get(ks, i)) == i)), patterns=[Paths.get(ks, i)]))
  ex.assume(qforall([p], z3.Implies(StateMap.has(m.t, p), z3.And(inr(pos(p)), Paths.get(ks, pos(p)) == p)), patterns=[StateMap.has(m.t, p)]))
  return SV(FlatState, fs)


B = {
  'to_flat_state': Handler('to_flat_state', _to_flat_state, 'flat view of a State: each path once, with its leaf'),
  'from_flat_state': Handler('from_flat_state', lambda ex, a, kw: ex.coerce(a[0], StateMap), 'State from a path->leaf mapping (inverse of the flat view)'),
  'traversals.flatten_mapping': Handler('traversals.flatten_mapping', lambda ex, a, kw: ex.coerce(a[0], StateMap), 'flat view of a State'),
  'State': TypeTag('State'),
}

diff = function(
  F + '::diff', params=[('state', StateMap), ('other', StateMap)], returns=StateMap,
  ensures=[
    # a - b keeps exactly the paths of a that are absent from b, with a's leaves
    'forall(StatePath, lambda p: (p in result) == (p in state and not (p in other)))',
    'forall(StatePath, lambda p: implies(p in result, result[p] == state[p]))',
  ],
  bindings=B, props=('C16',), native=NH('flax.nnx.statelib', 'diff'))
diff.locals = {'diff': StateMap, 'other_paths': SetOf(Path)}

States = SeqOf(StateMap)
merge_state = function(
  F + '::merge_state', params=[('state', StateMap), ('states', States), ('cls', NONE)], returns=StateMap,
  ensures=[
    # union of the paths; on overlapping paths the LATER state wins
    'forall(StatePath, lambda p: (p in result) == (p in state or exists(Int, lambda i: 0 <= i and i < len(states) and p in states[i])))',
    'forall(StatePath, lambda p: implies(p in result and not exists(Int, lambda i: 0 <= i and i < len(states) and p in states[i]), result[p] == state[p]))',
    'forall(StatePath, Int, lambda p, i: implies(0 <= i and i < len(states) and p in states[i] and '
    'forall(Int, lambda j: implies(i < j and j < len(states), not (p in states[j]))), result[p] == states[i][p]))',
  ],
  invariants={0: [
    # `states` has been rebound to (state, *states): ALL[k]
    'forall(StatePath, lambda p: (p in new_state) == exists(Int, lambda i: 0 <= i and i < _k and p in _at(i)))',
    'forall(StatePath, Int, lambda p, i: implies(0 <= i and i < _k and p in _at(i) and forall(Int, lambda j: implies(i < j and j < _k, not (p in _at(j)))), new_state[p] == _at(i)[p]))',
  ]},
  bindings=dict(B, cls=Handler('cls', lambda ex, a, kw: ex.coerce(a[0], StateMap), 'State(mapping)'), isinstance=Handler('isinstance', lambda ex, a, kw: True, 'isinstance(state, cls)')),
  props=('C16',), native=NH('flax.nnx.statelib', 'merge_state', call=lambda fn, c: fn(c['state'], *c['states']),
                            extra=[dict(state={('a',): 5}, states=({('a',): 1},), cls=None), dict(state={('a',): 1, ('b',): 3}, states=({('b',): 1}, {('a',): 5, ('b',): 5}), cls=None)]))
merge_state.vararg = 'states'
merge_state.locals = {'new_state': StateMap}
States.concretise = lambda sp: tuple(_conc_state(x) for x in sp)
