#!/usr/bin/env python3
"""Applies every seeded change under /verif/seeded/*/patch.diff to /repo (one at a time, always
reverted), runs the property's quick check and records what the check reported in meta.json.
Run from /verif with a clean /repo working tree."""
import json, os, subprocess, sys, glob, re, shutil
ROOT = os.path.dirname(os.path.abspath(__file__))
only = sys.argv[1:] 
rows = []
for d in sorted(glob.glob(os.path.join(ROOT, 'seeded', '*'))):
  meta_p = os.path.join(d, 'meta.json')
  meta = json.load(open(meta_p))
  pid = meta['property']
  if meta.get('superseded'):
    continue      # the defect the change relied on was repaired by a fix: commit (see meta.json); kept for the record only
  if only and os.path.basename(d) not in only and pid not in only:
    continue
  ev = os.path.join(ROOT, 'evidence', pid + '.json')
  keep = open(ev).read() if os.path.exists(ev) else None
  r = subprocess.run(['git', '-C', '/repo', 'apply', os.path.join(d, 'patch.diff')], capture_output=True, text=True)
  if r.returncode != 0:
    meta['check_result'] = dict(applies=False, error=r.stderr[-300:])
  else:
    try:
      p = subprocess.run(['./check', pid, '--tier', 'quick'], cwd=ROOT, capture_output=True, text=True, timeout=1800)
      out = p.stdout
      viol = re.findall(r'failed obligation: (.*)', out)
      lines = [l for l in out.splitlines() if l.startswith('VIOLATION') or l.startswith('UNDECIDED')]
      meta['check_result'] = dict(applies=True, exit_code=p.returncode, detected=p.returncode == 1,
                                  failed_obligations=viol[:4], lines=[l[:200] for l in lines[:4]],
                                  with_failing_input=any('no-failing-input-found' not in l for l in lines if l.startswith('VIOLATION')))
    finally:
      subprocess.run(['git', '-C', '/repo', 'checkout', '--', '.'])
  if keep is not None:
    open(ev, 'w').write(keep)
  json.dump(meta, open(meta_p, 'w'), indent=1)
  cr = meta['check_result']
  rows.append((os.path.basename(d), pid, cr.get('exit_code'), cr.get('failed_obligations', [''])[:1]))
  print(rows[-1], flush=True)
