#!/bin/sh
# usage: tools_mut.sh <patch.diff> <prop> [tier]   -- apply a seeded change to /repo, run the check, always undo
P="$1"; ID="$2"; TIER="${3:-quick}"
cd /verif
git -C /repo apply "$P" || { echo "patch does not apply"; exit 9; }
./check "$ID" --tier "$TIER"; RC=$?
git -C /repo checkout -- .
echo "rc=$RC"
exit $RC
