#!/bin/sh
# usage: tools_mut.sh <patch.diff> <prop> [tier]   -- apply a seeded change to /repo, run the check, always undo
# (the evidence file of the unchanged tree is kept: evidence written while a seeded change is applied is discarded)
P="$1"; ID="$2"; TIER="${3:-quick}"
cd /verif
cp evidence/$ID.json /var/tmp/evidence_$ID.keep 2>/dev/null
git -C /repo apply "$P" || { echo "patch does not apply"; exit 9; }
./check "$ID" --tier "$TIER"; RC=$?
git -C /repo checkout -- .
cp /var/tmp/evidence_$ID.keep evidence/$ID.json 2>/dev/null
echo "rc=$RC"
exit $RC
