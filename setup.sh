#!/bin/sh
# Builds the overlay interpreter offline: python 3.12 venv + z3-solver etc. from the wheelhouse,
# with /venv's site-packages (jax, numpy, flax editable -> /repo) appended via a .pth file.
set -e
cd "$(dirname "$0")"
if [ ! -x .venv/bin/python ] || ! .venv/bin/python -c "import z3, jsonschema" 2>/dev/null; then
  rm -rf .venv
  /venv/bin/python -m venv .venv
  echo "import site; site.addsitedir('/venv/lib/python3.12/site-packages')" > .venv/lib/python3.12/site-packages/_repo_venv.pth
  PIP_NO_INDEX=1 .venv/bin/pip install -q --no-index --find-links /opt/veriftools/wheels z3-solver jsonschema deal icontract crosshair-tool
fi
.venv/bin/python -c "import z3, jsonschema; print('pyvc venv ok, z3', z3.get_version_string())"
