#!/verif/.venv/bin/python
"""Regenerates the 'as built' tables of DESIGN.md (between the AS-BUILT markers) from the
evidence files of the last run on the unchanged tree, MANIFEST.json, KNOWN_FINDINGS.json and
seeded/*/meta.json. Nothing here decides anything; it only reports."""
import glob, json, os, re

ROOT = os.path.dirname(os.path.abspath(__file__))
man = json.load(open(f'{ROOT}/MANIFEST.json'))
known = json.load(open(f'{ROOT}/KNOWN_FINDINGS.json'))['findings']
out = []
out.append('### A.1 What each check covers (generated from /verif/evidence/*.json)\n')
out.append('| id | obligations discharged | functions under contract (real source, re-read every run) | bounded stand-ins (never counted as proved) | not decided by the check |')
out.append('|----|----|----|----|----|')
tot_f = tot_o = 0
for f in sorted(glob.glob(f'{ROOT}/evidence/C*.json')):
  d = json.load(open(f)); c = d['coverage']
  fns = [x['function'].split('::', 1)[1] + ('' if not x.get('trusted') else ' (trusted)') for x in c['functions_under_contract']]
  files = sorted({x['function'].split('::', 1)[0] for x in c['functions_under_contract']})
  tot_f += len(fns); tot_o += c['obligations']
  bnd = [f"{b['name'].replace('bounded:', '')} [{b.get('cases')} cases]" for b in c.get('bounded', []) if not b['name'].startswith('native contract evaluation')]
  nat = [b for b in c.get('bounded', []) if b['name'].startswith('native contract evaluation')]
  if nat:
    bnd.append(f"native evaluation of the same contract text on enumerated small inputs for {len(nat)} functions [{sum(b.get('cases') or 0 for b in nat)} cases]")
  out.append(f"| {d['property_id']} | {c['discharged']}/{c['obligations']} ({', '.join(f'{k}: {v}' for k, v in sorted(c['by_solver'].items()))}; {c['solver_time_s']} s solver) | "
             f"{'; '.join(files)}: " + ', '.join(f'`{x}`' for x in fns) + f" | {'; '.join(bnd) or '–'} | {'; '.join(c.get('not_decided', [])) or '–'} |")
for na in man.get('not_applicable', []):
  out.append(f"| {na['property_id']} | not applicable | – | – | {na['reason'][:300]} |")
out.append(f'\nTotals: {tot_f} functions (or lemmas / structural checks) under contract, {tot_o} obligations, all discharged on the unchanged tree.\n')
out.append('### A.2 Genuine defects found on the pinned tree\n')
out.append('| property | status | what failed | where |')
out.append('|----|----|----|----|')
for k in known:
  out.append(f"| {k['property']} | {k['status']}{' ' + k['commit'] if k.get('commit') else ''} | {k['what']} | `{k['function']}` / `{k['violated']}` |")
out.append('\n### A.3 Seeded property-breaking changes and what the checks report (generated from /verif/seeded/*/meta.json)\n')
out.append('Each change compiles, passes the pinned 427-test suite, was written by a sub-agent that saw only the property text, and was confirmed in a scratch worktree (demo passes on the pristine tree, fails with the patch).\n')
out.append('| change | what it breaks | reported by (first failed obligation) | kind of evidence |')
out.append('|----|----|----|----|')
n = hit = 0
for m in sorted(glob.glob(f'{ROOT}/seeded/*/meta.json')):
  d = json.load(open(m)); cr = d.get('check_result', {})
  if d.get('superseded'):
    brk = re.sub(r'^#\s*', '', d.get('breaks', '')).replace('|', '/')[:160]
    out.append(f"| {d['id']} | {brk} | – | superseded by a fix: commit (see meta.json) |")
    continue
  n += 1; hit += bool(cr.get('detected'))
  ob = (cr.get('failed_obligations') or ['– (missed)'])[0]
  kind = 'bounded stand-in, failing input' if ob.startswith('bounded:') else ('deductive obligation + failing input replayed on the real code' if cr.get('with_failing_input') else 'deductive obligation (no-failing-input-found)')
  if not cr.get('detected'):
    kind = 'MISSED'
  br = re.sub(r'^#\s*', '', d.get('breaks', '')).replace('|', '/')[:160]
  out.append(f"| {d['id']} | {br} | `{ob}` | {kind} |")
out.append(f'\n{hit} of {n} seeded changes are reported (exit 1 with a VIOLATION line); every check exits 0 on the unchanged tree.\n')
out.append('### A.3b Behaviour-preserving refactorings and what the checks report (generated from /verif/refactorings/*/meta.json)\n')
out.append('Each refactoring passes its own demo on the pristine and the patched tree and the pinned 427-test suite. A VIOLATION here would be a false alarm; "undecided" (exit 2) means the rewritten code left the verified subset or needs a new annotation.\n')
out.append('| refactoring | what it changes | verdict of the property\'s check |')
out.append('|----|----|----|')
cnt = {}
for m in sorted(glob.glob(f'{ROOT}/refactorings/*/meta.json')):
  d = json.load(open(m)); cr = d.get('check_result', {})
  v = cr.get('verdict', 'not run' if cr.get('applies', True) else 'patch does not apply')
  cnt[v] = cnt.get(v, 0) + 1
  what = re.sub(r'^#\s*', '', d.get('what', '')).replace('|', '/')[:150]
  why = (cr.get('lines') or [''])[0].split(': outside subset: ')[-1][:110] if v == 'undecided' else ''
  out.append(f"| {d['id']} | {what} | {v}{' - ' + why if why else ''} |")
out.append('\nTotals: ' + ', '.join(f'{k}: {v}' for k, v in sorted(cnt.items())) + '.\n')
txt = open(f'{ROOT}/DESIGN.md').read()
a, b = '<!-- AS-BUILT:BEGIN -->', '<!-- AS-BUILT:END -->'
i, j = txt.index(a) + len(a), txt.index(b)
open(f'{ROOT}/DESIGN.md', 'w').write(txt[:i] + '\n' + '\n'.join(out) + '\n' + txt[j:])
print('DESIGN.md tables regenerated:', tot_f, 'functions', tot_o, 'obligations', hit, '/', n, 'seeded')
