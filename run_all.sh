#!/bin/sh
# runs every claimed check on the current /repo tree and validates the evidence files
cd /verif
TIER="${1:-quick}"
FAIL=0
for ID in $(.venv/bin/python -c "import json; print(' '.join(c['property_id'] for c in json.load(open('MANIFEST.json'))['checks']))"); do
  ./check $ID --tier $TIER 2>&1 | grep -v "WARNING\|I0000\|E0000\|W0000\|TF_ENABLE\|cpu_feature\|rebuild\|computation_placer" | tail -3
  RC=$?
done
.venv/bin/python - <<'PY'
import json, jsonschema, sys
sch = json.load(open('/root/.vp/EVIDENCE.schema.json'))
bad = 0
for c in json.load(open('MANIFEST.json'))['checks']:
  e = json.load(open(c['evidence_file']))
  jsonschema.validate(e, sch)
  cov = e['coverage']
  ok = cov['obligations'] == cov['discharged'] and e.get('violations', 0) == 0
  print(c['property_id'], 'obligations', cov['obligations'], 'discharged', cov['discharged'], 'OK' if ok else 'NOT CLEAN')
  bad += not ok
sys.exit(1 if bad else 0)
PY
